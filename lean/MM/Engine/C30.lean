import MM.Engine.Basic
import MM.Model.C30

/-
  Engine c30 (op language: harness/main/eng_c30.go).

    reset <n>                      -> ok                       (fresh manager, n poll threads)
    sleep | wake | begin i | invoke i | ret i | end i
                                   -> <res> st=<STATE> file=<STATE|NONE> ev=<events|->
-/
namespace MM.Engine.C30
open MM MM.C30

def showSt : St → String
  | .awake => "AWAKE"
  | .sleeping => "SLEEPING"
  | .polling => "POLLING"

def showRes : Res → String
  | .ok => "ok"
  | .errAlreadySleeping => "err-already-sleeping"
  | .errNotSleeping => "err-not-sleeping"
  | .skipped => "skipped"
  | .disabled => "disabled"

def showEv : Event → String
  | .onSleep => "OnSleep"
  | .onWake => "OnWake"
  | .onPoll i _ => s!"OnPoll:{i}"
  | .onPollEnd i _ => s!"OnPollEnd:{i}"

def parseLabel : List String → Option Label
  | ["sleep"] => some .sleep
  | ["wake"] => some .wake
  | ["begin", i] => i.toNat?.map .pollBegin
  | ["invoke", i] => i.toNat?.map .pollInvoke
  | ["ret", i] => i.toNat?.map .pollReturn
  | ["end", i] => i.toNat?.map .pollEnd
  | ["restart"] => some (.restart false)
  | ["restart-stop"] => some (.restart true)
  | _ => none

def showDRes : DRes → String
  | .ok => "ok"
  | .refused => "refused"
  | .returned => "returned"
  | .parked => "parked"
  | .waiting => "waiting"
  | .disconnected => "disconnected"
  | .disabled => "disabled"

/-- Agent-level ops (real Agent.doPoll): reset-agent [wait] | asleep | awake | dpstart | dprelease | wakecmd -> <res> st=<STATE> [dp=..] -/
def dstepLine (d : DS) (line : String) : Option (DS × String) :=
  let go (l : DLabel) : Option (DS × String) :=
    let (d', res, _) := dstep d l
    some (d', s!"{showDRes res} st={showSt d'.st}")
  match tokens line with
  | ["reset-agent"] => some (DS.init, "ok")
  | ["reset-agent", "wait"] => some (DS.init true, "ok")
  | ["wakecmd"] =>
    let (d', res, _) := dstep d .wakeCmd
    some (d', s!"{showDRes res} st={showSt d'.st} dp={if d.waiting then "returned" else "none"}")
  | ["asleep"] => go .sleep
  | ["awake"] => go .wake
  | ["dpstart"] => go .dpStart
  | ["dprelease"] => go .dpRelease
  | _ => none

def stepLine (s : S) (line : String) : S × String :=
  match tokens line with
  | ["reset", n] => (S.init (n.toNat?.getD 1), "ok")
  | ["stress", _, _, _] => (s, "stress-ok")   -- concurrency stress: the invariants hold for every schedule (C30_edges, C30_persist_quiescent)
  | toks =>
    match parseLabel toks with
    | none => (s, "bad-op")
    | some l =>
      let (s', res, evs) := step s l
      let ev := if evs.isEmpty then "-" else ",".intercalate (evs.map showEv)
      let file := match s'.file with | none => "NONE" | some f => showSt f
      (s', s!"{showRes res} st={showSt s'.st} file={file} ev={ev}")

/-! `spec`: the property on the implementation's own answers, per case. -/

structure Th where
  pc : Nat        -- 0 idle, 1 afterP1, 2 inCb, 3 waiting
  epoch : Nat

structure SpecSt where
  st : String
  wakes : Nat
  th : List Th

def SpecSt.init (n : Nat) : SpecSt := { st := "AWAKE", wakes := 0, th := List.replicate n { pc := 0, epoch := 0 } }

def field (tok pre : String) : String := if tok.startsWith pre then (tok.drop pre.length).toString else "?"

def edgeOK (op : String) (a b : String) : Bool :=
  a == b ||
  (a == "AWAKE" && b == "SLEEPING" && op == "sleep") ||
  (a == "SLEEPING" && b == "POLLING" && op == "begin") ||
  (a == "POLLING" && b == "SLEEPING" && op == "end") ||
  (a != "AWAKE" && b == "AWAKE" && op == "wake")

def specStep (s : SpecSt) (line : String) (implOut : String) : SpecSt × String :=
  if implOut.startsWith "panic" || implOut.startsWith "crash" then (s, "fail crashed") else
  match tokens line, tokens implOut with
  | ["reset", n], _ => (SpecSt.init (n.toNat?.getD 1), "ok")
  | ["reset-agent"], _ => (s, "ok")
  | ["reset-agent", _], _ => (s, "ok")
  | ["wakecmd"], [_, st, _] => (s, if st == "st=AWAKE" then "ok" else "fail wake-command-left-agent-asleep")
  | ["stress", _, _, _], [out] => (s, if out == "stress-ok" then "ok" else s!"fail concurrent-sleep-wake-not-atomic-{out}")
  | ["stress", _, _, _], _ => (s, "fail concurrent-sleep-wake-not-atomic")
  | ["dprelease"], ["disconnected", "st=AWAKE"] => (s, "fail stale-dopoll-disconnects-awake-agent")
  | [op], [_, _] => if op == "asleep" || op == "awake" || op == "dpstart" || op == "dprelease" then (s, "ok") else (s, "ok")
  | op :: args, [res, stTok, fileTok, evTok] =>
    let st := field stTok "st="
    let file := field fileTok "file="
    let ev := field evTok "ev="
    let i := (args.head?.bind String.toNat?).getD 0
    let t := (s.th[i]?).getD { pc := 0, epoch := 0 }
    -- bookkeeping from the implementation's own results
    let th' :=
      if op == "begin" && res == "ok" then s.th.set i { pc := 1, epoch := s.wakes }
      else if op == "invoke" && res == "ok" then s.th.set i { t with pc := 2 }
      else if op == "ret" && res == "ok" then s.th.set i { t with pc := 3 }
      else if op == "end" && (res == "ok" || res == "skipped") then s.th.set i { t with pc := 0 }
      else s.th
    let th' := if (op == "restart" || op == "restart-stop") && res == "ok" then th'.map (fun _ => { pc := 0, epoch := 0 }) else th'
    let wakes' := if (op == "restart" || op == "restart-stop") && res == "ok" then 0
                  else if op == "wake" && res == "ok" then s.wakes + 1 else s.wakes
    let s' : SpecSt := { st := st, wakes := wakes', th := th' }
    let quiescent := th'.all fun t => t.pc == 0
    let verdict :=
      if (op == "restart" || op == "restart-stop") && s.st != st then s!"fail restart-did-not-resume-{s.st}-got-{st}"
      else if !edgeOK op s.st st then s!"fail illegal-edge-{s.st}-{st}-by-{op}"
      else if s.st == "AWAKE" && op != "sleep" && st != "AWAKE" then "fail awake-agent-put-to-sleep-by-poll"
      else if op == "sleep" && s.st != "AWAKE" && (res != "err-already-sleeping" || ev != "-") then "fail sleep-while-asleep-not-refused"
      else if op == "wake" && s.st == "AWAKE" && (res != "err-not-sleeping" || ev != "-") then "fail wake-while-awake-not-refused"
      else if quiescent && !(file == st || (file == "NONE" && st == "AWAKE")) then "fail persisted-state-differs-when-quiescent"
      else if op == "invoke" && ev.startsWith "OnPoll:" && s.wakes > t.epoch then "fail stale-onpoll-after-completed-wake"
      else if op == "end" && ev.startsWith "OnPollEnd:" && s.wakes > t.epoch then "fail stale-onpollend-after-completed-wake"
      else "ok"
    (s', verdict)
  | _, _ => (s, "ok")

def main (args : List String) : IO Unit :=
  match args with
  | ["spec"] => runLines (SpecSt.init 1) (fun s l => match l.splitOn "\t" with
      | [op, out] => specStep s op out
      | _ => (s, "bad-op"))
  | _ => runLines (S.init 1, DS.init) (fun (s, d) l =>
      match dstepLine d l with
      | some (d', out) => ((s, d'), out)
      | none => let (s', out) := stepLine s l; ((s', d), out))

end MM.Engine.C30
