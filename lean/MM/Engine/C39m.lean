import MM.Engine.Basic
import MM.Model.C39

/-
  Engine c39m: system-level run.  Five REAL agents (agent.New from generated configs, loopback QUIC
  listeners, routes learned by flooding): requesters 1 and 2, transit 3, targets 4 and 5, all
  connected to 3.  Against the FIFO-per-link network of model agents of MM/Model/C39.lean
  (the network `C39_refuted` is about), explored under EVERY delivery order.

    mesh one T     agent 1 asks agent T (4 or 5) for its status, alone        -> r1=<answering agent|timeout>
    mesh two       agents 1 and 2 ask 4 resp. 5 at the same moment            -> r1=… r2=…
-/
namespace MM.Engine.C39m
open MM MM.C39

def star (next : Nat) : Net :=
  { agents := [(1, { self := 1, peers := [3], next := next }), (2, { self := 2, peers := [3], next := next }),
               (3, { self := 3, peers := [1, 2, 4, 5] }),
               (4, { self := 4, peers := [3] }), (5, { self := 5, peers := [3] })] }

/-- heads of the per-link FIFO queues: indices into `queue` of the first message of each (from,to). -/
def heads (q : List (Nat × Nat × Msg)) : List Nat :=
  (List.range q.length).filter (fun i =>
    match q[i]? with
    | some (s, d, _) => !((q.take i).any (fun m => m.1 == s && m.2.1 == d))
    | none => false)

/-- deliver the `i`-th queued message. -/
def deliverAt (n : Net) (i : Nat) : Net :=
  match n.queue[i]? with
  | none => n
  | some m =>
    let rest := n.queue.take i ++ n.queue.drop (i + 1)
    let n' := { n with queue := [m] }.stepQ
    { n' with queue := rest ++ n'.queue }

def outcome (n : Net) : String :=
  let r (a : Nat) : String :=
    match n.delivered.find? (fun d => d.1 == a) with
    | some d => toString d.2.2.2
    | none => "timeout"
  s!"r1={r 1} r2={r 2}"

/-- all final outcomes over every per-link-FIFO delivery order. -/
def explore : Nat → Net → List String
  | 0, n => [outcome n]
  | fuel + 1, n =>
    if n.queue.isEmpty then [outcome n]
    else ((heads n.queue).map (fun i => explore fuel (deliverAt n i))).flatten.eraseDups

structure St where
  round : Nat := 0

def step (s : St) (line : String) : St × String :=
  match tokens line with
  | "reset" :: _ => (s, "ok")
  | ["mesh", "one", t] =>
    -- a single requester: every order gives the target's own answer
    let n := (star s.round).issueVia 1 t.toNat! 3 []
    let outs := (explore 12 n).map (fun o => (o.splitOn " ").headD "")
    ({ round := s.round + 1 }, match outs.eraseDups with
      | [o] => o
      | os => "anyof " ++ " | ".intercalate os)
  | ["mesh", "two"] =>
    let n := ((star s.round).issueVia 1 4 3 []).issueVia 2 5 3 []
    ({ round := s.round + 1 }, match explore 16 n with
      | [o] => o
      | os => "anyof " ++ " | ".intercalate os)
  | _ => (s, "bad-op")

/-- the statement on the implementation's answer: every requester gets the answer of the agent it
    asked.  Two requesters using the same request id through one transit is the known finding. -/
def spec (line : String) (out0 : String) : String :=
  let out := out0.trimAscii.toString
  if out.startsWith "panic" || out.startsWith "crash" then "fail crashed"
  else match tokens line with
    | ["mesh", "one", t] => if out == s!"r1={t}" then "ok" else "fail c39-mesh-misdelivered"
    | ["mesh", "two"] => if out == "r1=4 r2=5" then "ok" else "fail c39-collision-mesh-misdelivered"
    | _ => "ok"

def main (args : List String) : IO Unit :=
  match args with
  | ["spec"] => runPure (fun l => match l.splitOn "\t" with
      | [op, out] => spec op out
      | _ => "bad-op")
  | _ => runLines ({} : St) step

end MM.Engine.C39m
