import MM.Engine.Basic
import MM.Engine.C23
import MM.Model.C21

/-
  Engine c21: the agent's SOCKS5 authentication configuration in front of a real handler.

    a <enabled 0|1> <users> <dial> <udp><icmp> <input>   -> as engine c23 (`r … a …`)
    w <enabled 0|1> <users> <basic>                       -> `401` | `pass`   (HTTP Basic gate of the WebSocket listener)
    ws <enabled 0|1> <users> <basic> <dial> <udp><icmp> <input>   a real WebSocket client against the real listener:
                                                          -> `401` | `r … a …` (every server message = one binary frame)
        optional 8th token: the listener's own HTTP credential store — `c=agent` (default: what the agent configures),
        `c=nil` (WebSocketConfig.Credentials == nil), `c=<users>` (a store built from another user list);
        basic `m` = a malformed Authorization header
      users : `-` or `/`-separated `name.password.hash` — name/password hex or `-`;
              hash `-` (none) | `g<pw hex|->` (a real bcrypt hash of that password) | `j<hex>` (a junk hash string)
      basic : `-` (no Authorization header) or `name.password` (hex or `-`)
-/
namespace MM.Engine.C21
open MM MM.C23 MM.C21

/-- bcrypt on the engine's hash tokens: `MM.C21.bcModel` (72 effective key bytes). -/
def bc (h p : Bytes) : Bool := bcModel h p

def parseHash (s : String) : Option Bytes :=
  if s = "-" then some []
  else if s.startsWith "g" then (bytesOfHex (s.drop 1).toString).map (fun b => 1 :: b)
  else if s.startsWith "j" then (bytesOfHex (s.drop 1).toString).map (fun b => 2 :: b)
  else none

def parseUser (s : String) : Option User :=
  match s.splitOn "." with
  | [n, p, h] => do pure ⟨← bytesOfHex n, ← bytesOfHex p, ← parseHash h⟩
  | _ => none

def parseUsers (s : String) : Option (List User) :=
  if s = "-" then some [] else (s.splitOn "/").mapM parseUser

def parseBasic (s : String) : Option (Option (Bytes × Bytes)) :=
  if s = "-" ∨ s = "m" then some none
  else match s.splitOn "." with
    | [n, p] => do pure (some (← bytesOfHex n, ← bytesOfHex p))
    | _ => none

inductive Op where
  | tcp (cfg : Cfg) (o : C23.Op)
  | ws (cfg : Cfg) (basic : Option (Bytes × Bytes))
  | wsFull (cfg : Cfg) (basic : Option (Bytes × Bytes)) (o : C23.Op)
  /-- explicit listener store: `none` = no store, `some users` = a store over these users -/
  | wsStore (cfg : Cfg) (store : Option (List User)) (basic : Option (Bytes × Bytes)) (o : C23.Op)

partial def parseOp (line : String) : Option Op :=
  match tokens line with
  | ["a", en, us, di, be, inp] => do
    let users ← parseUsers us
    let o ← C23.parseOp s!"h - {di} {be} {inp}"
    pure (.tcp ⟨en = "1", users⟩ o)
  | ["a", en, us, di, be, inp, _frag] => parseOp s!"a {en} {us} {di} {be} {inp}"
  | ["ws", en, us, ba, di, be, inp, st] => do
    let o ← C23.parseOp s!"h - {di} {be} {inp}"
    let cfg : Cfg := ⟨en = "1", ← parseUsers us⟩
    if st = "c=agent" then pure (.wsFull cfg (← parseBasic ba) o)
    else if st = "c=nil" then pure (.wsStore cfg none (← parseBasic ba) o)
    else if st.startsWith "c=" then pure (.wsStore cfg (some (← parseUsers (st.drop 2).toString)) (← parseBasic ba) o)
    else none
  | ["ws", en, us, ba, di, be, inp] => do
    let o ← C23.parseOp s!"h - {di} {be} {inp}"
    pure (.wsFull ⟨en = "1", ← parseUsers us⟩ (← parseBasic ba) o)
  | ["w", en, us, ba] => do
    pure (.ws ⟨en = "1", ← parseUsers us⟩ (← parseBasic ba))
  | _ => none

def step (line : String) : String :=
  match parseOp line with
  | none => "bad-op"
  | some (.tcp cfg o) =>
    let a := C23.showResult (serveTCP bc cfg (o.env false) o.input)
    let b := C23.showResult (serveTCP bc cfg (o.env true) o.input)
    if a = b then a else s!"anyof {a} | {b}"
  | some (.ws cfg basic) => if wsGate bc cfg basic then "pass" else "401"
  | some (.wsFull cfg basic o) =>
    if !wsGate bc cfg basic then "401"
    else
      -- the WebSocket connection has no disconnect monitor (NoDeadlineMonitor): no race
      C23.showResult (serveWS bc cfg (o.env false) basic o.input)
  | some (.wsStore cfg store basic o) =>
    match serveWSWith bc cfg (o.env false) (store.map (fun us => credStore bc ⟨true, us⟩)) basic o.input with
    | none => "401"
    | some r => C23.showResult r

/-! ### spec: C21 on the implementation's own answer -/

def userValidB (u : User) (pw : Bytes) : Bool :=
  if u.hash ≠ [] then bc u.hash pw else (u.password ≠ [] && u.password == pw)

/-- Independent decoder: credentials of a complete RFC 1929 request right after the greeting. -/
def presentedCreds (inp : Bytes) : Option (Bytes × Bytes) :=
  match inp with
  | 5 :: n :: t =>
    match t.drop n.toNat with
    | 1 :: ul :: r =>
      if t.length < n.toNat ∨ ul = 0 ∨ r.length < ul.toNat + 1 then none
      else
        let name := r.take ul.toNat
        match r.drop ul.toNat with
        | pl :: r2 => if r2.length < pl.toNat then none else some (name, r2.take pl.toNat)
        | [] => none
    | _ => none
  | _ => none

def authorised (cfg : Cfg) (c : Option (Bytes × Bytes)) : Bool :=
  match c with
  | none => false
  | some (n, p) => cfg.users.any (fun u => u.name == n && userValidB u p)

/-- equality-level: the presented password IS the configured one / the one the hash was made from -/
def userStrictB (u : User) (pw : Bytes) : Bool :=
  if u.hash ≠ [] then (match u.hash with | 1 :: q => q == pw | _ => false)
  else (u.password ≠ [] && u.password == pw)

/-- Which user decides: as the Go maps do — last entry with that name among the hashed users when
    there are any, else among the plaintext ones. -/
def strictlyAuthorised (cfg : Cfg) (c : Option (Bytes × Bytes)) : Bool :=
  match c with
  | none => false
  | some (n, p) => cfg.users.any (fun u => u.name == n && userValidB u p && userStrictB u p)

def judge (cfg : Cfg) (c : Option (Bytes × Bytes)) (tag : String) : String :=
  if !authorised cfg c then "fail " ++ tag
  else if !strictlyAuthorised cfg c then "fail bcrypt-equivalent-password"
  else "ok"

def spec (line : String) (implOut0 : String) : String :=
  let implOut := implOut0.trimAscii.toString
  if implOut.startsWith "panic" || implOut.startsWith "crash" then "fail crashed"
  else if implOut.startsWith "hang" then "fail hang"
  else match parseOp line with
    | none => "fail unparsable-op"
    | some (.tcp cfg o) =>
      match tokens implOut with
      | ["r", _, "a", act] =>
        if !cfg.enabled ∨ act = "none" then "ok"
        else judge cfg (presentedCreds o.input) "unauth-command"
      | _ => "fail unparsable-output"
    | some (.ws cfg basic) =>
      if implOut = "401" then "ok"
      else if implOut = "pass" then
        (if !cfg.enabled then "ok" else judge cfg basic "ws-gate-open")
      else "fail unparsable-output"
    | some (.wsFull cfg basic o) =>
      if implOut = "401" then "ok"
      else match tokens implOut with
        | ["r", _, "a", act] =>
          if !cfg.enabled then "ok"
          else
            let g := judge cfg basic "ws-gate-open"
            if g ≠ "ok" then g
            else if act = "none" then "ok"
            else judge cfg (presentedCreds o.input) "unauth-command"
        | _ => "fail unparsable-output"
    | some (.wsStore cfg store basic o) =>
      -- the handler's own requirement, whatever the HTTP gate was configured to do
      if implOut = "401" then "ok"
      else match tokens implOut with
        | ["r", _, "a", act] =>
          let g := match store with
            | none => "ok"
            | some us => judge ⟨true, us⟩ basic "ws-gate-open"
          if g ≠ "ok" then g
          else if !cfg.enabled ∨ act = "none" then "ok"
          else judge cfg (presentedCreds o.input) "unauth-command"
        | _ => "fail unparsable-output"

def main (args : List String) : IO Unit :=
  match args with
  | ["spec"] => runPure (fun l => match l.splitOn "\t" with
      | [op, out] => spec op out
      | _ => "bad-op")
  | _ => runPure step

end MM.Engine.C21
