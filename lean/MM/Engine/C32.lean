import MM.Engine.Basic
import MM.Model.C32
import MM.Gen.C32

/-!
  Line-protocol oracle for C32 (protocol: harness/main/eng_c32.go).  `rclose c` is observed by the
  harness only after the keepalive loop has torn the connection down (its next send fails while the
  read error is held), i.e. it is the `ktimeout` step of the model.
-/
namespace MM.Engine.C32
open MM MM.C32

def connTok (t : String) : Option Nat := t.toNat?

/-- Model state plus the script's "bytes in flight" bookkeeping: (connection, frames written while
    its reads are stalled). -/
structure ES where
  s : S := {}
  stalled : List (Nat × Nat) := []
  blocked : List Nat := []     -- connections with a frame handler held by the script
  held : Bool := false         -- a SendToPeer whose transport write is held

def stepS (s : S) (line : String) : S × String :=
  let lab (l : Label) : S × String := step true s l
  match tokens line with
  | ["reset"] => ({}, "ok")
  | ["connect", _dir, p] => match p.toNat? with
    | some p =>
      let c := s.next
      let (s', o) := step true s (.connect p)
      (s', s!"{o} c{c}")
    | none => (s, "bad-op")
  | ["race", p, k, _mode] => match p.toNat?, k.toNat? with
    | some p, some k =>
      -- k `connect` steps in some order; the harness numbers the winner first
      let base := s.next
      let s' := (List.range k).foldl (fun st _ => (step true st (.connect p)).1) s
      let news := (List.range k).map (fun i => s'.conn (base + i))
      let reg := (news.filter (fun c => c.started)).length
      let opn := (news.filter (fun c => c.started && !c.closed)).length
      (s', s!"race registered={reg} open={opn} delivered={opn}")
    | _, _ => (s, "bad-op")
  | ["frame", c] => match connTok c with
    | some c => lab (.frame c)
    | none => (s, "bad-op")
  | ["ktimeout", c] => match connTok c with
    | some c =>
      -- what an unanswered keepalive leads to is a measured fact about the code (MM/Gen/C32.lean)
      if MM.Gen.C32.keepaliveTimeoutFires then lab (.ktimeout c)
      else
        let k := s.conn c
        if k.started && !k.closed && !k.readErr then (s, "no-teardown") else (s, "notopen")
    | none => (s, "bad-op")
  | ["rclose", c] => match connTok c with
    | some c => lab (.ktimeout c)
    | none => (s, "bad-op")
  | ["disconnect", p] => match p.toNat? with
    | some p => lab (.disconnect p)
    | none => (s, "bad-op")
  | ["disconnectall"] => lab (.disconnectAll [1, 2, 3, 4])
  | ["readerr", c] => match connTok c with
    | some c => lab (.readerr c)
    | none => (s, "bad-op")
  | ["learn", p, n] => match p.toNat?, n.toNat? with
    | some p, some n => lab (.learn p n)
    | _, _ => (s, "bad-op")
  | ["relay", p, q] => match p.toNat?, q.toNat? with
    | some p, some q => lab (.relay p q)
    | _, _ => (s, "bad-op")
  | ["routes", p] => match p.toNat? with
    | some p => (s, s!"routes {routesVia s p}")
    | none => (s, "bad-op")
  | ["relays", p] => match p.toNat? with
    | some p => (s, s!"relays {relaysOf s p}")
    | none => (s, "bad-op")
  | ["peer", p] => match p.toNat? with
    | some p => (s, match s.peers p with | some c => s!"peer c{c}" | none => "peer -")
    | none => (s, "bad-op")
  | _ => (s, "bad-op")

def stepLine (e : ES) (line : String) : ES × String :=
  match tokens line with
  | ["reset"] => ({}, "ok")
  | ["stall", c] => match connTok c with
    | some c =>
      let k := e.s.conn c
      if k.started && !k.closed && !k.readErr then
        ({ e with stalled := (c, 0) :: e.stalled.filter (fun x => x.1 != c) }, "ok")
      else (e, "notopen")
    | none => (e, "bad-op")
  | ["send", c] => match connTok c with
    | some c => match e.stalled.find? (fun x => x.1 == c) with
      | some x =>
        let k := e.s.conn c
        if !k.closed && !k.readErr then
          ({ e with stalled := (c, x.2 + 1) :: e.stalled.filter (fun y => y.1 != c) }, "sent")
        else (e, "dropped")
      | none => (e, "notstalled")
    | none => (e, "bad-op")
  | ["disconnectall-re", p] => match p.toNat? with
    | some p => match e.s.peers p with
      | some c =>
        -- DisconnectAll; the read-loop teardown of p's old connection; p's inbound reconnect
        let s1 := (step true e.s (.disconnectAll [1, 2, 3, 4])).1
        let s2 := (step true s1 (.readerr c)).1
        let k := s2.next
        let (s3, o) := step true s2 (.connect p)
        ({ e with s := s3 }, s!"ok {o} c{k}")
      | none => (e, "nopeer")
    | none => (e, "bad-op")
  | ["sendhold", p] => match p.toNat? with
    | some p => if (e.s.peers p).isSome && !e.held then ({ e with held := true }, "held") else (e, "nopeer")
    | none => (e, "bad-op")
  | ["sendfail"] => if e.held then ({ e with held := false }, "ok") else (e, "notheld")
  | ["sendblock", c] => match connTok c with
    | some c =>
      -- a frame like any other; that its handler does not return changes nothing for the manager
      let (s', o) := step true e.s (.frame c)
      if o = "delivered" then ({ e with s := s', blocked := c :: e.blocked }, "blocked") else (e, "dropped")
    | none => (e, "bad-op")
  | ["unblock", c] => match connTok c with
    | some c => if e.blocked.contains c then ({ e with blocked := e.blocked.filter (· != c) }, "ok") else (e, "notblocked")
    | none => (e, "bad-op")
  | ["unstall", c] => match connTok c with
    | some c => match e.stalled.find? (fun x => x.1 == c) with
      | some x =>
        let e := { e with stalled := e.stalled.filter (fun y => y.1 != c) }
        let k := e.s.conn c
        if !k.closed then
          ({ e with s := e.s.setConn c { k with delivered := k.delivered + x.2 } }, "resumed")
        else if x.2 > 0 then
          let (s', o) := step true e.s (.readSilent c)
          ({ e with s := s' }, o)
        else (e, "resumed")
      | none => (e, "notstalled")
    | none => (e, "bad-op")
  | _ =>
    let (s', o) := stepS e.s line
    ({ e with s := s' }, o)

/-! ### Executable statement of C32 on the implementation's own answers

  Recomputed from the op history and the implementation's answers only:
  * `cur p` — the connection the implementation said it registered for `p` and that no scripted
    teardown / Disconnect has taken down since;
  * a `registered` answer while `cur p` is still up = two live connections (`two-registered`);
  * a frame `delivered` on a connection that was answered `rejected` (`rejected-delivered`);
  * routes / relay entries created while the CURRENT connection(s) were registered must still be
    counted by `routes p` / `relays p` (`live-routes-lost`, `live-relays-lost`), and `peer p` must
    still name `cur p` (`live-registration-lost`): only a teardown of the current connection may
    remove them, and that clears `cur`. -/

structure SpecSt where
  next : Nat := 0
  peerOf : List (Nat × Nat) := []          -- connection → peer
  rejected : List Nat := []
  cur : List (Nat × Nat) := []             -- peer → current connection
  routes : List (Nat × Nat) := []          -- (peer, tag)
  relays : List (Nat × Nat × Nat × Nat) := []   -- (p, q, tagp, tagq)

def kvNat (t key : String) : Option Nat :=
  if t.startsWith (key ++ "=") then (t.drop (key.length + 1)).toNat? else none

def lookup (l : List (Nat × Nat)) (k : Nat) : Option Nat := (l.find? (fun x => x.1 == k)).map (·.2)
def erase (l : List (Nat × Nat)) (k : Nat) : List (Nat × Nat) := l.filter (fun x => x.1 != k)

/-- connection `c` is taken down: if it is the current one of its peer, the peer has none now. -/
def SpecSt.down (s : SpecSt) (c : Nat) : SpecSt :=
  match lookup s.peerOf c with
  | some p => if lookup s.cur p = some c then { s with cur := erase s.cur p } else s
  | none => s

def specLine (s : SpecSt) (line : String) : SpecSt × String :=
  match line.splitOn "\t" with
  | [op, out] =>
    if out.startsWith "panic" || out.startsWith "crash " then (s, "fail crashed") else
    match tokens op, tokens out with
    | ["reset"], _ => ({}, "ok")
    | ["connect", _, p], [res, _] =>
      match p.toNat? with
      | some p =>
        let c := s.next
        let s := { s with next := c + 1, peerOf := (c, p) :: s.peerOf }
        if res = "registered" then
          if (lookup s.cur p).isSome then (s, "fail two-registered")
          else ({ s with cur := (p, c) :: s.cur }, "ok")
        else if res = "rejected" then ({ s with rejected := c :: s.rejected }, "ok")
        else (s, "fail unparsable-answer")
      | none => (s, "ok")
    | ["connect", _, _], _ => ({ s with next := s.next + 1 }, "fail unparsable-answer")
    | ["race", p, k, _], [_, r, o, d] =>
      match p.toNat?, k.toNat?, kvNat r "registered", kvNat o "open", kvNat d "delivered" with
      | some p, some k, some r, some o, some d =>
        let base := s.next
        let s := { s with next := base + k, peerOf := (List.range k).map (fun i => (base + i, p)) ++ s.peerOf }
        let had := (lookup s.cur p).isSome
        -- at most one of the simultaneous connections may be registered / stay open / deliver; none if one was live
        if r + (if had then 1 else 0) > 1 || o > r || d > r then (s, "fail two-registered")
        else if r = 1 then ({ s with cur := (p, base) :: s.cur, rejected := (List.range (k - 1)).map (fun i => base + 1 + i) ++ s.rejected }, "ok")
        else ({ s with rejected := (List.range k).map (fun i => base + i) ++ s.rejected }, "ok")
      | _, _, _, _, _ => (s, "fail unparsable-answer")
    | ["frame", c], [res] =>
      match c.toNat? with
      | some c => if res = "delivered" && s.rejected.contains c then (s, "fail rejected-delivered") else (s, "ok")
      | none => (s, "ok")
    | ["ktimeout", c], ["ok"] => (match c.toNat? with | some c => s.down c | none => s, "ok")
    | ["rclose", c], [r] =>
      -- the remote end has closed it: whatever the teardown does, this connection is not the live one any more
      if r = "notopen" then (s, "ok") else (match c.toNat? with | some c => s.down c | none => s, "ok")
    | ["sendblock", c], [res] =>
      match c.toNat? with
      | some c => if res = "blocked" && s.rejected.contains c then (s, "fail rejected-delivered") else (s, "ok")
      | none => (s, "ok")
    | ["readerr", c], ["ok"] => (match c.toNat? with | some c => s.down c | none => s, "ok")
    | ["disconnect", p], ["ok"] => (match p.toNat? with | some p => { s with cur := erase s.cur p } | none => s, "ok")
    | ["disconnectall"], _ => ({ s with cur := [] }, "ok")
    | ["disconnectall-re", p], ["ok", res, _] =>
      match p.toNat? with
      | some p =>
        let c := s.next
        let s := { s with next := c + 1, peerOf := (c, p) :: s.peerOf, cur := [] }
        if res = "registered" then ({ s with cur := [(p, c)] }, "ok")
        else ({ s with rejected := c :: s.rejected }, "ok")
      | none => (s, "ok")
    | ["learn", p, n], ["ok"] =>
      match p.toNat?, n.toNat? with
      | some p, some n => (match lookup s.cur p with
        | some c => { s with routes := s.routes ++ List.replicate n (p, c) }
        | none => s, "ok")
      | _, _ => (s, "ok")
    | ["relay", p, q], ["ok"] =>
      match p.toNat?, q.toNat? with
      | some p, some q => (match lookup s.cur p, lookup s.cur q with
        | some c, some c' => { s with relays := (p, q, c, c') :: s.relays }
        | _, _ => s, "ok")
      | _, _ => (s, "ok")
    | ["routes", p], ["routes", n] =>
      match p.toNat?, n.toNat? with
      | some p, some n =>
        let must := (s.routes.filter (fun r => r.1 == p && lookup s.cur p == some r.2)).length
        if n < must then (s, "fail live-routes-lost") else (s, "ok")
      | _, _ => (s, "fail unparsable-answer")
    | ["relays", p], ["relays", n] =>
      match p.toNat?, n.toNat? with
      | some p, some n =>
        let must := (s.relays.filter (fun r => (r.1 == p || r.2.1 == p) &&
            lookup s.cur r.1 == some r.2.2.1 && lookup s.cur r.2.1 == some r.2.2.2)).length
        if n < must then (s, "fail live-relays-lost") else (s, "ok")
      | _, _ => (s, "fail unparsable-answer")
    | ["peer", p], ["peer", c] =>
      match p.toNat? with
      | some p => (match lookup s.cur p with
        | some k => if c = s!"c{k}" then (s, "ok") else (s, "fail live-registration-lost")
        | none => (s, "ok"))
      | none => (s, "ok")
    | _, _ => (s, "ok")
  | _ => (s, "bad-op")

def main (args : List String) : IO Unit :=
  match args with
  | ["spec"] => runLines ({} : SpecSt) specLine
  | _ => runLines ({} : ES) stepLine

end MM.Engine.C32
