import MM.Engine.Basic
import MM.Model.C26

namespace MM.Engine.C26
open MM MM.C27 MM.C26

def fuel : Nat := 40

def bytesOfStr (s : String) : Bytes := s.toUTF8.toList

/-- printable ASCII is shown as is, anything else as hex:<bytes> (same rule as the harness) -/
def strOfBytes (b : Bytes) : String :=
  if b.all (fun c => 0x21 ≤ c && c ≤ 0x7e) then
    match String.fromUTF8? (ByteArray.mk b.toArray) with
    | some s => s
    | none => "hex:" ++ hexTok b
  else "hex:" ++ hexTok b

def unEsc (s : String) : Bytes :=
  if s.startsWith "hex:" then (bytesOfHex (s.drop 4).toString).getD [] else bytesOfStr s

/-- strip the sandbox-root placeholder '@' -/
def unAt (b : Bytes) : Bytes := match b with | 0x40 :: r => r | _ => b

def parseTarget (s : String) : Target :=
  let b := unAt (bytesOfStr s)
  { abs := b.head? == some SL, comps := compsOf b }

def showTarget (t : Target) : String :=
  let body := strOfBytes (joinSl (t.comps.map decName))
  if t.abs then "/" ++ body else if body == "" then "." else body

structure S where
  cfg : Cfg := { enabled := false, allowed := [] }
  fs : FS := { ents := [], data := [], next := 1 }

def okStr (b : Bool) : String := if b then "ok" else "err"

def showV : V → String
  | .ok => "ok"
  | .dangerous => "invalid-dangerous"
  | .notAbs => "invalid-notabs"
  | .traversal => "invalid-traversal"
  | .emptyList => "invalid-emptylist"
  | .notAllowed => "invalid-notallowed"

/-- size of the byte string the harness writes for a content token "<id>x<n>": the token text, ':' and
    padding up to n bytes -/
def sizeOfTok (cid : Nat) : Nat :=
  let tok := strOfBytes (decName cid)
  -- "?<n>": what is left of an over-long upload (n bytes)
  if tok.startsWith "?" then (tok.drop 1).toString.toNat?.getD 0 else
  let n := match (tok.splitOn "x").getLast? with
    | some d => d.toNat?.getD 0
    | none => 0
  Nat.max n (decName cid).length.succ

def mkCtx (password : Bytes) (declSize : Int) : Ctx :=
  { pwOK := fun h p => h == p, password := password, declSize := declSize, sizeOf := sizeOfTok,
    trunc := fun _ n => encName (bytesOfStr ("?" ++ toString n)) }

def showErr : Err → String
  | .disabled => "disabled"
  | .pathRequired => "pathrequired"
  | .invalid v => showV v
  | .symlinkTarget => "symlink"
  | .notFound => "notfound"
  | .notDir => "notdir"
  | .notEmpty => "notempty"
  | .io => "io"
  | .authRequired => "authrequired"
  | .authFailed => "authfailed"
  | .tooLarge => "toolarge"
  | .tooLargeWritten => "toolarge"

def sortStrs (l : List String) : List String := (l.toArray.qsort (· < ·)).toList

def showPaths (ps : List Path) : String :=
  let l := sortStrs (ps.map (fun p => strOfBytes (strOfPath p))).eraseDups
  if l.isEmpty then "-" else ",".intercalate l

def showNames (ns : List Name) : String :=
  let l := sortStrs (ns.map (fun n => strOfBytes (decName n)))
  if l.isEmpty then "-" else ",".intercalate l

def mkNfc (raw nf : Bytes) : Bytes → Bytes := fun b => if b == raw then nf else b

def contentTok (fs : FS) (i : Nat) : String :=
  match fs.content i with
  | some c => strOfBytes (decName c)
  | none => "?"

/-- the answer line of one request, and the state afterwards -/
def runLine (s : S) (op : Op) (pathHex nfcHex : String) (pwHex : String := "-") (decl : String := "-1") : S × String :=
  match bytesOfHex pathHex, bytesOfHex nfcHex, bytesOfHex pwHex with
  | some praw, some pn, some pw =>
    let path := unAt praw
    let nfc := mkNfc path (unAt pn)
    let r := runOp (mkCtx pw (decl.toInt?.getD (-1))) nfc fuel s.cfg s.fs op path
    let s' := { s with fs := r.fs }
    match r.err with
    | some e =>
      (s', "err " ++ showErr e ++ (match op, e with
        | .upload _, .io => " changed=" ++ showPaths r.touched
        | .upload _, .tooLargeWritten => " changed=" ++ showPaths r.touched
        | _, _ => ""))
    | none =>
      match op with
      | .download =>
        (match r.touched with
         | [q] => (match s.fs.lookup q with
            | some (.file i) => (s', "ok file:" ++ strOfBytes (strOfPath q) ++ ":" ++ contentTok s.fs i)
            | some .dir => (s', "ok dir:" ++ strOfBytes (strOfPath q))
            | _ => (s', "model-error"))
         | _ => (s', "model-error"))
      | .upload _ => (s', "ok changed=" ++ showPaths r.touched)
      | .list => (s', "ok names=" ++ showNames r.names)
      | .stat =>
        let p := compsOf (clean path)
        let (sym, tgt) := match lstat s.fs fuel p with
          | .found _ (.sym t) => ("1", showTarget t)
          | _ => ("0", "-")
        let dir := match stat s.fs fuel p with
          | .found _ .dir => "1"
          | _ => "0"
        (s', s!"ok sym={sym} dir={dir} target={tgt}")
      | .chmod => (s', "ok changed=" ++ showPaths r.touched)
      | .delete _ =>
        -- what disappeared: the touched paths that no longer exist
        (s', "ok changed=" ++ showPaths (r.touched.filter (fun q => r.fs.lookup q ≠ s.fs.lookup q)))
  | _, _, _ => (s, "bad-op")

def step (s : S) (line : String) : S × String :=
  match tokens line with
  | "reset" :: en :: mx :: cpw :: _n :: pats =>
    match pats.mapM bytesOfHex, bytesOfHex cpw with
    | some ps, some h =>
      ({ cfg := { enabled := en == "1", allowed := ps.map unAt, hash := h, maxSize := mx.toNat?.getD 0 },
         fs := { ents := [], data := [], next := 1 } }, "ok")
    | _, _ => (s, "bad-op")
  | ["pre", "dir", p] =>
    let (fs, ok) := mkdir s.fs fuel (parseTarget p).comps
    ({ s with fs := fs }, okStr ok)
  | ["pre", "file", p, c] =>
    let (fs, ok) := openTrunc s.fs fuel (parseTarget p).comps (encName (bytesOfStr c))
    ({ s with fs := fs }, okStr ok)
  | ["pre", "sym", p, t] =>
    let (fs, ok) := symlink s.fs fuel (parseTarget t) (parseTarget p).comps
    ({ s with fs := fs }, okStr ok)
  | ["pre", "hard", p, old] =>
    let (fs, ok) := link s.fs fuel (parseTarget old).comps (parseTarget p).comps
    ({ s with fs := fs }, okStr ok)
  | ["val", ph, nh] =>
    match bytesOfHex ph, bytesOfHex nh with
    | some praw, some pn =>
      let path := unAt praw
      let v := validatePath (mkNfc path (unAt pn)) s.cfg path
      (s, if v == .ok then "ok" else "err " ++ showV v)
    | _, _ => (s, "bad-op")
  | ["dl", ph, nh, pw] => runLine s .download ph nh pw
  | ["ul", ph, nh, c, pw, decl] => runLine s (.upload (encName (bytesOfStr c))) ph nh pw decl
  | ["ls", ph, nh, pw] => runLine s .list ph nh pw
  | ["st", ph, nh, pw] => runLine s .stat ph nh pw
  | ["cm", ph, nh, pw] => runLine s .chmod ph nh pw
  | ["rm", ph, nh, rec, pw] => runLine s (.delete (rec == "1")) ph nh pw
  | _ => (s, "bad-op")

/-! `spec`: the statement on the implementation's own answers.  The model state is advanced with the
model's semantics (any deviation of the implementation from it is reported by the comparison); the
physical paths the IMPLEMENTATION reports as touched (file read = the file whose unique content
came back; directory listed = the directory that has exactly those entries … or the changed / removed
paths the harness observed) must be allowed by the configured patterns. -/

def physAllowed (c : Cfg) (q : String) : Bool :=
  validatePath id c (unEsc q) == .ok

def pathsOf (field : String) : List String :=
  match field.splitOn "=" with
  | [_, v] => if v == "-" then [] else v.splitOn ","
  | _ => []

/-- directories of the model filesystem whose listing is exactly `names` -/
def dirsListing (fs : FS) (names : String) : List String :=
  let dirs : List Path := [] :: (fs.ents.filter (fun e => e.2 == .dir)).map (·.1)
  (dirs.filter (fun d => showNames (children fs d) == names)).map (fun d => strOfBytes (strOfPath d))

/-- Did the implementation let the request past `validatePath` (anything but a validation refusal)? -/
def implAccepted (out : List String) : Bool :=
  match out with
  | "err" :: cls :: _ => !(cls.startsWith "invalid-" || cls == "disabled" || cls == "pathrequired" || cls == "authrequired" || cls == "authfailed")
  | "ok" :: _ => true
  | _ => false

/-- "accepted ⇒ enabled and lexically allowed", on the implementation's answer -/
def lexicalVerdict (s : S) (op : String) (implOut : String) : Option String :=
  match tokens op with
  | kind :: ph :: nh :: _ =>
    if ["val", "dl", "ul", "ls", "st", "cm", "rm"].contains kind then
      match bytesOfHex ph, bytesOfHex nh with
      | some praw, some pn =>
        let path := unAt praw
        if !implAccepted (tokens implOut) then none
        else if kind != "val" && !s.cfg.enabled then some "fail accepted-while-disabled"
        else if kind != "val" && s.cfg.hash != [] &&
            (let pwTok := (if kind == "ul" || kind == "rm" then (tokens op)[4]? else (tokens op)[3]?).getD "-"
             (bytesOfHex pwTok).getD [] != s.cfg.hash) then some "fail accepted-without-password"
        else if validatePath (mkNfc path (unAt pn)) s.cfg path != .ok then some "fail accepted-invalid-path"
        else none
      | _, _ => none
    else none
  | _ => none

/-- The request path is clean, has no "..", no trailing slash, and none of its PARENT components is a
    symbolic link: only the final component may be one.  For downloads that case is what
    validateSymlinkTarget is there for, so an escape through it is not the known parent-link finding. -/
def onlyFinalLink (s : S) (op : String) : Bool :=
  match tokens op with
  | _ :: ph :: _ =>
    match bytesOfHex ph with
    | some praw =>
      let path := unAt praw
      let p := compsOf path
      clean path == path && !trailingDir path && !p.contains 0 &&
        (List.range (p.length - 1)).all (fun j => match s.fs.lookup (p.take (j + 1)) with | some .dir => true | _ => false)
    | none => false
  | _ => false

def spec (s : S) (op : String) (implOut : String) : S × String :=
  let (s', _) := step s op
  let verdict : String :=
    match lexicalVerdict s op implOut with
    | some v => v
    | none =>
    let readTag := if onlyFinalLink s op then "fail final-link-escape-read " else "fail escape-read "
    match tokens op, tokens implOut with
    | "dl" :: _, ["ok", what] =>
      (match what.splitOn ":" with
       | ["file", q, tok] =>
         if s.cfg.maxSize > 0 && sizeOfTok (encName (bytesOfStr tok)) > s.cfg.maxSize then "fail oversize-download " ++ q
         else if physAllowed s.cfg q then "ok" else readTag ++ q
       | ["dir", q] => if physAllowed s.cfg q then "ok" else readTag ++ q
       | _ => "ok")
    | "ls" :: _, ["ok", names] =>
      (match names.splitOn "=" with
       | [_, v] =>
         let cands := dirsListing s.fs v
         -- unambiguous listing of a directory outside the allowed paths
         (match cands with
          | [q] => if v != "-" && !physAllowed s.cfg q then "fail escape-list " ++ q else "ok"
          | _ => "ok")
       | _ => "ok")
    | "ul" :: _, [_, ch] | "ul" :: _, [_, _, ch] =>
      (match (pathsOf ch).find? (fun q => !physAllowed s.cfg q) with
       | some q => "fail escape-write " ++ q
       | none => "ok")
    | "cm" :: _, ["ok", ch] =>
      (match (pathsOf ch).find? (fun q => !physAllowed s.cfg q) with
       | some q => "fail escape-chmod " ++ q
       | none => "ok")
    | "rm" :: _, ["ok", ch] =>
      (match (pathsOf ch).find? (fun q => !physAllowed s.cfg q) with
       | some q => "fail escape-delete " ++ q
       | none => "ok")
    | _, "panic" :: _ => "fail crashed"
    | _, _ => "ok"
  (s', verdict)

def main (args : List String) : IO Unit :=
  match args with
  | ["spec"] => runLines ({} : S) (fun s l => match l.splitOn "\t" with
      | [op, out] => spec s op out
      | _ => (s, "bad-op"))
  | _ => runLines ({} : S) step

end MM.Engine.C26
