import MM.Engine.Basic
import MM.Model.C03
import MM.Model.C03Crypto
import MM.Model.C04Hs

/-
  Engine c03: byte-level model of DeriveSessionKey (salt = be64 req ‖ iPub ‖ rPub, info string,
  HKDF-SHA256) and ComputeECDH (X25519 with the two refusals), see harness/main/eng_c03.go.
-/
namespace MM.Engine.C03
open MM MM.C03

def info : Bytes := "muti-metroo-e2e-v1".toUTF8.toList

/-- `DeriveSessionKey(secret, req, iPub, rPub, _).Key()`; the role flag does not enter the key. -/
def deriveKey (secret : Bytes) (req : Nat) (iPub rPub : Bytes) : Bytes :=
  hkdf32 secret (salt req iPub rPub) info

def key32 (s : String) : Option Bytes :=
  match bytesOfHex s with
  | some b => if b.length = 32 then some b else none
  | none => none

def stepLine (line : String) : String :=
  match tokens line with
  | ["kdf", sec, req, i, r, _] =>
    match key32 sec, req.toNat?, key32 i, key32 r with
    | some sec, some req, some i, some r => "key " ++ hexOfBytes (deriveKey sec req i r)
    | _, _, _, _ => "bad-op"
  | ["kdf2", sec, q1, i1, r1, q2, i2, r2] =>
    match key32 sec, q1.toNat?, key32 i1, key32 r1, q2.toNat?, key32 i2, key32 r2 with
    | some sec, some q1, some i1, some r1, some q2, some i2, some r2 =>
      "keys " ++ hexOfBytes (deriveKey sec q1 i1 r1) ++ " " ++ hexOfBytes (deriveKey sec q2 i2 r2)
    | _, _, _, _, _, _, _ => "bad-op"
  | ["dh", priv, remote] =>
    match key32 priv, key32 remote with
    | some priv, some remote =>
      match computeECDH x25519 priv remote with
      | some s => "ok " ++ hexOfBytes s
      | none => "err"
    | _, _ => "bad-op"
  | ["pair", a, b, req] =>
    match key32 a, key32 b, req.toNat? with
    | some a, some b, some req =>
      let pubI := x25519 a basePoint
      let pubR := x25519 b basePoint
      match computeECDH x25519 a pubR, computeECDH x25519 b pubI with
      | some sI, some sR =>
        let kI := deriveKey sI req pubI pubR
        let kR := deriveKey sR req pubI pubR
        if kI = kR then "ok " ++ hexOfBytes kI else "mismatch " ++ hexOfBytes kI ++ " " ++ hexOfBytes kR
      | _, _ => "err"
    | _, _, _ => "bad-op"
  | ["dhkey", priv, remote, req] =>
    -- responder call site on a received key: refused by ComputeECDH, or a key from a NON-zero secret
    match key32 priv, key32 remote, req.toNat? with
    | some priv, some remote, some req =>
      match computeECDH x25519 priv remote with
      | some s => "key " ++ hexOfBytes (deriveKey s req remote (x25519 priv basePoint)) ++ " secret " ++ hexOfBytes s
      | none => "err"
    | _, _, _ => "bad-op"
  | ["tunnel", kd, p] =>
    -- C03_agree: the two call sites of every kind derive the same key, so the tunnel carries the
    -- payload there and back (same answer format as engine c04's mesh op)
    match (if p = "-" then some [] else bytesOfHex p) with
    | some bs =>
      if kd = "file" ∨ kd = "shell" then "ok echo 1 leak 0 seq 1 1 zk 0 ua 0"
      else if kd = "tcp" ∨ kd = "udp" ∨ kd = "fwd" then
        s!"ok echo 1 leak 0 up {bs.length} 1 down {bs.length} 1 zk 0 ua 0"
      else "bad-op"
    | none => "bad-op"
  | _ => "bad-op"

/-- Statement on the implementation's own answers: both roles agree; derivations that differ in the
    request id or a key give different keys; a zero / low-order remote key yields no secret. -/
def spec (op out : String) : String :=
  if out.startsWith "panic" ∨ out.startsWith "crash" then "fail crashed"
  else match tokens op, tokens out with
    | "dhkey" :: _, ["key", _, "secret", s] =>
      if s = hexOfBytes zero32 then "fail key-derived-from-all-zero-secret" else "ok"
    | "tunnel" :: _, "ok" :: "echo" :: e :: _ => if e = "1" then "ok" else "fail tunnel-ends-disagree"
    | "tunnel" :: _, "bad-op" :: _ => "ok"
    | "tunnel" :: _, _ => "fail tunnel-ends-disagree (tunnel did not come up)"
    | "pair" :: _, "ok" :: _ => "ok"
    | "pair" :: _, "err" :: _ => "ok"   -- an honest key pair that hits a refusal is compared by the model run
    | "pair" :: _, _ => "fail key-mismatch"
    | ["kdf2", _, q1, i1, r1, q2, i2, r2], ["keys", k1, k2] =>
      if (q1, i1, r1) = (q2, i2, r2) then (if k1 = k2 then "ok" else "fail same-tunnel-different-keys")
      else if k1 = k2 then "fail distinct-tunnels-same-key" else "ok"
    | ["dh", priv, remote], ["ok", s] =>
      match key32 priv, key32 remote with
      | some priv, some remote =>
        if remote = zero32 ∨ s = hexOfBytes zero32 ∨ x25519 priv remote = zero32 then "fail degenerate-key-accepted" else "ok"
      | _, _ => "ok"
    | _, _ => "ok"

def main (args : List String) : IO Unit :=
  match args with
  | ["spec"] => runLines ({} : C04Hs.Spec) (fun st l => match l.splitOn "\t" with
      | [op, out] =>
        if (tokens op).head? = some "hs" then C04Hs.spec st (tokens op) (tokens out)
        else if (tokens op).head? = some "reset" then ({}, "ok")
        else (st, spec op out)
      | _ => (st, "bad-op"))
  | _ => runLines ({} : C04Hs.St) (fun st l =>
      match tokens l with
      | "hs" :: _ => C04Hs.step st (tokens l)
      | ["reset"] => ({}, "ok")
      | _ => (st, stepLine l))

end MM.Engine.C03
