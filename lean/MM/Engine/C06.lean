/-
  Line-protocol oracle for C06 (route announcement framing). Ops: see harness/main/eng_c06.go.
-/
import MM.Engine.Basic
import MM.Model.C06

namespace MM.Engine.C06
open MM MM.C05 MM.C06

def join (l : List String) : String := " ".intercalate l

/-- parse entry tokens up to "|" or the end -/
partial def parseEntries : List String → Option (List Entry × List String)
  | [] => some ([], [])
  | "|" :: r => some ([], r)
  | "c" :: ip :: ones :: m :: r => do
    let ip ← bytesOfHex ip
    let ones ← ones.toNat?
    let m ← m.toNat?
    let (es, r') ← parseEntries r
    pure (.cidr (if ip.length == 16 then 2 else 1) ones ip m :: es, r')
  | "d" :: p :: w :: m :: r => do
    let p ← bytesOfHex p
    let m ← m.toNat?
    let (es, r') ← parseEntries r
    pure (.domain p (w == "1") m :: es, r')
  | "f" :: k :: t :: m :: r => do
    let k ← bytesOfHex k
    let t ← bytesOfHex t
    let m ← m.toNat?
    let (es, r') ← parseEntries r
    pure (.forward k t m :: es, r')
  | _ => none

def bump (m : Nat) : Nat := (m + 1) % 65536

def bumpEntry : Entry → Entry
  | .cidr f p ip m => .cidr f p ip (bump m)
  | .domain p w m => .domain p w (bump m)
  | .forward k t m => .forward k t (bump m)
  | .agent id m => .agent id (bump m)

/-- how the harness prints a route held by the neighbour (metric as given) -/
def render (origin : Bytes) (e : Entry) : String :=
  let o8 := hexOfBytes (origin.take 4)
  match e with
  | .cidr _ plen ip m => s!"c:{o8}:{hexTok ip}/{plen}:{m}"
  | .domain p _ m => s!"d:{o8}:{hexTok p}:{m}"
  | .forward k t m => s!"f:{o8}:{hexTok k}:{hexTok t}:{m}"
  | .agent id m => s!"a:{o8}:{hexTok id}:{m}"

def sortStrs (l : List String) : List String := l.mergeSort (fun a b => decide (a ≤ b))

def dedup : List String → List String
  | a :: b :: r => if a == b then dedup (b :: r) else a :: dedup (b :: r)
  | l => l

def report (drops errs : Nat) (learned : List String) : String :=
  let l := dedup (sortStrs learned)
  s!"ok drops={drops} errs={errs} learned" ++ (if l.isEmpty then " " else " " ++ join l)

/-- neighbour B over a list of payloads A sent: drops, decode errors, stored routes -/
def observeWith (bumps : Entry → Entry) (payloads : List Bytes) : String :=
  let step := fun (acc : Nat × Nat × List String) (p : Bytes) =>
    let (d, e, l) := acc
    match deliver p with
    | none => (d + 1, e, l)
    | some q =>
      match decodeRouteAdvertise q with
      | none => (d, e + 1, l)
      | some a =>
        (d, e, l ++ (a.2.2.2.1.filterMap classify).map fun en => render a.1 (bumps en))
  let (d, e, l) := payloads.foldl step (0, 0, [])
  report d e l

def observe (payloads : List Bytes) : String := observeWith bumpEntry payloads

/-- Forwarded routes: the pinned code forwards the received metric unchanged, with
    fixes/C13-forward-metric.patch it forwards metric + 1; the neighbour adds one more. C06 is
    about the route SET, so both are admissible here (`anyof`). -/
def admissible (a b : String) : String := if a == b then a else s!"anyof {a} | {b}"

/-- B after an announcement followed by a withdrawal: what it learned minus the CIDR routes of
    the same origin whose network it was told to remove -/
def observeWithdraw (annPayloads wdPayloads : List Bytes) : String :=
  let stepA := fun (acc : Nat × Nat × List (Bytes × Entry)) (p : Bytes) =>
    let (d, e, l) := acc
    match deliver p with
    | none => (d + 1, e, l)
    | some q =>
      match decodeRouteAdvertise q with
      | none => (d, e + 1, l)
      | some a => (d, e, l ++ (a.2.2.2.1.filterMap classify).map fun en => (a.1, bumpEntry en))
  let (d1, e1, learned) := annPayloads.foldl stepA (0, 0, [])
  let stepW := fun (acc : Nat × Nat × List (Bytes × Nat × Bytes)) (p : Bytes) =>
    let (d, e, l) := acc
    match deliver p with
    | none => (d + 1, e, l)
    | some q =>
      match decodeRouteWithdraw q with
      | none => (d, e + 1, l)
      | some w => (d, e, l ++ (w.2.2.1.filterMap toIPNet).filterMap fun en =>
          match en with
          | .cidr _ plen ip _ => some (w.1, plen, ip)
          | _ => none)
  let (d2, e2, removed) := wdPayloads.foldl stepW (0, 0, [])
  let kept := learned.filter fun (o, en) =>
    match en with
    | .cidr _ plen ip _ => !(removed.contains (o, plen, ip))
    | _ => true
  report (d1 + d2) (e1 + e2) (kept.map fun (o, en) => render o en)

structure Group where
  origin : Bytes
  name : Bytes
  entries : List Entry

partial def parseGroups : List String → Option (List Group)
  | [] => some []
  | o :: n :: r => do
    let origin ← bytesOfHex o
    let name ← bytesOfHex n
    let (es, r') ← parseEntries r
    let gs ← parseGroups r'
    pure ({ origin, name, entries := es } :: gs)
  | _ => none

/-- what A sends on `SendFullTable`: its own group (if it originates anything) and one group
    per remote origin with the routes as A stores them (metric + 1, presence route included). -/
def replayPayloads (self name : Bytes) (localE : List Entry) (groups : List Group) : List Bytes :=
  let own := if localE.isEmpty then []
    else advertise (replayBase self self name []) 0 (localE.map toRoute)
  let remote := groups.map fun g =>
    advertise (replayBase self g.origin g.name [g.origin]) 0
      ((g.entries ++ [Entry.agent g.origin 0]).map fun e => toRoute (bumpEntry e))
  own ++ remote.flatten

def step (line : String) : String :=
  match tokens line with
  | "announce" :: s :: n :: r =>
    match bytesOfHex s, bytesOfHex n, parseEntries r with
    | some self, some name, some (es, []) => observe (announceLocal self name 0 es)
    | _, _, _ => "bad-op"
  | "withdraw" :: s :: n :: r =>
    match bytesOfHex s, bytesOfHex n, parseEntries r with
    | some self, some name, some (es, []) =>
      observeWithdraw (announceLocal self name 0 es) (withdrawLocal self es.length (es.filter isCidr))
    | _, _, _ => "bad-op"
  | "replay" :: s :: n :: r =>
    match bytesOfHex s, bytesOfHex n, parseEntries r with
    | some self, some name, some (es, rest) =>
      match parseGroups rest with
      | some gs => observe (replayPayloads self name es gs)
      | none => "bad-op"
    | _, _, _ => "bad-op"
  | "forward" :: s :: r =>
    match bytesOfHex s, routeAdvertiseC.ofToks r with
    | some self, some (a, []) =>
      admissible (observe [forwardAdv self a]) (observeWith (bumpEntry ∘ bumpEntry) [forwardAdv self a])
    | _, _ => "bad-op"
  | _ => "bad-op"

def field (implOut key : String) : String :=
  match (tokens implOut).find? (·.startsWith key) with
  | some t => (t.drop key.length).toString
  | none => "?"

/-- Executable statement of C06 on one implementation answer: the neighbour's tables hold
    exactly the originated / stored / forwarded routes (nothing dropped, nothing undecodable,
    no different set).  The expected set is computed from the op alone, not from the codec model. -/
def verdict2 (kind : String) (expected expectedAlt : List String) (implOut : String) : String :=
  if implOut.startsWith "panic" || implOut.startsWith "crash" then s!"fail {kind}-crashed"
  else if field implOut "drops=" != "0" then s!"fail {kind}-dropped"
  else if field implOut "errs=" != "0" then s!"fail {kind}-undecodable"
  else if implOut.trimAscii.toString == (report 0 0 expected).trimAscii.toString then "ok"
  else if implOut.trimAscii.toString == (report 0 0 expectedAlt).trimAscii.toString then "ok"
  else s!"fail {kind}-set-differs"

def verdict (kind : String) (expected : List String) (implOut : String) : String :=
  verdict2 kind expected expected implOut

def spec (line implOut : String) : String :=
  match tokens line with
  | "announce" :: s :: n :: r =>
    match bytesOfHex s, bytesOfHex n, parseEntries r with
    | some self, some name, some (es, []) =>
      if es.all entryWF && name.length < 256 then
        verdict "announce" ((es ++ [Entry.agent self 0]).map fun e => render self (bumpEntry e)) implOut
      else "ok"
    | _, _, _ => "bad-op"
  | "withdraw" :: s :: n :: r =>
    -- after announce + withdraw the neighbour holds the non-CIDR routes and the presence route only
    match bytesOfHex s, bytesOfHex n, parseEntries r with
    | some self, some name, some (es, []) =>
      if es.all entryWF && name.length < 256 then
        verdict "withdraw" (((es.filter fun e => !isCidr e) ++ [Entry.agent self 0]).map fun e =>
          render self (bumpEntry e)) implOut
      else "ok"
    | _, _, _ => "bad-op"
  | "replay" :: s :: n :: r =>
    match bytesOfHex s, bytesOfHex n, parseEntries r with
    | some self, some name, some (es, rest) =>
      match parseGroups rest with
      | some gs =>
        if es.all entryWF && name.length < 256 && gs.all (fun g => g.entries.all entryWF && g.name.length < 256) then
          verdict "replay"
            (es.map (fun e => render self (bumpEntry e)) ++
             (gs.map fun g => (g.entries ++ [Entry.agent g.origin 0]).map fun e =>
                render g.origin (bumpEntry (bumpEntry e))).flatten) implOut
        else "ok"
      | none => "bad-op"
    | _, _, _ => "bad-op"
  | "forward" :: _ :: r =>
    match routeAdvertiseC.ofToks r with
    | some (a, []) =>
      let plainPathLen := if a.2.2.2.2.1.1 then 0 else
        match ids.dec a.2.2.2.2.1.2 with
        | some (p, _) => p.length
        | none => 0
      if routeAdvertiseC.wf a && decide (a.2.2.2.2.2.length < 255) && decide (plainPathLen < 255) then
        verdict2 "forward" ((a.2.2.2.1.filterMap classify).map fun e => render a.1 (bumpEntry e))
          ((a.2.2.2.1.filterMap classify).map fun e => render a.1 (bumpEntry (bumpEntry e))) implOut
      else "ok"
    | _ => "bad-op"
  | _ => "ok"

def main (args : List String) : IO Unit :=
  match args with
  | ["spec"] => runPure (fun l => match l.splitOn "\t" with
      | [op, out] => spec op out.trimAscii.toString
      | _ => "bad-op")
  | _ => runPure step

end MM.Engine.C06
