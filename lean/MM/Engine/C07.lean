import MM.Engine.Basic
import MM.Model.C07

/-
  Engine c07.  Op:  w <path> <n> <cap> <e>   (see harness/main/eng_c07.go)
  Default mode: the model's answer, computed on lengths with `sendLF` (proved equal to the
  byte-level model by `C07_model_lens` / `C07_send_lens`).
  `spec` mode: the property statement evaluated on the implementation's own answer.
-/
namespace MM.Engine.C07
open MM MM.C07

def rleGo : List Nat → List (Nat × Nat) → List (Nat × Nat)
  | [], acc => acc.reverse
  | x :: xs, (y, k) :: acc => if x = y then rleGo xs ((y, k + 1) :: acc) else rleGo xs ((x, 1) :: (y, k) :: acc)
  | x :: xs, [] => rleGo xs [(x, 1)]

def rle (xs : List Nat) : String :=
  if xs.isEmpty then "-" else
    ",".intercalate ((rleGo xs []).map fun (v, k) => if k = 1 then toString v else s!"{v}x{k}")

/-- sizes of the pieces the source of the op hands to the path's sender -/
def pieceLens (name : String) (p : Path) (n cap : Nat) : List Nat :=
  if name = "tcp" ∨ name = "shin" then
    -- the application calls Write with / sends STDIN messages of at most `cap` bytes;
    -- every Write / message is chunked on its own
    if cap = 0 then chunkLens p.bufSize n else (chunkLens cap n).flatMap (chunkLens p.bufSize)
  else if name = "fdown" then chunkLens p.bufSize n   -- a regular file fills the buffer
  else chunkLens (if cap = 0 then p.bufSize else min p.bufSize cap) n

def firstFalse : List (Nat × Bool) → Nat → Option Nat
  | [], _ => none
  | (_, b) :: fs, i => if b then firstFalse fs (i + 1) else some i

def answer (name : String) (p : Path) (n cap : Nat) : String :=
  let fs := sendLF cfg p (pieceLens name p n cap)
  let lens := fs.map (·.1)
  let mx := lens.foldl max 0
  let rx := match firstFalse fs 0 with
    | some i => s!"openfail@{i}"
    | none =>
      let got := (lens.map fun l => l - cfg.overhead - p.hdr).sum
      if got = n then "equal" else s!"short:{got}"
  s!"ok data={lens.length} max={mx} lens={rle lens} ctl=ok rx={rx}"

def parseOp (line : String) : Option (String × Path × Nat × Nat) :=
  match tokens line with
  | ["w", name, n, cap, _] =>
    match pathOfName name, n.toNat?, cap.toNat? with
    | some p, some n, some cap => if name = "shin" ∧ cap = 0 then none else some (name, p, n, cap)
    | _, _, _ => none
  | _ => none

def step (line : String) : String :=
  match parseOp line with
  | some (name, p, n, cap) => answer name p n cap
  | none => "bad-op"

/-! ### spec: the property statement on the implementation's own answer -/

/-- the limit named by the property text -/
def limit : Nat := 16384

def field (key : String) (toks : List String) : Option String :=
  (toks.find? (·.startsWith (key ++ "="))).map (fun t => (t.drop (key.length + 1)).toString)

def parseRle (s : String) : Option (List (Nat × Nat)) :=
  if s = "-" then some [] else
    (s.splitOn ",").mapM fun t =>
      match t.splitOn "x" with
      | [v] => v.toNat?.map (·, 1)
      | [v, k] => match v.toNat?, k.toNat? with
        | some v, some k => some (v, k)
        | _, _ => none
      | _ => none

def spec (line : String) (implOut : String) : String :=
  match parseOp line with
  | none => "ok"
  | some (name, _, _, _) =>
    let toks := tokens implOut
    if toks.head? ≠ some "ok" then "fail crashed" else
    match field "data" toks, field "max" toks, field "lens" toks, field "ctl" toks, field "rx" toks with
    | some d, some m, some l, some ctl, some rx =>
      match d.toNat?, m.toNat?, parseRle l with
      | some d, some m, some runs =>
        let cnt := (runs.map (·.2)).sum
        let mx := (runs.map (·.1)).foldl max 0
        if cnt ≠ d ∨ mx ≠ m then "fail inconsistent-report"
        -- the path's real far-end receiver disagreed with the frame-by-frame verdict
        else if (field "realrx" toks).isSome then "fail far-end-receiver-differs"
        -- "Every frame an agent writes to a peer carries at most 16,384 payload bytes."
        else if mx > limit then "fail frame-too-large"
        else if ctl ≠ "ok" then "fail frame-too-large-control"
        -- "… arrives at the far end as the same bytes in the same order, however it was split"
        else if rx = "equal" then "ok"
        else if rx.startsWith "openfail" then
          (if name.startsWith "sh" then "fail shell-frame-split" else "fail frame-split-unopenable")
        else if rx.startsWith "short" then
          (if name = "shin" then "fail shell-stdin-refused" else "fail bytes-lost")
        else "fail bytes-differ"
      | _, _, _ => "fail inconsistent-report"
    | _, _, _, _, _ => "fail inconsistent-report"

def main (args : List String) : IO Unit :=
  match args with
  | ["spec"] => runPure (fun l => match l.splitOn "\t" with
      | [op, out] => spec op out
      | _ => "bad-op")
  | _ => runPure step

end MM.Engine.C07
