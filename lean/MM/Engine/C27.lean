import MM.Engine.Basic
import MM.Model.C27

namespace MM.Engine.C27
open MM MM.C27

/-- Injective coding of a component / content token as a positive number; ".." is 0. -/
def encName (s : String) : Nat :=
  if s == ".." then 0 else s.toUTF8.toList.foldl (fun acc b => acc * 256 + b.toNat) 1

partial def decBytes (n : Nat) (acc : List UInt8) : List UInt8 :=
  if n ≤ 1 then acc else decBytes (n / 256) (UInt8.ofNat (n % 256) :: acc)

def decName (n : Nat) : String :=
  if n = 0 then ".." else
    match String.fromUTF8? (ByteArray.mk (decBytes n []).toArray) with
    | some s => s
    | none => "?"

/-- "a/./b//../c" ↦ components (drops "" and "."), absolute flag. -/
def parseTarget (s : String) : Target :=
  { abs := s.startsWith "/", comps := ((s.splitOn "/").filter (fun c => c ≠ "" ∧ c ≠ ".")).map encName }

def parsePath (s : String) : Path := (parseTarget s).comps

def showPath (p : Path) : String := "/".intercalate (p.map decName)

def showTarget (t : Target) : String :=
  let body := showPath t.comps
  if t.abs then "/" ++ body else if body == "" then "." else body

def fuel : Nat := 40

structure S where
  fs : FS := { ents := [], data := [], next := 1 }

def pathLt (a b : String) : Bool := a < b

/-- Canonical listing: every entry sorted by path string; a file shows the index (in this listing) of
    the first path with the same inode, and its content token. -/
def snapshot (fs : FS) : String :=
  let es := (fs.ents.map (fun e => (showPath e.1, e.2))).toArray.qsort (fun a b => pathLt a.1 b.1) |>.toList
  let firstIdx (i : Nat) : Nat :=
    (es.findIdx? (fun e => match e.2 with | .file j => j == i | _ => false)).getD 0
  let item (e : String × Kind) : String :=
    match e.2 with
    | .dir => e.1 ++ "=d"
    | .file i => e.1 ++ "=f" ++ toString (firstIdx i) ++ ":" ++ (match fs.content i with | some c => decName c | none => "?")
    | .sym t => e.1 ++ "=l:" ++ showTarget t
  if es.isEmpty then "-" else ",".intercalate (es.map item)

def parseEntry (tok : String) : Option Entry :=
  match tok.splitOn ":" with
  | ["d", n] => some ⟨parseTarget n, .dir⟩
  | ["f", n, c] => some ⟨parseTarget n, .reg (encName c)⟩
  | ["s", n, t] => some ⟨parseTarget n, .sym (parseTarget t)⟩
  | ["h", n, t] => some ⟨parseTarget n, .hard (parseTarget t)⟩
  | ["o", n] => some ⟨parseTarget n, .other⟩
  | ["c", n] => some ⟨parseTarget n, .other⟩
  | ["b", n] => some ⟨parseTarget n, .other⟩
  | ["F", n, c] => some ⟨parseTarget n, .reg (encName c)⟩
  | ["S", n, t] => some ⟨parseTarget n, .sym (parseTarget t)⟩
  | _ => none

def okStr (b : Bool) : String := if b then "ok" else "err"

def step (s : S) (line : String) : S × String :=
  match tokens line with
  | ["reset"] => ({}, "ok")
  | ["pre", "dir", p] =>
    let (fs, ok) := mkdir s.fs fuel (parsePath p)
    ({ fs := fs }, okStr ok)
  | ["pre", "file", p, c] =>
    let (fs, ok) := openTrunc s.fs fuel (parsePath p) (encName c)
    ({ fs := fs }, okStr ok)
  | ["pre", "sym", p, t] =>
    let (fs, ok) := symlink s.fs fuel (parseTarget t) (parsePath p)
    ({ fs := fs }, okStr ok)
  | ["pre", "hard", p, old] =>
    let (fs, ok) := link s.fs fuel (parsePath old) (parsePath p)
    ({ fs := fs }, okStr ok)
  | ["snap"] => (s, snapshot s.fs)
  | "untarraw" :: dest :: _ =>
    -- a malformed stream: only "the call returns and nothing outside the destination changed" is predicted
    let d := parsePath dest
    -- (the destination directory is created before the stream is looked at)
    let fs := (mkdirAll s.fs fuel d).1
    ({ fs := fs }, "done " ++ snapshot { fs with ents := fs.ents.filter (fun e => !(d.isPrefixOf e.1 && e.1 != d)) })
  | op :: dest :: ents =>
    -- "untarh" / "untarhp": health.extractTarWithFallback (gzip / plain tar), which is the same extractor
    if !(op == "untar" || op == "untarh" || op == "untarhp") then (s, "bad-op") else
    match ents.mapM parseEntry with
    | some es =>
      let (fs, ok) := untar true fuel (parsePath dest) s.fs es
      ({ fs := fs }, okStr ok ++ " " ++ snapshot fs)
    | none => (s, "bad-op")
  | _ => (s, "bad-op")

/-! `spec`: the statement evaluated on the implementation's own snapshots — everything outside the
destination is the same before and after the extraction, and the destination is still a directory. -/

structure SpecS where
  before : String := "-"

def items (snap : String) : List (String × String) :=
  if snap == "-" then [] else
    (snap.splitOn ",").map (fun it => match it.splitOn "=" with
      | p :: rest => (p, "=".intercalate rest)
      | [] => (it, ""))

/-- drop the inode-class index of a file description: "f12:tok" ↦ "f:tok" -/
def normDesc (d : String) : String :=
  if d.startsWith "f" then
    match d.splitOn ":" with
    | _ :: rest => "f:" ++ ":".intercalate rest
    | [] => d
  else d

def inside (dest p : String) : Bool := p == dest || p.startsWith (dest ++ "/")

def outsideOf (dest snap : String) : List (String × String) :=
  ((items snap).filter (fun it => !inside dest it.1)).map (fun it => (it.1, normDesc it.2))

def spec (s : SpecS) (op : String) (implOut : String) : SpecS × String :=
  match tokens op, tokens implOut with
  | ["snap"], [snap] => ({ before := snap }, "ok")
  | ["reset"], _ => ({}, "ok")
  | _, "panic" :: _ => (s, "fail crashed")
  | op :: dest :: _, [_, after] =>
    if !(op == "untar" || op == "untarh" || op == "untarhp" || op == "untarraw") then (s, "ok") else
    let d := showPath (parsePath dest)
    if after.startsWith "ESCAPED" then (s, "fail outside-changed escaped-sandbox")
    else if outsideOf d s.before != outsideOf d after then (s, "fail outside-changed")
    else if (items s.before).any (fun it => it.1 == d && it.2 == "d") && !(items after).any (fun it => it.1 == d && it.2 == "d") then
      (s, "fail destination-replaced")
    else ({ before := after }, "ok")
  | _, _ => (s, "ok")

def main (args : List String) : IO Unit :=
  match args with
  | ["spec"] => runLines ({} : SpecS) (fun s l => match l.splitOn "\t" with
      | [op, out] => spec s op out
      | _ => (s, "bad-op"))
  | _ => runLines ({} : S) step

end MM.Engine.C27
