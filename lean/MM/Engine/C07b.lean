import MM.Engine.Basic
import MM.Model.C07

/-
  Engine c07b (see harness/main/eng_c07b.go): the write choke point (`FrameWriter.Write`,
  `Connection.WriteFrame`), single messages that a sender puts into one frame without chunking,
  and the receive path with a stalled reader.
  Model: `Frame.Encode` refuses payloads over `maxPayload` (C07_frame_le / C07_no_refusal are about
  senders built on it); a stream is a FIFO of the frames pushed into it, whatever the reader's pace.
-/
namespace MM.Engine.C07b
open MM MM.C07

def limit : Nat := 16384
def headerSize : Nat := 14

def step (line : String) : String :=
  match tokens line with
  | [op, n] =>
    if op = "fw" ∨ op = "wf" ∨ op = "conn" then
      match n.toNat? with
      | some n => if n > cfg.maxPayload then "err toolarge wrote=0" else s!"ok wrote={headerSize + n} decoded={n}"
      | none => "bad-op"
    else "bad-op"
  | ["msg", k, n] =>
    if (k = "shmsg" ∨ k = "ctrlreq" ∨ k = "ctrlresp" ∨ k = "shopen" ∨ k = "fupmeta" ∨ k = "fdownmeta")
        ∧ n.toNat?.isSome then "ok big=0 parse=ok" else "bad-op"
  | ["conc", n, cp] =>
    -- seal+send of a message is one atomic step (C07_shell_seal_send_atomic): wire order = nonce order
    if n.toNat?.isSome ∧ cp.toNat?.isSome then "ok rejected=0 stdout=equal stderr=equal" else "bad-op"
  | "nf" :: p :: sizes =>
    -- a tunnel delivers what was written whether or not a FIN follows
    if (p = "exit" ∨ p = "fwd" ∨ p = "mesh" ∨ p = "shin") ∧ !sizes.isEmpty then
      match sizes.mapM (·.toNat?) with
      | some ks => s!"ok delivered {ks.sum}"
      | none => "bad-op"
    else "bad-op"
  | ["stall", n, ms] =>
    match n.toNat?, ms.toNat? with
    | some n, some _ => s!"ok frames={(chunkLens exit.bufSize n).length} rx=equal"
    | _, _ => "bad-op"
  | _ => "bad-op"

def field (key : String) (toks : List String) : Option String :=
  (toks.find? (·.startsWith (key ++ "="))).map (fun t => (t.drop (key.length + 1)).toString)

/-- The property statement on the implementation's own answer:
    * whatever reaches the wire is a frame the peer accepts, with at most 16384 payload bytes —
      through `FrameWriter.Write`, `WriteFrame`, `Connection.WriteFrame`, and on every sender that
      puts one message into one frame;
    * bytes pushed into a stream come out of `Read` as the same bytes in the same order, however
      long the reader stalls. -/
def spec (line : String) (implOut : String) : String :=
  let toks := tokens implOut
  if implOut.startsWith "panic" || implOut.startsWith "crash" then "fail crashed"
  else match tokens line with
  | [op, n] =>
    if op = "fw" ∨ op = "wf" ∨ op = "conn" then
      match n.toNat?, field "wrote" toks, field "decoded" toks with
      | some n, some w, d =>
        if w = "0" then (if n ≤ limit then "fail writer-refused-valid-frame" else "ok")
        else match d.bind (·.toNat?) with
          | some dn =>
            if dn > limit then "fail writer-oversize-frame"
            else if dn ≠ n then "fail writer-payload-differs"
            else "ok"
          | none => "fail writer-oversize-frame"      -- written bytes the peer's FrameReader rejects
      | _, _, _ => "fail inconsistent-report"
    else "ok"
  | ["msg", _, _] =>
    match field "big" toks, field "parse" toks with
    | some b, some p =>
      if b ≠ "0" then "fail oversize-frame-written"
      else if p ≠ "ok" then "fail wire-not-frames"
      else "ok"
    | _, _ => "fail inconsistent-report"
  | ["conc", _, _] =>
    if implOut == "ok rejected=0 stdout=equal stderr=equal" then "ok"
    else if field "rejected" toks != some "0" then "fail shell-frames-out-of-nonce-order"
    else "fail shell-concurrent-output-lost"
  | "nf" :: _ :: _ =>
    if implOut.startsWith "ok delivered" then (if implOut == step line then "ok" else "fail delivered-count-differs")
    else if implOut.startsWith "ok pending" then "fail undelivered-without-fin"
    else if implOut.startsWith "ok differ" then "fail bytes-differ-without-fin"
    else "fail " ++ (implOut.replace " " "-")
  | ["stall", _, _] =>
    match field "rx" toks with
    | some rx =>
      if rx = "equal" then "ok"
      else if rx.startsWith "short" || rx.startsWith "differ" then "fail stalled-reader-bytes-lost"
      else "fail stalled-reader-" ++ rx
    | none => "fail inconsistent-report"
  | _ => "ok"

def main (args : List String) : IO Unit :=
  match args with
  | ["spec"] => runPure (fun l => match l.splitOn "\t" with
      | [op, out] => spec op out.trimAscii.toString
      | _ => "bad-op")
  | _ => runPure step

end MM.Engine.C07b
