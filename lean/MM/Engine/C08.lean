import MM.Engine.Basic
import MM.Model.C08

/-!
  Line-protocol oracle for `routing.Table` (C08; also used by C10).

    reset <self>
    add <ip> <ones> <bits> <nextHop> <origin> <metric> <seq> <path>     -> true|false ; dump
    rm <ip> <ones> <bits> <origin>                                      -> true|false ; dump
    disc <peer>                                                         -> <removed> ; dump
    age <n>                                                             -> ok ; dump
    clean <maxAge>                                                      -> <removed> ; dump
    look <ip>                                                           -> none | route <entry>
    mlook <ip>                  the same through Manager.Lookup (what the agent's dial path calls)
    mnext <ip>                  Manager.LookupNextHop                   -> none | next <peer>
    mwd <origin> <ip> <ones> <bits>   mdisc <peer>   mclean <maxAge>    the removals through Manager.ProcessRouteWithdraw /
                                HandlePeerDisconnect / CleanupStaleRoutes (same answers as rm / disc / clean)
    get <ip> <ones> <bits>                                              -> none | route <entry>
    lookall <ip>                                                        -> routes <entry>*   (Table.LookupAll)
    has <ip> <ones> <bits> <origin>                                     -> true|false
    size                                                                -> size <keys> <routes>
    clear                                                               -> ok ; empty
    race <n> | <op> | <op> …                                            -> race ; dump
        every listed mutating op is executed by <n> goroutines, all released at once on the real
        table; the model answers with the table of every serial order (`anyof` when they differ)

  <ip> hex bytes, <path> `-` or `a.b.c`; dump = groups sorted by label, `G<label> E<entry> E<entry> …`,
  entry = `ip/ones/bits,nextHop,origin,metric,seq,path,age`.
-/
namespace MM.Engine.C08
open MM MM.C08 MM.Engine

def natTok (s : String) : Nat := s.toNat?.getD 0

def parsePath (s : String) : List Nat :=
  if s = "-" then [] else (s.splitOn ".").map natTok

def showPath (p : List Nat) : String :=
  if p.isEmpty then "-" else ".".intercalate (p.map toString)

/-- `net.IPNet{IP: ip, Mask: net.CIDRMask(ones, bits)}`; CIDRMask is nil unless bits ∈ {32,128}, ones ≤ bits -/
def mkNet (ip : Bytes) (ones bits : Nat) : IPNet :=
  if (bits = 32 ∨ bits = 128) ∧ ones ≤ bits then ⟨ip.length, unbe ip, ones, bits⟩
  else ⟨ip.length, unbe ip, 0, 0⟩

def parseNet (ip ones bits : String) : Option IPNet :=
  (bytesOfHex ip).map fun b => mkNet b (natTok ones) (natTok bits)

def parseIP (ip : String) : Option IPAddr :=
  (bytesOfHex ip).map fun b => ⟨b.length, unbe b⟩

def showNet (n : IPNet) : String :=
  s!"{hexTok (beN n.len n.addr)}/{n.ones}/{n.mbits}"

def showEntry (now : Nat) (e : Entry IPNet) : String :=
  s!"E{showNet e.pay},{e.nextHop},{e.origin},{e.metric},{e.seq},{showPath e.path},{now - e.born}"

def showKey : CKey → String
  | none => "nil"
  | some (b, a, o) => s!"{b}:{hexTok (beN (b / 8) a)}:{o}"

/-- insertion sort of rendered groups by label -/
def insertBy (x : String × String) : List (String × String) → List (String × String)
  | [] => [x]
  | y :: ys => if x.1 < y.1 then x :: y :: ys else y :: insertBy x ys

/-- maximal runs of consecutive entries with one metric -/
def runsOf {P : Type} (g : Group P) : List (Group P) :=
  g.foldr (fun e acc => match acc with
    | (x :: xs) :: rest => if x.metric == e.metric then (e :: x :: xs) :: rest else [e] :: acc
    | _ => [e] :: acc) []

def sortStrs (l : List String) : List String := (l.toArray.qsort (· < ·)).toList

/-- The tokens of a slice, every run of equal metric sorted by text: `sort.Slice` is not stable, so
    the order inside a run is unspecified (and for more than 12 entries actually differs from the
    stable order); the order of the metrics is kept as it is. Both sides print slices this way. -/
def renderGroup {P : Type} (showE : Entry P → String) (g : Group P) : List String :=
  (runsOf g).flatMap fun run => sortStrs (run.map showE)

/-- answer of a "first of the slice" lookup: any entry of the first run -/
def showHead {P : Type} (showE : Entry P → String) (g : Group P) : String :=
  match runsOf g with
  | [] => "none"
  | run :: _ =>
    match sortStrs (run.map showE) with
    | [x] => "route " ++ x
    | xs => "anyof " ++ " | ".intercalate (xs.map ("route " ++ ·))

def dumpWith {K P : Type} (showK : K → String) (showE : Nat → Entry P → String) (now : Nat)
    (t : KTable K P) : String :=
  let gs := t.map fun kg => (showK kg.1, " ".intercalate (("G" ++ showK kg.1) :: renderGroup (showE now) kg.2))
  let sorted := gs.foldl (fun acc x => insertBy x acc) []
  if sorted.isEmpty then "empty" else " ".intercalate (sorted.map (·.2))

def dump (now : Nat) (t : CTable) : String := dumpWith showKey showEntry now t

def countRoutes {K P : Type} (t : KTable K P) : Nat := (t.map (·.2.length)).foldl (· + ·) 0

structure St where
  self : Nat
  s : State CKey IPNet

def St.init : St := ⟨0, ⟨0, []⟩⟩

def showOpt (now : Nat) : Option (Entry IPNet) → String
  | none => "none"
  | some e => "route " ++ showEntry now e

def step (st : St) (line : String) : St × String :=
  let now := st.s.now
  let t := st.s.tab
  match tokens line with
  | ["reset", self] => (⟨natTok self, ⟨0, []⟩⟩, "ok")
  | ["add", ip, ones, bits, nh, orig, metric, seq, path] =>
    match parseNet ip ones bits with
    | none => (st, "bad-op")
    | some n =>
      let e : Entry IPNet := ⟨n, natTok nh, natTok orig, natTok metric, natTok seq, parsePath path, now⟩
      let (t', ok) := addRoute cidrCfg st.self t e
      ({ st with s := ⟨now, t'⟩ }, s!"{ok} ; {dump now t'}")
  | ["rm", ip, ones, bits, orig] =>
    match parseNet ip ones bits with
    | none => (st, "bad-op")
    | some n =>
      let (t', ok) := removeRoute t (cidrKey n) (natTok orig)
      ({ st with s := ⟨now, t'⟩ }, s!"{ok} ; {dump now t'}")
  | ["disc", peer] =>
    let t' := removeFromPeer t (natTok peer)
    ({ st with s := ⟨now, t'⟩ }, s!"{countRoutes t - countRoutes t'} ; {dump now t'}")
  | ["age", n] =>
    let now' := now + natTok n
    ({ st with s := ⟨now', t⟩ }, s!"ok ; {dump now' t}")
  | ["clean", a] =>
    let t' := cleanupStale st.self now (natTok a) t
    ({ st with s := ⟨now, t'⟩ }, s!"{countRoutes t - countRoutes t'} ; {dump now t'}")
  | ["look", ip] =>
    match parseIP ip with
    | none => (st, "bad-op")
    | some a =>
      -- the answer is the first entry of the winning slice: any entry of its first run
      match lookup t a with
      | none => (st, "none")
      | some r => (st, showHead (showEntry now) (get t (eff r.pay)))
  | ["get", ip, ones, bits] =>
    match parseNet ip ones bits with
    | none => (st, "bad-op")
    | some n => (st, showHead (showEntry now) (get t (cidrKey n)))
  | ["lookall", ip] =>
    match parseIP ip with
    | none => (st, "bad-op")
    | some a => (st, " ".intercalate ("routes" :: (lookupAll t a).map (showEntry now)))
  | ["has", ip, ones, bits, orig] =>
    match parseNet ip ones bits with
    | none => (st, "bad-op")
    | some n => (st, toString (hasRoute t (cidrKey n) (natTok orig)))
  | ["size"] => (st, s!"size {size t} {totalRoutes t}")
  | ["clear"] => ({ st with s := ⟨now, []⟩ }, "ok ; empty")
  | ["next", ip] =>
    match parseIP ip with
    | none => (st, "bad-op")
    | some a =>
      match lookup t a with
      | none => (st, "none")
      | some r =>
        -- next hop of the first entry of the winning slice: of any entry of its first run
        match runsOf (get t (eff r.pay)) with
        | [] => (st, "none")
        | run :: _ =>
          match sortStrs ((run.map fun e => s!"next {e.nextHop}").eraseDups) with
          | [x] => (st, x)
          | xs => (st, "anyof " ++ " | ".intercalate xs)
  | _ => (st, "bad-op")

/-! ### concurrent ops: every serial order -/

/-- all distinct orders of a multiset of lines (`fuel` ≥ length) -/
def orders : Nat → List String → List (List String)
  | 0, _ => [[]]
  | _, [] => [[]]
  | fuel + 1, l => l.eraseDups.flatMap fun x => (orders fuel (l.erase x)).map (x :: ·)

/-- `race <n> | op | op …` → the ops, each `n` times -/
def raceOps (line : String) : List String :=
  match line.splitOn " | " with
  | hd :: ops =>
    let n := match tokens hd with
      | [_, k] => natTok k
      | _ => 1
    ops.flatMap fun o => List.replicate n o.trimAscii.toString
  | [] => []

def dumpPart (out : String) : String :=
  match out.splitOn " ; " with
  | [_, d] => d
  | _ => "?"

/-- run a `race` line through `step` in every serial order; distinct final tables -/
def raceOutcomes {σ : Type} (step : σ → String → σ × String) (st : σ) (line : String) :
    List (σ × String) :=
  let ops := raceOps line
  let all := (orders ops.length ops).map fun ord =>
    ord.foldl (fun (acc : σ × String) l => let r := step acc.1 l; (r.1, dumpPart r.2)) (st, "?")
  all.foldl (fun acc x => if acc.any (·.2 == x.2) then acc else acc ++ [x]) []

def raceRun {σ : Type} (step : σ → String → σ × String) (st : σ) (line : String) : σ × String :=
  match raceOutcomes step st line with
  | [] => (st, "bad-op")
  | [(s, d)] => (s, "race ; " ++ d)
  | (s, d) :: rest => (s, "anyof " ++ " | ".intercalate (((s, d) :: rest).map ("race ; " ++ ·.2)))

/-- `mlook` (Manager.Lookup) is the table lookup -/
def unalias (line : String) : String :=
  match tokens line with
  | ["mlook", ip] => s!"look {ip}"
  | ["mnext", ip] => s!"next {ip}"
  | ["mwd", orig, ip, ones, bits] => s!"rm {ip} {ones} {bits} {orig}"
  | ["mdisc", peer] => s!"disc {peer}"
  | ["mclean", a] => s!"clean {a}"
  | _ => line

/-- `step` plus the `race` op -/
def stepR (st : St) (line : String) : St × String :=
  if line.trimAscii.toString.startsWith "race" then raceRun step st line else step st (unalias line)

/-- the alternatives of a model answer -/
def alternatives (expected : String) : List String :=
  if expected.startsWith "anyof " then ((expected.drop 6).toString.splitOn " | ").map (·.trimAscii.toString)
  else [expected]

/-! ### reading the implementation's dumps back -/

/-- rebuild a table from the tokens of a dump: `G…` opens a slice, `E…` adds an entry to it;
    ages are turned back into `born` relative to `now` -/
def rebuild {K P : Type} (keyOf : P → K) (parseE : String → Option (Entry P)) (now : Nat)
    (toks : List String) : KTable K P :=
  let groups : List (List (Entry P)) := toks.foldl (fun acc tok =>
    if tok.startsWith "G" then acc ++ [[]]
    else match parseE tok, acc.reverse with
      | some e, last :: before => before.reverse ++ [last ++ [{ e with born := now - e.born }]]
      | _, _ => acc) []
  groups.filterMap fun g => match g with
    | [] => none
    | e :: _ => some (keyOf e.pay, g)

def dumpToks (out : String) : List String :=
  match out.splitOn " ; " with
  | [_, d] => tokens d
  | _ => []

def baseNow : Nat := 100000

/-- the slices of a dump as lists of entry tokens -/
def dumpGroups (toks : List String) : List (List String) :=
  (toks.foldl (fun (acc : List (List String)) tok =>
    if tok.startsWith "G" then [] :: acc
    else match acc with
      | g :: rest => (g ++ [tok]) :: rest
      | [] => [[tok]]) []).reverse

/-- the per-slice part of the invariant on a printed table: one entry per slot, metric-sorted -/
def wfTag (byHop : Bool) (toks : List String) : Option String :=
  let gs := dumpGroups toks
  let slot (tok : String) : List String :=
    let f := tok.splitOn ","
    if byHop then (f.drop 1).take 2 else (f.drop 2).take 1
  let metric (tok : String) : Nat := natTok (((tok.splitOn ",").drop 3).head?.getD "0")
  if gs.any (fun g => (g.map slot).eraseDups.length != g.length) then some "race-duplicate-origin"
  else if gs.any (fun g => !(g.zip (g.drop 1)).all (fun ab => decide (metric ab.1 ≤ metric ab.2))) then
    some "race-unsorted"
  else none

/-- verdict on a `race` answer: well-formed and equal to the table of some serial order -/
def raceVerdict (byHop : Bool) (expected impl : String) : String :=
  match wfTag byHop (dumpToks impl) with
  | some tag => "fail " ++ tag
  | none => if (alternatives expected).contains impl.trimAscii.toString then "ok" else "fail race-not-serializable"

/-! ### `spec`: the statement of C08 evaluated on the implementation's own answers -/

/-- parse `E<ip>/<ones>/<bits>,<nh>,<or>,<metric>,<seq>,<path>,<age>` (the age lands in `born`) -/
def parseEntry (tok : String) : Option (Entry IPNet) :=
  if !tok.startsWith "E" then none else
  match (tok.drop 1).toString.splitOn "," with
  | [net, nh, orig, metric, seq, path, age] =>
    match net.splitOn "/" with
    | [ip, ones, bits] =>
      (bytesOfHex ip).map fun b =>
        ⟨⟨b.length, unbe b, natTok ones, natTok bits⟩, natTok nh, natTok orig, natTok metric,
          natTok seq, parsePath path, natTok age⟩
    | _ => none
  | _ => none

/-- the routes of a dump (everything after the `;`) -/
def parseDump (out : String) : Option (List (Entry IPNet)) :=
  match out.splitOn " ; " with
  | [_, d] => some ((tokens d).filterMap parseEntry)
  | _ => none

/-- Executable C08: the answer is a stored route containing the address, no stored route
    containing the address has a longer prefix, none of equal length a lower metric;
    `none` only when no stored route contains the address. -/
def specLookup (tab : List (Entry IPNet)) (ip : IPAddr) (answer : List String) : String :=
  match answer with
  | ["none"] => if tab.any (fun e => contains e.pay ip) then "fail lpm-missed" else "ok"
  | ["route", tok] =>
    match parseEntry tok with
    | none => "fail unparsable-answer"
    | some r =>
      if !tab.contains r then "fail lpm-not-stored"
      else if !contains r.pay ip then "fail lpm-not-containing"
      else if tab.any (fun e => contains e.pay ip && decide (plen e.pay > plen r.pay)) then
        "fail lpm-not-longest"
      else if tab.any (fun e => contains e.pay ip && plen e.pay == plen r.pay &&
          decide (e.metric < r.metric)) then "fail lpm-not-lowest-metric"
      else "ok"
  | _ => "fail unparsable-answer"

/-- `LookupAll`: every answer is stored and contains the address, prefix lengths strictly decrease,
    each answer is the cheapest stored route of its prefix length containing the address, and every
    stored route containing the address has its prefix length represented. -/
def specLookAll (tab : List (Entry IPNet)) (ip : IPAddr) (answer : List String) : String :=
  match answer with
  | "routes" :: toks =>
    match toks.mapM parseEntry with
    | none => "fail unparsable-answer"
    | some rs =>
      let hits := tab.filter (fun e => contains e.pay ip)
      if rs.any (fun r => !tab.contains r) then "fail lookall-not-stored"
      else if rs.any (fun r => !contains r.pay ip) then "fail lookall-not-containing"
      else if !(rs.zip (rs.drop 1)).all (fun ab => decide (plen ab.1.pay > plen ab.2.pay)) then
        "fail lookall-not-longest-first"
      else if rs.any (fun r => hits.any (fun e => plen e.pay == plen r.pay && decide (e.metric < r.metric))) then
        "fail lookall-not-lowest-metric"
      else if hits.any (fun e => !rs.any (fun r => plen r.pay == plen e.pay)) then "fail lookall-missed"
      else "ok"
  | _ => "fail unparsable-answer"

structure SpecSt where
  self : Nat := 0
  tab : List (Entry IPNet) := []
  toks : List String := []

def specStep (st : SpecSt) (l : String) : SpecSt × String :=
  let tab := st.tab
  match l.splitOn "\t" with
  | [op, out] =>
    if out.startsWith "panic" || out.startsWith "crash" then (st, "fail crashed")
    else match tokens op with
      | ["reset", self] => ({ self := natTok self }, "ok")
      | ["look", ip] =>
        match parseIP ip with
        | some a => (st, specLookup tab a (tokens out))
        | none => (st, "bad-op")
      | ["mlook", ip] =>
        match parseIP ip with
        | some a => (st, specLookup tab a (tokens out))
        | none => (st, "bad-op")
      | ["mnext", ip] =>
        -- the next hop must be that of a stored route which is an admissible Lookup answer
        match parseIP ip, tokens out with
        | some a, ["none"] => (st, specLookup tab a ["none"])
        | some a, ["next", nh] =>
          if tab.any (fun e => e.nextHop == natTok nh && contains e.pay a &&
              !tab.any (fun e' => contains e'.pay a && (decide (plen e'.pay > plen e.pay) ||
                (plen e'.pay == plen e.pay && decide (e'.metric < e.metric))))) then (st, "ok")
          else (st, "fail lpm-next-hop")
        | _, _ => (st, "fail unparsable-answer")
      | ["lookall", ip] =>
        match parseIP ip with
        | some a => (st, specLookAll tab a (tokens out))
        | none => (st, "bad-op")
      | ["get", _, _, _] => (st, "ok")
      | ["has", _, _, _, _] => (st, "ok")
      | ["size"] => (st, "ok")
      | "race" :: _ =>
        -- concurrent ops on the table the implementation printed last: the outcome must be a
        -- well-formed table and the result of some serial order
        let t : CTable := rebuild eff parseEntry baseNow st.toks
        let (_, expected) := stepR ⟨st.self, ⟨baseNow, t⟩⟩ op
        let v := raceVerdict false expected out
        match parseDump out with
        | some d => ({ st with tab := d, toks := dumpToks out }, v)
        | none => (st, "fail unparsable-dump")
      | _ => match parseDump out with
        | some d => ({ st with tab := d, toks := dumpToks out }, "ok")
        | none => (st, "fail unparsable-dump")
  | _ => (st, "bad-op")

def main (args : List String) : IO Unit :=
  match args with
  | ["spec"] => runLines ({} : SpecSt) specStep
  | _ => runLines St.init stepR

end MM.Engine.C08
