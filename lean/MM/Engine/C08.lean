import MM.Engine.Basic
import MM.Model.C08

/-!
  Line-protocol oracle for `routing.Table` (C08; also used by C10).

    reset <self>
    add <ip> <ones> <bits> <nextHop> <origin> <metric> <seq> <path>     -> true|false ; dump
    rm <ip> <ones> <bits> <origin>                                      -> true|false ; dump
    disc <peer>                                                         -> <removed> ; dump
    age <n>                                                             -> ok ; dump
    clean <maxAge>                                                      -> <removed> ; dump
    look <ip>                                                           -> none | route <entry>
    get <ip> <ones> <bits>                                              -> none | route <entry>
    lookall <ip>                                                        -> routes <entry>*   (Table.LookupAll)
    has <ip> <ones> <bits> <origin>                                     -> true|false
    size                                                                -> size <keys> <routes>
    clear                                                               -> ok ; empty

  <ip> hex bytes, <path> `-` or `a.b.c`; dump = groups sorted by label, `G<label> E<entry> E<entry> …`,
  entry = `ip/ones/bits,nextHop,origin,metric,seq,path,age`.
-/
namespace MM.Engine.C08
open MM MM.C08 MM.Engine

def natTok (s : String) : Nat := s.toNat?.getD 0

def parsePath (s : String) : List Nat :=
  if s = "-" then [] else (s.splitOn ".").map natTok

def showPath (p : List Nat) : String :=
  if p.isEmpty then "-" else ".".intercalate (p.map toString)

/-- `net.IPNet{IP: ip, Mask: net.CIDRMask(ones, bits)}`; CIDRMask is nil unless bits ∈ {32,128}, ones ≤ bits -/
def mkNet (ip : Bytes) (ones bits : Nat) : IPNet :=
  if (bits = 32 ∨ bits = 128) ∧ ones ≤ bits then ⟨ip.length, unbe ip, ones, bits⟩
  else ⟨ip.length, unbe ip, 0, 0⟩

def parseNet (ip ones bits : String) : Option IPNet :=
  (bytesOfHex ip).map fun b => mkNet b (natTok ones) (natTok bits)

def parseIP (ip : String) : Option IPAddr :=
  (bytesOfHex ip).map fun b => ⟨b.length, unbe b⟩

def showNet (n : IPNet) : String :=
  s!"{hexTok (beN n.len n.addr)}/{n.ones}/{n.mbits}"

def showEntry (now : Nat) (e : Entry IPNet) : String :=
  s!"E{showNet e.pay},{e.nextHop},{e.origin},{e.metric},{e.seq},{showPath e.path},{now - e.born}"

def showKey : CKey → String
  | none => "nil"
  | some (b, a, o) => s!"{b}:{hexTok (beN (b / 8) a)}:{o}"

/-- insertion sort of rendered groups by label -/
def insertBy (x : String × String) : List (String × String) → List (String × String)
  | [] => [x]
  | y :: ys => if x.1 < y.1 then x :: y :: ys else y :: insertBy x ys

def dumpWith {K P : Type} (showK : K → String) (showE : Nat → Entry P → String) (now : Nat)
    (t : KTable K P) : String :=
  let gs := t.map fun kg => (showK kg.1, " ".intercalate (("G" ++ showK kg.1) :: kg.2.map (showE now)))
  let sorted := gs.foldl (fun acc x => insertBy x acc) []
  if sorted.isEmpty then "empty" else " ".intercalate (sorted.map (·.2))

def dump (now : Nat) (t : CTable) : String := dumpWith showKey showEntry now t

def countRoutes {K P : Type} (t : KTable K P) : Nat := (t.map (·.2.length)).foldl (· + ·) 0

structure St where
  self : Nat
  s : State CKey IPNet

def St.init : St := ⟨0, ⟨0, []⟩⟩

def showOpt (now : Nat) : Option (Entry IPNet) → String
  | none => "none"
  | some e => "route " ++ showEntry now e

def step (st : St) (line : String) : St × String :=
  let now := st.s.now
  let t := st.s.tab
  match tokens line with
  | ["reset", self] => (⟨natTok self, ⟨0, []⟩⟩, "ok")
  | ["add", ip, ones, bits, nh, orig, metric, seq, path] =>
    match parseNet ip ones bits with
    | none => (st, "bad-op")
    | some n =>
      let e : Entry IPNet := ⟨n, natTok nh, natTok orig, natTok metric, natTok seq, parsePath path, now⟩
      let (t', ok) := addRoute cidrCfg st.self t e
      ({ st with s := ⟨now, t'⟩ }, s!"{ok} ; {dump now t'}")
  | ["rm", ip, ones, bits, orig] =>
    match parseNet ip ones bits with
    | none => (st, "bad-op")
    | some n =>
      let (t', ok) := removeRoute t (cidrKey n) (natTok orig)
      ({ st with s := ⟨now, t'⟩ }, s!"{ok} ; {dump now t'}")
  | ["disc", peer] =>
    let t' := removeFromPeer t (natTok peer)
    ({ st with s := ⟨now, t'⟩ }, s!"{countRoutes t - countRoutes t'} ; {dump now t'}")
  | ["age", n] =>
    let now' := now + natTok n
    ({ st with s := ⟨now', t⟩ }, s!"ok ; {dump now' t}")
  | ["clean", a] =>
    let t' := cleanupStale st.self now (natTok a) t
    ({ st with s := ⟨now, t'⟩ }, s!"{countRoutes t - countRoutes t'} ; {dump now t'}")
  | ["look", ip] =>
    match parseIP ip with
    | none => (st, "bad-op")
    | some a => (st, showOpt now (lookup t a))
  | ["get", ip, ones, bits] =>
    match parseNet ip ones bits with
    | none => (st, "bad-op")
    | some n => (st, showOpt now (best t (cidrKey n)))
  | ["lookall", ip] =>
    match parseIP ip with
    | none => (st, "bad-op")
    | some a => (st, " ".intercalate ("routes" :: (lookupAll t a).map (showEntry now)))
  | ["has", ip, ones, bits, orig] =>
    match parseNet ip ones bits with
    | none => (st, "bad-op")
    | some n => (st, toString (hasRoute t (cidrKey n) (natTok orig)))
  | ["size"] => (st, s!"size {size t} {totalRoutes t}")
  | ["clear"] => ({ st with s := ⟨now, []⟩ }, "ok ; empty")
  | _ => (st, "bad-op")

/-! ### `spec`: the statement of C08 evaluated on the implementation's own answers -/

/-- parse `E<ip>/<ones>/<bits>,<nh>,<or>,<metric>,<seq>,<path>,<age>` (the age lands in `born`) -/
def parseEntry (tok : String) : Option (Entry IPNet) :=
  if !tok.startsWith "E" then none else
  match (tok.drop 1).toString.splitOn "," with
  | [net, nh, orig, metric, seq, path, age] =>
    match net.splitOn "/" with
    | [ip, ones, bits] =>
      (bytesOfHex ip).map fun b =>
        ⟨⟨b.length, unbe b, natTok ones, natTok bits⟩, natTok nh, natTok orig, natTok metric,
          natTok seq, parsePath path, natTok age⟩
    | _ => none
  | _ => none

/-- the routes of a dump (everything after the `;`) -/
def parseDump (out : String) : Option (List (Entry IPNet)) :=
  match out.splitOn " ; " with
  | [_, d] => some ((tokens d).filterMap parseEntry)
  | _ => none

/-- Executable C08: the answer is a stored route containing the address, no stored route
    containing the address has a longer prefix, none of equal length a lower metric;
    `none` only when no stored route contains the address. -/
def specLookup (tab : List (Entry IPNet)) (ip : IPAddr) (answer : List String) : String :=
  match answer with
  | ["none"] => if tab.any (fun e => contains e.pay ip) then "fail lpm-missed" else "ok"
  | ["route", tok] =>
    match parseEntry tok with
    | none => "fail unparsable-answer"
    | some r =>
      if !tab.contains r then "fail lpm-not-stored"
      else if !contains r.pay ip then "fail lpm-not-containing"
      else if tab.any (fun e => contains e.pay ip && decide (plen e.pay > plen r.pay)) then
        "fail lpm-not-longest"
      else if tab.any (fun e => contains e.pay ip && plen e.pay == plen r.pay &&
          decide (e.metric < r.metric)) then "fail lpm-not-lowest-metric"
      else "ok"
  | _ => "fail unparsable-answer"

/-- `LookupAll`: every answer is stored and contains the address, prefix lengths strictly decrease,
    each answer is the cheapest stored route of its prefix length containing the address, and every
    stored route containing the address has its prefix length represented. -/
def specLookAll (tab : List (Entry IPNet)) (ip : IPAddr) (answer : List String) : String :=
  match answer with
  | "routes" :: toks =>
    match toks.mapM parseEntry with
    | none => "fail unparsable-answer"
    | some rs =>
      let hits := tab.filter (fun e => contains e.pay ip)
      if rs.any (fun r => !tab.contains r) then "fail lookall-not-stored"
      else if rs.any (fun r => !contains r.pay ip) then "fail lookall-not-containing"
      else if !(rs.zip (rs.drop 1)).all (fun ab => decide (plen ab.1.pay > plen ab.2.pay)) then
        "fail lookall-not-longest-first"
      else if rs.any (fun r => hits.any (fun e => plen e.pay == plen r.pay && decide (e.metric < r.metric))) then
        "fail lookall-not-lowest-metric"
      else if hits.any (fun e => !rs.any (fun r => plen r.pay == plen e.pay)) then "fail lookall-missed"
      else "ok"
  | _ => "fail unparsable-answer"

def specStep (tab : List (Entry IPNet)) (l : String) : List (Entry IPNet) × String :=
  match l.splitOn "\t" with
  | [op, out] =>
    if out.startsWith "panic" || out.startsWith "crash" then (tab, "fail crashed")
    else match tokens op with
      | ["reset", _] => ([], "ok")
      | ["look", ip] =>
        match parseIP ip with
        | some a => (tab, specLookup tab a (tokens out))
        | none => (tab, "bad-op")
      | ["lookall", ip] =>
        match parseIP ip with
        | some a => (tab, specLookAll tab a (tokens out))
        | none => (tab, "bad-op")
      | ["get", _, _, _] => (tab, "ok")
      | ["has", _, _, _, _] => (tab, "ok")
      | ["size"] => (tab, "ok")
      | _ => match parseDump out with
        | some d => (d, "ok")
        | none => (tab, "fail unparsable-dump")
  | _ => (tab, "bad-op")

def main (args : List String) : IO Unit :=
  match args with
  | ["spec"] => runLines ([] : List (Entry IPNet)) specStep
  | _ => runLines St.init step

end MM.Engine.C08
