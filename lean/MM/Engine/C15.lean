import MM.Model.C11Wire

/-
  Engine c15: the shared flood engine (model + follow mode, see MM/Model/C11Wire.lean) with the
  executable statement of property C15 as its `spec` mode.
-/
namespace MM.Engine.C15

def main (args : List String) : IO Unit := MM.C11.Wire.mainWith .c15 args

end MM.Engine.C15
