import MM.Engine.Basic
import MM.Model.C04
import MM.Model.Bytes
import MM.Gen.C04
import MM.Model.C04Hs

/-
  Engine c04: predictions for the unit-level and mesh-level ops of harness/main/eng_c04.go, computed
  from the symbolic model's `decide` (key decision per tunnel kind) and the 28-byte seal overhead.
-/
namespace MM.Engine.C04
open MM MM.C04

def hexLen (s : String) : Option Nat :=
  if s = "-" then some 0 else (bytesOfHex s).map List.length

/-- What an endpoint of kind `kd` emits for a payload of `n` bytes in a given mode. -/
def emit (m : Mode) (n : Nat) : String :=
  match m with
  | .sealWith _ => s!"sealed {n + 28} leak 0"
  | .plaintext => "plain"
  | .refuse => "err"

/-- Zero-key tables of the tree under test (probed on the compiled code, MM/Gen/C04.lean). -/
def T : Tables := tablesOf Gen.C04.ingressFallsBack Gen.C04.exitFallsBack

/-- Mode of an exit-side endpoint holding (or not holding) a session key: a held key came from an
    honest peer key, no key from an all-zero one. -/
def modeFor (kd : Kind) (hasKey : Bool) : Mode :=
  decideWith T.exit kd .exit false 1 (if hasKey then .pub .ingress else .zeroKey)

def stepLine (line : String) : String :=
  match tokens line with
  | ["seal", p] => match hexLen p with
    | some n => emit (decideWith T.ingress .tcp .ingress true 1 (.pub .exit)) n
    | none => "bad-op"
  | ["assoc", "closed", p] => match hexLen p with
    -- a closed association has no key any more; whether Encrypt then fails or passes its input through is
    -- probed on the compiled code (MM/Gen/C04.lean) — passing it through is the open finding
    | some _ => if Gen.C04.closedUdpPassThrough then "plain" else "err"
    | none => "bad-op"
  | ["icmpsess", "closed", p] => match hexLen p with
    | some _ => if Gen.C04.closedIcmpPassThrough then "plain" else "err"
    | none => "bad-op"
  | ["assoc", k, p] => match hexLen p with
    -- an empty payload is returned unchanged only in plaintext mode; sealed output is never equal to its input
    | some n => emit (modeFor .udp (k == "1")) n
    | none => "bad-op"
  | ["icmpsess", k, p] => match hexLen p with
    | some n => emit (modeFor .icmp (k == "1")) n
    | none => "bad-op"
  | ["icmpinit", z] =>
    match decideWith T.ingress .icmp .ingress true 5 (if z == "zero" then .zeroKey else .pub .exit) with
    | .sealWith _ => "key"
    | .plaintext => "nil"
    | .refuse => "err"
  | ["respkey", z] =>
    match decideWith T.exit .file .exit false 5 (if z == "zero" then .zeroKey else .pub .ingress) with
    | .sealWith _ => "key"
    | .plaintext => "nil"
    | .refuse => "err"
  | ["mesh", "tcpclose", p] =>
    -- a close in the middle of multi-frame writes: whatever still leaves the ingress is sealed under
    -- the tunnel key (C04_payload_sealed), never under a key the transit knows
    (match hexLen p with
     | some _ => "ok leak 0 zk 0 ua 0"
     | none => "bad-op")
  | ["mesh", "udpzero", p] =>
    -- active transit zeroing both key fields: what the model's wire shows to the transit
    (match hexLen p with
     | some _ =>
       let t : Tamper := ⟨.zero, .zero⟩
       let frames := wireWith T .udp t 1 2 3 [7] [7]
       let leak := (frames.filter fun f => !(visibleFrame [.transit] f).isEmpty).length
       let echo := (ingressMode T .udp 1 t).established && (exitMode T .udp 1 t).established
       s!"ok echo {if echo then 1 else 0} leak {leak}"
     | none => "bad-op")
  | ["mesh", kd, p] =>
    if kd = "file" ∨ kd = "shell" then
      (match hexLen p with
       | some _ => "ok echo 1 leak 0 seq 1 1 zk 0 ua 0"
       | none => "bad-op")
    else if kd ≠ "tcp" ∧ kd ≠ "udp" ∧ kd ≠ "fwd" then "bad-op" else
    match hexLen p with
    -- behind a relaying transit every chunk is sealed (C04_payload_sealed): the payload is echoed,
    -- occurs in no frame, and the data frames of each direction carry exactly n plain bytes with
    -- the sender's prefix and consecutive counters
    | some n => s!"ok echo 1 leak 0 up {n} 1 down {n} 1 zk 0 ua 0"
    | none => "bad-op"
  | _ => "bad-op"

/-- Statement on the implementation's answers: application bytes never leave an endpoint unsealed,
    and never show up at the transit. -/
def spec (op out : String) : String :=
  if out.startsWith "panic" ∨ out.startsWith "crash" then "fail crashed"
  else match tokens op, tokens out with
    -- exit-side wrappers without a key: plaintext mode exists by itself only as a capability; it is a
    -- violation when an endpoint HOLDING a key emits plaintext
    | ["assoc", "closed", _], ["plain"] => "fail plaintext-after-close-udp"
    | ["icmpsess", "closed", _], ["plain"] => "fail plaintext-after-close-icmp"
    | ["assoc", "1", _], ["plain"] => "fail plaintext-despite-key-udp"
    | ["icmpsess", "1", _], ["plain"] => "fail plaintext-despite-key-icmp"
    | ["mesh", "udpzero", _], ["ok", "echo", _, "leak", l] =>
      if l = "0" then "ok" else "fail plaintext-fallback-at-transit key fields zeroed by the transit"
    | "seal" :: _, ["plain"] => "fail plaintext-stream"
    | ["icmpinit", "zero"], ["nil"] => "fail plaintext-fallback-icmp-ingress zero peer key accepted without a session key"
    | ["icmpinit", "zero"], ["key"] => "fail zero-key-accepted"
    | ["respkey", "zero"], ["key"] => "fail zero-key-accepted"
    | _, ["sealed", _, "leak", l] => if l = "0" then "ok" else "fail payload-in-ciphertext"
    | ["mesh", "tcpclose", _], ["ok", "leak", l, "zk", z, "ua", a] =>
      if l ≠ "0" then "fail plaintext-at-transit"
      else if z ≠ "0" then "fail frame-sealed-under-all-zero-key"
      else if a ≠ "0" then "fail frame-not-under-tunnel-key"
      else "ok"
    | "mesh" :: _, "ok" :: "echo" :: _ :: "leak" :: l :: "up" :: _ :: u :: "down" :: _ :: d :: "zk" :: z :: "ua" :: a :: _ =>
      if l ≠ "0" then "fail plaintext-at-transit"
      else if z ≠ "0" then "fail frame-sealed-under-all-zero-key"
      else if a ≠ "0" then "fail frame-not-under-tunnel-key"
      else if u ≠ "1" ∨ d ≠ "1" then "fail unsealed-or-misnumbered-frame-at-transit"
      else "ok"
    | "mesh" :: _, ["ok", "echo", _, "leak", l, "seq", u, d, "zk", z, "ua", _] =>
      if l ≠ "0" then "fail plaintext-at-transit"
      else if z ≠ "0" then "fail frame-sealed-under-all-zero-key"
      else if u ≠ "1" ∨ d ≠ "1" then "fail unsealed-or-misnumbered-frame-at-transit"
      else "ok"
    | _, _ => "ok"

def main (args : List String) : IO Unit :=
  match args with
  | ["spec"] => runLines ({} : C04Hs.Spec) (fun st l => match l.splitOn "\t" with
      | [op, out] =>
        if (tokens op).take 2 = ["hs", "uiack"] then
          (match tokens out with
           | ["uiack", "frames", _, "unauth", u, "dupnonce", d, "pubkey", p] =>
             if p ≠ "0" then (st, "fail replayed-ack-rekeyed-with-public-key")
             else if d ≠ "0" then (st, "fail nonce-reused-after-replayed-ack")
             else if u ≠ "0" then (st, "fail frame-not-under-tunnel-key after a replayed ack")
             else (st, "ok")
           | _ => (st, "fail unparsable uiack"))
        else if (tokens op).head? = some "hs" then C04Hs.spec st (tokens op) (tokens out)
        else if (tokens op).head? = some "reset" then ({}, "ok")
        else (st, spec op out)
      | _ => (st, "bad-op"))
  | _ => runLines ({} : C04Hs.St) (fun st l =>
      match tokens l with
      | ["hs", "uiack", k] =>
        -- ingress side, the same UDP_OPEN_ACK delivered twice: 2k datagrams, all under the tunnel key, no nonce
        -- twice — unless the probed tree re-keys from its wiped private key (open finding)
        (match k.toNat? with
         | some k =>
           if Gen.C04.replayedAckRekeysPublic then (st, s!"uiack frames {2*k} unauth {k} dupnonce {k} pubkey {k}")
           else (st, s!"uiack frames {2*k} unauth 0 dupnonce 0 pubkey 0")
         | none => (st, "bad-op"))
      | "hs" :: _ => C04Hs.step st (tokens l)
      | ["reset"] => ({}, "ok")
      | _ => (st, stepLine l))

end MM.Engine.C04
