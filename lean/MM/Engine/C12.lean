import MM.Model.C11Wire

/-
  Engine c12: the shared flood engine (model + follow mode, see MM/Model/C11Wire.lean) with the
  executable statement of property C12 as its `spec` mode.
-/
namespace MM.Engine.C12

def main (args : List String) : IO Unit := MM.C11.Wire.mainWith .c12 args

end MM.Engine.C12
