import MM.Model.C11Wire

/-
  Engine c14: the shared flood engine (model + follow mode, see MM/Model/C11Wire.lean) with the
  executable statement of property C14 as its `spec` mode.
-/
namespace MM.Engine.C14

def main (args : List String) : IO Unit := MM.C11.Wire.mainWith .c14 args

end MM.Engine.C14
