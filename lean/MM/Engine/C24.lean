import MM.Engine.Basic
import MM.Model.Bytes
import MM.Model.C24

namespace MM.Engine.C24
open MM MM.C24

def chr (b : UInt8) : Char := Char.ofNat b.toNat

def charsOf (bs : Bytes) : List Char := bs.map chr

def hexv (c : UInt8) : Option Nat :=
  if 0x30 ≤ c ∧ c ≤ 0x39 then some (c.toNat - 0x30)
  else if 0x61 ≤ c ∧ c ≤ 0x66 then some (c.toNat - 0x61 + 10)
  else if 0x41 ≤ c ∧ c ≤ 0x46 then some (c.toNat - 0x41 + 10)
  else none

/-- escaped path bytes ↦ literal / percent-encoded path characters. -/
def rawOf : Bytes → Raw
  | 0x25 :: a :: b :: rest =>
    match hexv a, hexv b with
    | some x, some y => PC.enc (Char.ofNat (16 * x + y)) :: rawOf rest
    | _, _ => PC.lit '%' :: rawOf (a :: b :: rest)
  | c :: rest => PC.lit (chr c) :: rawOf rest
  | [] => []

def strOf (cs : List Char) : String := String.ofList cs

def parseFlags (s : String) : Option Flags :=
  match s.toList with
  | [a, b, c] => some { remote := a == '1', dashboard := b == '1', pprof := c == '1' }
  | _ => none

structure Parsed where
  token : List Char
  flags : Flags
  req : Req

def parse (line : String) : Option Parsed :=
  match (match tokens line with | "reqh" :: rest => "req" :: rest.dropLast | t => t) with
  -- "reqh … <k>": the same request with extra headers (set k of the harness' pool); the decision
  -- function does not take them: `Req` has the Authorization value and the query token only
  | ["req", tok, fl, method, path, auth, hasq, qt] =>
    match bytesOfHex tok, parseFlags fl, bytesOfHex path, bytesOfHex auth, bytesOfHex qt with
    | some t, some f, some p, some a, some q =>
      some { token := charsOf t, flags := f,
             req := { connect := method == "CONNECT", path := rawOf p, authHeader := charsOf a,
                      queryToken := if hasq == "1" then charsOf q else [] } }
    | _, _, _, _, _ => none
  | _ => none

def optFlag (s : String) : Option Bool := if s == "t" then some true else if s == "f" then some false else none

def parseGate (line : String) : Option (HTTPCfg × Req) :=
  match tokens line with
  | ["gate", m, p, d, r, method, path] =>
    match bytesOfHex path with
    | some pb => some ({ minimal := m == "1", pprof := optFlag p, dashboard := optFlag d, remoteAPI := optFlag r },
                       { connect := method == "CONNECT", path := rawOf pb, authHeader := [], queryToken := [] })
    | none => none
  | _ => none

def gateStep (line : String) : String :=
  match parseGate line with
  | none => "bad-op"
  | some (h, req) =>
    let o := serve (fun _ => false) false (flagsOfConfig h) req
    match o.status, o.route with
    | .s401, _ => "model-error"
    | .s301, _ => "pat=* st=301"
    | .s404, none => "pat=- st=404"
    | .s404, some r => s!"pat={strOf r.pat} st=404"
    | .handler, some r => let P := strOf r.pat; s!"anyof pat={P} st=h | pat={P} st=404 | pat=* st=301"
    | .handler, none => "model-error"

def step (line : String) : String :=
  if (tokens line).head? == some "gate" then gateStep line else
  if (tokens line).head? == some "race" then "race ok" else
  match parse line with
  | none => "bad-op"
  | some p =>
    let o := serve (validateToken p.token) (p.token != []) p.flags p.req
    match o.status, o.route with
    | .s401, _ => "pat=- st=401 calls=0"
    | .s301, _ => "pat=* st=301 calls=0"
    | .s404, none => "pat=- st=404 calls=0"
    | .s404, some r => s!"pat={strOf r.pat} st=404 calls=0"
    | .handler, some r =>
      -- a real handler ran: its own status and provider use are outside the property
      let P := strOf r.pat
      s!"anyof pat={P} st=h calls=0 | pat={P} st=h calls=+ | pat={P} st=404 calls=0 | pat={P} st=404 calls=+ | pat={P} st=401 calls=0 | pat={P} st=401 calls=+ | pat=* st=301 calls=0 | pat=* st=301 calls=+"
    | .handler, none => "model-error"

def documentedExempt : List String := ["/health", "/healthz", "/ready", "/", "/logo.png"]

/-- Which endpoint group a path belongs to: it is matched by a pattern of the group's enabled branch. -/
def groupOfPath (connect : Bool) (p : Raw) : Option Nat :=
  let mp := mpath connect p
  let sg := segsOf mp
  (routes.find? (fun r => r.grp != 0 && r.whenOn && patMatches r sg.1 sg.2)).map (·.grp)

/-- gating as configured, on the implementation's answer: a path in the area of a group that the
    CONFIGURATION disables (minimal, or the flag set to false) must answer 404 -/
def gateSpec (line implOut : String) : String :=
  match parseGate line, tokens implOut with
  | some (h, req), [_, st] =>
    match groupOfPath req.connect req.path with
    | some g => if !(flagsOfConfig h).on g && st != "st=404" && st != "st=301" then "fail disabled-served-by-config" else "ok"
    | none => "ok"
  | _, "panic" :: _ => "fail crashed"
  | _, _ => "ok"

/-- The property evaluated on the implementation's own answer. -/
def spec (op : String) (implOut : String) : String :=
  if (tokens op).head? == some "gate" then gateSpec op implOut else
  if (tokens op).head? == some "race" then
    (if tokens implOut == ["race", "ok"] then "ok" else "fail unauth-served-concurrent") else
  match parse op, tokens implOut with
  | some p, [pat, st, calls] =>
    let d := strOf (decoded p.req.path)
    let presented := extractToken p.req
    -- the statement: only the configured token itself authenticates
    let authed := p.token == [] || (presented != [] && presented == p.token)
    let exemptPath := documentedExempt.contains d
    if !authed && !exemptPath && !(pat == "pat=-" && st == "st=401" && calls == "calls=0") then
      "fail unauth-served"
    else if !authed && exemptPath && !(pat == "pat=*" || pat == "pat=-" || documentedExempt.any (fun e => pat == "pat=" ++ e)) then
      "fail exempt-misroute"
    else if !authed && exemptPath && st == "st=401" then "fail exempt-refused"
    else
      match groupOfPath p.req.connect p.req.path with
      | some g =>
        if !p.flags.on g && st != "st=401" && st != "st=301" && !(st == "st=404" && calls == "calls=0") then
          "fail disabled-served"
        else "ok"
      | none => "ok"
  | some _, "panic" :: _ => "fail crashed"
  | _, _ => "ok"

def main (args : List String) : IO Unit :=
  match args with
  | ["spec"] => runPure (fun l => match l.splitOn "\t" with
      | [op, out] => spec op out
      | _ => "bad-op")
  | _ => runPure step

end MM.Engine.C24
