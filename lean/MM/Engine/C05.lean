/-
  Line-protocol oracle for C05 (wire codecs).  Ops: see /verif/harness/main/eng_c05.go.
-/
import MM.Engine.Basic
import MM.Model.C05

namespace MM.Engine.C05
open MM MM.C05

def join (l : List String) : String := " ".intercalate l

structure KindOps where
  rt : List String → String
  dec : Bytes → String
  wfToks : List String → Option (Bool × String)   -- (well-formed?, canonical tokens)
  /-- for input bytes that are exactly the encoding of a well-formed message: its tokens -/
  canon : Bytes → Option String
  /-- the model's allocation trace for this input (bytes) -/
  allocOf : Bytes → Nat

def mkOps {α : Type} (c : Codec α) (minLen : Nat) : KindOps :=
  let decode := decodeTop minLen c
  { rt := fun ts =>
      match c.ofToks ts with
      | some (a, []) =>
        let b := c.enc a
        "ok " ++ hexTok b ++ " | " ++ (match decode b with
          | some a' => join (c.toks a')
          | none => "err")
      | _ => "bad-op"
    dec := fun bs =>
      match decode bs with
      | none => "err"
      | some a =>
        let t := join (c.toks a)
        let re := match decode (c.enc a) with
          | some a' => if join (c.toks a') == t then "ok" else "diff"
          | none => "diff"
        "ok " ++ t ++ " re=" ++ re
    wfToks := fun ts =>
      match c.ofToks ts with
      | some (a, []) => some (c.wf a, join (c.toks a))
      | _ => none
    canon := fun bs =>
      match decode bs with
      | some a => if c.wf a && c.enc a == bs then some (join (c.toks a)) else none
      | none => none
    allocOf := decodeTopAlloc minLen c }

/-! token-level helpers for the two hand-written kinds -/

def optTok (c : Codec α) : Codec (Option α) where
  enc | none => [0] | some a => 1 :: c.enc a
  dec _ := none
  wf | none => true | some a => c.wf a
  toks | none => ["0"] | some a => "1" :: c.toks a
  ofToks
    | "0" :: r => some (none, r)
    | "1" :: r => (c.ofToks r).map fun (a, r') => (some a, r')
    | _ => none

def niTokC := seq niHeadC (seq (listN 1 peerC) (seq key32 (seq bool (seq (listN 1 flC)
  (seq (listN 1 str) (seq bool (seq bool bool)))))))

def nodeInfoC : Codec NodeInfo where
  enc := encodeNodeInfo
  dec bs := (decodeNodeInfo bs).map (·, [])
  alloc := nodeInfoAlloc
  wf := nodeInfoWF
  toks n := niTokC.toks ((n.name, n.host, n.os, n.arch, n.ver, n.start, n.ips), n.peers, n.pub, n.udp,
    n.fls, n.shells, n.ft, n.sh, n.icmp)
  ofToks ts := (niTokC.ofToks ts).map fun (((name, host, os, arch, ver, start, ips), peers, pub, udp,
      fls, shells, ft, sh, icmp), r) =>
    ({ name, host, os, arch, ver, start, ips, peers, pub, udp, fls, shells, ft, sh, icmp }, r)

def qsTokC := seq (listN 2 routeAdvertiseC) (seq (listN 2 routeWithdrawC)
  (seq (listN 2 nodeInfoAdvertiseC) (seq (optTok sleepC) (optTok sleepC))))

def queuedC : Codec QueuedState where
  enc := encodeQueuedState
  dec bs := (decodeQueuedState bs).map (·, [])
  alloc := queuedAlloc
  wf := queuedStateWF
  toks q := qsTokC.toks (q.routes, q.withdraws, q.nodeInfos, q.sleep, q.wake)
  ofToks ts := (qsTokC.ofToks ts).map fun ((routes, withdraws, nodeInfos, sleep, wake), r) =>
    ({ routes, withdraws, nodeInfos, sleep, wake }, r)

def kind (name : String) : Option KindOps :=
  match name with
  | "peerhello" => some (mkOps peerHelloC 28)
  | "streamopen" => some (mkOps streamOpenC 45)
  | "udpopen" => some (mkOps streamOpenC 45)
  | "streamopenack" => some (mkOps streamOpenAckC 43)
  | "udpopenack" => some (mkOps streamOpenAckC 43)
  | "streamopenerr" => some (mkOps streamOpenErrC 11)
  | "udpopenerr" => some (mkOps streamOpenErrC 11)
  | "icmpopenerr" => some (mkOps streamOpenErrC 11)
  | "streamreset" => some (mkOps streamResetC 2)
  | "keepalive" => some (mkOps keepaliveC 8)
  | "udpclose" => some (mkOps closeC 1)
  | "icmpclose" => some (mkOps closeC 1)
  | "routeadv" => some (mkOps routeAdvertiseC 28)
  | "routewd" => some (mkOps routeWithdrawC 26)
  | "encdata" => some (mkOps (seq bool (lp 2)) 3)
  | "path" => some (mkOps ids 1)
  | "nodeinfo" => some (mkOps nodeInfoC 0)
  | "nodeinfoadv" => some (mkOps nodeInfoAdvertiseC 28)
  | "ctrlreq" => some (mkOps controlRequestC 30)
  | "ctrlresp" => some (mkOps controlResponseC 12)
  | "udpdatagram" => some (mkOps udpDatagramC 6)
  | "icmpopen" => some (mkOps icmpOpenC 43)
  | "icmpopenack" => some (mkOps icmpOpenAckC 40)
  | "icmpecho" => some (mkOps icmpEchoC 8)
  | "sleep" => some (mkOps sleepC 97)
  | "wake" => some (mkOps sleepC 97)
  | "queued" => some (mkOps queuedC 0)
  | _ => none

/-! `encnw`: Go `Encode` on in-memory values that need not be within the wire limits.
    `bufferWriter` is a fixed-size buffer: RouteAdvertise.Encode sizes it from each route's FAMILY
    (except domain/forward routes) but writes the whole prefix, so it panics iff more bytes are
    written than were reserved; RouteWithdraw.Encode writes `Prefix[:size(family)]`, so it panics
    iff a prefix is shorter than its family's size and silently truncates a longer one.  Outside
    the quantifier of C05 (`wf` excludes these values); no caller builds such a value (prefixes come
    from net.IPNet.IP via ParseCIDR/protocolRouteToIPNet or from the decoder). -/
def advReserved (r : ((Nat × Nat) × Bytes) × Nat) : Nat :=
  let fam := r.1.1.1
  4 + (if fam = 3 ∨ fam = 4 then r.1.2.length else if fam = 1 then 4 else if fam = 3 then 1 else 16)

def encNonWF (k : String) (ts : List String) : String :=
  if k = "routeadv" then
    match routeAdvertiseC.ofToks ts with
    | some (a, []) =>
      let routes := a.2.2.2.1
      let written := (routes.map fun r => 4 + r.1.2.length).sum
      let reserved := (routes.map advReserved).sum
      if written > reserved then "encode-panic" else "ok " ++ hexTok (routeAdvertiseC.enc a)
    | _ => "bad-op"
  else if k = "routewd" then
    match routeWithdrawC.ofToks ts with
    | some (w, []) =>
      let routes := w.2.2.1
      if routes.any (fun r => decide (r.1.2.length < wdPrefixLen r.1.1.1)) then "encode-panic"
      else
        let clipped := routes.map fun r => ((r.1.1, r.1.2.take (wdPrefixLen r.1.1.1)), r.2)
        "ok " ++ hexTok (routeWithdrawC.enc (w.1, w.2.1, clipped, w.2.2.2))
    | _ => "bad-op"
  else "bad-op"

def showFrameErr : FrameErr → String
  | .tooLarge => "err toolarge"
  | .invalid => "err invalid"

def step (line : String) : String :=
  match tokens line with
  | "rt" :: k :: ts => match kind k with
    | some ops => ops.rt ts
    | none => "bad-op"
  | ["dec", k, h] => match kind k, bytesOfHex h with
    | some ops, some bs => ops.dec bs
    | _, _ => "bad-op"
  | "encnw" :: k :: ts => encNonWF k ts
  | ["alloc", k, h] => match kind k, bytesOfHex h with
    -- the model's allocation trace against the bound the real decoder is measured against
    -- (K_alloc_le in Props/C05.lean: always within it)
    | some ops, some bs => if ops.allocOf bs ≤ 1024 * bs.length + 65536 then "alloc ok" else "alloc big"
    | _, _ => "bad-op"
  | ["frame", t, fl, sid, p] => match t.toNat?, fl.toNat?, sid.toNat?, bytesOfHex p with
    | some t, some fl, some sid, some p => match encodeFrame (t, fl, sid, p) with
      | .ok b => "ok " ++ hexTok b
      | .error e => showFrameErr e
    | _, _, _, _ => "bad-op"
  | ["unframe", h] => match bytesOfHex h with
    | some bs => match decodeFrame bs with
      | .ok (t, fl, sid, p) => s!"ok {t} {fl} {sid} {hexTok p}"
      | .error e => showFrameErr e
    | none => "bad-op"
  | _ => "bad-op"

/-- part of `s` after the first occurrence of `sep` -/
def afterSep (s sep : String) : Option String :=
  match s.splitOn sep with
  | _ :: rest@(_ :: _) => some (sep.intercalate rest)
  | _ => none

/-- Executable statement of C05 on one implementation answer:
    * never a panic / crash;
    * `rt`: a message whose fields are within their wire limits (`wf`) decodes back to itself;
    * `dec`: whatever decodes re-encodes to an equivalent message; errors carry ErrInvalidFrame;
    * `alloc`: decoding allocates at most 1024·len + 65536 bytes;
    * `frame`/`unframe`: agree with the header model (payload > 16384 ⇒ ErrFrameTooLarge). -/
def spec (line : String) (implOut : String) : String :=
  if implOut.startsWith "panic" || implOut.startsWith "crash" then
    "fail crashed-" ++ ((tokens line).getD 1 "frame")
  else match tokens line with
  | "rt" :: k :: ts => match kind k with
    | some ops => match ops.wfToks ts with
      | some (true, canon) =>
        if afterSep implOut " | " == some canon then "ok" else "fail roundtrip-" ++ k
      | some (false, _) => "ok"
      | none => "bad-op"
    | none => "bad-op"
  | ["dec", k, h] =>
    if implOut.endsWith "re=diff" then "fail reencode-" ++ k
    else if implOut.startsWith "err unexpected" then "fail errclass-" ++ k
    else match kind k, bytesOfHex h with
      | some ops, some bs =>
        -- the input is exactly the encoding of a well-formed message m: the answer must be m
        match ops.canon bs with
        | some t => if implOut == "ok " ++ t ++ " re=ok" then "ok" else "fail roundtrip-" ++ k
        | none => "ok"
      | _, _ => "bad-op"
  | ["alloc", k, _] => if implOut.startsWith "alloc big" then "fail alloc-" ++ k else "ok"
  | "frame" :: _ => if implOut == step line then "ok" else "fail frame-encode"
  | "unframe" :: _ => if implOut == step line then "ok" else "fail frame-decode"
  | _ => "ok"

def main (args : List String) : IO Unit :=
  match args with
  | ["spec"] => runPure (fun l => match l.splitOn "\t" with
      | [op, out] => spec op out.trimAscii.toString
      | _ => "bad-op")
  | _ => runPure step

end MM.Engine.C05
