import MM.Engine.Basic
import MM.Model.C18

/-
  Engine c18: real `stream.Manager` / `stream.Stream` against the LTS of MM/Model/C18.lean
  (repaired statement order, `ff = false`).  Every op is a fixed schedule of LTS labels, applied with
  `MM.C18.run` / `MM.C18.step` only, so the engine never leaves the transition system the theorems
  are about (the only non-step update is appending the frame an op delivers to `frames`).

    reset                         new manager
    accept <id>                   AcceptStream
    openreq <id> / ack <id>       OpenStream / HandleStreamOpenAck
    frame <id> <fin> <hex> <n|h>  HandleStreamData; `h`: at the verifhook point between queuing the
                                  payload and signalling FIN a parked reader that is ready is run
                                  to completion (its answer is `mid=`)
    rclose <id> / rreset <id>     HandleStreamClose / HandleStreamReset;  lremove <id>  RemoveStream
    read <id>                     make sure a reader is parked in Read, collect its answer if ready
    closewrite <id> / close <id>  Stream.CloseWrite / Stream.Close
    race cw|close <n>             n fresh streams: HandleRemoteFinWrite ‖ CloseWrite resp. Close behind a barrier
  answer:  <res> mid=<r> end=<r> | <dump of every stream>      r ::= - | parked | data:<hex> | eof
-/
namespace MM.Engine.C18
open MM MM.C18

abbrev S := Sys String

def ready (x : S) : Bool := !x.s.buf.isEmpty || x.s.finCh || x.s.closed

/-- A parked reader that is ready runs to completion (the other threads are quiescent). -/
def collect (x : S) : S × String :=
  if x.rpc == .idle then (x, "-")
  else if !ready x then (x, "parked")
  else
    let ls : List Label :=
      if !x.s.buf.isEmpty then [.rSelData]
      else if x.s.finCh then [.rSelFin, .rDrain] else [.rSelClosed, .rDrain]
    match run false x ls with
    | some y =>
      if y.delivered.length > x.delivered.length then (y, "data:" ++ (y.delivered.getLast?.getD "?"))
      else (y, "eof")
    | none => (x, "model-stuck")

/-- Run `hStep` while `p` holds of the head sub-step. `none` = the handler would block. -/
def runWhile (p : Micro String → Bool) : Nat → S → Option S
  | 0, x => some x
  | n + 1, x =>
    match x.todo with
    | [] => some x
    | m :: _ =>
      if p m then
        match step false x .hStep with
        | some y => runWhile p n y
        | none => none
      else some x

def isPush : Micro String → Bool
  | .pushChk _ | .pushEnq _ => true
  | _ => false

def b01 (b : Bool) : String := if b then "1" else "0"

def stLetter : St → String
  | .opening => "P" | .open_ => "O" | .hcl => "L" | .hcr => "R" | .closed => "C"

def dump1 (e : Nat × S) : String :=
  let x := e.2
  s!"{e.1}:st={stLetter x.s.state} lf={b01 x.s.localFin} rf={b01 x.s.remoteFin} fc={b01 x.s.finCh} cl={b01 x.s.closed} n={x.s.buf.length} reg={b01 x.reg} cw={b01 x.s.canWrite} cr={b01 x.s.canRead}"

def insertSorted (e : Nat × S) : List (Nat × S) → List (Nat × S)
  | [] => [e]
  | h :: t => if e.1 ≤ h.1 then e :: h :: t else h :: insertSorted e t

def dump (m : Mgr String) : String :=
  " ; ".intercalate ((m.foldr insertSorted []).map dump1)

def out (m : Mgr String) (res mid end_ : String) : Mgr String × String :=
  (m, s!"{res} mid={mid} end={end_} | {dump m}")

/-- Close is synchronous in Go: the `closed` channel is closed right after the state change. -/
def finishClose (x : S) : S :=
  match step false x .closeEnd with
  | some y => y
  | none => x

def frameOp (m : Mgr String) (id : Nat) (f : Frame String) (hook : Bool) : Mgr String × String :=
  match m.get id with
  | none => out m "unknown" "-" "-"
  | some x0 =>
    if !x0.reg then
      let (z, e) := collect x0
      out (m.set id z) "unknown" "-" e
    else
      let x1 := { x0 with frames := x0.frames ++ [f] }
      match step false x1 .hNext with
      | none => out m "model-stuck" "-" "-"
      | some x2 =>
        match runWhile isPush 8 x2 with
        | none => out (m.set id x2) "blocked" "-" "-"
        | some x3 =>
          -- PushData refused the payload (stream closed): HandleStreamData returns before the hook
          let failed := !(pendOf x2.todo).isEmpty && x3.pushed.length == x2.pushed.length
          let (x4, mid) := if hook && !failed then collect x3 else (x3, "-")
          match runWhile (fun _ => true) 8 x4 with
          | none => out (m.set id x4) "blocked" mid "-"
          | some x5 =>
            let x6 := finishClose x5
            let (x7, e) := collect x6
            out (m.set id x7) (if failed then "eof" else "ok") mid e

def simpleOp (m : Mgr String) (id : Nat) (ls : List Label) : Mgr String × String :=
  match m.get id with
  | none => out m "unknown" "-" "-"
  | some x =>
    match run false x ls with
    | none => out m "err" "-" "-"
    | some y =>
      let (z, e) := collect (finishClose y)
      out (m.set id z) "ok" "-" e

/-- 64 chunks queued, nobody reads, the 65th push: not enabled (the frame loop blocks); after the
    stream is closed (`closeBegin`, `closeEnd` — by STREAM_CLOSE/RESET of another loop, RemoveStream or a
    local Close) the push aborts with io.EOF.  Computed by running the LTS; other streams are untouched
    (`C18_close_targets_one`), so their operations complete. -/
def stallAnswer : String :=
  let fr : List (Frame String) := (List.range 65).map (fun i => Frame.data false (some (toString i)))
  let x0 : S := init true fr
  let labels : List Label := (List.replicate 64 [Label.hNext, .hStep, .hStep]).flatten ++ [.hNext, .hStep]
  match run false x0 labels with
  | none => "model-stuck"
  | some x =>
    if (MM.C18.step false x .hStep).isSome then "ok"   -- would not block
    else match run false x [.lClose, .closeEnd, .hAbort] with
      | some y => if y.dropped then "eof" else "ok"
      | none => "timeout"

def parseFrameArgs (fin hex mode : String) : Option (Frame String × Bool) :=
  let p : Option String := if hex == "-" then none else some hex
  match fin, mode with
  | "0", "n" => some (.data false p, false)
  | "1", "n" => some (.data true p, false)
  | "0", "h" => some (.data false p, true)
  | "1", "h" => some (.data true p, true)
  | _, _ => none

def step (m : Mgr String) (line : String) : Mgr String × String :=
  match tokens line with
  | "reset" :: _ => out [] "ok" "-" "-"
  | ["race", _, _] => out m "race-ok" "-" "-"   -- C18_race_serializable: every interleaving ends CLOSED
  | ["stall", _] => out m ("stall:" ++ stallAnswer ++ "/ok/ok/ok") "-" "-"
  | ["accept", i] =>
    let id := i.toNat!
    out (m.set id (init true [])) "ok" "-" "-"
  | ["openreq", i] =>
    let id := i.toNat!
    out (m.set id (init false [])) "ok" "-" "-"
  | ["ack", i] => simpleOp m i.toNat! [.ack]
  | ["frame", i, fin, hex, mode] =>
    match parseFrameArgs fin hex mode with
    | some (f, hook) => frameOp m i.toNat! f hook
    | none => (m, "bad-op")
  | ["rclose", i] =>
    match m.get i.toNat! with
    | some x => if x.reg then frameOp m i.toNat! .close false else simpleOp m i.toNat! []
    | none => out m "ok" "-" "-"
  | ["lremove", i] =>
    match m.get i.toNat! with
    | some x => if x.reg then frameOp m i.toNat! .close false else simpleOp m i.toNat! []
    | none => out m "ok" "-" "-"
  | ["rreset", i] =>
    match m.get i.toNat! with
    | some x => if x.reg then frameOp m i.toNat! .reset false else simpleOp m i.toNat! []
    | none => out m "ok" "-" "-"
  | ["read", i] =>
    match m.get i.toNat! with
    | none => out m "unknown" "-" "-"
    | some x =>
      if x.rpc == .idle then
        match MM.C18.step false x .rStart with
        | some y =>
          if y.rpc == .idle then  -- first (non-blocking) select of Read returned buffered data
            out (m.set i.toNat! y) "ok" "-" ("data:" ++ (y.delivered.getLast?.getD "?"))
          else simpleOp (m.set i.toNat! y) i.toNat! []
        | none => out m "model-stuck" "-" "-"
      else simpleOp m i.toNat! []
  | ["closewrite", i] => simpleOp m i.toNat! [.lCloseWrite]
  | ["close", i] => simpleOp m i.toNat! [.lClose]
  | _ => (m, "bad-op")

/-! ### executable statement of C18 on the implementation's own answers -/

structure Trk where
  arrived : List String := []
  atFin : Option (List String) := none
  delivered : List String := []
  eofSeen : Bool := false
  deriving Inhabited

structure SpecSt where
  trk : List (Nat × Trk) := []
  last : List (Nat × String) := []   -- last dump entry per stream

def getTrk (s : SpecSt) (id : Nat) : Trk := (s.trk.lookup id).getD {}
def setTrk (s : SpecSt) (id : Nat) (t : Trk) : SpecSt :=
  { s with trk := (id, t) :: s.trk.filter (fun e => e.1 != id) }

def field (entry : String) (key : String) : String :=
  match (tokens entry).filterMap (fun tok => match tok.splitOn "=" with
      | [k, v] => if k == key || k.endsWith (":" ++ key) then some v else none
      | _ => none) with
  | v :: _ => v
  | [] => ""

def letterSt : String → Option St
  | "P" => some .opening | "O" => some .open_ | "L" => some .hcl | "R" => some .hcr | "C" => some .closed
  | _ => none

def parseDump (d : String) : List (Nat × String) :=
  (d.splitOn " ; ").filterMap (fun e =>
    let e := e.trimAscii.toString
    match e.splitOn ":" with
    | i :: _ :: _ => some (i.toNat!, e)
    | _ => none)

def isPrefixB : List String → List String → Bool
  | [], _ => true
  | _ :: _, [] => false
  | a :: as, b :: bs => a == b && isPrefixB as bs

/-- One reader answer, in order of occurrence. `cl` = the stream's `closed` flag after the op. -/
def feed (t : Trk) (r : String) (cl : Bool) : Trk × Option String :=
  if r.startsWith "data:" then ({ t with delivered := t.delivered ++ [(r.drop 5).toString] }, none)
  else if r == "eof" then
    if t.eofSeen then (t, none)
    else
      let t' := { t with eofSeen := true }
      if cl then (t', none)
      else match t.atFin with
        | some a => if isPrefixB a t.delivered then (t', none) else (t', some "eof-before-data")
        | none => (t', some "eof-without-fin")
  else (t, none)

def specStep (s : SpecSt) (l : String) : SpecSt × String :=
  match l.splitOn "\t" with
  | [op, implOut] =>
    if implOut.startsWith "panic" || implOut.startsWith "crash" then (s, "fail crashed")
    else
    match tokens op with
    | "reset" :: _ => ({}, "ok")
    | "race" :: _ =>
      (s, if implOut.startsWith "race-ok" then "ok" else "fail race-nonserial-outcome")
    | "stall" :: _ =>
      -- tearing down a stream whose frame loop is blocked, and working on another stream, must complete
      (s, if implOut.startsWith "stall:eof/ok/ok/ok" then "ok"
          else if (implOut.splitOn "timeout").length > 1 then "fail stall-deadlock" else "fail stall-wrong-answer")
    | kind :: i :: rest =>
      let id := i.toNat!
      match implOut.splitOn " | " with
      | [hd, dumpStr] =>
        let dmp := parseDump dumpStr
        let res := (tokens hd).headD ""
        let mid := field hd "mid"
        let end_ := field hd "end"
        let mine := (dmp.lookup id).getD ""
        let cl := field mine "cl" == "1"
        -- 1. data before EOF
        let t0 := if kind == "accept" || kind == "openreq" then ({} : Trk) else getTrk s id
        let t1 : Trk :=
          match kind, rest with
          | "frame", [fin, hex, _] =>
            if res == "unknown" then t0
            else
              let arr := if hex == "-" then t0.arrived else t0.arrived ++ [hex]
              { t0 with arrived := arr, atFin := if fin == "1" && t0.atFin.isNone then some arr else t0.atFin }
          | _, _ => t0
        let (t2, e1) := feed t1 mid cl
        let (t3, e2) := feed t2 end_ cl
        -- 1b. a frame the stream layer accepted must have its effect: FIN is signalled, the payload is queued
        let e0 : Option String :=
          match kind, rest with
          | "frame", [fin, hex, _] =>
            if res != "ok" then none
            else if fin == "1" && field mine "rf" != "1" then some "fin-not-signalled"
            else if hex != "-" then
              let before := (field ((s.last.lookup id).getD "") "n").toNat!
              let taken := (if mid.startsWith "data:" then 1 else 0) + (if end_.startsWith "data:" then 1 else 0)
              if (field mine "n").toNat! + taken == before + 1 then none else some "data-not-queued"
            else none
          | _, _ => none
        let s1 := setTrk s id t3
        -- 2. write refused after local FIN;  3. documented edges;  4. other streams untouched
        let e3 : Option String := dmp.foldl (fun acc e =>
          if acc.isSome then acc
          else if field e.2 "lf" == "1" && field e.2 "cw" == "1" then some "write-after-local-fin"
          else match s.last.lookup e.1 with
            | none => none
            | some prev =>
              if e.1 != id && prev != e.2 then some "cross-stream"
              else match letterSt (field prev "st"), letterSt (field e.2 "st") with
                | some a, some b => if kind != "accept" && kind != "openreq" && !edge a b then some "bad-transition" else none
                | _, _ => some "unparsable-output") none
        let s2 := { s1 with last := dmp }
        match e0, e1, e2, e3 with
        | some e, _, _, _ => (s2, "fail " ++ e)
        | _, some e, _, _ => (s2, "fail " ++ e)
        | _, _, some e, _ => (s2, "fail " ++ e)
        | _, _, _, some e => (s2, "fail " ++ e)
        | _, _, _, _ => (s2, "ok")
      | _ => (s, "fail unparsable-output")
    | _ => (s, "bad-op")
  | _ => (s, "bad-op")

def main (args : List String) : IO Unit :=
  match args with
  | ["spec"] => runLines ({} : SpecSt) specStep
  | _ => runLines ([] : Mgr String) step

end MM.Engine.C18
