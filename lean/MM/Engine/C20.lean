import MM.Engine.Basic
import MM.Model.C20

/- Engine c20 (protocol: harness/main/eng_c20.go).  Targets are indices; 0..5 accept
   connections, 6..7 refuse them. -/
namespace MM.Engine.C20
open MM MM.C20

structure St where
  running : Bool := false
  maxConn : Int := 0
  eps : List (Endpoint Nat) := []
  active : List Bool := []     -- one entry per successful dial, in order; false once closed
  valid : Bool := true

def liveTargets : Nat := 6
def selfId : Nat := 1
def otherId : Nat := 2

def count (s : St) : Int := (s.active.filter id).length

def parseInt (s : String) : Option Int :=
  if s.startsWith "-" then (s.drop 1).toString.toNat?.map (fun n => -(n : Int)) else s.toNat?.map (fun n => (n : Int))

def parseReset (toks : List String) : Option St :=
  toks.foldlM (init := ({} : St)) fun s tok =>
    if tok.startsWith "started=" then some { s with running := tok == "started=1" }
    else if tok.startsWith "max=" then (parseInt (tok.drop 4).toString).map fun n => { s with maxConn := n }
    else match tok.splitOn ":" with
      | [k, t] => do
        let kb ← bytesOfHex k
        -- a trailing `h` only changes how the harness WRITES the target (localhost:<port>); same listener
        let tn ← (if t.endsWith "h" then (t.dropEnd 1).toString else t).toNat?
        pure { s with eps := s.eps ++ [⟨kb, tn⟩] }
      | _ => none

/-- Apply the handler's decision for `key`; returns the answer line. -/
def doOpen (s : St) (key : Bytes) : St × String :=
  match handleOpen s.running s.maxConn (count s) s.eps key with
  | .notRunning => (s, "notrunning")
  | .refuse c => (s, s!"err {c}")
  | .dial t =>
    if t < liveTargets then ({ s with active := s.active ++ [true] }, s!"dial {t}")
    else (s, s!"dialerr {Gen.C20.errConnectionRefused}")

def parsePath : String → Option (List Nat)
  | "none" => some []
  | "self" => some [selfId]
  | "other" => some [otherId]
  | "selfother" => some [selfId, otherId]
  | "otherself" => some [otherId, selfId]
  | _ => none

def setFalse : List Bool → Nat → List Bool
  | [], _ => []
  | _ :: bs, 0 => false :: bs
  | b :: bs, i+1 => b :: setFalse bs i

def step (s : St) (line : String) : St × String :=
  match tokens line with
  | "reset" :: rest =>
    match parseReset rest with
    | some s' => (s', "ok")
    | none => ({ s with valid := false }, "bad-op")
  | ["start"] => ({ s with running := true }, "ok")
  | ["open", k] =>
    match bytesOfHex k with
    | some key => doOpen s key
    | none => (s, "bad-op")
  | ["agent", aty, addr, path, _w] =>
    match aty.toNat?, bytesOfHex addr, parsePath path with
    | some atn, some addr, some path =>
      match dispatch selfId atn addr path with
      | .forward key =>
        let (s', out) := doOpen s key
        -- through the agent a stopped handler is simply silent
        -- and a refusal is reported as `err <code>` whether it was decided before or by the dial
        (s', if out == "notrunning" then "none" else if out.startsWith "dialerr " then "err " ++ (out.drop 8).toString else out)
      | .reserved _ => (s, "reserved")
      | .exitTCP => (s, "none")
      | .relay => (s, "none")
    | _, _, _ => (s, "bad-op")
  | ["ingress", k, _w] =>
    match bytesOfHex k with
    | none => (s, "bad-op")
    | some key =>
      if key.isEmpty then (s, "noroute")      -- the forward table refuses an empty key
      else if forwardPrefix.length + key.length ≥ 256 then
        -- the address is truncated on the wire; whether the rest still parses depends on the key bytes
        (s, "anyof undecodable | none")
      else
        match dispatch selfId Gen.C20.addrTypeDomain (wireAddr (ingressAddr key)) [] with
        | .forward key' =>
          let (s', out) := doOpen s key'
          (s', if out == "notrunning" then "none" else if out.startsWith "dialerr " then "err " ++ (out.drop 8).toString else out)
        | _ => (s, "none")
  | ["close", i] =>
    match i.toNat? with
    | some i => ({ s with active := setFalse s.active i }, "ok")
    | none => (s, "bad-op")
  | _ => (s, "bad-op")

/-! Executable statement of C20 on the implementation's own answers (stateful: the connection
    count is reconstructed from the implementation's `dial` answers). -/

structure SpecSt where
  st : St := {}

def keyKnown (s : St) (key : Bytes) : Bool := s.eps.any (·.key == key)

def judge (s : St) (key : Option Bytes) (out : List String) : String :=
  -- key = none: the request must not reach the forward handler at all
  if out.any (·.startsWith "stray=") then "fail stray-dial"
  else match key, out with
    | none, "none" :: _ => "ok"
    | none, _ => "fail dispatched-non-forward"
    | some k, "dial" :: t :: _ =>
      if !keyKnown s k then "fail dialed-unknown-key"
      else if s.eps.any (fun ep => ep.key == k && toString ep.target == t) then "ok" else "fail wrong-target"
    | some k, "dialerr" :: _ => if keyKnown s k then "ok" else "fail dialed-unknown-key"
    | some k, "err" :: c :: _ =>
      if keyKnown s k then "ok"     -- refusals of known keys (limit) are not this property's concern
      else if c == toString errForwardNotFound then "ok"
      else if c == toString errConnectionLimit && s.maxConn > 0 && count s ≥ s.maxConn then "ok"
      else "fail unknown-key-wrong-reply"
    | some k, ["notrunning"] => if s.running then (if keyKnown s k then "ok" else "fail unknown-key-wrong-reply") else "ok"
    | some k, "none" :: _ => if !s.running || keyKnown s k then "ok" else "fail unknown-key-wrong-reply"
    | some _, _ => "fail unparsable-output"

def specStep (s : St) (line : String) : St × String :=
  match line.splitOn "\t" with
  | [op, out] =>
    if out.startsWith "panic" || out.startsWith "crash" then (s, "fail crashed")
    else
    let o := tokens out
    let advance := fun (s : St) => match o with
      | "dial" :: _ => { s with active := s.active ++ [true] }
      | _ => s
    match tokens op with
    | "reset" :: _ => ((step s op).1, "ok")
    | ["start"] => ((step s op).1, "ok")
    | ["close", _] => ((step s op).1, "ok")
    | ["open", k] =>
      match bytesOfHex k with
      | some key => (advance s, judge s (some key) o)
      | none => (s, "bad-op")
    | ["ingress", k, _w] =>
      match bytesOfHex k with
      | some key =>
        if key.isEmpty || forwardPrefix.length + key.length ≥ 256 then
          -- nothing may be dialled for a key that cannot be expressed on the wire
          (advance s, if o.head? == some "dial" || o.any (·.startsWith "stray=") then "fail dialed-unknown-key" else "ok")
        else (advance s, judge s (some key) o)
      | none => (s, "bad-op")
    | ["agent", aty, addr, path, _w] =>
      match aty.toNat?, bytesOfHex addr, parsePath path with
      | some atn, some addr, some path =>
        let isFwd := isExit selfId path && atn == Gen.C20.addrTypeDomain && forwardPrefix.isPrefixOf (domainString addr)
        if isFwd then (advance s, judge s (some ((domainString addr).drop forwardPrefix.length)) o)
        else (advance s, judge s none o)
      | _, _, _ => (s, "bad-op")
    | _ => (s, "bad-op")
  | _ => (s, "bad-op")

def main (args : List String) : IO Unit :=
  match args with
  | ["spec"] => runLines ({} : St) specStep
  | _ => runLines ({} : St) step

end MM.Engine.C20
