import MM.Engine.Basic
import MM.Model.C20

/- Engine c20 (protocol: harness/main/eng_c20.go).  Targets are indices; 0..5 accept
   connections, 6..7 refuse them. -/
namespace MM.Engine.C20
open MM MM.C20

structure St where
  running : Bool := false
  maxConn : Int := 0
  eps : List (Endpoint Nat) := []
  /-- one entry per stream id that was ever dialled successfully, in order: is a record for it live,
      which target does it talk to, was it opened by the ingress agent (session key not the harness's) -/
  slots : List (Bool × Nat × Bool) := []
  valid : Bool := true

def liveTargets : Nat := 6
def selfId : Nat := 1
def otherId : Nat := 2

def count (s : St) : Int := (s.slots.filter (·.1)).length

def parseInt (s : String) : Option Int :=
  if s.startsWith "-" then (s.drop 1).toString.toNat?.map (fun n => -(n : Int)) else s.toNat?.map (fun n => (n : Int))

def parseReset (toks : List String) : Option St :=
  toks.foldlM (init := ({} : St)) fun s tok =>
    if tok.startsWith "started=" then some { s with running := tok == "started=1" }
    else if tok.startsWith "max=" then (parseInt (tok.drop 4).toString).map fun n => { s with maxConn := n }
    else match tok.splitOn ":" with
      | [k, t] => do
        let kb ← bytesOfHex k
        -- a trailing `h` only changes how the harness WRITES the target (localhost:<port>); same listener
        let tn ← (if t.endsWith "h" then (t.dropEnd 1).toString else t).toNat?
        pure { s with eps := s.eps ++ [⟨kb, tn⟩] }
      | _ => none

/-- Apply the handler's decision for `key`; returns the answer line. -/
def doOpen (s : St) (key : Bytes) : St × String :=
  match handleOpen s.running s.maxConn (count s) s.eps key with
  | .notRunning => (s, "notrunning")
  | .refuse c => (s, s!"err {c}")
  | .dial t =>
    if t < liveTargets then ({ s with slots := s.slots ++ [(true, t, false)] }, s!"dial {t}")
    else (s, s!"dialerr {Gen.C20.errConnectionRefused}")

def setSlot : List (Bool × Nat × Bool) → Nat → (Bool × Nat × Bool) → List (Bool × Nat × Bool)
  | [], _, _ => []
  | _ :: bs, 0, v => v :: bs
  | b :: bs, i+1, v => b :: setSlot bs i v

/-- STREAM_OPEN on the stream id of slot `i`: the same decision as for a fresh id (the live record
    still counts against the limit); a successful dial REPLACES the record (the displaced connection
    is closed, the slot is counted once); a refusal or a failed dial leaves the old record alone. -/
def doReopen (s : St) (i : Nat) (key : Bytes) : St × String :=
  if i ≥ s.slots.length then doOpen s key
  else match handleOpen s.running s.maxConn (count s) s.eps key with
    | .notRunning => (s, "notrunning")
    | .refuse c => (s, s!"err {c}")
    | .dial t =>
      if t < liveTargets then ({ s with slots := setSlot s.slots i (true, t, false) }, s!"dial {t}")
      else (s, s!"dialerr {Gen.C20.errConnectionRefused}")

def parsePath : String → Option (List Nat)
  | "none" => some []
  | "self" => some [selfId]
  | "other" => some [otherId]
  | "selfother" => some [selfId, otherId]
  | "otherself" => some [otherId, selfId]
  | _ => none

def closeSlot : List (Bool × Nat × Bool) → Nat → List (Bool × Nat × Bool)
  | [], _ => []
  | (_, t, g) :: bs, 0 => (false, t, g) :: bs
  | b :: bs, i+1 => b :: closeSlot bs i

/-- mark the slot the last op created (if it created one) as opened by the ingress agent -/
def markIngress (before after : St) : St :=
  if after.slots.length > before.slots.length then
    { after with slots := after.slots.dropLast ++ (after.slots.getLast?.map (fun (l, t, _) => (l, t, true))).toList }
  else after

def step (s : St) (line : String) : St × String :=
  match tokens line with
  | "reset" :: rest =>
    match parseReset rest with
    | some s' => (s', "ok")
    | none => ({ s with valid := false }, "bad-op")
  | ["start"] => ({ s with running := true }, "ok")
  | ["open", k] =>
    match bytesOfHex k with
    | some key => doOpen s key
    | none => (s, "bad-op")
  | ["agent", aty, addr, path, _w] =>
    match aty.toNat?, bytesOfHex addr, parsePath path with
    | some atn, some addr, some path =>
      match dispatch selfId atn addr path with
      | .forward key =>
        let (s', out) := doOpen s key
        -- through the agent a stopped handler is simply silent
        -- and a refusal is reported as `err <code>` whether it was decided before or by the dial
        (s', if out == "notrunning" then "none" else if out.startsWith "dialerr " then "err " ++ (out.drop 8).toString else out)
      | .reserved _ => (s, "reserved")
      | .exitTCP => (s, "none")
      | .relay => (s, "none")
    | _, _, _ => (s, "bad-op")
  | ["ingress", k, _w] =>
    match bytesOfHex k with
    | none => (s, "bad-op")
    | some key =>
      if key.isEmpty then (s, "noroute")      -- the forward table refuses an empty key
      else if forwardPrefix.length + key.length ≥ 256 then
        -- the address is truncated on the wire; whether the rest still parses depends on the key bytes
        (s, "anyof undecodable | none")
      else
        match dispatch selfId Gen.C20.addrTypeDomain (wireAddr (ingressAddr key)) [] with
        | .forward key' =>
          let (s', out) := doOpen s key'
          (markIngress s s', if out == "notrunning" then "none" else if out.startsWith "dialerr " then "err " ++ (out.drop 8).toString else out)
        | _ => (s, "none")
  | ["reopen", i, k] =>
    match i.toNat?, bytesOfHex k with
    | some i, some key => doReopen s i key
    | _, _ => (s, "bad-op")
  | ["data", i] =>
    match i.toNat? with
    | some i =>
      match s.slots[i]? with
      | some (true, t, false) => (s, s!"data {t}")
      | some (true, _, true) => (s, "data skipped")
      | some (false, _, true) => (s, "data skipped")
      | _ => (s, "data none")
    | none => (s, "bad-op")
  | ["close", i] =>
    match i.toNat? with
    | some i => ({ s with slots := closeSlot s.slots i }, "ok")
    | none => (s, "bad-op")
  | _ => (s, "bad-op")

/-! Executable statement of C20 on the implementation's own answers (stateful: the connection
    count is reconstructed from the implementation's `dial` answers). -/

structure SpecSt where
  st : St := {}

def keyKnown (s : St) (key : Bytes) : Bool := s.eps.any (·.key == key)

def judge (s : St) (key : Option Bytes) (out : List String) : String :=
  -- key = none: the request must not reach the forward handler at all
  if out.any (·.startsWith "stray=") then "fail stray-dial"
  else match key, out with
    | none, "none" :: _ => "ok"
    | none, _ => "fail dispatched-non-forward"
    | some k, "dial" :: t :: _ =>
      if !keyKnown s k then "fail dialed-unknown-key"
      else if s.eps.any (fun ep => ep.key == k && toString ep.target == t) then "ok" else "fail wrong-target"
    | some k, "dialerr" :: _ => if keyKnown s k then "ok" else "fail dialed-unknown-key"
    | some k, "err" :: c :: _ =>
      if keyKnown s k then "ok"     -- refusals of known keys (limit) are not this property's concern
      else if c == toString errForwardNotFound then "ok"
      else if c == toString errConnectionLimit && s.maxConn > 0 && count s ≥ s.maxConn then "ok"
      else "fail unknown-key-wrong-reply"
    | some k, ["notrunning"] => if s.running then (if keyKnown s k then "ok" else "fail unknown-key-wrong-reply") else "ok"
    | some k, "none" :: _ => if !s.running || keyKnown s k then "ok" else "fail unknown-key-wrong-reply"
    | some _, _ => "fail unparsable-output"

def specStep (s : St) (line : String) : St × String :=
  match line.splitOn "\t" with
  | [op, out] =>
    if out.startsWith "panic" || out.startsWith "crash" then (s, "fail crashed")
    else
    let o := tokens out
    -- the implementation's own answers drive the reconstruction of its state
    let tgt := fun (o : List String) => match o with | _ :: t :: _ => t.toNat?.getD 99 | _ => 99
    let advance := fun (s : St) => match o with
      | "dial" :: _ => { s with slots := s.slots ++ [(true, tgt o, false)] }
      | _ => s
    match tokens op with
    | "reset" :: _ => ((step s op).1, "ok")
    | ["start"] => ((step s op).1, "ok")
    | ["close", _] => ((step s op).1, "ok")
    | ["open", k] =>
      match bytesOfHex k with
      | some key => (advance s, judge s (some key) o)
      | none => (s, "bad-op")
    | ["reopen", i, k] =>
      match i.toNat?, bytesOfHex k with
      | some i, some key =>
        let s' := if i ≥ s.slots.length then advance s
                  else match o with
                    | "dial" :: _ => { s with slots := setSlot s.slots i (true, tgt o, false) }
                    | _ => s
        (s', judge s (some key) o)
      | _, _ => (s, "bad-op")
    | ["data", i] =>
      -- data sent under the session of the last ACKed open of a stream reaches the target that open
      -- was answered with (which `judge` tied to the requested key), or nothing
      match i.toNat?, o with
      | some i, ["data", j] =>
        if j == "none" || j == "skipped" then (s, "ok")
        else match s.slots[i]? with
          | some (_, t, _) => (s, if toString t == j then "ok" else "fail data-reached-wrong-target")
          | none => (s, "fail data-reached-wrong-target")
      | _, _ => (s, "fail unparsable-output")
    | ["ingress", k, _w] =>
      match bytesOfHex k with
      | some key =>
        if key.isEmpty || forwardPrefix.length + key.length ≥ 256 then
          -- nothing may be dialled for a key that cannot be expressed on the wire
          (advance s, if o.head? == some "dial" || o.any (·.startsWith "stray=") then "fail dialed-unknown-key" else "ok")
        else (advance s, judge s (some key) o)
      | none => (s, "bad-op")
    | ["agent", aty, addr, path, _w] =>
      match aty.toNat?, bytesOfHex addr, parsePath path with
      | some atn, some addr, some path =>
        let isFwd := isExit selfId path && atn == Gen.C20.addrTypeDomain && forwardPrefix.isPrefixOf (domainString addr)
        if isFwd then (advance s, judge s (some ((domainString addr).drop forwardPrefix.length)) o)
        else (advance s, judge s none o)
      | _, _, _ => (s, "bad-op")
    | _ => (s, "bad-op")
  | _ => (s, "bad-op")

def main (args : List String) : IO Unit :=
  match args with
  | ["spec"] => runLines ({} : St) specStep
  | _ => runLines ({} : St) step

end MM.Engine.C20
