import MM.Engine.Basic
import MM.Model.C34

/-!
  Line-protocol oracle for C34 (see harness/main/eng_c34.go for the protocol).
  `derive` is instantiated with the identity on tags: public-key tag `v` = "the public key of
  private key `v`".
-/
namespace MM.Engine.C34
open MM MM.C34

def d : Nat → Nat := id

def showContent : Option Content → String
  | none => "-"
  | some (.whole v) => s!"w{v}"
  | some (.cut _ 0) => "e"
  | some (.cut v k) => s!"c{v}.{k}"
  | some .junk => "j"

def parseContent (t : String) : Option (Option Content) :=
  if t = "-" then some none
  else if t = "e" then some (some (.cut 0 0))
  else if t = "j" || t = "J" then some (some .junk)
  else if t.startsWith "w" then (t.drop 1).toNat?.map (fun v => some (.whole v))
  else if t.startsWith "c" then
    match (t.drop 1).toString.splitOn "." with
    | [a, b] => match a.toNat?, b.toNat? with
      | some v, some k => some (some (.cut v k))
      | _, _ => none
    | _ => none
  else none

def showFS (s : FS) : String :=
  (if s.dir then "d1" else "d0") ++ " " ++
    " ".intercalate ([s.id, s.idT, s.key, s.keyT, s.pub, s.pubT, s.sl, s.slT].map showContent)

def parseFS : List String → Option FS
  | [dd, a, b, c, e, f, g, h, i] => do
    let a ← parseContent a; let b ← parseContent b; let c ← parseContent c; let e ← parseContent e
    let f ← parseContent f; let g ← parseContent g; let h ← parseContent h; let i ← parseContent i
    if dd = "d1" then some ⟨true, a, b, c, e, f, g, h, i⟩
    else if dd = "d0" then some {}
    else none
  | _ => none

def showStarted : Option Started → String
  | none => "fail"
  | some r =>
    let sl := match r.sleep with | some v => toString v | none => "none"
    s!"id={r.id} priv={r.priv} pubok={if r.pub = d r.priv then 1 else 0} sleep={sl}"

/-- A start as the recovery run (fresh values 910 / 911), with the state it leaves. -/
def recover (s : FS) : String :=
  let (r, ops) := start d s 910 911
  showStarted r ++ " ; " ++ showFS (applyAll s ops)

/-- What the killed process was doing: one action, or several in a row in one process. -/
def parseAction : List String → Option (List Action × List String)
  | "start" :: r => some ([.start 900 901], r)
  | "storeid" :: v :: r => v.toNat?.map (fun v => ([.storeId v], r))
  | "persist" :: w :: r => w.toNat?.map (fun w => ([.persist w], r))
  | "persistseq" :: a :: b :: c :: r => match a.toNat?, b.toNat?, c.toNat? with
    | some a, some b, some c => some ([.persist a, .persist b, .persist c], r)
    | _, _, _ => none
  | "startpersist" :: w :: r => w.toNat?.map (fun w => ([.start 900 901, .persist w], r))
  | _ => none

/-- Crash states of a sequence of actions: any crash state of the first, or — the first completed —
    any crash state of the rest. -/
def seqCrash (s : FS) : List Action → List FS
  | [] => [s]
  | a :: r => crashStates s (actionOps d s a) ++ seqCrash (applyAll s (actionOps d s a)) r

def seqFinal (s : FS) : List Action → FS
  | [] => s
  | a :: r => seqFinal (applyAll s (actionOps d s a)) r

def step (line : String) : String :=
  match tokens line with
  | "start" :: st => match parseFS st with
    | some s => recover s
    | none => "bad-op"
  | "storeid" :: v :: st => match v.toNat?, parseFS st with
    | some v, some s => "ok ; " ++ showFS (applyAll s (storeIdOps v))
    | _, _ => "bad-op"
  | "persist" :: w :: st => match w.toNat?, parseFS st with
    | some w, some s => (if s.dir then "ok" else "err") ++ " ; " ++ showFS (applyAll s (persistOps s w))
    | _, _ => "bad-op"
  | "crash" :: _cls :: _n :: rest => match parseAction rest with
    | some (a, st) => match parseFS st with
      | some s =>
        let killed := (seqCrash s a).map (fun s1 => "killed " ++ showFS s1 ++ " ; " ++ recover s1)
        let fin := seqFinal s a
        "anyof " ++ " | ".intercalate (("clean " ++ showFS fin ++ " ; " ++ recover fin) :: killed.eraseDups)
      | none => "bad-op"
    | none => "bad-op"
  | _ => "bad-op"

/-! ### Executable statement of C34 on the implementation's own answers -/

structure ImplStart where
  id : Nat
  priv : Nat
  pubok : Bool
  sleep : Option Nat

def kv (t : String) (key : String) : Option String :=
  if t.startsWith (key ++ "=") then some (t.drop (key.length + 1)).toString else none

def parseImplStart : List String → Option (Option ImplStart)
  | ["fail"] => some none
  | [a, b, c, e] => do
    let i ← (← kv a "id").toNat?
    let k ← (← kv b "priv").toNat?
    let p ← kv c "pubok"
    let sl ← kv e "sleep"
    let slv ← if sl = "none" then some none else sl.toNat?.map some
    some (some ⟨i, k, p = "1", slv⟩)
  | _ => none

def splitSemi (toks : List String) : List (List String) :=
  let rec go (acc : List String) (out : List (List String)) : List String → List (List String)
    | [] => (acc.reverse :: out).reverse
    | ";" :: r => go [] (acc.reverse :: out) r
    | t :: r => go (t :: acc) out r
  go [] [] toks

/-- Checks on (state before the action, action, did it run to completion, state the kill left, the start's answer, state
    after the start). `s1 = s0` for a plain `start` line. Only for `good` initial states. -/
def judge (s0 : FS) (acts : List Action) (clean : Bool) (s1 : FS) (r : Option ImplStart) (s2 : FS) : String :=
  if !good d s0 then "ok"
  else match r with
  | none => "fail start-failed"
  | some r =>
    if !r.pubok then "fail key-inconsistent"
    else if (match s0.key with | some (.whole k) => s1.key != some (Content.whole k) | _ => false) then "fail key-replaced-on-disk"
    else if (match s1.key with | some (.whole k) => r.priv != k || s2.key != some (Content.whole k) | _ => false) then "fail key-replaced"
    else if (match s0.id, acts.any (fun a => match a with | .storeId _ => true | _ => false) with
        | _, true => false
        | some (.whole v), _ => s1.id != some (Content.whole v)
        | _, _ => false) then "fail id-replaced-on-disk"
    else if (match s1.id with | some (.whole v) => r.id != v || s2.id != some (Content.whole v) | _ => false) then "fail id-replaced"
    else if s2.id != some (Content.whole r.id) || s2.key != some (Content.whole r.priv) || s2.pub != some (Content.whole (d r.priv)) then
      "fail identity-not-stored"
    else
      let before := loadSleep s0
      let saves := acts.filterMap (fun a => match a with | .persist w => some w | _ => none)
      let hasDir := s0.dir || acts.any (fun a => match a with | .start _ _ => true | .storeId _ => true | _ => false)
      -- the state before, or (the directory existing) one of the values the process was saving
      let okSleep := r.sleep = before || (hasDir && saves.any (fun w => r.sleep = some w))
      let saved := match acts.getLast? with
        | some (.persist w) => !(clean && hasDir) || r.sleep = some w     -- a save that ran to completion is loaded back
        | _ => true
      if !okSleep then "fail sleep-torn" else if !saved then "fail sleep-not-saved" else "ok"

def spec (line : String) (implOut : String) : String :=
  if implOut.startsWith "panic" || implOut.startsWith "crash " then "fail crashed"
  else match tokens line with
  | "start" :: st => match parseFS st, splitSemi (tokens implOut) with
    | some s, [r, s2] => match parseImplStart r, parseFS s2 with
      | some r, some s2 => judge s [] false s r s2
      | _, _ => if good d s then "fail unparsable-answer" else "ok"
    | _, _ => "ok"
  | "crash" :: _ :: _ :: rest => match parseAction rest with
    | some (a, st) => match parseFS st, splitSemi (tokens implOut) with
      | some s, [how :: s1, r, s2] =>
        if how != "killed" && how != "clean" then "fail crash-run-failed" else
        match parseFS s1, parseImplStart r, parseFS s2 with
        | some s1, some r, some s2 => judge s a (how == "clean") s1 r s2
        | _, _, _ => if good d s then "fail unparsable-answer" else "ok"
      | some _, _ => "fail crash-run-failed"
      | none, _ => "ok"
    | none => "ok"
  | _ => "ok"

def main (args : List String) : IO Unit :=
  match args with
  | ["spec"] => runPure (fun l => match l.splitOn "\t" with
      | [op, out] => spec op out
      | _ => "bad-op")
  | _ => runPure step

end MM.Engine.C34
