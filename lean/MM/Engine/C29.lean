import MM.Engine.Basic
import MM.Model.C29
import MM.Engine.C28

/-
  Engine c29 (op language: harness/main/eng_c29.go).  A real `flood.Flooder` with configurable
  timestamp window / cache TTL / cache size, under a VIRTUAL clock: the harness lets time pass by
  moving every recorded instant into the past and stamps commands relative to the virtual clock.
  Virtual time starts at 1 800 000 000.5 s; all advances and timestamp offsets are whole seconds.

  Size eviction removes whichever entries Go's map iteration yields first.  When that choice is not
  forced (0 < excess < size) the model keeps the pre-eviction keys as `maybe` (present or not); a
  delivery of such a key is answered with `anyof <present answer> | <absent answer>`; cache-wide
  observations (`cleanup`, `keys`) are then not supported (the generator does not emit them).
-/
namespace MM.Engine.C29
open MM MM.C28 MM.C29 MM.Engine.C28

def baseSec : Nat := 1800000000

structure St where
  cfg : FCfg
  h : HState
  maybe : List (Nat × Nat)
  labels : List ((Nat × Nat × Nat × Sig) × (String × String))

def mkCfg (signing : Bool) (wSec ttlMs maxSize : Nat) : FCfg :=
  { signing, window := (wSec : Int) * 1000000000, ttl := (ttlMs : Int) * 1000000, maxSize, localID := 0, peers := [1, 2, 3] }

def St.init : St :=
  { cfg := mkCfg true 300 300000 10000, h := HState.init ((baseSec : Int) * 1000000000 + 500000000), maybe := [], labels := [] }

def showSends (labels : List ((Nat × Nat × Nat × Sig) × (String × String))) (sends : List (Nat × Kind × Cmd)) : String :=
  let items := sortStrings (sends.map (showItem labels))
  if items.isEmpty then "-" else ",".intercalate items

def showKeys (l : List Seen) : String :=
  let items := sortStrings (l.map fun e => s!"{e.origin}:{e.id}")
  if items.isEmpty then "-" else ",".intercalate items

def parseKind : String → Option Kind
  | "s" => some .sleep
  | "w" => some .wake
  | _ => none

def showDeliver (labels : List ((Nat × Nat × Nat × Sig) × (String × String))) (r : HState × Option Cmd × List (Nat × Kind × Cmd)) : String :=
  s!"acc={if r.2.1.isSome then 1 else 0} fwd={showSends labels r.2.2}"

def stepCore (s : St) (line : String) : St × String :=
  match tokens line with
  | ["reset", sg, w, ttl, mx] =>
    match w.toNat?, ttl.toNat?, mx.toNat? with
    | some w, some ttl, some mx => ({ St.init with cfg := mkCfg (sg == "1") w ttl mx }, "ok")
    | _, _, _ => (s, "bad-op")
  | ["d", k, from_, origin, id, ts, sig, seen] =>
    match parseKind k, from_.toNat?, origin.toNat?, id.toNat?, parseTs ts, parseSeen seen with
    | some k, some from_, some o, some i, some t, some sb =>
      match parseSig sig k o i t with
      | none => (s, "bad-op")
      | some sg =>
        let c : Cmd := { origin := o, id := i, ts := t, sig := sg, seenBy := sb }
        let labels := s.labels ++ [((o, i, t, sg), (ts, sig))]
        let rAbsent := stepEv idealV s.cfg s.h (.deliver k from_ c)
        if s.maybe.contains (o, i) then
          -- present: duplicate (answer acc=0, nothing sent; SeenAt possibly refreshed); absent: as computed.
          -- Either way the key is in the cache afterwards; the model continues with the "absent" state
          -- (entry stamped now), which is also what a refresh from another peer produces.
          let outP := "acc=0 fwd=-"
          let outA := showDeliver labels rAbsent
          ({ s with h := rAbsent.1, maybe := s.maybe.filter (· != (o, i)), labels },
            if outP == outA then outP else s!"anyof {outP} | {outA}")
        else
          ({ s with h := rAbsent.1, labels }, showDeliver labels rAbsent)
    | _, _, _, _, _, _ => (s, "bad-op")
  | ["adv", d] =>
    match d.toNat? with
    | some d => ({ s with h := (stepEv idealV s.cfg s.h (.advance (d * 1000000000))).1 }, "ok")
    | none => (s, "bad-op")
  | ["cleanup"] =>
    if !s.maybe.isEmpty then (s, "unsupported-after-eviction") else
    let l1 := expire s.h.f.seen s.h.now (sleepTtl s.cfg)
    let excess := l1.length - s.cfg.maxSize
    if excess = 0 then
      ({ s with h := { s.h with f := { s.h.f with seen := l1 } } }, s!"n={l1.length}")
    else if excess ≥ l1.length then
      ({ s with h := { s.h with f := { s.h.f with seen := [] } } }, "n=0")
    else
      ({ s with h := { s.h with f := { s.h.f with seen := [] } }, maybe := l1.map fun e => (e.origin, e.id) },
        s!"n={l1.length - excess}")
  | ["cleanupat", origin, id, delta] =>
    -- cleanup at SeenAt(key) + TTL + delta exactly (the function takes the instant as an argument)
    if !s.maybe.isEmpty then (s, "unsupported-after-eviction") else
    match origin.toNat?, id.toNat?, delta.toInt? with
    | some o, some i, some d =>
      match s.h.f.seen.find? (keyEq · o i) with
      | none => (s, "nokey")
      | some e =>
        let l1 := cleanup s.cfg s.h.f.seen (e.seenAt + sleepTtl s.cfg + d) []
        if l1.length > s.cfg.maxSize then (s, "unsupported-eviction") else
        ({ s with h := { s.h with f := { s.h.f with seen := l1 } } }, s!"n={l1.length}")
    | _, _, _ => (s, "bad-op")
  | ["edge", side, wh, _] =>
    -- a valid command whose age lies in the interval the harness can guarantee around the window edge
    let W : Int := 10000000000
    let cfg := { s.cfg with window := W, signing := true }
    let ages : Option (Int × Int) :=
      match side, wh with
      | "past", "out" => some (W + 1, W + 1000000000)
      | "past", "in" => some (W - 2000000, W)
      | "future", "in" => some (-W, -W + 2000000)
      | "future", "out" => some (-W - 1, -W - 2000000)
      | _, _ => none
    match ages with
    | none => (s, "bad-op")
    | some (a1, a2) =>
      let ts : Nat := 1800000000
      let c : Cmd := { origin := 4, id := 700000, ts, sig := .signed 0 .sleep 4 700000 ts, seenBy := [] }
      let r1 := verify idealV cfg ((ts : Int) * 1000000000 + a1) c
      let r2 := verify idealV cfg ((ts : Int) * 1000000000 + a2) c
      let show1 (b : Bool) := if b then "acc=1" else "acc=0"
      (s, if r1 == r2 then s!"anyof {show1 r1} | inconclusive" else "anyof acc=0 | acc=1 | inconclusive")
  | ["stress", _] => (s, "stress acc=1")   -- concurrent deliveries of one fresh valid command: exactly one is accepted
  | ["keys"] =>
    if !s.maybe.isEmpty then (s, "unsupported-after-eviction") else (s, s!"keys={showKeys s.h.f.seen}")
  | ["peer", p] =>
    match p.toNat? with
    | some p =>
      let r := stepEv idealV s.cfg s.h (.peer p)
      ({ s with h := r.1 }, s!"fwd={showSends s.labels r.2.2}")
    | none => (s, "bad-op")
  | _ => (s, "bad-op")

/-- The real clock moves between any two operations (by much less than a second, but strictly):
    one model nanosecond per op, so an age equal to a TTL to the second counts as exceeded, as on
    the real clock. -/
def step (s : St) (line : String) : St × String :=
  let (s', out) := stepCore s line
  if (tokens line).head? == some "reset" then (s', out) else ({ s' with h := { s'.h with now := s'.h.now + 1 } }, out)

/-! `spec` mode: the property evaluated on the implementation's own answers, statefully per case.
    (1) C29: a validly signed command (ideal signatures, described by its tokens) is accepted at
        most once per case;
    (2) admission (C28 at flooder level): with a signing key, nothing is accepted or forwarded
        unless validly signed and stamped inside the window at that (virtual) instant. -/

structure SpecSt where
  signing : Bool
  wSec : Nat
  ttlMs : Nat
  vnow : Nat                       -- virtual seconds since the start of the case
  accepted : List ((Nat × Nat × String × String) × Nat)   -- signed command -> virtual second of first acceptance

def SpecSt.init : SpecSt := { signing := true, wSec := 300, ttlMs := 300000, vnow := 0, accepted := [] }

/-- inside the window at virtual second `vnow` (sure cases only; the generator avoids the two
    second-granularity edge offsets). -/
def inWindow (s : SpecSt) (t : Nat) : Bool :=
  let age : Int := ((baseSec + s.vnow : Nat) : Int) - (t : Int)
  decide (-(s.wSec : Int) ≤ age ∧ age < (s.wSec : Int))

def specStep (s : SpecSt) (line : String) (implOut : String) : SpecSt × String :=
  if implOut.startsWith "panic" || implOut.startsWith "crash" then (s, "fail crashed") else
  if implOut == "skipped-drift" then (s, "ok") else
  match tokens line, tokens implOut with
  | ["reset", sg, w, ttl, _], _ =>
    ({ SpecSt.init with signing := sg == "1", wSec := w.toNat?.getD 300, ttlMs := ttl.toNat?.getD 300000 }, "ok")
  | ["adv", d], _ => ({ s with vnow := s.vnow + d.toNat?.getD 0 }, "ok")
  | ["edge", side, wh, _], [out] =>
    let want := if wh == "in" then "acc=1" else "acc=0"
    (s, if out == want || out == "inconclusive" then "ok" else s!"fail timestamp-window-edge-{side}-{wh}-{out}")
  | ["stress", _], out => (s, if out == ["stress", "acc=1"] then "ok" else "fail concurrent-deliveries-not-accepted-exactly-once")
  | ["d", kd, _, origin, id, ts, sig, _], [acc, fwd] =>
    match origin.toNat?, id.toNat?, parseTs ts with
    | some o, some i, some t =>
      match parseSig sig ((parseKind kd).getD .sleep) o i t with
      | none => (s, "ok")
      | some sg =>
        let acted := acc == "acc=1" || fwd != "fwd=-"
        if !s.signing || !acted then (s, "ok") else
        if !idealV o i t sg then (s, "fail command-admitted-without-valid-signature")
        else if !inWindow s t then (s, "fail command-admitted-outside-timestamp-window")
        else
          let key := (o, i, ts, sig)
          match s.accepted.find? (·.1 == key) with
          | none => ({ s with accepted := (key, s.vnow) :: s.accepted }, "ok")
          | some e =>
            if (s.vnow - e.2) * 1000 > max s.ttlMs (2 * s.wSec * 1000) then (s, "fail signed-command-accepted-twice-after-ttl-expiry")
            else (s, "fail signed-command-accepted-twice-after-eviction")
    | _, _, _ => (s, "ok")
  | ["peer", _], [fwd] =>
    if !s.signing || fwd == "fwd=-" then (s, "ok") else
    let items := (fwd.drop 4).toString.splitOn ","
    let bad := items.any fun it =>
      match it.splitOn ":" with
      | [_, _, o, i, tl, sl, _] =>
        match o.toNat?, i.toNat?, parseTs tl with
        | some o, some i, some t =>
          match parseSig sl .wake o i t with
          | some sg => !(idealV o i t sg && inWindow s t)
          | none => true
        | _, _, _ => true
      | _ => true
    (s, if bad then "fail pending-wake-forwarded-inadmissible" else "ok")
  | _, _ => (s, "ok")

def main (args : List String) : IO Unit :=
  match args with
  | ["spec"] => runLines SpecSt.init (fun s l => match l.splitOn "\t" with
      | [op, out] => specStep s op out
      | _ => (s, "bad-op"))
  | _ => runLines St.init (fun s l =>
      let (s', out) := step s l
      let t := (tokens l).head?
      (s', if t == some "reset" || t == some "edge" || t == some "stress" then out else allowSkipped out))

end MM.Engine.C29
