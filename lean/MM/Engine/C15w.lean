import MM.Engine.Basic

/-
  Engine c15w: configuration -> flooder wiring of the hop limit.

    wire <h>      -> mh=<h>            (the flooder's limit IS the configured routing.max_hops)
    validate <h>  -> valid | invalid   (valid iff 1 ≤ h ≤ 255)

  spec mode: the statement "the limit is set in the routing configuration" evaluated on the
  implementation's answer.
-/
namespace MM.Engine.C15w
open MM.Engine

def step (line : String) : String :=
  match tokens line with
  | ["wire", h] => match h.toInt? with
    | some h => s!"mh={h}"
    | none => "bad-op"
  | ["validate", h] => match h.toInt? with
    | some h => if 1 ≤ h ∧ h ≤ 255 then "valid" else "invalid"
    | none => "bad-op"
  | _ => "bad-op"

def spec (line : String) (implOut0 : String) : String :=
  let implOut := implOut0.trimAscii.toString
  if implOut.startsWith "panic" || implOut.startsWith "crash" then "fail crashed" else
  match tokens line with
  | ["wire", h] => if implOut = s!"mh={h}" then "ok" else "fail max-hops-not-wired"
  | ["validate", _] => if implOut = step line then "ok" else "fail max-hops-validation"
  | _ => "ok"

def main (args : List String) : IO Unit :=
  match args with
  | ["spec"] => runPure (fun l => match l.splitOn "\t" with
      | [op, out] => spec op out
      | _ => "bad-op")
  | _ => runPure step

end MM.Engine.C15w
