import MM.Engine.C08
import MM.Model.C09

/-!
  Line-protocol oracle for `routing.DomainTable`, `ForwardTable`, `AgentTable` (C09; also C10).
  Ops carry a table letter `d` / `f` / `a`; every table has its own clock.

    reset <self> [f:<in>:<out> | t:<in>:<out>]…    (Go's strings.ToLower / TrimSpace of the case's non-ASCII strings)
    dadd <pattern> <isWild 0|1> <base> <nh> <origin> <metric> <seq> <path>   (fields as a caller supplies them)
    dadv <pattern> <nh> <origin> <metric> <seq> <path>                        (fields from ParseDomainPattern, as the Manager does)
    drm <pattern> <origin>      dlook <name>
    fadd <key> <target> <nh> <origin> <metric> <seq> <path>     frm <key> <origin>     flook <key>
    aadd <agent> <nh> <origin> <metric> <seq> <path>            arm <agent> <origin>   alook <agent>
    Xdisc <peer>   Xage <n>   Xclean <maxAge>   Xsize   Xclear       (X = d | f | a)
    dhas <pattern> <origin>     fhas <key> <origin>     aroutes <agent>  (AgentTable.GetRoutesForAgent)
    mdlook <name>   mflook <key>   malook <agent>     the same lookups through Manager.LookupDomain /
                                                      LookupForward / LookupAgent (what the agent's dial path calls)
    oracle fold <in> <out>   oracle trim <in> <out>   Go's strings.ToLower / strings.TrimSpace of a
                                                      non-ASCII string (the harness verifies the pair)

  Mutators answer `result ; dump`, lookups `none | route <entry>`; names are hex byte strings.
-/
namespace MM.Engine.C09
open MM MM.C08 MM.C09 MM.Engine MM.Engine.C08

def showDomPay (p : DomPay) : String :=
  s!"{hexTok p.pattern}/{if p.isWild then 1 else 0}/{hexTok p.base}"
def showFwdPay (p : FwdPay) : String := s!"{hexTok p.key}/{hexTok p.target}"

def showE {P : Type} (showP : P → String) (now : Nat) (e : Entry P) : String :=
  s!"E{showP e.pay},{e.nextHop},{e.origin},{e.metric},{e.seq},{showPath e.path},{now - e.born}"

def showDKey (k : DKey) : String := (if k.1 then "w:" else "x:") ++ hexTok k.2

structure St where
  self : Nat := 0
  foldTab : List (Bytes × Bytes) := []
  trimTab : List (Bytes × Bytes) := []
  d : State DKey DomPay := ⟨0, []⟩
  f : State Bytes FwdPay := ⟨0, []⟩
  a : State Nat Nat := ⟨0, []⟩

/-- `strings.ToLower` / `strings.TrimSpace`: the ASCII model, overridden by what the harness told
    us Go answers for non-ASCII strings -/
def strOf (foldTab trimTab : List (Bytes × Bytes)) : Str :=
  ⟨fun b => (foldTab.lookup b).getD (lower b), fun b => (trimTab.lookup b).getD (trimSpace b)⟩

def St.str (st : St) : Str := strOf st.foldTab st.trimTab

/-- the oracle pairs a `reset` line may carry: `f:<in>:<out>` (strings.ToLower), `t:<in>:<out>`
    (strings.TrimSpace) — in the case header, so that a shrunk replay keeps them -/
def parseOracle (toks : List String) : List (Bytes × Bytes) × List (Bytes × Bytes) :=
  toks.foldl (fun acc tok =>
    match tok.splitOn ":" with
    | [k, i, o] =>
      match bytesOfHex i, bytesOfHex o with
      | some a, some b =>
        if k = "f" then ((a, b) :: acc.1, acc.2) else if k = "t" then (acc.1, (a, b) :: acc.2) else acc
      | _, _ => acc
    | _ => acc) ([], [])

def ddump (s : State DKey DomPay) : String := dumpWith showDKey (showE showDomPay) s.now s.tab
def fdump (s : State Bytes FwdPay) : String := dumpWith hexTok (showE showFwdPay) s.now s.tab
def adump (s : State Nat Nat) : String := dumpWith toString (showE toString) s.now s.tab

def mkEntry {P : Type} (p : P) (nh orig metric seq path : String) (now : Nat) : Entry P :=
  ⟨p, natTok nh, natTok orig, natTok metric, natTok seq, parsePath path, now⟩

def showOptE {P : Type} (showP : P → String) (now : Nat) : Option (Entry P) → String
  | none => "none"
  | some e => "route " ++ showE showP now e

/-- the table-independent mutators -/
def common {K P : Type} [DecidableEq K] (self : Nat) (s : State K P) (dump : State K P → String)
    (op arg : String) : Option (State K P × String) :=
  if op = "disc" then
    let t' := removeFromPeer s.tab (natTok arg)
    let s' : State K P := ⟨s.now, t'⟩
    some (s', s!"{countRoutes s.tab - countRoutes t'} ; {dump s'}")
  else if op = "age" then
    let s' : State K P := ⟨s.now + natTok arg, s.tab⟩
    some (s', s!"ok ; {dump s'}")
  else if op = "clean" then
    let t' := cleanupStale self s.now (natTok arg) s.tab
    let s' : State K P := ⟨s.now, t'⟩
    some (s', s!"{countRoutes s.tab - countRoutes t'} ; {dump s'}")
  else none

def step (st : St) (line : String) : St × String :=
  match tokens line with
  | "reset" :: self :: orc =>
    let (ft, tt) := parseOracle orc
    ({ self := natTok self, foldTab := ft, trimTab := tt }, "ok")
  | ["oracle", kind, i, o] =>
    match bytesOfHex i, bytesOfHex o with
    | some a, some b =>
      if kind = "fold" then ({ st with foldTab := (a, b) :: st.foldTab }, "ok")
      else if kind = "trim" then ({ st with trimTab := (a, b) :: st.trimTab }, "ok")
      else (st, "bad-op")
    | _, _ => (st, "bad-op")
  -- domain table
  | ["dadd", pat, w, base, nh, orig, metric, seq, path] =>
    match bytesOfHex pat, bytesOfHex base with
    | some p, some b =>
      let e := mkEntry (⟨p, w == "1", b⟩ : DomPay) nh orig metric seq path st.d.now
      let (t', ok) := addRoute (domCfg st.str) st.self st.d.tab e
      let s' : State DKey DomPay := ⟨st.d.now, t'⟩
      ({ st with d := s' }, s!"{ok} ; {ddump s'}")
    | _, _ => (st, "bad-op")
  | ["dadv", pat, nh, orig, metric, seq, path] =>
    match bytesOfHex pat with
    | some p =>
      let e := mkEntry (payOfPattern st.str p) nh orig metric seq path st.d.now
      let (t', ok) := addRoute (domCfg st.str) st.self st.d.tab e
      let s' : State DKey DomPay := ⟨st.d.now, t'⟩
      ({ st with d := s' }, s!"{ok} ; {ddump s'}")
    | none => (st, "bad-op")
  | ["drm", pat, orig] =>
    match bytesOfHex pat with
    | some p =>
      let (t', ok) := domRemove st.str st.d.tab p (natTok orig)
      let s' : State DKey DomPay := ⟨st.d.now, t'⟩
      ({ st with d := s' }, s!"{ok} ; {ddump s'}")
    | none => (st, "bad-op")
  | ["dlook", name] =>
    match bytesOfHex name with
    | some n =>
      match domLookup st.str st.d.tab n with
      | none => (st, "none")
      | some r => (st, showHead (showE showDomPay st.d.now) (get st.d.tab (domKey st.str r.pay)))
    | none => (st, "bad-op")
  -- forward table
  | ["fadd", key, target, nh, orig, metric, seq, path] =>
    match bytesOfHex key, bytesOfHex target with
    | some k, some tg =>
      let e := mkEntry (⟨k, tg⟩ : FwdPay) nh orig metric seq path st.f.now
      let (t', ok) := addRoute fwdCfg st.self st.f.tab e
      let s' : State Bytes FwdPay := ⟨st.f.now, t'⟩
      ({ st with f := s' }, s!"{ok} ; {fdump s'}")
    | _, _ => (st, "bad-op")
  | ["frm", key, orig] =>
    match bytesOfHex key with
    | some k =>
      let (t', ok) := fwdRemove st.f.tab k (natTok orig)
      let s' : State Bytes FwdPay := ⟨st.f.now, t'⟩
      ({ st with f := s' }, s!"{ok} ; {fdump s'}")
    | none => (st, "bad-op")
  | ["flook", key] =>
    match bytesOfHex key with
    | some k => (st, showHead (showE showFwdPay st.f.now) (get st.f.tab k))
    | none => (st, "bad-op")
  -- agent table
  | ["aadd", ag, nh, orig, metric, seq, path] =>
    let e := mkEntry (natTok ag) nh orig metric seq path st.a.now
    let (t', ok) := addRoute agCfg st.self st.a.tab e
    let s' : State Nat Nat := ⟨st.a.now, t'⟩
    ({ st with a := s' }, s!"{ok} ; {adump s'}")
  | ["arm", ag, orig] =>
    let (t', ok) := removeRoute st.a.tab (natTok ag) (natTok orig)
    let s' : State Nat Nat := ⟨st.a.now, t'⟩
    ({ st with a := s' }, s!"{ok} ; {adump s'}")
  | ["alook", ag] => (st, showHead (showE toString st.a.now) (get st.a.tab (natTok ag)))
  | ["aroutes", ag] =>
    (st, " ".intercalate ("routes" :: renderGroup (showE toString st.a.now) (get st.a.tab (natTok ag))))
  | ["dhas", pat, orig] =>
    match bytesOfHex pat with
    | some p => (st, toString (!p.isEmpty && hasRoute st.d.tab (domRemoveKey st.str p) (natTok orig)))
    | none => (st, "bad-op")
  | ["fhas", key, orig] =>
    match bytesOfHex key with
    | some k => (st, toString (!k.isEmpty && hasRoute st.f.tab k (natTok orig)))
    | none => (st, "bad-op")
  | ["dsize"] => (st, s!"size {size st.d.tab} {totalRoutes st.d.tab}")
  | ["fsize"] => (st, s!"size {size st.f.tab} {totalRoutes st.f.tab}")
  | ["asize"] => (st, s!"size {size st.a.tab} {totalRoutes st.a.tab}")
  | ["dclear"] => ({ st with d := ⟨st.d.now, []⟩ }, "ok ; empty")
  | ["fclear"] => ({ st with f := ⟨st.f.now, []⟩ }, "ok ; empty")
  | ["aclear"] => ({ st with a := ⟨st.a.now, []⟩ }, "ok ; empty")
  | [op, arg] =>
    let tbl := (op.take 1).toString
    let o := (op.drop 1).toString
    if tbl = "d" then
      match common st.self st.d ddump o arg with
      | some (s', out) => ({ st with d := s' }, out)
      | none => (st, "bad-op")
    else if tbl = "f" then
      match common st.self st.f fdump o arg with
      | some (s', out) => ({ st with f := s' }, out)
      | none => (st, "bad-op")
    else if tbl = "a" then
      match common st.self st.a adump o arg with
      | some (s', out) => ({ st with a := s' }, out)
      | none => (st, "bad-op")
    else (st, "bad-op")
  | _ => (st, "bad-op")

/-- `mdlook` / `mflook` / `malook` (the Manager's lookups) are the table lookups -/
def unalias (line : String) : String :=
  match tokens line with
  | ["mdlook", name] => s!"dlook {name}"
  | ["mflook", key] => s!"flook {key}"
  | ["malook", ag] => s!"alook {ag}"
  | _ => line

/-- `step` plus the `race` op (`race <n> | op | op …`, all ops on one table) -/
def stepR (st : St) (line : String) : St × String :=
  if line.trimAscii.toString.startsWith "race" then raceRun step st line else step st (unalias line)

/-! ### `spec`: the statement of C09 evaluated on the implementation's own answers -/

/-- common fields of a dump entry; `payTok` is what stands before the first comma -/
def parseCommon {P : Type} (parseP : String → Option P) (tok : String) : Option (Entry P) :=
  if !tok.startsWith "E" then none else
  match (tok.drop 1).toString.splitOn "," with
  | [pay, nh, orig, metric, seq, path, age] =>
    (parseP pay).map fun p =>
      ⟨p, natTok nh, natTok orig, natTok metric, natTok seq, parsePath path, natTok age⟩
  | _ => none

def parseDomPay (s : String) : Option DomPay :=
  match s.splitOn "/" with
  | [p, w, b] => match bytesOfHex p, bytesOfHex b with
    | some p, some b => some ⟨p, w == "1", b⟩
    | _, _ => none
  | _ => none

def parseFwdPay (s : String) : Option FwdPay :=
  match s.splitOn "/" with
  | [k, t] => match bytesOfHex k, bytesOfHex t with
    | some k, some t => some ⟨k, t⟩
    | _, _ => none
  | _ => none

def parseAgPay (s : String) : Option Nat := s.toNat?

def parseDumpWith {P : Type} (parseP : String → Option P) (out : String) : Option (List (Entry P)) :=
  match out.splitOn " ; " with
  | [_, d] => some ((tokens d).filterMap (parseCommon parseP))
  | _ => none

/-- Executable domain statement: stored; applies; no exact route applies when a wildcard is
    answered; no applicable route of the same kind is cheaper; `none` only when nothing applies. -/
def specDom (S : Str) (tab : List (Entry DomPay)) (d : Bytes) (answer : List String) : String :=
  match answer with
  | ["none"] => if tab.any (fun e => matchesB S e.pay d) then "fail dom-missed" else "ok"
  | ["route", tok] =>
    match parseCommon parseDomPay tok with
    | none => "fail unparsable-answer"
    | some r =>
      if !tab.contains r then "fail dom-not-stored"
      else if !matchesB S r.pay d then "fail dom-not-applicable"
      else if r.pay.isWild && tab.any (fun e => !e.pay.isWild && matchesB S e.pay d) then
        "fail dom-exact-not-preferred"
      else if r.pay.isWild && !(match splitDot d with
          | some (l, b) => !l.isEmpty && !b.isEmpty
          | none => false) then
        -- independent of the folding: the name as given must have a first label and a rest
        "fail dom-wildcard-raw-depth"
      else if tab.any (fun e => matchesB S e.pay d && e.pay.isWild == r.pay.isWild &&
          decide (e.metric < r.metric)) then "fail dom-not-lowest-metric"
      else "ok"
  | _ => "fail unparsable-answer"

/-- Executable `KeyBest`. -/
def specKey {P K : Type} [DecidableEq P] [DecidableEq K] (parseP : String → Option P)
    (keyOf : P → K) (tab : List (Entry P)) (k : K) (answer : List String) : String :=
  match answer with
  | ["none"] => if tab.any (fun e => keyOf e.pay == k) then "fail key-missed" else "ok"
  | ["route", tok] =>
    match parseCommon parseP tok with
    | none => "fail unparsable-answer"
    | some r =>
      if !tab.contains r then "fail key-not-stored"
      else if !(keyOf r.pay == k) then "fail key-wrong-key"
      else if tab.any (fun e => keyOf e.pay == k && decide (e.metric < r.metric)) then
        "fail key-not-lowest-metric"
      else "ok"
  | _ => "fail unparsable-answer"

structure SpecSt where
  self : Nat := 0
  foldTab : List (Bytes × Bytes) := []
  trimTab : List (Bytes × Bytes) := []
  d : List (Entry DomPay) := []
  f : List (Entry FwdPay) := []
  a : List (Entry Nat) := []
  dt : List String := []
  ft : List String := []
  atk : List String := []

/-- the table a `race` line works on: first letter of its first op -/
def raceTable (op : String) : String :=
  match raceOps op with
  | o :: _ => (o.take 1).toString
  | [] => ""

/-- `race` on the tables the implementation printed last -/
def specRace (st : SpecSt) (op out : String) : SpecSt × String :=
  let tbl := raceTable op
  let ms : St := {
    self := st.self
    foldTab := st.foldTab
    trimTab := st.trimTab
    d := ⟨baseNow, rebuild (domKey (strOf st.foldTab st.trimTab)) (parseCommon parseDomPay) baseNow st.dt⟩
    f := ⟨baseNow, rebuild (·.key) (parseCommon parseFwdPay) baseNow st.ft⟩
    a := ⟨baseNow, rebuild id (parseCommon parseAgPay) baseNow st.atk⟩ }
  let (_, expected) := stepR ms op
  let v := raceVerdict (tbl == "a") expected out
  if tbl = "d" then
    ({ st with d := (parseDumpWith parseDomPay out).getD [], dt := dumpToks out }, v)
  else if tbl = "f" then
    ({ st with f := (parseDumpWith parseFwdPay out).getD [], ft := dumpToks out }, v)
  else if tbl = "a" then
    ({ st with a := (parseDumpWith parseAgPay out).getD [], atk := dumpToks out }, v)
  else (st, "bad-op")

def specStep (st : SpecSt) (l : String) : SpecSt × String :=
  match l.splitOn "\t" with
  | [op, out] =>
    if out.startsWith "panic" || out.startsWith "crash" then (st, "fail crashed")
    else match tokens op with
      | "reset" :: self :: orc =>
        if tokens out != ["ok"] then ({ self := natTok self }, "fail bad-oracle")
        else
          let (ft, tt) := parseOracle orc
          ({ self := natTok self, foldTab := ft, trimTab := tt }, "ok")
      | ["oracle", kind, i, o] =>
        match bytesOfHex i, bytesOfHex o with
        | some a, some b =>
          if tokens out != ["ok"] then (st, "fail bad-oracle")
          else if kind = "fold" then ({ st with foldTab := (a, b) :: st.foldTab }, "ok")
          else ({ st with trimTab := (a, b) :: st.trimTab }, "ok")
        | _, _ => (st, "bad-op")
      | "race" :: _ => specRace st op out
      | ["mdlook", name] =>
        match bytesOfHex name with
        | some n => (st, specDom (strOf st.foldTab st.trimTab) st.d n (tokens out))
        | none => (st, "bad-op")
      | ["mflook", key] =>
        match bytesOfHex key with
        | some k => (st, specKey parseFwdPay (·.key) st.f k (tokens out))
        | none => (st, "bad-op")
      | ["malook", ag] => (st, specKey parseAgPay id st.a (natTok ag) (tokens out))
      | ["dlook", name] =>
        match bytesOfHex name with
        | some n => (st, specDom (strOf st.foldTab st.trimTab) st.d n (tokens out))
        | none => (st, "bad-op")
      | ["flook", key] =>
        match bytesOfHex key with
        | some k => (st, specKey parseFwdPay (·.key) st.f k (tokens out))
        | none => (st, "bad-op")
      | ["alook", ag] => (st, specKey parseAgPay id st.a (natTok ag) (tokens out))
      | ["aroutes", _] => (st, "ok")
      | ["dhas", _, _] => (st, "ok")
      | ["fhas", _, _] => (st, "ok")
      | ["dsize"] => (st, "ok")
      | ["fsize"] => (st, "ok")
      | ["asize"] => (st, "ok")
      | opn :: _ =>
        let tbl := (opn.take 1).toString
        if tbl = "d" then
          match parseDumpWith parseDomPay out with
          | some d => ({ st with d := d, dt := dumpToks out }, "ok")
          | none => (st, "fail unparsable-dump")
        else if tbl = "f" then
          match parseDumpWith parseFwdPay out with
          | some d => ({ st with f := d, ft := dumpToks out }, "ok")
          | none => (st, "fail unparsable-dump")
        else if tbl = "a" then
          match parseDumpWith parseAgPay out with
          | some d => ({ st with a := d, atk := dumpToks out }, "ok")
          | none => (st, "fail unparsable-dump")
        else (st, "bad-op")
      | [] => (st, "bad-op")
  | _ => (st, "bad-op")

def main (args : List String) : IO Unit :=
  match args with
  | ["spec"] => runLines ({} : SpecSt) specStep
  | _ => runLines ({} : St) stepR

end MM.Engine.C09
