import MM.Model.C11Wire

/-
  Engine c13: the shared flood engine (model + follow mode, see MM/Model/C11Wire.lean) with the
  executable statement of property C13 as its `spec` mode.
-/
namespace MM.Engine.C13

def main (args : List String) : IO Unit := MM.C11.Wire.mainWith .c13 args

end MM.Engine.C13
