import MM.Engine.Basic
import MM.Model.C25

namespace MM.Engine.C25
open MM MM.C25

/-- The script carries the configured password in clear; bcrypt is instantiated by equality. -/
def pwEq (hash pw : Bytes) : Bool := hash == pw

structure S where
  cfg : Cfg := { enabled := false, whitelist := [], hash := [], maxSessions := 0 }
  sessions : Int := 0
  live : List String := [] -- ids of sessions opened by `open` and not yet closed
  rawHash : Bool := false  -- `reseth`: the configured hash is a raw string, not a bcrypt hash of an offered password

/-- bcrypt stand-in of the scripts: equality with the clear-text password of `reset`; a `reseth` hash
    matches nothing -/
def S.pw (s : S) : Bytes → Bytes → Bool := fun h p => !s.rawHash && pwEq h p

def counts (sessions : Int) (live : Nat) : String := s!" counter={sessions} live={live}"

def hexAll (ts : List String) : Option (List Bytes) := ts.mapM bytesOfHex

def showV (v : Verdict) (n : Int) : String :=
  match v with
  | .ok => s!"ok {n}"
  | .disabled => s!"err disabled {n}"
  | .authRequired => s!"err authreq {n}"
  | .badCreds => s!"err badcreds {n}"
  | .notAllowed => s!"err notallowed {n}"
  | .dangerous i => s!"err dangerous {i} {n}"
  | .absArg i => s!"err abs {i} {n}"
  | .maxSessions => s!"err maxsessions {n}"

def parseReset (ts : List String) : Option Cfg :=
  match ts with
  | en :: mx :: pw :: n :: ws =>
    match mx.toInt?, bytesOfHex pw, n.toNat?, hexAll ws with
    | some m, some p, some k, some wl =>
      if wl.length = k then some { enabled := en == "1", whitelist := wl, hash := p, maxSessions := m } else none
    | _, _, _, _ => none
  | _ => none

def parseMeta (ts : List String) : Option Meta :=
  match ts with
  | pw :: cmd :: args =>
    match bytesOfHex pw, bytesOfHex cmd, hexAll args with
    | some p, some c, some a => some { command := c, args := a, password := p }
    | _, _, _ => none
  | _ => none

/-- exec / execp: <pw> <cmd> <dir> <nenv> <k=v>... <args>... -/
def parseExec (ts : List String) : Option Meta :=
  match ts with
  | pw :: cmd :: dir :: ne :: rest =>
    match bytesOfHex pw, bytesOfHex cmd, bytesOfHex dir, ne.toNat? with
    | some p, some c, some d, some n =>
      match hexAll (rest.take n), hexAll (rest.drop n) with
      | some envs, some args => some { command := c, args := args, password := p, env := envs, workDir := d }
      | _, _ => none
    | _, _, _, _ => none
  | _ => none

def asciiStr (b : Bytes) : String := String.ofList (b.map (fun c => Char.ofNat c.toNat))

def showSurface (pty : Bool) (e : ExecSurface) : String :=
  let extra := if pty then e.envExtra.drop 1 else e.envExtra
  let sorted := ((extra.map asciiStr).toArray.qsort (· < ·)).toList
  let first := if pty then (match e.envExtra.head? with | some t => hexTok t ++ ";" | none => "") else ""
  let inh := if e.envInherited then "inherit" else "copy"
  " argv=" ++ ",".intercalate (e.argv.map hexTok) ++ " env=" ++ inh ++ ":" ++ first ++
    (if sorted.isEmpty then "-" else ",".intercalate (sorted.map (fun x => hexTok x.toUTF8.toList))) ++ " dir=" ++ hexTok e.dir

def stepRest (s : S) (toks : List String) : S × String :=
  match toks with
  | "reset" :: ts =>
    match parseReset ts with
    | some c => ({ cfg := c, sessions := 0 }, "ok")
    | none => (s, "bad-op")
  | "admit" :: ts =>
    match parseMeta ts with
    | some m =>
      let (v, n) := validateAndAcquire s.pw s.cfg m s.sessions
      ({ s with sessions := n }, showV v n)
    | none => (s, "bad-op")
  | op :: ts =>
    if op == "session" || op == "pty" then
      match parseMeta ts with
      | some m =>
        -- admitted sessions are started and immediately closed by the harness: slot released again
        let (v, n) := validateAndAcquire s.pw s.cfg m s.sessions
        (s, showV v n)
      | none => (s, "bad-op")
    else if op == "exec" || op == "execp" then
      match parseExec ts with
      | some m =>
        let (v, n) := validateAndAcquire s.pw s.cfg m s.sessions
        let line := showV v n
        if v == .ok then
          let sf := showSurface (op == "execp") (execSurface (op == "execp") "vt100".toUTF8.toList m)
          if op == "execp" then (s, s!"anyof {line}{sf} | {line} unstarted") else (s, line ++ sf)
        else (s, line)
      | none => (s, "bad-op")
    else if op == "argv" || op == "argvp" then
      match parseMeta ts with
      | some m =>
        let (v, n) := validateAndAcquire s.pw s.cfg m s.sessions
        let line := showV v n
        if v == .ok then
          let av := ",".intercalate ((processArgv m).map hexTok)
          -- a PTY that cannot be allocated in this environment leaves nothing to read back
          if op == "argvp" then (s, s!"anyof {line} argv={av} | {line} argv=-") else (s, s!"{line} argv={av}")
        else (s, line)
      | none => (s, "bad-op")
    else if op == "rel" then
      let n := release s.sessions
      ({ s with sessions := n }, s!"sessions {n}")
    else if op == "stress" || op == "stressv" then (s, "stress ok")
    else (s, "bad-op")
  | _ => (s, "bad-op")

def step (s : S) (line : String) : S × String :=
  match tokens line with
  | "reseth" :: ts =>
    match parseReset ts with
    | some c => ({ cfg := c, sessions := 0, rawHash := true }, "ok")
    | none => (s, "bad-op")
  | "open" :: id :: ts =>
    match parseMeta ts with
    | some m =>
      let (v, n) := validateAndAcquire s.pw s.cfg m s.sessions
      if v == .ok then ({ s with sessions := n, live := id :: s.live }, showV v n ++ counts n (s.live.length + 1))
      else (s, showV v n ++ counts n s.live.length)
    | none => (s, "bad-op")
  | ["close", id] =>
    if s.live.contains id then
      let n := release s.sessions
      ({ s with sessions := n, live := s.live.erase id }, "closed" ++ counts n (s.live.length - 1))
    else (s, "closed" ++ counts s.sessions s.live.length)
  | "fails" :: pw :: cmd :: _dir :: args => failStart s pw cmd args
  | "failp" :: pw :: cmd :: _dir :: args => failStart s pw cmd args
  | ts => stepRest s ts
where
  /-- admitted, slot acquired, the start fails, the slot is released exactly once -/
  failStart (s : S) (pw cmd : String) (args : List String) : S × String :=
    match parseMeta (pw :: cmd :: args) with
    | some m =>
      let (v, n) := validateAndAcquire s.pw s.cfg m s.sessions
      if v == .ok then (s, "startfail" ++ counts s.sessions s.live.length) else (s, showV v n ++ counts n s.live.length)
    | none => (s, "bad-op")

/-- Executable statement on the implementation's own answer: a request answered `ok n` must be an
    authorised one and `n` must respect the limit; a stress run must not exceed it. -/
def spec (s : S) (op : String) (implOut : String) : S × String :=
  match tokens op with
  | "reset" :: ts =>
    match parseReset ts with
    | some c => ({ cfg := c, sessions := 0 }, "ok")
    | none => (s, "ok")
  | "reseth" :: ts =>
    match parseReset ts with
    | some c => ({ cfg := c, sessions := 0, rawHash := true }, "ok")
    | none => (s, "ok")
  | "stress" :: _ =>
    (s, if tokens implOut == ["stress", "ok"] then "ok" else "fail sessions-exceeded")
  | "stressv" :: _ =>
    (s, if tokens implOut == ["stress", "ok"] then "ok" else "fail sessions-exceeded")
  | kind :: ts =>
    if kind == "open" || kind == "close" || kind == "fails" || kind == "failp" then
      -- counter == live sessions after every op; live never above a positive limit; an opened session was authorised
      let out := tokens implOut
      let field (pre : String) : Option Int :=
        (out.find? (·.startsWith pre)).bind (fun t => (t.drop pre.length).toString.toInt?)
      match field "counter=", field "live=" with
      | some c, some l =>
        if c != l then (s, "fail counter-differs-from-live")
        else if s.cfg.maxSessions > 0 ∧ l > s.cfg.maxSessions then (s, "fail sessions-exceeded")
        else if kind == "open" && out.head? == some "ok" &&
            (match parseMeta (ts.drop 1) with | some m => !authorised s.pw s.cfg m | none => false) then (s, "fail unauthorised-start")
        else (s, "ok")
      | _, _ => (s, if out.head? == some "panic" then "fail crashed" else "ok")
    else if kind == "exec" || kind == "execp" then
      match parseExec ts, tokens implOut with
      | some m, "ok" :: _ :: av :: _ =>
        if !authorised s.pw s.cfg m then (s, "fail unauthorised-start")
        else if av.startsWith "argv=" && av != "argv=" ++ ",".intercalate ((processArgv m).map hexTok) then (s, "fail argv-differs-from-validated")
        else (s, "ok")
      | _, "panic" :: _ => (s, "fail crashed")
      | _, _ => (s, "ok")
    else if kind == "argv" || kind == "argvp" then
      match parseMeta ts, tokens implOut with
      | some m, ["ok", _, av] =>
        if !authorised s.pw s.cfg m then (s, "fail unauthorised-start")
        else if av == "argv=-" then (s, "ok")
        else if av != "argv=" ++ ",".intercalate ((processArgv m).map hexTok) then (s, "fail argv-differs-from-validated")
        else (s, "ok")
      | _, "panic" :: _ => (s, "fail crashed")
      | _, _ => (s, "ok")
    else if kind == "admit" || kind == "session" || kind == "pty" then
      match parseMeta ts, tokens implOut with
      | some m, ["ok", n] =>
        if !authorised s.pw s.cfg m then (s, "fail unauthorised-start")
        else match n.toInt? with
          | some k => if s.cfg.maxSessions > 0 ∧ k > s.cfg.maxSessions then (s, "fail sessions-exceeded") else (s, "ok")
          | none => (s, "fail bad-count")
      | _, "panic" :: _ => (s, "fail crashed")
      | _, _ => (s, "ok")
    else (s, "ok")
  | _ => (s, "ok")

def main (args : List String) : IO Unit :=
  match args with
  | ["spec"] => runLines ({} : S) (fun s l => match l.splitOn "\t" with
      | [op, out] => spec s op out
      | _ => (s, "bad-op"))
  | _ => runLines ({} : S) step

end MM.Engine.C25
