import MM.Engine.Basic
import MM.Model.C38

/- Engine c38 (protocol: harness/main/eng_c38.go). -/
namespace MM.Engine.C38
open MM.C38

structure Stats where
  n : Nat := 0
  min : Nat := 0
  max : Nat := 0
  zero : Nat := 0
  bad : Nat := 0
  increasing : Bool := true
  last : Option Nat := none
  seenIds : List Nat := []      -- kept only while small (wrap-around cases)

/-- Run `k` atomic steps of the model from `ctr`, accumulating the statistics the harness prints. -/
def runStats (want : Nat) : Nat → Nat → Stats → Stats
  | 0, _, s => s
  | k+1, ctr, s =>
    let (new, id) := next ctr
    let s' : Stats := {
      n := s.n + 1,
      min := if s.n = 0 then id else Nat.min s.min id,
      max := Nat.max s.max id,
      zero := s.zero + (if id = 0 then 1 else 0),
      bad := s.bad + (if id % 2 ≠ want then 1 else 0),
      increasing := s.increasing && (match s.last with | some l => l < id | none => true),
      last := some id,
      seenIds := if s.n < 64 then id :: s.seenIds else s.seenIds }
    runStats want k new s'

def showStats (s : Stats) : String :=
  let distinct := if s.increasing then s.n else s.seenIds.eraseDups.length
  s!"n={s.n} distinct={distinct} min={s.min} max={s.max} zero={s.zero} badparity={s.bad}"

def statsFor (dialer : Bool) (n : Nat) : String :=
  showStats (runStats (if dialer then 1 else 0) n (start dialer) {})

def idsFrom (ctr k : Nat) : List Nat := (run ctr (List.replicate k 0)).map (·.2)

def showIds (l : List Nat) : String := "ok" ++ String.join (l.map fun x => s!" {x}")

def step (line : String) : String :=
  match tokens line with
  | ["conc", r, g, p] =>
    match g.toNat?, p.toNat? with
    | some g, some p => "ok " ++ statsFor (r == "d") (g * p)
    | _, _ => "bad-op"
  | ["warm", r, k, g, p] =>
    match k.toNat?, g.toNat?, p.toNat? with
    | some k, some g, some p => "ok " ++ statsFor (r == "d") (k + g * p)
    | _, _, _ => "bad-op"
  | ["cold", r, conns, g] =>
    match conns.toNat?, g.toNat? with
    | some conns, some g =>
      -- every fresh connection runs g atomic steps from its start value; all connections are alike
      let s := runStats (if r == "d" then 1 else 0) g (start (r == "d")) {}
      let good := s.increasing && s.zero == 0 && s.bad == 0
      s!"ok conns={conns} g={g} dup={if s.increasing then 0 else conns} zero={s.zero * conns} badparity={s.bad * conns} exact={if good then conns else 0}"
    | _, _ => "bad-op"
  | ["mix", r, seq] =>
    -- every ingress path makes exactly one allocation on the one connection, in order
    let kinds := String.ofList (seq.toList.map fun c => if c == 'u' then 'U' else if c == 'i' then 'I' else 'S')
    "ok " ++ statsFor (r == "d") seq.length ++ " kinds=" ++ kinds
  | ["life", r, n] =>
    match n.toNat? with
    | some n => "ok " ++ statsFor (r == "d") (3 * n)
    | none => "bad-op"
  | ["alife", r, n] =>
    match n.toNat? with
    | some n => "ok " ++ statsFor (r == "d") (3 * n)
    | none => "bad-op"
  | ["pair", g, p] =>
    match g.toNat?, p.toNat? with
    | some g, some p => "ok d: " ++ statsFor true (g * p) ++ " l: " ++ statsFor false (g * p) ++ " overlap=0"
    | _, _ => "bad-op"
  | ["seq", r, k] =>
    match k.toNat? with
    | some k => showIds (idsFrom (start (r == "d")) k)
    | none => "bad-op"
  | ["wrap", _, c, k] =>
    match c.toNat?, k.toNat? with
    | some c, some k => showIds (idsFrom c k)
    | _, _ => "bad-op"
  | _ => "bad-op"

/-! Executable statement of C38 on the implementation's own answers. -/

def field (toks : List String) (key : String) : Option Nat :=
  (toks.find? (·.startsWith (key ++ "="))).bind fun t => (t.drop (key.length + 1)).toString.toNat?

def specStats (toks : List String) : Option String :=
  match field toks "n", field toks "distinct", field toks "zero", field toks "badparity" with
  | some n, some d, some z, some b =>
    if d ≠ n then some "duplicate-id" else if z ≠ 0 then some "zero-id" else if b ≠ 0 then some "wrong-parity" else none
  | _, _, _, _ => some "unparsable-output"

def spec (line : String) (implOut : String) : String :=
  if implOut.startsWith "panic" || implOut.startsWith "crash" then "fail crashed"
  else
    let o := tokens implOut
    match tokens line with
    | "conc" :: _ => match specStats o with | some t => "fail " ++ t | none => "ok"
    | "warm" :: _ => match specStats o with | some t => "fail " ++ t | none => "ok"
    | "mix" :: _ => match specStats o with | some t => "fail " ++ t | none => "ok"
    | "life" :: _ => match specStats o with | some t => "fail " ++ t | none => "ok"
    | "alife" :: _ => match specStats o with | some t => "fail " ++ t | none => "ok"
    | "cold" :: _ =>
      match field o "dup", field o "zero", field o "badparity" with
      | some d, some z, some b =>
        if d ≠ 0 then "fail duplicate-id" else if z ≠ 0 then "fail zero-id" else if b ≠ 0 then "fail wrong-parity" else "ok"
      | _, _, _ => "fail unparsable-output"
    | "pair" :: _ =>
      let dpart := o.takeWhile (· ≠ "l:")
      let lpart := o.dropWhile (· ≠ "l:")
      match specStats dpart, specStats lpart, field o "overlap" with
      | some t, _, _ => "fail " ++ t
      | _, some t, _ => "fail " ++ t
      | none, none, some 0 => "ok"
      | none, none, _ => "fail ends-overlap"
    | ["seq", r, _] =>
      match (o.drop 1).mapM (·.toNat?) with
      | none => "fail unparsable-output"
      | some ids =>
        let want := if r == "d" then 1 else 0
        if ids.eraseDups.length ≠ ids.length then "fail duplicate-id"
        else if ids.contains 0 then "fail zero-id"
        else if ids.any (· % 2 ≠ want) then "fail wrong-parity" else "ok"
    | _ => "ok"

def main (args : List String) : IO Unit :=
  match args with
  | ["spec"] => runPure (fun l => match l.splitOn "\t" with
      | [op, out] => spec op out
      | _ => "bad-op")
  | _ => runPure step

end MM.Engine.C38
