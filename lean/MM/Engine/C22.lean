import MM.Engine.Basic
import MM.Model.C22

/-
  Engine c22: a real SOCKS5 UDP association (made by a real UDP ASSOCIATE over a real control
  connection) and datagrams from several local senders.  Cases start with `reset`.

    reset <ctrl> <decl>       -> ok
        ctrl: `p` (net.Pipe: no TCP peer address) | `t1`,`t2`,`t3` (TCP from 127.0.0.k) |
              `s1` (TCP over IPv6 from ::1 to a listener on [::1]; every op of such a case may answer `skip no-ipv6`) |
              `d1`,`d2` (TCP from 127.0.0.k to a dual-stack listener on [::]: the peer address is IPv4-mapped)
        decl: what the request declares — `u` 0.0.0.0:0 | `u6` [::]:0 | `d` a domain name |
              `<k>` sender k's address | `<k>x` sender k's IP with another port | `<k>z` sender k's IP with port 0 |
              `m<k>` sender k's address in IPv4-mapped IPv6 form |
              `v6` [::1]:4000
    send <k> <v|i>            -> relayed | dropped      (v: valid SOCKS5 UDP header, i: invalid)
    reply                     -> to <k> | none          (where WriteToClient delivers)
    hold                      -> ok                     the mesh-side relay call stalls from now on
    send <k> <v|i> (held)     -> queued
    release                   -> relayed <k>.<n>,..|-   what was relayed since `hold`, in order: <k>.<n> = destination
                                                        and payload exactly as sender k's n-th datagram of the case, x = bytes nobody sent
    any op may answer `timeout <what>` when the harness's wait for the relay machinery hits its deadline
  senders: 1,2,3 at 127.0.0.1/2/3; 4 = a second socket at 127.0.0.1
-/
namespace MM.Engine.C22
open MM MM.C22

def senderIP (k : Nat) : Bytes := [127, 0, 0, UInt8.ofNat (if k = 4 then 1 else k)]
def sender (k : Nat) : Addr := ⟨senderIP k, 4000 + k⟩

def mapped (ip : Bytes) : Bytes := [0,0,0,0,0,0,0,0,0,0,0xff,0xff] ++ ip

def v6loop : Bytes := List.replicate 15 0 ++ [1]

def parseCtrl (s : String) : Option (Option Bytes) :=
  if s = "p" then some none
  else if s = "s1" then some (some v6loop)
  else if s = "d1" then some (some (senderIP 1))
  else if s = "d2" then some (some (senderIP 2))
  else match s.toList with
    | ['t', c] => if '1' ≤ c ∧ c ≤ '3' then some (some (senderIP (c.toNat - 48))) else none
    | _ => none

/-- the request's (DestIP, DestPort) -/
def parseDecl (s : String) : Option (Option Bytes × Nat) :=
  if s = "u" then some (some [0, 0, 0, 0], 0)
  else if s = "u6" then some (some (List.replicate 16 0), 0)
  else if s = "d" then some (none, 53)
  else if s = "v6" then some (some v6loop, 4000)
  else match s.toList with
    | [c] => if '1' ≤ c ∧ c ≤ '4' then let k := c.toNat - 48; some (some (senderIP k), 4000 + k) else none
    | [c, 'x'] => if '1' ≤ c ∧ c ≤ '4' then some (some (senderIP (c.toNat - 48)), 9) else none
    | [c, 'z'] => if '1' ≤ c ∧ c ≤ '4' then some (some (senderIP (c.toNat - 48)), 0) else none
    | ['m', c] => if '1' ≤ c ∧ c ≤ '4' then let k := c.toNat - 48; some (some (mapped (senderIP k)), 4000 + k) else none
    | _ => none

def parseSender (s : String) : Option Nat :=
  match s.toList with
  | [c] => if '1' ≤ c ∧ c ≤ '4' then some (c.toNat - 48) else none
  | _ => none

/-- Engine state: the association, the number of datagrams sent so far in the case, and — while the
    back-end is held — the datagrams waiting to be processed (sender, valid, number). -/
structure ESt where
  st : St := initSt none none 0
  seq : Nat := 0
  held : Bool := false
  pending : List (Nat × Bool × Nat) := []
  /-- the case needs an IPv6 loopback: where there is none the harness answers `skip no-ipv6` -/
  maySkip : Bool := false

def stepCore (e : ESt) (line : String) : ESt × String :=
  match tokens line with
  | ["reset", c, d] =>
    match parseCtrl c, parseDecl d with
    | some ctrl, some (ip, port) => ({ st := initSt ctrl ip port, maySkip := c = "s1" }, "ok")
    | _, _ => (e, "bad-op")
  | ["send", k, v] =>
    match parseSender k with
    | some k =>
      let n := e.seq + 1
      if e.held then ({ e with seq := n, pending := e.pending ++ [(k, decide (v = "v"), n)] }, "queued")
      else
        let r := recv e.st (sender k) (v = "v")
        ({ e with st := r.1, seq := n }, if r.2 then "relayed" else "dropped")
    | none => (e, "bad-op")
  | ["reply"] =>
    (e, match replyDest e.st with
      | none => "none"
      | some a => s!"to {a.port - 4000}")
  | ["hold"] => ({ e with held := true }, "ok")
  | ["release"] =>
    -- the datagrams that arrived meanwhile are processed one by one, in arrival order
    let (st', out) := e.pending.foldl (fun (acc : St × List String) d =>
      let r := recv acc.1 (sender d.1) d.2.1
      (r.1, if r.2 then acc.2 ++ [s!"{d.1}.{d.2.2}"] else acc.2)) (e.st, [])
    ({ e with st := st', held := false, pending := [] },
      "relayed " ++ (if out.isEmpty then "-" else ",".intercalate out))
  | _ => (e, "bad-op")

def step (e : ESt) (line : String) : ESt × String :=
  let r := stepCore e line
  if r.1.maySkip then (r.1, s!"anyof {r.2} | skip no-ipv6") else r

/-! ### spec: C22 on the implementation's own answers.  The owner is computed from the `reset`
    line alone (control peer, else declared address); with neither, the harness's client is
    sender 1 by convention and anything relayed for / delivered to another host is the known
    ownerless defect. -/

structure SpecSt where
  owner : Option Bytes := none
  ownerless : Bool := true
  /-- the client's port: declared in the request (non-zero), else that of the first datagram
      accepted from the owner's host -/
  fixedPort : Option Nat := none
  held : Bool := false
  pending : List Nat := []      -- senders of the datagrams that arrived during `hold`
  seq : Nat := 0

def senderPort (k : Nat) : Nat := 4000 + k

/-- a datagram from sender `k` arrives: fixes the client's port if it is the first one from the
    owner's host (strangers never fix it) -/
def SpecSt.arrive (s : SpecSt) (k : Nat) : SpecSt :=
  match s.owner, s.fixedPort with
  | some o, none => if ipEqual (senderIP k) o then { s with fixedPort := some (senderPort k) } else s
  | _, _ => s

/-- verdict on "a datagram of sender `k` was relayed" (after `arrive`) -/
def SpecSt.relayVerdict (s : SpecSt) (k : Nat) : Option String :=
  match s.owner with
  | none => some "fail unparsable-op"
  | some o =>
    if !ipEqual (senderIP k) o then
      some (if s.ownerless then "fail relay-stranger-ownerless" else "fail relay-stranger")
    else if s.fixedPort ≠ some (senderPort k) then
      some (if s.ownerless then "fail relay-stranger-ownerless" else "fail relay-other-port")
    else none

def specStep (s : SpecSt) (l : String) : SpecSt × String :=
  match l.splitOn "\t" with
  | [op, out0] =>
    let out := out0.trimAscii.toString
    if out.startsWith "panic" || out.startsWith "crash" then (s, "fail crashed")
    else if out.startsWith "timeout" then (s, "fail harness-timeout")
    else if out.startsWith "skip" then (s, "ok")
    else match tokens op with
    | ["hold"] => ({ s with held := true, pending := [] }, "ok")
    | ["release"] =>
      match tokens out with
      | ["relayed", lst] =>
        let entries := if lst = "-" then [] else lst.splitOn ","
        -- the datagrams that arrived during the hold, in order, fix the port as they would have
        let s1 := s.pending.foldl (fun acc k => acc.arrive k) s
        -- every relayed (destination, payload) must be one the OWNER sent, each once, in order
        let verdict := entries.foldl (fun (acc : Option String × Nat) en =>
          match acc.1 with
          | some _ => acc
          | none =>
            match en.splitOn "." with
            | [k, n] =>
              match parseSender k, n.toNat? with
              | some k, some n =>
                match s1.owner with
                | some o =>
                  if !ipEqual (senderIP k) o then
                    (some (if s1.ownerless then "fail relay-stranger-ownerless" else "fail relayed-foreign-bytes"), n)
                  else if n ≤ acc.2 then (some "fail relay-order", n)
                  else if s1.fixedPort ≠ some (senderPort k) then
                    (some (if s1.ownerless then "fail relay-stranger-ownerless" else "fail relay-other-port"), n)
                  else (none, n)
                | none => (some "fail unparsable-op", n)
              | _, _ => (some "fail unparsable-output", 0)
            | _ => (some "fail relayed-foreign-bytes", 0)) (none, 0)
        ({ s1 with held := false, pending := [] }, verdict.1.getD "ok")
      | _ => (s, "fail unparsable-output")
    | ["reset", c, d] =>
      match parseCtrl c, parseDecl d with
      | some ctrl, some (ip, port) =>
        let st0 := initSt ctrl ip port
        let fp : Option Nat := match st0.expected with
          | some e => if e.port ≠ 0 then some e.port else none
          | none => none
        (match owner st0 with
          | some o => { owner := some o, ownerless := false, fixedPort := fp }
          | none => { owner := some (senderIP 1), ownerless := true, fixedPort := some (senderPort 1) }, "ok")
      | _, _ => (s, "fail unparsable-op")
    | ["send", k, _] =>
      match parseSender k with
      | some k =>
        if s.held then ({ s with pending := s.pending ++ [k] }, "ok")
        else
          let s1 := s.arrive k
          if out = "relayed" then (s1, (s1.relayVerdict k).getD "ok")
          else if out.startsWith "relayed-" then (s1, "fail relayed-foreign-bytes")
          else (s1, "ok")
      | none => (s, "fail unparsable-op")
    | ["reply"] =>
      match tokens out, s.owner with
      | ["to", k], some o =>
        match parseSender k with
        | some k =>
          if !ipEqual (senderIP k) o then
            (s, if s.ownerless then "fail reply-stranger-ownerless" else "fail reply-stranger")
          else if s.fixedPort ≠ some (senderPort k) then
            (s, if s.ownerless then "fail reply-stranger-ownerless" else "fail reply-other-port")
          else (s, "ok")
        | none => (s, "fail reply-to-unknown-address")
      | ["none"], _ => (s, "ok")
      | _, _ => (s, "fail unparsable-output")
    | _ => (s, "fail unparsable-op")
  | _ => (s, "bad-op")

def main (args : List String) : IO Unit :=
  match args with
  | ["spec"] => runLines ({} : SpecSt) specStep
  | _ => runLines ({} : ESt) step

end MM.Engine.C22
