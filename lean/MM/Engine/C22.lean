import MM.Engine.Basic
import MM.Model.C22

/-
  Engine c22: a real SOCKS5 UDP association (made by a real UDP ASSOCIATE over a real control
  connection) and datagrams from several local senders.  Cases start with `reset`.

    reset <ctrl> <decl>       -> ok
        ctrl: `p` (net.Pipe: no TCP peer address) | `t1`,`t2`,`t3` (TCP from 127.0.0.k)
        decl: what the request declares — `u` 0.0.0.0:0 | `u6` [::]:0 | `d` a domain name |
              `<k>` sender k's address | `<k>x` sender k's IP with another port |
              `m<k>` sender k's address in IPv4-mapped IPv6 form
    send <k> <v|i>            -> relayed | dropped      (v: valid SOCKS5 UDP header, i: invalid)
    reply                     -> to <k> | none          (where WriteToClient delivers)
  senders: 1,2,3 at 127.0.0.1/2/3; 4 = a second socket at 127.0.0.1
-/
namespace MM.Engine.C22
open MM MM.C22

def senderIP (k : Nat) : Bytes := [127, 0, 0, UInt8.ofNat (if k = 4 then 1 else k)]
def sender (k : Nat) : Addr := ⟨senderIP k, 4000 + k⟩

def mapped (ip : Bytes) : Bytes := [0,0,0,0,0,0,0,0,0,0,0xff,0xff] ++ ip

def parseCtrl (s : String) : Option (Option Bytes) :=
  if s = "p" then some none
  else match s.toList with
    | ['t', c] => if '1' ≤ c ∧ c ≤ '3' then some (some (senderIP (c.toNat - 48))) else none
    | _ => none

/-- the request's (DestIP, DestPort) -/
def parseDecl (s : String) : Option (Option Bytes × Nat) :=
  if s = "u" then some (some [0, 0, 0, 0], 0)
  else if s = "u6" then some (some (List.replicate 16 0), 0)
  else if s = "d" then some (none, 53)
  else match s.toList with
    | [c] => if '1' ≤ c ∧ c ≤ '4' then let k := c.toNat - 48; some (some (senderIP k), 4000 + k) else none
    | [c, 'x'] => if '1' ≤ c ∧ c ≤ '4' then some (some (senderIP (c.toNat - 48)), 9) else none
    | ['m', c] => if '1' ≤ c ∧ c ≤ '4' then let k := c.toNat - 48; some (some (mapped (senderIP k)), 4000 + k) else none
    | _ => none

def parseSender (s : String) : Option Nat :=
  match s.toList with
  | [c] => if '1' ≤ c ∧ c ≤ '4' then some (c.toNat - 48) else none
  | _ => none

def step (st : St) (line : String) : St × String :=
  match tokens line with
  | ["reset", c, d] =>
    match parseCtrl c, parseDecl d with
    | some ctrl, some (ip, port) => (initSt ctrl ip port, "ok")
    | _, _ => (st, "bad-op")
  | ["send", k, v] =>
    match parseSender k with
    | some k =>
      let r := recv st (sender k) (v = "v")
      (r.1, if r.2 then "relayed" else "dropped")
    | none => (st, "bad-op")
  | ["reply"] =>
    (st, match replyDest st with
      | none => "none"
      | some a => s!"to {a.port - 4000}")
  | _ => (st, "bad-op")

/-! ### spec: C22 on the implementation's own answers.  The owner is computed from the `reset`
    line alone (control peer, else declared address); with neither, the harness's client is
    sender 1 by convention and anything relayed for / delivered to another host is the known
    ownerless defect. -/

structure SpecSt where
  owner : Option Bytes := none
  ownerless : Bool := true

def specStep (s : SpecSt) (l : String) : SpecSt × String :=
  match l.splitOn "\t" with
  | [op, out0] =>
    let out := out0.trimAscii.toString
    if out.startsWith "panic" || out.startsWith "crash" then (s, "fail crashed")
    else match tokens op with
    | ["reset", c, d] =>
      match parseCtrl c, parseDecl d with
      | some ctrl, some (ip, port) =>
        let o := owner (initSt ctrl ip port)
        (match o with
          | some o => { owner := some o, ownerless := false }
          | none => { owner := some (senderIP 1), ownerless := true }, "ok")
      | _, _ => (s, "fail unparsable-op")
    | ["send", k, _] =>
      match parseSender k, s.owner with
      | some k, some o =>
        if out = "relayed" ∧ !ipEqual (senderIP k) o then
          (s, if s.ownerless then "fail relay-stranger-ownerless" else "fail relay-stranger")
        else (s, "ok")
      | _, _ => (s, "fail unparsable-op")
    | ["reply"] =>
      match tokens out, s.owner with
      | ["to", k], some o =>
        match parseSender k with
        | some k =>
          if !ipEqual (senderIP k) o then
            (s, if s.ownerless then "fail reply-stranger-ownerless" else "fail reply-stranger")
          else (s, "ok")
        | none => (s, "fail reply-to-unknown-address")
      | ["none"], _ => (s, "ok")
      | _, _ => (s, "fail unparsable-output")
    | _ => (s, "fail unparsable-op")
  | _ => (s, "bad-op")

def main (args : List String) : IO Unit :=
  match args with
  | ["spec"] => runLines ({} : SpecSt) specStep
  | _ => runLines (initSt none none 0) step

end MM.Engine.C22
