import MM.Engine.Basic
import MM.Model.C19

/-
  Engine c19: a real Agent (route manager + exit handler) driven through ManageRoute and crafted
  opens.  Cases start with `reset`.

    reset <exit 0|1> <nets|-> <patterns|->      -> ok
        nets: comma-separated <iphex>/<bits> (ip 4 or 16 bytes; written to the config as CIDR text,
        IPv4-mapped addresses in their `::ffff:a.b.c.d` form); patterns: comma-separated hex
    add <iphex>/<bits> <metric>                  -> (ok | err config-route | err other) dyn <key>,..|-
    remove <iphex>/<bits>                        -> (ok | err config-route | err not-found) dyn <key>,..|-
        (every answer carries the manager's own list of dynamic routes afterwards)
    withdraw|advertise <net> <self|1|2|3> <k>    -> ok    a ROUTE_WITHDRAW / ROUTE_ADVERTISE for <net> received from peer k
                                                          naming this agent / peer n as origin (changes the routing TABLE only)
    peerdown <k> | stale                         -> ok    peer-disconnect clean-up / stale-route expiry
    sched <add|remove> <net>                     -> t1 <res> t2 <res> dyn <keys>   two concurrent ManageRoute calls on <net> in a fixed
                                                          schedule: T1 is held between its two steps while T2 (the opposite action) runs
    race <net> <k> <n>                           -> ok dyn <keys>   k goroutines x n times (add; remove) of <net>, concurrently
    open i:<iphex>                               -> dial <ip> | denied | dialfail (dial attempted, connection failed)
    open n:<namehex>:<resolved iphex|->          -> dial <ip> | denied | unresolved | dialfail
    open m:<namehex>:<ip,ip,..|->:<p|q>          the name is resolved for real through the harness's DNS server, which answers
                                                 these A/AAAA records in this order; port p = every loopback address listens,
                                                 q = only 127.0.0.2, 127.9.9.9, 127.77.0.1, ::1 listen (127.0.0.1, 127.1/16 refuse)
                                                 -> dial <ip actually connected> | denied | unresolved | dialfail
    state                                        -> dyn <key>=<metric>,..|- allowed <key>,..|-|none
        (key = <iphex>/<bits> after the normalisation of IPNet.String(); dyn sorted, allowed in order)
-/
namespace MM.Engine.C19
open MM MM.C19

def parseNet (s : String) : Option Net :=
  match s.splitOn "/" with
  | [ip, bits] => do pure (mkNet (← bytesOfHex ip) (← bits.toNat?))
  | _ => none

def parseList {α : Type} (f : String → Option α) (s : String) : Option (List α) :=
  if s = "-" then some [] else (s.splitOn ",").mapM f

def parseDest (s : String) : Option Dest :=
  match s.splitOn ":" with
  | ["i", ip] => (bytesOfHex ip).map .ip
  | ["m", nm, recs, _] => do
    let name ← bytesOfHex nm
    let ips ← if recs = "-" then some [] else (recs.splitOn ",").mapM bytesOfHex
    -- `Resolve`: the first IPv4 record, else the first record
    let preferred := match ips.find? (fun b => (C23.to4 b).isSome) with
      | some b => some ((C23.to4 b).getD b)
      | none => ips.head?
    pure (.name name preferred)
  | ["n", nm, r] => do
    let name ← bytesOfHex nm
    if r = "-" then pure (.name name none) else pure (.name name (some (← bytesOfHex r)))
  | _ => none

def showKey (n : Net) : String := s!"{hexTok n.key.ip}/{n.key.bits}"

def canonIP (b : Bytes) : Bytes := (C23.to4 b).getD b

def showOutcome : Outcome → String
  | .ok => "ok"
  | .errConfigRoute => "err config-route"
  | .errNotFound => "err not-found"

def joinOrDash (l : List String) : String := if l.isEmpty then "-" else ",".intercalate l

/-- insertion sort of strings (for the canonical `dyn` rendering) -/
def sortStrings (l : List String) : List String :=
  l.foldl (fun acc s => (acc.takeWhile (· < s)) ++ [s] ++ (acc.dropWhile (· < s))) []

def showDynKeys (s : St) : String := joinOrDash (sortStrings (s.dyn.map (fun e => showKey e.2.1)))

def showState (s : St) : String :=
  let dyn := sortStrings (s.dyn.map (fun e => s!"{showKey e.2.1}={e.2.2}"))
  let al := match s.allowed with
    | none => "none"
    | some rs => joinOrDash (rs.map showKey)
  s!"dyn {joinOrDash dyn} allowed {al}"

def initSt : St := init false [] []

def step (s : St) (line : String) : St × String :=
  match tokens line with
  | ["reset", ex, nets, pats] =>
    match parseList parseNet nets, parseList bytesOfHex pats with
    | some ns, some ps => (init (ex = "1") ns ps, "ok")
    | _, _ => (s, "bad-op")
  | ["add", n, m] =>
    match parseNet n, m.toNat? with
    | some net, some metric => let r := add s net metric; (r.1, showOutcome r.2 ++ " dyn " ++ showDynKeys r.1)
    | _, _ => (s, "bad-op")
  | ["remove", n] =>
    match parseNet n with
    | some net => let r := remove s net; (r.1, showOutcome r.2 ++ " dyn " ++ showDynKeys r.1)
    | none => (s, "bad-op")
  | ["open", d] =>
    match parseDest d with
    | some dest => (s, match openDest s dest with
        -- the dial is attempted; whether the address answers is up to the host (::1 may be absent,
        -- off-host networks are unreachable): both outcomes of a PERMITTED dial are admissible
        | .dial ip => "anyof dial " ++ hexTok (canonIP ip) ++ " | dialfail"
        | .denied => "denied"
        | .unresolved => "unresolved")
    | none => (s, "bad-op")
  | ["state"] => (s, showState s)
  -- peer traffic, disconnect clean-up and expiry act on the routing TABLE; the manager's
  -- local/dynamic maps and the exit handler's allow list — all that C19 depends on — are untouched
  -- ManageRoute is serialized: the held call T1 takes effect first, then T2
  | ["sched", which, n] =>
    match parseNet n with
    | some net =>
      let sh (o : Outcome) : String := match o with
        | .ok => "ok" | .errConfigRoute => "err-config-route" | .errNotFound => "err-not-found"
      if which = "add" then
        let r1 := add s net 5
        let r2 := remove r1.1 net
        (r2.1, s!"t1 {sh r1.2} t2 {sh r2.2} dyn {showDynKeys r2.1}")
      else
        let r1 := remove s net
        let r2 := add r1.1 net 7
        (r2.1, s!"t1 {sh r1.2} t2 {sh r2.2} dyn {showDynKeys r2.1}")
    | none => (s, "bad-op")
  -- every goroutine ends with a remove: whatever the interleaving of the (atomic) calls, the
  -- network is not a dynamic route afterwards (a config route is never touched)
  | ["race", n, _, _] =>
    match parseNet n with
    | some net => let r := remove s net; (r.1, "ok dyn " ++ showDynKeys r.1)
    | none => (s, "bad-op")
  | ["withdraw", _, _, _] => (s, "ok")
  | ["advertise", _, _, _] => (s, "ok")
  | ["peerdown", _] => (s, "ok")
  | ["stale"] => (s, "ok")
  | _ => (s, "bad-op")

/-! ### spec: C19 on the implementation's own answers.
    The spec keeps its OWN picture of "which dynamic routes are present" from the answers the
    implementation gave to add/remove, and judges every dial and every `state` against the
    statement — it never consults the model's allow list. -/

structure SpecSt where
  exitEnabled : Bool := false
  cfgNets : List Net := []
  pats : List Bytes := []
  present : List Net := []     -- dynamic routes present, by network (one per key)

def SpecSt.permits (s : SpecSt) (d : Dest) : Bool :=
  let nets := (if s.exitEnabled then s.cfgNets else []) ++ s.present
  match d with
  | .ip b => nets.any (·.contains b)
  | .name nm (some b) =>
    nets.any (·.contains b) || (s.exitEnabled && isDomainAllowed (s.pats.map parsePattern) nm)
  | .name _ none => false

def sameSet (a b : List String) : Bool := a.all (b.contains ·) && b.all (a.contains ·)

def specStep (s : SpecSt) (l : String) : SpecSt × String :=
  match l.splitOn "\t" with
  | [op, out0] =>
    let out := out0.trimAscii.toString
    if out.startsWith "panic" || out.startsWith "crash" then (s, "fail crashed")
    else match tokens op with
    | ["reset", ex, nets, pats] =>
      match parseList parseNet nets, parseList bytesOfHex pats with
      | some ns, some ps => ({ exitEnabled := ex = "1", cfgNets := ns, pats := ps, present := [] }, "ok")
      | _, _ => (s, "fail unparsable-op")
    | "add" :: _ | "remove" :: _ | "sched" :: _ | "race" :: _ =>
      -- whatever the API answered (success or error): the dynamic routes present are the ones the
      -- routing manager lists afterwards
      match (tokens out).reverse with
      | lst :: "dyn" :: _ =>
        match parseList parseNet lst with
        | some ns => ({ s with present := ns }, "ok")
        | none => (s, "fail unparsable-output")
      | _ => (s, "fail unparsable-output")
    | "withdraw" :: _ | "advertise" :: _ | "peerdown" :: _ | "stale" :: _ => (s, "ok")
    | ["open", d] =>
      match parseDest d with
      | some dest =>
        -- every address actually connected to must be permitted (or the NAME must match a pattern);
        -- `dialfail`: an attempt was made, judged on the address the request resolves to
        match tokens out with
        | ["dial", ipx] =>
          match bytesOfHex ipx with
          | some dialled =>
            let d' : Dest := match dest with
              | .ip _ => .ip dialled
              | .name nm _ => .name nm (some dialled)
            (s, if s.permits d' then "ok" else "fail dial-unpermitted")
          | none => (s, "fail unparsable-output")
        | _ =>
          if out.startsWith "dial" then (s, if s.permits dest then "ok" else "fail dial-unpermitted")
          else (s, "ok")
      | none => (s, "fail unparsable-op")
    | ["state"] =>
      match tokens out with
      | ["dyn", dyn, "allowed", al] =>
        let dynKeys := if dyn = "-" then [] else (dyn.splitOn ",").map (fun e => (e.splitOn "=").headD "")
        let wantDyn := s.present.map showKey
        if !sameSet dynKeys wantDyn then (s, "fail dynamic-routes-mismatch")
        else if al = "none" then (s, if s.present.isEmpty then "ok" else "fail allow-list-mismatch")
        else
          let alKeys := if al = "-" then [] else al.splitOn ","
          let want := ((if s.exitEnabled then s.cfgNets else []) ++ s.present).map showKey
          (s, if sameSet alKeys want then "ok" else "fail allow-list-mismatch")
      | _ => (s, "fail unparsable-output")
    | _ => (s, "fail unparsable-op")
  | _ => (s, "bad-op")

def main (args : List String) : IO Unit :=
  match args with
  | ["spec"] => runLines ({} : SpecSt) specStep
  | _ => runLines initSt step

end MM.Engine.C19
