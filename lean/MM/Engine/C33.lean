import MM.Engine.Basic
import MM.Model.Bytes
import MM.Model.C33

/-
  Engine c33.  One op per line, every line its own case:

    reset <cycle ns> <window ns> <tolerance ns> <epoch ns>       -> ok   (one calculator for the case)
    q <agentID:32 hex> <t ns>                                     -> as `w`, on the case's calculator
    w <agentID:32 hex> <cycle ns> <window ns> <tolerance ns> <epoch ns> <t ns>
      -> ok <nextS> <nextE> <infoS> <infoE> <safeS> <safeE> <mid> <timeUntil> <active> <isIn> <tuw> <prevS> <prevE>

  (instants: ns since the Unix epoch, decimal, may be negative).
-/
namespace MM.Engine.C33
open MM MM.C33

/-- `seedFromAgentID`: XOR of the two big-endian 64-bit halves. -/
def seedOf (id : Bytes) : Nat := (unbe (id.take 8)) ^^^ (unbe ((id.drop 8).take 8))

def showB (b : Bool) : String := if b then "true" else "false"

structure Op where
  c : Cfg
  seed : Nat
  t : Int

/-- `reset <cycle> <window> <tolerance> <epoch>`: ONE calculator for the following `q` ops. -/
def parseReset (line : String) : Option Cfg :=
  match tokens line with
  | ["reset", c, w, tol, ep] =>
    match c.toInt?, w.toInt?, tol.toInt?, ep.toInt? with
    | some c, some w, some tol, some ep => some { C := c, W := w, tol := tol, epoch := ep }
    | _, _, _, _ => none
  | _ => none

/-- `w …` carries its own configuration (fresh calculator); `q <id> <t>` asks the calculator of
    the current case.  The calculator is a pure function of its configuration, so the model is
    stateless: whatever was asked before must not matter. -/
def parseOp (cur : Option Cfg) (line : String) : Option Op :=
  match tokens line with
  | ["w", id, c, w, tol, ep, t] =>
    match bytesOfHex id, c.toInt?, w.toInt?, tol.toInt?, ep.toInt?, t.toInt? with
    | some idb, some c, some w, some tol, some ep, some t =>
      if idb.length = 16 then some { c := { C := c, W := w, tol := tol, epoch := ep }, seed := seedOf idb, t := t }
      else none
    | _, _, _, _, _, _ => none
  | ["q", id, t] =>
    match cur, bytesOfHex id, t.toInt? with
    | some c, some idb, some t => if idb.length = 16 then some { c := c, seed := seedOf idb, t := t } else none
    | _, _, _ => none
  | _ => none

def step (cur : Option Cfg) (line : String) : String :=
  match parseOp cur line with
  | none => "bad-op"
  | some op =>
    if op.c.C = 0 then "panic" else
    let (ns, ne) := nextWindow op.c op.seed op.t
    let i := info op.c op.seed op.t
    let (ps, pe) := prevWindow op.c op.seed op.t
    s!"ok {ns} {ne} {i.start} {i.stop} {i.safeStart} {i.safeEnd} {i.midpoint} {i.timeUntil} {showB i.active} {showB (isInWindow op.c op.seed op.t)} {i.timeUntil} {ps} {pe}"

/-- Is there an integer `k` with `lo < k*C` (or `≤` when `loIncl`) and `k*C < hi` (or `≤` when
    `hiIncl`)?  (`C > 0`.) -/
def existsMultiple (C lo hi : Int) (loIncl hiIncl : Bool) : Bool :=
  let k := if loIncl then -((-lo) / C) else lo / C + 1   -- least k with k*C ≥ lo (resp. > lo)
  if hiIncl then decide (k * C ≤ hi) else decide (k * C < hi)

/-- Executable statement of C33 on the implementation's own answer. -/
def spec (cur : Option Cfg) (line : String) (implOut : String) : String :=
  match parseOp cur line with
  | none => "ok"
  | some op =>
    let c := op.c
    let t := op.t
    if implOut.startsWith "panic" then (if c.C = 0 then "ok" else "fail crashed") else
    -- the theorems' hypotheses (struct `Valid` + C < 2^63)
    if ¬ (0 < c.C ∧ c.C < 2^63 ∧ 0 ≤ c.W ∧ 0 ≤ c.tol ∧ -(2^63) + c.C ≤ t - effEpoch c ∧ t - effEpoch c < 2^63) then "ok" else
    match (tokens implOut).map String.toInt? , tokens implOut with
    | [_, some ns, some ne, some s, some e, _, _, _, _, _, _, _, _, _],
      [_, _, _, _, _, _, _, _, _, act, isIn, _, _, _] =>
      let off := offset c op.seed
      let W := effW c
      let ep := effEpoch c
      let active := act == "true"
      if (ns - ep - off) % c.C ≠ 0 ∨ ne ≠ ns + W then "fail next-not-a-window"
      else if ¬ (t ≤ ne) then "fail next-already-ended"
      else if ¬ (ne - c.C < t) then "fail next-not-earliest"
      else if s ≠ ns ∨ e ≠ ne then "fail info-differs-from-next"
      else if act ≠ isIn then "fail isinwindow-differs-from-info"
      else
        -- ∃k, start_k − tol ≤ t < end_k + tol   ⇔   t−ep−off−W−tol < k·C ≤ t−ep−off+tol
        let a := t - ep - off
        let inClosedOpen := existsMultiple c.C (a - W - c.tol) (a + c.tol) false true
        -- ∃k, start_k − tol < t < end_k + tol
        let inOpen := existsMultiple c.C (a - W - c.tol) (a + c.tol) false false
        -- ∃k, start_k − tol ≤ t ≤ end_k ∧ t < end_k + tol : not in a trailing tolerance
        let inLeadOrBody := if c.tol = 0 then existsMultiple c.C (a - W) a false true
                            else existsMultiple c.C (a - W) (a + c.tol) true true
        if active ∧ ¬ inClosedOpen then "fail active-outside-every-window"
        else if ¬ active ∧ inLeadOrBody then "fail active-missed"
        else if ¬ active ∧ inOpen then "fail active-trailing-tolerance-missed"
        else "ok"
    | _, _ => "fail malformed-answer"

def main (args : List String) : IO Unit :=
  match args with
  | ["spec"] => runLines (none : Option Cfg) (fun cur l => match l.splitOn "\t" with
      | [op, out] => match parseReset op with
        | some c => (some c, "ok")
        | none => (cur, spec cur op out)
      | _ => (cur, "bad-op"))
  | _ => runLines (none : Option Cfg) (fun cur l => match parseReset l with
      | some c => (some c, "ok")
      | none => (cur, step cur l))

end MM.Engine.C33
