import MM.Engine.Basic
import MM.Model.C36

namespace MM.Engine.C36
open MM MM.C36

def showBytes : Res Bytes → String
  | .ok b => "ok " ++ hexTok b
  | .noConfig => "err noconfig"
  | .tooLarge => "err toolarge"
  | .already => "err already"
  | .ioErr => "err other"
  | .panic => "panic"

def showSize : Res Int → String
  | .ok n => s!"size {n}"
  | .noConfig => "err noconfig"
  | .tooLarge => "err toolarge"
  | .already => "err already"
  | .ioErr => "err other"
  | .panic => "panic"

def step (line : String) : String :=
  match tokens line with
  | ["read", f] => match bytesOfHex f with
    | some file => showBytes (readEmbedded file)
    | none => "bad-op"
  | ["size", f] => match bytesOfHex f with
    | some file => showSize (originalSize file)
    | none => "bad-op"
  | ["strip", f] => match bytesOfHex f with
    | some file => showBytes (strip file)
    | none => "bad-op"
  -- the destination's previous content is irrelevant (O_TRUNC / os.WriteFile); in place = same answer
  | ["stripto", f, _] => match bytesOfHex f with
    | some file => showBytes (strip file)
    | none => "bad-op"
  | ["stripin", f] => match bytesOfHex f with
    | some file => showBytes (strip file)
    | none => "bad-op"
  | ["appendto", s, c, _] => match bytesOfHex s, bytesOfHex c with
    | some src, some cfg => showBytes (appendConfig src cfg)
    | _, _ => "bad-op"
  | ["appendlink", s, c] => match bytesOfHex s, bytesOfHex c with
    | some src, some cfg => showBytes (appendConfig src cfg)
    | _, _ => "bad-op"
  | ["appendhard", s, c] => match bytesOfHex s, bytesOfHex c with
    | some src, some cfg => showBytes (appendConfig src cfg)
    | _, _ => "bad-op"
  | ["appendrel", s, c] => match bytesOfHex s, bytesOfHex c with
    | some src, some cfg => showBytes (appendConfig src cfg)
    | _, _ => "bad-op"
  | ["appendin", s, c] => match bytesOfHex s, bytesOfHex c with
    | some src, some cfg => showBytes (appendConfig src cfg)
    | _, _ => "bad-op"
  | ["has", f] => match bytesOfHex f with
    | some file => s!"has {hasEmbedded file}"
    | none => "bad-op"
  | ["append", s, c] => match bytesOfHex s, bytesOfHex c with
    | some src, some cfg => showBytes (appendConfig src cfg)
    | _, _ => "bad-op"
  | _ => "bad-op"

/-- Executable statement of C36 over one observed implementation answer.
    * no crash ever; a reported size is a valid prefix length;
    * `append src cfg` answered `ok out`: reading `out` back must give `cfg` (non-empty `cfg`) and
      stripping it must give `src` (the readers' behaviour on every file is what T-diff compares);
    * `read`/`strip` of a file whose trailer is well-formed (magic, length fits): the answer must be
      exactly the embedded bytes / the prefix before them. -/
def spec (line : String) (implOut : String) : String :=
  if implOut.startsWith "panic" || implOut.startsWith "crash" then "fail crashed"
  else match tokens line, tokens implOut with
    | "size" :: _, ["size", n] => if n.startsWith "-" then "fail negative-size" else "ok"
    | op :: s :: c :: _, ["ok", o] =>
      if op == "append" || op == "appendto" || op == "appendin" || op == "appendlink" || op == "appendhard"
          || op == "appendrel" then
        match bytesOfHex s, bytesOfHex c, bytesOfHex o with
        | some src, some cfg, some out =>
          if !cfg.isEmpty && readEmbedded out != .ok cfg then "fail roundtrip-read"
          else if strip out != .ok src then "fail roundtrip-strip"
          else "ok"
        | _, _, _ => "bad-op"
      else if op == "stripto" then
        match bytesOfHex s with
        | some file => match strip file with
          | .ok want => if some want == bytesOfHex o then "ok" else "fail strip-wrong-bytes"
          | _ => "fail strip-accepted-malformed"
        | none => "bad-op"
      else "ok"
    | [op, f], ["ok", o] =>
      match bytesOfHex f with
      | some file =>
        if op == "read" then
          match readEmbedded file with
          | .ok want => if some want == bytesOfHex o then "ok" else "fail read-wrong-bytes"
          | _ => "fail read-accepted-malformed"
        else if op == "strip" || op == "stripin" then
          match strip file with
          | .ok want => if some want == bytesOfHex o then "ok" else "fail strip-wrong-bytes"
          | _ => "fail strip-accepted-malformed"
        else "ok"
      | none => "bad-op"
    | _, _ => "ok"

def main (args : List String) : IO Unit :=
  match args with
  | ["spec"] => runPure (fun l => match l.splitOn "\t" with
      | [op, out] => spec op out
      | _ => "bad-op")
  | _ => runPure step

end MM.Engine.C36
