import MM.Engine.Basic
import MM.Model.C36

namespace MM.Engine.C36
open MM MM.C36

def showBytes : Res Bytes → String
  | .ok b => "ok " ++ hexTok b
  | .noConfig => "err noconfig"
  | .tooLarge => "err toolarge"
  | .already => "err already"
  | .ioErr => "err other"
  | .panic => "panic"

def showSize : Res Int → String
  | .ok n => s!"size {n}"
  | .noConfig => "err noconfig"
  | .tooLarge => "err toolarge"
  | .already => "err already"
  | .ioErr => "err other"
  | .panic => "panic"

def step (line : String) : String :=
  match tokens line with
  | ["read", f] => match bytesOfHex f with
    | some file => showBytes (readEmbedded file)
    | none => "bad-op"
  | ["size", f] => match bytesOfHex f with
    | some file => showSize (originalSize file)
    | none => "bad-op"
  | ["strip", f] => match bytesOfHex f with
    | some file => showBytes (strip file)
    | none => "bad-op"
  | ["has", f] => match bytesOfHex f with
    | some file => s!"has {hasEmbedded file}"
    | none => "bad-op"
  | ["append", s, c] => match bytesOfHex s, bytesOfHex c with
    | some src, some cfg => showBytes (appendConfig src cfg)
    | _, _ => "bad-op"
  | _ => "bad-op"

/-- Executable statement of C36 over one observed implementation answer:
    no panic ever; a `read`/`strip` answer, when `ok`, lies inside the file. -/
def spec (line : String) (implOut : String) : String :=
  if implOut.startsWith "panic" then "fail crashed"
  else match tokens line, tokens implOut with
    | ["size", _], ["size", n] => if n.startsWith "-" then "fail negative-size" else "ok"
    | _, _ => "ok"

def main (args : List String) : IO Unit :=
  match args with
  | ["spec"] => runPure (fun l => match l.splitOn "\t" with
      | [op, out] => spec op out
      | _ => "bad-op")
  | _ => runPure step

end MM.Engine.C36
