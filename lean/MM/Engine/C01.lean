import MM.Engine.Basic
import MM.Model.C01

/-
  Engine c01: two sessions (I = initiator, R = responder) sharing one key, and the pool of
  ciphertexts produced so far.

    reset [sI rI sR rR]        -> ok                         new case, counters preset
    enc I|R <msg> [plen]       -> ok <pfx> <ctr> <4 counters> | err exhausted <4 counters>
    del I|R <k> <mutation>     -> acc <msg>|empty <4 counters> | rej <4 counters>
         mutation: none | flip <i> | ctr <v> | pfx <v> | trunc <n> | ext <n>
    raw I|R <pfx> <ctr> <len>  -> rej <4 counters>           forged frame (garbage body)
    race I|R <k> <G>           -> race <0|1> <msg|empty|-> <4 counters>   G concurrent deliveries of one ciphertext

  `spec` mode evaluates the statement of C01 on the implementation's own answers.
-/
namespace MM.Engine.C01
open MM.C01

structure ESt where
  st : St := init
  pool : Array Packet := #[]

def ctrs (st : St) : String := s!"{st.i.send} {st.i.recv} {st.r.send} {st.r.recv}"

def parseEnd : String → Option Bool
  | "I" => some true
  | "R" => some false
  | _ => none

/-- Apply a mutation to a pool packet. -/
def mutate (p : Packet) : List String → Option Packet
  | ["none"] => some p
  | ["flip", _] => some { p with body := .junk }
  | ["ctr", v] => v.toNat?.map fun v => { p with ctr := v }
  | ["pfx", v] => v.toNat?.map fun v => { p with pfx := v }
  | ["trunc", n] => n.toNat?.map fun n => if n < p.len then { p with len := n, body := .junk } else p
  | ["ext", n] => n.toNat?.map fun n => if n = 0 then p else { p with len := p.len + n, body := .junk }
  | _ => none

def showRes (st : St) (p : Packet) : Option Res → String
  | some (.acc _ m) => if p.len = overhead then s!"acc empty {ctrs st}" else s!"acc {m} {ctrs st}"
  | some _ => s!"rej {ctrs st}"
  | none => s!"bad-op"

def deliver (e : ESt) (atInit : Bool) (p : Packet) : ESt × String :=
  let (st', r) := step e.st (if atInit then .delI p else .delR p)
  ({ e with st := st' }, showRes st' p r)

def encLine (e : ESt) (x m : String) (plen : Nat) : ESt × String :=
  match parseEnd x, m.toNat? with
  | some isI, some m =>
    if plen ≠ 0 ∧ plen < 4 ∨ plen > 1048576 then (e, "bad-op") else
    let s := if isI then e.st.i else e.st.r
    let st' := (step e.st (if isI then .encI m plen else .encR m plen)).1
    match (encrypt s m plen).2 with
    | some p => ({ st := st', pool := e.pool.push p }, s!"ok {p.pfx} {p.ctr} {ctrs st'}")
    | none => ({ e with st := st' }, s!"err exhausted {ctrs st'}")
  | _, _ => (e, "bad-op")

def stepLine (e : ESt) (line : String) : ESt × String :=
  match tokens line with
  | ["reset"] => ({}, "ok")
  | ["reset", a, b, c, d] =>
    match a.toNat?, b.toNat?, c.toNat?, d.toNat? with
    | some a, some b, some c, some d =>
      ({ st := { init with i := ⟨true, a, b⟩, r := ⟨false, c, d⟩ } }, "ok")
    | _, _, _, _ => (e, "bad-op")
  | ["enc", x, m] => encLine e x m 4
  | ["enc", x, m, pl] => match pl.toNat? with
    | some pl => encLine e x m pl
    | none => (e, "bad-op")
  | "del" :: x :: k :: mu =>
    match parseEnd x, k.toNat? with
    | some atI, some k =>
      match e.pool[k]? with
      | some p => match mutate p mu with
        | some p' => deliver e atI p'
        | none => (e, "bad-op")
      | none => (e, "bad-op")
    | _, _ => (e, "bad-op")
  | ["raw", x, pfx, c, len] =>
    match parseEnd x, pfx.toNat?, c.toNat?, len.toNat? with
    | some atI, some pfx, some c, some len => deliver e atI ⟨pfx, c, .junk, len⟩
    | _, _, _, _ => (e, "bad-op")
  | ["race", x, k, g] =>
    -- Decrypt is atomic (whole call under the mutex): G concurrent deliveries of the same ciphertext
    -- are G deliveries in some order; the first decides, the others are replays and change nothing.
    match parseEnd x, k.toNat?, g.toNat? with
    | some atI, some k, some g =>
      if g < 1 ∨ g > 256 then (e, "bad-op") else
      match e.pool[k]? with
      | some p =>
        let (st', r) := step e.st (if atI then .delI p else .delR p)
        let e' := { e with st := st' }
        match r with
        | some (.acc _ m) => (e', s!"race 1 {if p.len = overhead then "empty" else toString m} {ctrs st'}")
        | _ => (e', s!"race 0 - {ctrs st'}")
      | none => (e, "bad-op")
    | _, _, _ => (e, "bad-op")
  | _ => (e, "bad-op")

/-! ### executable statement of C01 over the implementation's answers -/

structure Sealed where
  byInit : Bool
  msg : Nat
  pfx : Nat
  ctr : Nat
  plen : Nat

structure SSt where
  ctrs : Option (Nat × Nat × Nat × Nat) := none
  pool : Array Sealed := #[]
  accI : List (Nat × Nat) := []     -- (header counter, msg) accepted at I
  accR : List (Nat × Nat) := []

def parse4 : List String → Option (Nat × Nat × Nat × Nat)
  | [a, b, c, d] => match a.toNat?, b.toNat?, c.toNat?, d.toNat? with
    | some a, some b, some c, some d => some (a, b, c, d)
    | _, _, _, _ => none
  | _ => none

/-- Header (pfx, ctr) of the delivered packet and whether the sealed body is still intact. -/
def delivered (p : Sealed) : List String → Option (Nat × Nat × Bool)
  | ["none"] => some (p.pfx, p.ctr, true)
  | ["flip", _] => some (p.pfx, p.ctr, false)
  | ["ctr", v] => v.toNat?.map fun v => (p.pfx, v, v == p.ctr)
  | ["pfx", v] => v.toNat?.map fun v => (v, p.ctr, v == p.pfx)
  | ["trunc", n] => n.toNat?.map fun n => (p.pfx, p.ctr, n ≥ 28 + p.plen)
  | ["ext", n] => n.toNat?.map fun n => (p.pfx, p.ctr, n == 0)
  | _ => none

/-- Checks common to every delivery: send counters and the other end's receive counter untouched;
    on reject nothing changes at all. -/
def delState (atI : Bool) (accepted : Bool) (before after : Nat × Nat × Nat × Nat) : Option String :=
  let (sI, rI, sR, rR) := before
  let (sI', rI', sR', rR') := after
  if sI ≠ sI' ∨ sR ≠ sR' then some "fail state-corrupt send counter changed by a delivery"
  else if atI ∧ rR ≠ rR' ∨ ¬atI ∧ rI ≠ rI' then some "fail state-corrupt other end changed"
  else if ¬accepted ∧ (rI ≠ rI' ∨ rR ≠ rR') then some "fail reject-changed-state"
  else none

def specDel (s : SSt) (atI : Bool) (hdr : Option (Nat × Nat × Bool)) (src : Option Sealed)
    (out : List String) : SSt × String :=
  match out with
  | "acc" :: mtok :: rest =>
    -- `empty` = zero-length plaintext: identified with the delivered pool entry iff that one is empty
    let mval : Option Nat := if mtok = "empty" then
        (match src with
         | some p => if p.plen = 0 then some p.msg else some 4294967296   -- no such message
         | none => some 4294967296)
      else match mtok.toNat?, src with
        | some m, some p => if p.plen = 0 then some 4294967296 else some m
        | some m, none => some m
        | none, _ => none
    match mval, parse4 rest, hdr with
    | some m, some after, some (_, hc, intact) =>
      let s' := { s with ctrs := some after }
      let accLog := if atI then s.accI else s.accR
      let s'' := if atI then { s' with accI := (hc, m) :: s.accI } else { s' with accR := (hc, m) :: s.accR }
      -- (a) produced by the OTHER end, unmodified
      match src with
      | none => (s'', "fail forged-accepted")
      | some p =>
        if ¬intact ∨ p.msg ≠ m then (s'', "fail forged-accepted")
        else if p.byInit = atI then (s'', "fail reflect-accepted")
        -- (b) strictly increasing counters, at most once
        else if accLog.any (fun x => hc ≤ x.1 ∨ x.2 = m) then (s'', "fail replay-accepted")
        else match s.ctrs.bind (fun b => delState atI true b after) with
          | some f => (s'', f)
          | none => (s'', "ok")
    | _, _, _ => (s, "fail unparsable")
  | "rej" :: rest =>
    match parse4 rest with
    | some after =>
      let s' := { s with ctrs := some after }
      match s.ctrs.bind (fun b => delState atI false b after) with
      | some f => (s', f)
      | none => (s', "ok")
    | none => (s, "fail unparsable")
  | _ => (s, "fail unparsable")

def specLine (s : SSt) (line : String) : SSt × String :=
  match line.splitOn "\t" with
  | [op, out] =>
    let o := tokens out
    if out.startsWith "panic" ∨ out.startsWith "crash" then (s, "fail crashed")
    else match tokens op with
    | ["reset"] => ({ ctrs := some (0, 0, 0, 0) }, "ok")
    | ["reset", a, b, c, d] => ({ ctrs := parse4 [a, b, c, d] }, "ok")
    | "enc" :: x :: m :: pl =>
      let plen := match pl with
        | [n] => n.toNat?.getD 4
        | _ => 4
      match parseEnd x, m.toNat?, o with
      | some isI, some m, "ok" :: pfx :: c :: rest =>
        match pfx.toNat?, c.toNat?, parse4 rest with
        | some pfx, some c, some after =>
          let s' := { s with ctrs := some after, pool := s.pool.push ⟨isI, m, pfx, c, plen⟩ }
          if pfx ≠ sendPfx isI then (s', "fail wrong-direction-prefix")
          else if s.pool.any (fun q => q.pfx = pfx ∧ q.ctr = c) then (s', "fail nonce-reuse")
          else match s.ctrs with
            | some (_, rI, _, rR) => if rI ≠ after.2.1 ∨ rR ≠ after.2.2.2 then (s', "fail state-corrupt recv changed by encrypt") else (s', "ok")
            | none => (s', "ok")
        | _, _, _ => (s, "fail unparsable")
      | some _, some _, "err" :: _ :: rest => ({ s with ctrs := parse4 rest }, "ok")
      | _, _, _ => (s, "ok")
    | "del" :: x :: k :: mu =>
      match parseEnd x, k.toNat? with
      | some atI, some k =>
        match s.pool[k]? with
        | some p => specDel s atI (delivered p mu) (some p) o
        | none => (s, "ok")
      | _, _ => (s, "ok")
    | ["raw", x, pfx, c, _] =>
      match parseEnd x, pfx.toNat?, c.toNat? with
      | some atI, some pfx, some c => specDel s atI (some (pfx, c, false)) none o
      | _, _, _ => (s, "ok")
    | ["race", x, k, _] =>
      match parseEnd x, k.toNat?, o with
      | some atI, some k, "race" :: n :: m :: rest =>
        (match s.pool[k]?, n.toNat? with
         | some p, some n =>
           if n > 1 then ({ s with ctrs := parse4 rest }, "fail replay-accepted concurrently")
           else if n = 1 then specDel s atI (some (p.pfx, p.ctr, true)) (some p) ("acc" :: m :: rest)
           else specDel s atI (some (p.pfx, p.ctr, true)) (some p) ("rej" :: rest)
         | _, _ => (s, "ok"))
      | _, _, _ => (s, "ok")
    | _ => (s, "ok")
  | _ => (s, "bad-op")

def main (args : List String) : IO Unit :=
  match args with
  | ["spec"] => runLines ({} : SSt) specLine
  | _ => runLines ({} : ESt) stepLine

end MM.Engine.C01
