import MM.Engine.Basic
import MM.Model.C31

/-!
  Line-protocol oracle for C31 (protocol: harness/main/eng_c31.go).  The script's `wait` is
  "the armed timer expires" (the fixed model has at most one); `release fail` is the callback
  Manager.handleReconnect returning an error (it has called Schedule itself: `retFailSched`).
-/
namespace MM.Engine.C31
open MM MM.C31

/-- One model instance per peer address; `paused`/`closed` are shared (a reconnector has one flag
    for all addresses), so the global operations are applied to every instance, and an instance
    created later starts with the current flags. -/
structure St where
  c : Cfg := ⟨0, 0, 1, 1, 0, 1, 0⟩
  rs : List (Nat × R) := []
  paused : Bool := false
  closed : Bool := false

def ms : Nat := 1000000

def St.get (s : St) (a : Nat) : R :=
  match s.rs.find? (fun x => x.1 == a) with
  | some x => x.2
  | none => { paused := s.paused, closed := s.closed }

def St.set (s : St) (a : Nat) (r : R) : St :=
  { s with rs := (a, r) :: s.rs.filter (fun x => x.1 != a) }

def showEv : Option Ev → String
  | some (.attempt n d wp) => s!"attempt n={n} d={d} early=0 late=0 paused={if wp then 1 else 0}"
  | none => "none"

def addrOf : List String → Option Nat
  | [] => some 0
  | [a] => a.toNat?
  | _ => none

def stepLine (s : St) (line : String) : St × String :=
  -- a step of one address
  let one (a : Nat) (l : Label) : St × String := (s.set a (step true s.c (s.get a) l).1, "ok")
  -- a step of the reconnector as a whole
  let all (l : Label) (p c : Bool) : St × String :=
    ({ s with rs := s.rs.map (fun x => (x.1, (step true s.c x.2 l).1)), paused := p, closed := c }, "ok")
  match tokens line with
  | ["reset", i, m, a, b, jn, jd, mx] =>
    match i.toNat?, m.toNat?, a.toNat?, b.toNat?, jn.toNat?, jd.toNat?, mx.toNat? with
    | some i, some m, some a, some b, some jn, some jd, some mx =>
      ({ c := ⟨i * ms, m * ms, a, b, jn, jd, mx⟩ }, "ok")
    | _, _, _, _, _, _, _ => (s, "bad-op")
  | "schedule" :: r => match addrOf r with
    | some a => one a .schedule
    | none => (s, "bad-op")
  | "cancel" :: r => match addrOf r with
    | some a => one a .cancel
    | none => (s, "bad-op")
  | ["pause"] => if s.paused || s.closed then (s, "ok") else all .pause true s.closed
  | ["disconnectall"] => if s.paused || s.closed then (s, "ok") else all .pause true s.closed
  | ["resume"] => all .resume false s.closed
  | ["clearall"] => all .resetAll s.paused s.closed
  | ["stop"] => all .stop s.paused true
  | "preset" :: n :: r => match n.toNat?, addrOf r with
    | some n, some a =>
      let x := s.get a
      match x.st with
      | some st =>
        if x.paused then (s.set a { x with st := some { st with attempts := n, nextDelay := dseq s.c n } }, "ok")
        else (s, "notpaused")
      | none => (s, "notpaused")
    | _, _ => (s, "bad-op")
  | "wait" :: r => match addrOf r with
    | some a =>
      let x := s.get a
      match x.live with
      | [] => (s, "none")
      | t :: _ =>
        let (r', e) := step true s.c x (.fire t.id)
        (s.set a r', showEv e)
    | none => (s, "bad-op")
  | "release" :: how :: r => match addrOf r with
    | some a =>
      if (s.get a).flights.isEmpty then (s, "noflight")
      else if how = "ok" then one a .retOk
      else one a .retFailSched
    | none => (s, "bad-op")
  | _ => (s, "bad-op")

/-! ### Executable statement of C31 on the implementation's own answers

  Recomputed from the op history: the configuration (from `reset`) and whether the script has
  paused the reconnector.  For every attempt the implementation reports:
  * it must not start while the script has it paused, nor be observed with `IsPaused()` true;
  * its un-jittered delay must be the element of the backoff sequence for ITS OWN attempt
    counter: `d = dseq (n-1)`;
  * it must not have started earlier than `(1-j)·d` after the arming (`early`, strict), nor later
    than `(1+j)·d` + slack (`late`, generous). -/

structure SpecSt where
  c : Cfg := ⟨0, 0, 1, 1, 0, 1, 0⟩
  paused : Bool := false

def kvNat (t key : String) : Option Nat :=
  if t.startsWith (key ++ "=") then (t.drop (key.length + 1)).toNat? else none

def specLine (s : SpecSt) (line : String) : SpecSt × String :=
  match line.splitOn "\t" with
  | [op, out] =>
    if out.startsWith "panic" || out.startsWith "crash " then (s, "fail crashed") else
    match tokens op with
    | ["reset", i, m, a, b, jn, jd, mx] =>
      match i.toNat?, m.toNat?, a.toNat?, b.toNat?, jn.toNat?, jd.toNat?, mx.toNat? with
      | some i, some m, some a, some b, some jn, some jd, some mx =>
        ({ c := ⟨i * ms, m * ms, a, b, jn, jd, mx⟩, paused := false }, "ok")
      | _, _, _, _, _, _, _ => (s, "ok")
    | ["pause"] => ({ s with paused := true }, "ok")
    | ["disconnectall"] => ({ s with paused := true }, "ok")
    | ["resume"] => ({ s with paused := false }, "ok")
    | "wait" :: _ =>
      match tokens out with
      | ["attempt", n, d, early, late, paused] =>
        match kvNat n "n", kvNat d "d", kvNat early "early", kvNat late "late", kvNat paused "paused" with
        | some n, some d, some early, some late, some wp =>
          if s.paused || wp != 0 then (s, "fail attempt-while-paused")
          else if n = 0 || d != dseq s.c (n - 1) then (s, "fail delay-not-in-backoff-sequence")
          else if s.c.maxAtt != 0 && n > s.c.maxAtt then (s, "fail more-than-max-attempts")
          else if early != 0 then (s, "fail gap-below-backoff")
          else if late != 0 then (s, "fail gap-above-backoff-slack")
          else (s, "ok")
        | some _, none, _, _, _ => (s, "fail delay-not-in-backoff-sequence")   -- e.g. a negative delay
        | _, _, _, _, _ => (s, "fail unparsable-answer")
      | ["none"] => (s, "ok")
      | _ => (s, "fail unparsable-answer")
    | _ => (s, "ok")
  | _ => (s, "bad-op")

def main (args : List String) : IO Unit :=
  match args with
  | ["spec"] => runLines ({} : SpecSt) specLine
  | _ => runLines ({} : St) stepLine

end MM.Engine.C31
