import MM.Engine.Basic
import MM.Model.C16x

/-
  Engine c16: the real `relayTable` (ops `t.*`) and the real agent's stream-frame dispatch with
  injected peers (all other ops) against MM/Model/C16.lean.

    t.ins a i b j | t.del a i b j | t.both id | t.down id | t.popdown id peer | t.popmatch id peer | t.delpeer peer
    conn P d|a        peer P connects (d: this agent dialed → allocator 1,3,…; a: accepted → 2,4,…)
    disc P            peer P disconnects (handlePeerDisconnect)
    open K P id N     K_OPEN from P, stream id, next hop N          (K = tcp|udp|icmp)
    ack|err|data|close K P id ;  rst P id (STREAM_RESET)
    end               end of case marker (no effect)
  answers:  `<result> | up=[k:(a,i,b,j) …] down=[…]`  resp.
            `sent=[P:K.what:id …] | tcp up=[…] down=[…] | udp … | icmp …`
-/
namespace MM.Engine.C16
open MM MM.C16

def showEntry (e : Entry) : String := s!"({e.upPeer},{e.upId},{e.downPeer},{e.downId})"
def showOpt : Option Entry → String
  | some e => showEntry e
  | none => "nil"

def insertKV (e : Nat × Entry) : List (Nat × Entry) → List (Nat × Entry)
  | [] => [e]
  | h :: t => if e.1 ≤ h.1 then e :: h :: t else h :: insertKV e t

def showMap (m : Map) : String :=
  "[" ++ " ".intercalate ((m.foldr insertKV []).map (fun kv => s!"{kv.1}:{showEntry kv.2}")) ++ "]"

def showTable (t : Table) : String := s!"up={showMap t.byUp} down={showMap t.byDown}"

structure St where
  t : Table := {}
  a : Agent := {}
  ex : C17.Handler := {}   -- the agent's exit handler (serial of the next exit tunnel = ex.next)

def showAgent (a : Agent) : String :=
  s!"tcp {showTable a.tcp} | udp {showTable a.udp} | icmp {showTable a.icmp}"

def insertN (x : Nat) : List Nat → List Nat
  | [] => [x]
  | h :: t => if x ≤ h then x :: h :: t else h :: insertN x t

def kindName : Kind → String
  | .tcp => "tcp" | .udp => "udp" | .icmp => "icmp"

def parseKind : String → Option Kind
  | "tcp" => some .tcp | "udp" => some .udp | "icmp" => some .icmp | _ => none

def showSent (a : Agent) (k : Kind) (l : List Sent) : String :=
  "[" ++ " ".intercalate ((l.filter (fun s => a.connected s.peer)).map
    (fun s => if s.payload.isEmpty then s!"{s.peer}:{kindName k}.{s.what}:{s.id}"
              else s!"{s.peer}:{kindName k}.{s.what}:{s.id}:{s.payload}")) ++ "]"

def insertKV' (e : Nat × Entry) : List (Nat × Entry) → List (Nat × Entry)
  | [] => [e]
  | h :: t => if e.1 ≤ h.1 then e :: h :: t else h :: insertKV' e t

def showExit (h : C17.Handler) : String :=
  "exit=[" ++ " ".intercalate ((h.conns.foldr insertKV' []).map (fun kv => s!"{kv.1}:{kv.2.serial}")) ++ "]"

def nodeOut (s : St) (a : Agent) (ex : C17.Handler) (k : Kind) (l : List Sent) (x : List String) : St × String :=
  ({ s with a := a, ex := ex }, s!"sent={showSent a k l} x=[{" ".intercalate x}] | {showAgent a} | {showExit ex} uexit=[{" ".intercalate ((a.udpExit.foldr insertN []).map toString)}] uidx=[{" ".intercalate ((a.uidx.foldr insertN []).map toString)}]")

def agentOut (s : St) (a : Agent) (k : Kind) (l : List Sent) : St × String :=
  nodeOut s a s.ex k l []

/-- a serial no exit tunnel has: the payload decrypts under no session key -/
def noKey : Nat := 1000000000

def optOut (s : St) (k : Kind) : Option (Agent × List Sent) → St × String
  | some (a, l) => agentOut s a k l
  | none => agentOut s s.a k []

def tOut (s : St) (t : Table) (res : String) : St × String :=
  ({ s with t := t }, s!"{res} | {showTable t}")

/-- `cleanAll` is a parameter of the engine: `true` = repaired `cleanupRelaysForPeer`. -/
def step (cleanAll : Bool) (s : St) (line : String) : St × String :=
  match tokens line with
  | "reset" :: _ => ({ t := {}, a := { cleanAll := cleanAll }, ex := {} }, "ok")
  | ["uiopen", p] =>
    if !s.a.connected p.toNat! then agentOut s s.a .udp [] else
    let (a, l) := s.a.udpIngressOpen p.toNat!
    agentOut s a .udp l
  | ["uiack", _, _] => agentOut s s.a .udp []
  | ["uierr", p, i] =>
    let (a, l) := s.a.udpIngressErr p.toNat! i.toNat!
    agentOut s a .udp l
  | ["uxopen", p, i] =>
    if !s.a.connected p.toNat! then agentOut s s.a .udp [] else
    let (a, l) := s.a.udpExitOpen p.toNat! i.toNat!
    agentOut s a .udp l
  | ["xopen", p, i] =>
    if !s.a.connected p.toNat! then agentOut s s.a .tcp [] else
    let (n, l, x) := (Node.mk s.a s.ex).xopen p.toNat! i.toNat!
    nodeOut s n.a n.ex .tcp l x
  | ["xdata", p, i, k] =>
    if k.toNat! ≥ s.ex.next then (s, "bad-op") else
    let (n, l, x) := (Node.mk s.a s.ex).data p.toNat! i.toNat! k.toNat!
    nodeOut s n.a n.ex .tcp l x
  | ["end"] => agentOut s s.a .tcp []
  | ["t.ins", a, i, b, j] => tOut s (s.t.insert ⟨a.toNat!, i.toNat!, b.toNat!, j.toNat!⟩) "ok"
  | ["t.del", a, i, b, j] => tOut s (s.t.delete ⟨a.toNat!, i.toNat!, b.toNat!, j.toNat!⟩) "ok"
  | ["t.both", i] =>
    let (u, d) := s.t.lookupBoth i.toNat!
    tOut s s.t s!"up={showOpt u} down={showOpt d}"
  | ["t.down", i] => tOut s s.t (showOpt (s.t.lookupDown i.toNat!))
  | ["t.popdown", i, p] =>
    let (t, r) := s.t.popDownFromPeer i.toNat! p.toNat!
    tOut s t (showOpt r)
  | ["t.popmatch", i, p] =>
    match s.t.popMatchingPeer i.toNat! p.toNat! with
    | (t, some (e, true)) => tOut s t (showEntry e ++ " up")
    | (t, some (e, false)) => tOut s t (showEntry e ++ " down")
    | (t, none) => tOut s t "nil"
  | ["t.delpeer", p] =>
    let (t, n) := s.t.deleteByPeer p.toNat!
    tOut s t s!"n={n}"
  | ["conn", p, d] => agentOut s (s.a.connect p.toNat! (d == "d")) .tcp []
  | ["disc", p] =>
    -- the disconnect callback only exists for a connection that was registered
    if s.a.connected p.toNat! then agentOut s (s.a.disconnect p.toNat!) .tcp []
    else agentOut s s.a .tcp []
  | ["open", k, p, i, n] =>
    match parseKind k with
    | some k => let (a, l) := s.a.relayOpen k p.toNat! i.toNat! n.toNat!; agentOut s a k l
    | none => (s, "bad-op")
  | "ack" :: k :: p :: i :: rest =>
    match parseKind k with
    | some k => optOut s k (s.a.relayAck k p.toNat! i.toNat! (rest.headD "010203"))
    | none => (s, "bad-op")
  | "err" :: k :: p :: i :: rest =>
    match parseKind k with
    | some .udp =>
      match s.a.relayErr .udp p.toNat! i.toNat! (rest.headD "010203") with
      | some r => optOut s .udp (some r)
      | none => agentOut s { s.a with uidx := s.a.uidx.filter (· != i.toNat!) } .udp []
    | some k => optOut s k (s.a.relayErr k p.toNat! i.toNat! (rest.headD "010203"))
    | none => (s, "bad-op")
  | "data" :: k :: p :: i :: rest =>
    let hex := rest.headD "010203"
    let fl := (rest.drop 1).headD "0"
    match parseKind k with
    | some .tcp =>
      let (n, l, x) := (Node.mk s.a s.ex).data p.toNat! i.toNat! noKey (hex ++ "/f" ++ fl) (fl == "1")
      nodeOut s n.a n.ex .tcp l x
    | some .udp => optOut s .udp (s.a.udpData p.toNat! i.toNat! (hex ++ "/f0"))
    | some k => optOut s k (s.a.relayData k p.toNat! i.toNat! (hex ++ "/f0"))   -- UDP/ICMP relays set no flags
    | none => (s, "bad-op")
  | ["close", k, p, i] =>
    match parseKind k with
    | some .tcp =>
      let (n, l, x) := (Node.mk s.a s.ex).close "close" p.toNat! i.toNat!
      nodeOut s n.a n.ex .tcp l x
    | some .udp => let (a, l) := s.a.udpClose p.toNat! i.toNat!; agentOut s a .udp l
    | some k => optOut s k (s.a.relayClose k "close" p.toNat! i.toNat!)
    | none => (s, "bad-op")
  | ["rst", p, i] =>
    -- a reset the relay table does not claim closes the exit record like a close does
    let (n, l, x) := (Node.mk s.a s.ex).close "rst" p.toNat! i.toNat!
    nodeOut s n.a n.ex .tcp l x
  | _ => (s, "bad-op")

/-! ### executable statement of C16 (and the relay part of C17) on the implementation's answers.

  The spec keeps the tunnels that are live according to the protocol, keyed the way the protocol
  identifies them — by (peer, stream id) of each leg — and recomputes from that what every frame
  must cause.  The downstream id of a tunnel is read off the implementation's own forwarded OPEN. -/

structure Tun where
  kind : String
  upPeer : Nat
  upId : Nat
  downPeer : Nat
  downId : Nat
  deriving DecidableEq

/-- A tunnel that terminates at this agent's exit handler. -/
structure XTun where
  peer : Nat
  id : Nat
  serial : Nat
  fin : Bool := false   -- the client sent FIN_WRITE: later data cannot be written any more
  deriving DecidableEq

structure SpecSt where
  live : List Tun := []
  xlive : List XTun := []
  xnext : Nat := 0
  peers : List Nat := []
  collided : Bool := false   -- two live tunnels of one table shared a bare stream id at some point
  relayCollided : Bool := false  -- … two RELAYED tunnels of one relay table (the only thing that can orphan an index)
  uxlive : List (Nat × Nat) := []  -- exit-side UDP associations (peer, id)
  uiLive : List Nat := []          -- ingress clients (local stream id of their destination association)

/-- frames sent: (peer, kind.what, stream id, payload/flags token or "") -/
def parseSent (out : String) : List (Nat × String × Nat × String) :=
  match out.splitOn "sent=[" with
  | [_, rest] =>
    match rest.splitOn "]" with
    | inner :: _ => (tokens inner).filterMap (fun tok => match tok.splitOn ":" with
        | [p, w, i] => some (p.toNat!, w, i.toNat!, "")
        | [p, w, i, pl] => some (p.toNat!, w, i.toNat!, pl)
        | _ => none)
    | [] => []
  | _ => []

def parseUidx (out : String) : List Nat :=
  match out.splitOn "uidx=[" with
  | [_, rest] => (tokens ((rest.splitOn "]").headD "")).map String.toNat!
  | _ => []

def parseX (out : String) : List String :=
  match out.splitOn " x=[" with
  | [_, rest] => tokens ((rest.splitOn "]").headD "")
  | _ => []

def countEntries (out : String) : Nat :=
  -- number of "(" in the dump part = number of index bindings
  match out.splitOn " | " with
  | _ :: tables => (tables.map (fun t => (t.toList.filter (· == '(')).length)).foldl (· + ·) 0
  | [] => 0

def mentionsPeer (out : String) (p : Nat) : Bool :=
  match out.splitOn " | " with
  | _ :: tables => tables.any (fun t =>
      (t.splitOn "(").drop 1 |>.any (fun seg =>
        match (seg.splitOn ")").headD "" |>.splitOn "," with
        | [a, _, b, _] => a.toNat! == p || b.toNat! == p
        | _ => false))
  | [] => false

def legUp (k : String) (p i : Nat) (t : Tun) : Bool := t.kind == k && t.upPeer == p && t.upId == i
def legDown (k : String) (p i : Nat) (t : Tun) : Bool := t.kind == k && t.downPeer == p && t.downId == i

def clash (k : String) (live : List Tun) (t : Tun) : Bool :=
  live.any (fun u => u.kind == k && (u.upId == t.upId || u.downId == t.downId))

/-- Expected single forward for a frame from `(p,i)` on a live tunnel; `none` = no live tunnel. -/
def expectFwd (s : SpecSt) (k : String) (p i : Nat) (allowUp : Bool) : Option (Nat × Nat) :=
  let viaDown : Option (Nat × Nat) :=
    match s.live.find? (legDown k p i) with
    | some t => some (t.upPeer, t.upId)
    | none => none
  if allowUp then
    match s.live.find? (legUp k p i) with
    | some t => some (t.downPeer, t.downId)
    | none => viaDown
  else viaDown   -- OPEN_ACK / OPEN_ERR only ever travel upstream

/-- Failures in a case in which two live tunnels shared a bare stream id carry the signature of the
    known finding (`c16-collision-…`); the same failure without any collision is a plain violation. -/
def tag (s : SpecSt) (what : String) : String :=
  if s.collided then "c16-collision-" ++ what else "c16-" ++ what

/-- `pl`: the payload/flags token the forwarded frame must carry (byte-exact relaying). -/
def checkFwd (s : SpecSt) (k what : String) (exp : Option (Nat × Nat)) (sent : List (Nat × String × Nat × String))
    (pl : String := "") : Option String :=
  match exp with
  | some (q, j) =>
    if !s.peers.contains q then (if sent.isEmpty then none else some (tag s "misrouted"))
    else if sent == [(q, k ++ "." ++ what, j, pl)] then none
    else if sent.map (fun x => (x.1, x.2.1, x.2.2.1)) == [(q, k ++ "." ++ what, j)] then some "c16-payload-altered"
    else if sent.isEmpty then some (tag s "dropped") else some (tag s "misrouted")
  | none => if sent.isEmpty then none else some (tag s "phantom")

def removeLeg (s : SpecSt) (k : String) (p i : Nat) (allowUp : Bool) : SpecSt :=
  match s.live.find? (fun t => (allowUp && legUp k p i t)) with
  | some t => { s with live := s.live.filter (· != t) }
  | none =>
    match s.live.find? (legDown k p i) with
    | some t => { s with live := s.live.filter (· != t) }
    | none => s

/-- close / reset from `(p,i)`: a relayed tunnel is torn down and the close travels on; otherwise the
    exit tunnel of exactly that peer and id is closed; nothing else may be touched. -/
def specClose (s : SpecSt) (k what : String) (p i : Nat) (sent : List (Nat × String × Nat × String)) (x : List String)
    (out : String := "") : SpecSt × String :=
  match expectFwd s k p i true with
  | some e =>
    let s' := removeLeg s k p i true
    -- C17: the closed tunnel's record must be gone from its relay table
    let closed := s.live.filter (fun t => !s'.live.contains t)
    let survives := closed.any (fun t =>
      (out.splitOn s!"| {k} ").drop 1 |>.any (fun seg =>
        (((seg.splitOn " | ").headD "").splitOn s!"({t.upPeer},{t.upId},{t.downPeer},{t.downId})").length > 1))
    if survives then
      (s', if s.relayCollided then "fail c17-collision-orphan" else "fail c17-entry-survives-close")
    else
    match checkFwd s k what (some e) sent with
    | some err => (s', "fail " ++ err)
    | none => (s', if x.isEmpty then "ok" else "fail " ++ tag s "relay-frame-reached-exit")
  | none =>
    if k != "tcp" then
      (match checkFwd s k what none sent with
       | some err => (s, "fail " ++ err)
       | none => (s, "ok"))
    else
    match s.xlive.find? (fun t => t.peer == p && t.id == i) with
    | some t =>
      let s' := { s with xlive := s.xlive.filter (· != t) }
      let wantSent := if s.peers.contains p then [(p, "tcp.close", i, "")] else []
      (s', if sent == wantSent && (x == [s!"dstclosed:{t.serial}"] || s.collided) then "ok" else "fail " ++ tag s "exit-close-misdelivered")
    | none =>
      if s.xlive.any (fun t => t.id == i) then
        (if sent.isEmpty && x.isEmpty then (s, "ok")
         else ({ s with xlive := s.xlive.filter (fun t => t.id != i) }, "fail c16-collision-exit-wrong-peer"))
      else (s, if sent.isEmpty && x.isEmpty then "ok" else "fail " ++ tag s "phantom")

def specStep (s : SpecSt) (l : String) : SpecSt × String :=
  match l.splitOn "\t" with
  | [op, out] =>
    if out.startsWith "panic" || out.startsWith "crash" then (s, "fail crashed")
    else
    let sent := parseSent out
    match tokens op with
    | "reset" :: _ => ({}, "ok")
    | ["conn", p, _] => ({ s with peers := p.toNat! :: s.peers.filter (· != p.toNat!) }, "ok")
    | ["disc", p] =>
      let p := p.toNat!
      if !s.peers.contains p then (s, "ok") else
      let s' := { s with peers := s.peers.filter (· != p),
                         live := s.live.filter (fun t => t.upPeer != p && t.downPeer != p) }
      -- C17: nothing that involves the vanished peer may remain in any relay table
      if mentionsPeer out p then
        (s', if s.relayCollided then "fail c17-collision-orphan" else "fail c17-relay-leak-on-disconnect")
      else (s', "ok")
    | ["open", k, p, i, n] =>
      let (p, i, n) := (p.toNat!, i.toNat!, n.toNat!)
      if !s.peers.contains n then
        -- no route: an error goes back, nothing is recorded
        (s, if sent.all (fun x => x.1 == p) then "ok" else "fail " ++ tag s "misrouted")
      else
        match sent with
        | [(q, w, j, _)] =>
          if q == n && w == k ++ ".open" then
            let t : Tun := ⟨k, p, i, n, j⟩
            -- a re-used (peer,id) replaces the old tunnel of that leg; it is a bare-id collision too
            let live := s.live.filter (fun u => !(legUp k p i u))
            -- an exit-side UDP association under the same bare id swallows the relayed datagrams (known finding)
            let ux := k == "udp" && s.uxlive.any (fun u => u.2 == i || u.2 == j)
            ({ s with live := t :: live, collided := s.collided || clash k s.live t || ux,
                      relayCollided := s.relayCollided || clash k s.live t }, "ok")
          else (s, "fail " ++ tag s "misrouted")
        | _ => (s, "fail " ++ tag s "dropped")
    | "ack" :: k :: p :: i :: rest =>
      let (p, i) := (p.toNat!, i.toNat!)
      match checkFwd s k "ack" (expectFwd s k p i false) sent (rest.headD "010203") with
      | some e => (s, "fail " ++ e)
      | none => (s, "ok")
    | ["uiopen", _] =>
      match sent with
      | [(_, "udp.open", j, _)] => ({ s with uiLive := j :: s.uiLive.filter (· != j) }, "ok")
      | _ => (s, "ok")
    | ["uiack", _, _] =>
      -- every ingress client keeps its reverse-index entry (its return datagrams are deliverable)
      (s, if s.uiLive.all (fun j => (parseUidx out).contains j) then "ok" else "fail c16-ingress-unindexed")
    | ["uierr", _, i] =>
      let s' := { s with uiLive := s.uiLive.filter (· != i.toNat!) }
      -- the refused client is gone; every OTHER client keeps its entry
      (s', if s'.uiLive.all (fun j => (parseUidx out).contains j) then "ok" else "fail c16-ingress-unindexed")
    | ["uxopen", p, i] =>
      let (p, i) := (p.toNat!, i.toNat!)
      if !s.peers.contains p then (s, "ok") else
      if sent == [(p, "udp.ack", i, "")] then
        let clashRelay := s.live.any (fun t => t.kind == "udp" && (t.upId == i || t.downId == i))
        ({ s with uxlive := (p, i) :: s.uxlive.filter (fun u => u.2 != i),
                  collided := s.collided || clashRelay || s.uxlive.any (fun u => u.2 == i) }, "ok")
      else (s, "fail " ++ tag s "exit-open-failed")
    | ["xopen", p, i] =>
      let (p, i) := (p.toNat!, i.toNat!)
      if !s.peers.contains p then (s, "ok") else
      if sent == [(p, "tcp.ack", i, "")] then
        -- two exit records under one bare id = the handler-level collision of the known finding
        let dup := s.xlive.any (fun t => t.id == i)
        ({ s with xlive := ⟨p, i, s.xnext, false⟩ :: s.xlive.filter (fun t => t.id != i || t.peer != p), xnext := s.xnext + 1,
                  collided := s.collided || dup }, "ok")
      else (s, "fail " ++ tag s "exit-open-failed")
    | ["xdata", p, i, k] =>
      let (p, i, k) := (p.toNat!, i.toNat!, k.toNat!)
      let x := parseX out
      match expectFwd s "tcp" p i true with
      | some e =>
        -- a relayed tunnel's frame: forwarded on its own leg, and the exit handler is not touched
        match checkFwd s "tcp" "data" (some e) sent with
        | some err => (s, "fail " ++ err)
        | none => (s, if x.isEmpty then "ok" else "fail " ++ tag s "relay-frame-reached-exit")
      | none =>
        match s.xlive.find? (fun t => t.peer == p && t.id == i) with
        | some t =>
          if t.fin then ({ s with xlive := s.xlive.filter (· != t) }, "ok")   -- data after FIN: the stream is closed
          else if t.serial == k then
            (s, if x == [s!"dst:{k}"] && sent.isEmpty then "ok" else "fail " ++ tag s "exit-misdelivered")
          else
            -- sealed under another tunnel's key: the owner's own stream is torn down (legitimate)
            ({ s with xlive := s.xlive.filter (· != t) }, "ok")
        | none =>
          if s.xlive.any (fun t => t.id == i) then
            -- a frame of another peer meets an exit record with the same bare id (known finding)
            (if sent.isEmpty && x.isEmpty then (s, "ok")
             else ({ s with xlive := s.xlive.filter (fun t => t.id != i) }, "fail c16-collision-exit-wrong-peer"))
          else (s, if sent.isEmpty && x.isEmpty then "ok" else "fail " ++ tag s "phantom")
    | "data" :: k :: p :: i :: rest =>
      let (p, i) := (p.toNat!, i.toNat!)
      let x := parseX out
      let pl := rest.headD "010203" ++ "/f" ++ (if k == "tcp" then (rest.drop 1).headD "0" else "0")
      match expectFwd s k p i true with
      | some e =>
        match checkFwd s k "data" (some e) sent pl with
        | some err => (s, "fail " ++ err)
        | none => (s, if x.isEmpty then "ok" else "fail " ++ tag s "relay-frame-reached-exit")
      | none =>
        if k != "tcp" then
          (match checkFwd s k "data" none sent with
           | some err => (s, "fail " ++ err)
           | none => (s, "ok"))
        else
        match s.xlive.find? (fun t => t.peer == p && t.id == i) with
        | some t =>
          -- an empty payload is ignored; an undecryptable one closes the owner's own stream (legitimate)
          if (rest.headD "010203") == "-" then
            let s' := if (rest.drop 1).headD "0" == "1"
              then { s with xlive := s.xlive.map (fun u => if u == t then { u with fin := true } else u) } else s
            (s', if sent.isEmpty && x.isEmpty then "ok" else "fail " ++ tag s "phantom")
          else ({ s with xlive := s.xlive.filter (· != t) }, "ok")
        | none =>
          if s.xlive.any (fun t => t.id == i) then
            -- a frame of ANOTHER peer meets an exit record with the same bare id (known finding); an empty
            -- FIN frame has no visible effect now but shuts that record's write side
            let finHit := (rest.drop 1).headD "0" == "1"
            (if sent.isEmpty && x.isEmpty then
               (if finHit then { s with collided := true,
                                        xlive := s.xlive.map (fun t => if t.id == i then { t with fin := true } else t) } else s, "ok")
             else ({ s with xlive := s.xlive.filter (fun t => t.id != i) }, "fail c16-collision-exit-wrong-peer"))
          else (s, if sent.isEmpty && x.isEmpty then "ok" else "fail " ++ tag s "phantom")
    | "err" :: k :: p :: i :: rest =>
      let (p, i) := (p.toNat!, i.toNat!)
      let r := checkFwd s k "err" (expectFwd s k p i false) sent (rest.headD "010203")
      let s' := removeLeg s k p i false
      match r with
      | some e => (s', "fail " ++ e)
      | none => (s', "ok")
    | ["close", k, p, i] =>
      let (p, i) := (p.toNat!, i.toNat!)
      let s0 := if k == "udp" then { s with uxlive := s.uxlive.filter (fun u => u.2 != i) } else s
      let r := specClose s0 k "close" p i sent (parseX out) out
      -- a UDP_CLOSE of the association's owner with no relay leg produces nothing: fine
      r
    | ["rst", p, i] =>
      let (p, i) := (p.toNat!, i.toNat!)
      specClose s "tcp" "rst" p i sent (parseX out) out
    | ["end"] =>
      -- C17: once no tunnel is live, every relay index must be empty
      if s.live.isEmpty && countEntries out != 0 then
        (s, if s.relayCollided then "fail c17-collision-orphan" else "fail c17-not-empty")
      else (s, "ok")
    | _ => (s, "ok")
  | _ => (s, "bad-op")

def main (args : List String) : IO Unit :=
  match args with
  | ["spec"] => runLines ({} : SpecSt) specStep
  | _ => runLines ({} : St) (step true)

end MM.Engine.C16
