import MM.Engine.Basic
import MM.Model.C23

/-
  Engine c23: one op = one client byte stream fed to a real `socks5.Handler`.

    h <auths> <dial> <udp><icmp> <input> [f<k>]      (f<k>: the client's bytes arrive at most k per Read)
      auths : `-` (empty list) or comma-separated `N` | `S<name>.<pw>/<name>.<pw>...` (hex fields;
              a static credential store; `S` alone = empty store)
      dial  : `ok.<iphex|->.<port>` | `f.dns` | `f.timeout` | `f.dialop` | `f.other`
      udp   : x (no handler) | o (disabled) | k (create ok) | f (create fails)
      icmp  : x | o | f
    -> `r <msg>,<msg>,... a <none | dial:<hex> | udp:<-|ip.port> | icmp:<ip>>`
    h … relay:<c>:<t>   the client sends <c> after it has seen the success reply, the destination sends <t>
    -> `… t <bytes the destination received> c <bytes written to the client after the reply>`
    j <host> <port>     -> `s <JoinHostPort text> ok <host> <port text>` | `s <text> err`   (net.SplitHostPort of it)
    ip <4|16 bytes>     -> `text <net.IP.String()>`
-/
namespace MM.Engine.C23
open MM MM.C23

def lookupLast (l : List (Bytes × Bytes)) (k : Bytes) : Option Bytes :=
  (l.reverse.find? (·.1 == k)).map (·.2)

def parseCred (s : String) : Option (Bytes × Bytes) :=
  match s.splitOn "." with
  | [n, p] => do pure ((← bytesOfHex n), (← bytesOfHex p))
  | _ => none

def parseAuth (s : String) : Option Auth :=
  if s = "N" then some .noAuth
  else if s.startsWith "S" then
    let body := (s.drop 1).toString
    let items := if body = "" then [] else body.splitOn "/"
    match items.mapM parseCred with
    | some creds => some (.userPass (fun u p => match lookupLast creds u with
        | some q => q == p
        | none => false))
    | none => none
  else none

def parseAuths (s : String) : Option (List Auth) :=
  if s = "-" then some [] else (s.splitOn ",").mapM parseAuth

def parseDial (s : String) : Option DialRes :=
  match s.splitOn "." with
  | ["ok", ip, port] => do pure (.ok (← bytesOfHex ip) (← port.toNat?))
  | ["f", "dns"] => some (.fail .dns)
  | ["f", "timeout"] => some (.fail .timeout)
  | ["f", "dialop"] => some (.fail .dialOp)
  | ["f", "other"] => some (.fail .other)
  | _ => none

def parseBackend (c : Char) : Option Backend :=
  if c = 'x' then some .absent else if c = 'o' then some .disabled
  else if c = 'k' then some .createOk else if c = 'f' then some .createFail else none

def showAction : Action → String
  | .none => "none"
  | .dial a => "dial:" ++ hexTok a
  | .udp none => "udp:-"
  | .udp (some (ip, p)) => s!"udp:{hexTok ip}.{p}"
  | .icmp ip => "icmp:" ++ hexTok ip

def showResult (r : Result) : String :=
  "r " ++ (if r.replies.isEmpty then "-" else ",".intercalate (r.replies.map hexTok)) ++ " a " ++ showAction r.action

structure Op where
  auths : List Auth
  dial : DialRes
  udp : Backend
  icmp : Backend
  input : Bytes
  relay : Option (Bytes × Bytes) := none

def parseRelay (s : String) : Option (Bytes × Bytes) :=
  match s.splitOn ":" with
  | ["relay", c, t] => do pure (← bytesOfHex c, ← bytesOfHex t)
  | _ => none

def parseOp (line : String) : Option Op :=
  match tokens line with
  | "h" :: au :: di :: be :: inp :: extra => do
    let auths ← parseAuths au
    let dial ← parseDial di
    let (u, i) ← match be.toList with
      | [u, i] => some (u, i)
      | _ => none
    -- `f<k>` (delivery fragmentation) does not matter to the model
    let relay := extra.findSome? parseRelay
    pure { auths := auths, dial := dial, udp := ← parseBackend u, icmp := ← parseBackend i, input := ← bytesOfHex inp, relay := relay }
  | _ => none

def Op.env (o : Op) (cancelled : Bool) : Env :=
  ⟨o.auths, o.dial, cancelled, o.udp, o.icmp, [127, 0, 0, 1]⟩

/-- The relay phase of `handleConnect` (`relay`): after the success reply each side's bytes reach
    the other side unchanged. Only a successful CONNECT has one. -/
def relayOut (o : Op) (r : Result) : String :=
  match o.relay with
  | none => ""
  | some (c, t) =>
    match r.action, o.dial with
    | .dial _, .ok _ _ => s!" t {hexTok c} c {hexTok t}"
    | _, _ => " t - c -"

def step (line : String) : String :=
  match tokens line with
  | ["j", h, p] =>
    match bytesOfHex h, p.toNat? with
    | some host, some port =>
      let s := joinHostPort host port
      match splitHostPort s with
      | .ok a b => s!"s {hexTok s} ok {hexTok a} {hexTok b}"
      | .err => s!"s {hexTok s} err"
    | _, _ => "bad-op"
  | ["ip", b] =>
    match bytesOfHex b with
    | some ip => "text " ++ hexTok (if ip.length = 4 then renderV4 ip else renderV6 ip)
    | none => "bad-op"
  | _ =>
  match parseOp line with
  | none => "bad-op"
  | some o =>
    let ra := handle (o.env false) o.input
    let rb := handle (o.env true) o.input
    let a := showResult ra ++ relayOut o ra
    let b := showResult rb ++ relayOut o rb
    if a = b then a else s!"anyof {a} | {b}"

/-! ### spec: the statement of C23 evaluated on the implementation's own answer -/

/-- Independent decoder of a client stream `greeting ++ request ++ rest` (inverse of
    `encodeGreeting`/`encodeRequest`), three-valued. -/
inductive Decoded where
  | complete (methods : Bytes) (cmd : UInt8) (d : Dest) (port : Nat) (rest : Bytes)
  | badAtyp (methods : Bytes)
  | incomplete
  | invalid

def decodeStream (inp : Bytes) : Decoded :=
  match inp with
  | v :: n :: t =>
    if v ≠ 5 then .invalid
    else if t.length < n.toNat then .incomplete
    else
      let methods := t.take n.toNat
      match t.drop n.toNat with
      | v2 :: cmd :: _ :: atyp :: u =>
        if v2 ≠ 5 then .invalid
        else
          let fin (d : Dest) (k : Nat) : Decoded :=
            if u.length < k + 2 then .incomplete
            else .complete methods cmd d (unbe ((u.drop k).take 2)) (u.drop (k + 2))
          if atyp = 1 then (if u.length < 4 then .incomplete else fin (.v4 (u.take 4)) 4)
          else if atyp = 4 then (if u.length < 16 then .incomplete else fin (.v6 (u.take 16)) 16)
          else if atyp = 3 then
            match u with
            | [] => .incomplete
            | l :: w =>
              if l = 0 then .invalid
              else if w.length < l.toNat then .incomplete
              else fin (.dom (w.take l.toNat)) (1 + l.toNat)
          else .badAtyp methods
      | v2 :: _ => if v2 ≠ 5 then .invalid else .incomplete
      | [] => .incomplete
  | [v] => if v ≠ 5 then .invalid else .incomplete
  | [] => .incomplete

def parseReplies (s : String) : Option (List Bytes) :=
  if s = "-" then some [] else (s.splitOn ",").mapM bytesOfHex

def noAuthOnly (auths : List Auth) : Bool :=
  match newHandlerAuths auths with
  | [.noAuth] => true
  | _ => false

def lastCode (rs : List Bytes) : Option UInt8 := rs.getLast?.map replyCode

def spec (line : String) (implOut : String) : String :=
  if implOut.startsWith "panic" || implOut.startsWith "crash" then "fail crashed"
  else if implOut.startsWith "hang" then "fail hang"
  else if line.startsWith "j " || line.startsWith "ip " then "ok"
  else match parseOp line, (tokens implOut).take 4 with
    | some o, ["r", rs, "a", act] =>
      -- relay phase: what each side received must be what the other side sent
      let relayBad : Bool := match o.relay, (tokens implOut).drop 4 with
        | some (c, t), ["t", gt, "c", gc] =>
          let dialOk : Bool := match o.dial with
            | .ok _ _ => true
            | _ => false
          if act.startsWith "dial" && dialOk then
            !(gt == hexTok c && gc == hexTok t)
          else !(gt == "-" && gc == "-")
        | some _, _ => true
        | none, _ => false
      if relayBad then "fail relay-bytes" else
      match parseReplies rs with
      | none => "fail unparsable-reply"
      | some replies =>
        if !replies.all wfMsg then "fail malformed-reply"
        else if !noAuthOnly o.auths then "ok"
        else match decodeStream o.input with
          | .complete methods cmd d port _ =>
            if !methods.contains 0 then (if act = "none" then "ok" else "fail action-without-method")
            else if cmd = 1 then
              (if act = "dial:" ++ hexTok (joinHostPort d.render port) then "ok" else "fail wrong-dial")
            else if cmd = 3 ∨ cmd = 4 then
              (if act.startsWith "dial" then "fail wrong-dial" else "ok")
            else if act = "none" ∧ lastCode replies = some 0x07 then "ok" else "fail bad-cmd-reply"
          | .badAtyp methods =>
            if !methods.contains 0 then (if act = "none" then "ok" else "fail action-without-method")
            else if act = "none" ∧ lastCode replies = some 0x08 then "ok" else "fail bad-atyp-reply"
          | .incomplete => if act = "none" then "ok" else "fail action-on-truncated"
          | .invalid => if act = "none" then "ok" else "fail action-on-invalid"
    | _, _ => "fail unparsable-output"

def main (args : List String) : IO Unit :=
  match args with
  | ["spec"] => runPure (fun l => match l.splitOn "\t" with
      | [op, out] => spec op out
      | _ => "bad-op")
  | _ => runPure step

end MM.Engine.C23
