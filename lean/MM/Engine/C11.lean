import MM.Model.C11Wire

/-
  Engine c11: the shared flood engine (model + follow mode, see MM/Model/C11Wire.lean) with the
  executable statement of property C11 as its `spec` mode.
-/
namespace MM.Engine.C11

def main (args : List String) : IO Unit := MM.C11.Wire.mainWith .c11 args

end MM.Engine.C11
