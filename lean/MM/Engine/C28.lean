import MM.Engine.Basic
import MM.Model.C28

/-
  Engine c28 (see harness/main/eng_c28.go for the op language).  The agent is index 0, its
  connected peers are 1, 2, 3; the nominal clock is 1 800 000 000.5 s (the harness stamps
  relative timestamps from its real clock; decisions depend only on the difference, and the
  generator keeps differences at least 3 s away from the window edge).
-/
namespace MM.Engine.C28
open MM MM.C28

def nowNs : Int := 1800000000500000000
def nowSec : Nat := 1800000000

def cfgOf (signing : Bool) : FCfg :=
  { signing, window := 300000000000, ttl := 300000000000, maxSize := 10000, localID := 0, peers := [1, 2, 3] }

structure St where
  cfg : FCfg
  a : AState
  /-- content of every command delivered in this case -> the tokens it was described with -/
  labels : List ((Nat × Nat × Nat × Sig) × (String × String))

def St.init : St := { cfg := cfgOf true, a := { f := FState.empty, sl := .awake }, labels := [] }

def parseTs (tok : String) : Option Nat :=
  if tok.startsWith "r" then
    match (tok.drop 1).toString.toInt? with
    | some d => some (Int.toNat ((nowSec : Int) + d))
    | none => none
  else if tok.startsWith "a" then (tok.drop 1).toString.toNat?
  else none

def parseSig (tok : String) (o i t : Nat) : Option Sig :=
  match tok with
  | "zero" => some .zero
  | "valid" => some (.signed 0 o i t)
  | "bad" => some .garbage
  | "otherkey" => some (.signed 1 o i t)
  | "wrongorigin" => some (.signed 0 (o + 1) i t)
  | "wrongid" => some (.signed 0 o ((i + 1) % 2^64) t)
  | "wrongts" => some (.signed 0 o i ((t + 1) % 2^64))
  | _ => none

def parseSeen (tok : String) : Option (List Nat) :=
  if tok == "-" then some [] else (tok.splitOn ".").mapM String.toNat?

def parseVia : String → Option Via
  | "fs" => some .floodSleep
  | "fw" => some .floodWake
  | "qs" => some .queuedSleep
  | "qw" => some .queuedWake
  | _ => none

def insertSorted (x : String) : List String → List String
  | [] => [x]
  | y :: ys => if x < y then x :: y :: ys else y :: insertSorted x ys

def sortStrings (l : List String) : List String := l.foldr insertSorted []

def showSt : SleepSt → String
  | .awake => "AWAKE"
  | .sleeping => "SLEEPING"
  | .polling => "POLLING"

def showSeen (l : List Nat) : String :=
  if l.isEmpty then "-" else ".".intercalate (l.map toString)

def showItem (labels : List ((Nat × Nat × Nat × Sig) × (String × String))) (x : Nat × Kind × Cmd) : String :=
  let (p, k, c) := x
  let (tl, sl) := match labels.find? (fun e => e.1 == (c.origin, c.id, c.ts, c.sig)) with
    | some e => e.2
    | none => (s!"?{c.ts}", "?")
  let kt := match k with | .sleep => "S" | .wake => "W"
  s!"{p}:{kt}:{c.origin}:{c.id}:{tl}:{sl}:{showSeen c.seenBy}"

def showOut (s : St) (sl : SleepSt) (out : Outcome) : String :=
  let items := sortStrings (out.sends.map (showItem s.labels))
  let fwd := if items.isEmpty then "-" else ",".intercalate items
  s!"st={showSt sl} sl={out.onSleep} wk={out.onWake} fwd={fwd}"

def step (s : St) (line : String) : St × String :=
  match tokens line with
  | ["reset", sg, asl] =>
    ({ cfg := cfgOf (sg == "1"), a := { f := FState.empty, sl := if asl == "1" then .sleeping else .awake }, labels := [] }, "ok")
  | ["d", via, from_, origin, id, ts, sig, seen] =>
    match parseVia via, from_.toNat?, origin.toNat?, id.toNat?, parseTs ts, parseSeen seen with
    | some via, some from_, some o, some i, some t, some sb =>
      match parseSig sig o i t with
      | none => (s, "bad-op")
      | some sg =>
        let c : Cmd := { origin := o, id := i, ts := t, sig := sg, seenBy := sb }
        let s1 := { s with labels := s.labels ++ [((o, i, t, sg), (ts, sig))] }
        let (a', out) := deliver idealV s.cfg s.a nowNs via from_ c
        ({ s1 with a := a' }, showOut s1 a'.sl out)
    | _, _, _, _, _, _ => (s, "bad-op")
  | ["peer", p] =>
    match p.toNat? with
    | some p =>
      let (f', sends) := onPeerConnected idealV s.cfg s.a.f nowNs p
      let out : Outcome := { Outcome.none with sends := sends.map fun (q, c) => (q, Kind.wake, c) }
      ({ s with a := { s.a with f := f' } }, showOut s s.a.sl out)
    | none => (s, "bad-op")
  | _ => (s, "bad-op")

/-! Executable statement of C28 on the implementation's own answers (mode `spec`): with a signing
    key configured, an answer that shows a state change, a callback or a forwarded frame is allowed
    only for a command that is validly signed (ideal signatures) and stamped inside the window. -/

structure SpecSt where
  signing : Bool
  st : String          -- state token of the previous answer in this case
  admissibleSeen : List (Nat × Nat)  -- (origin,id) of admissible commands delivered so far (pending-wake path)

def SpecSt.init : SpecSt := { signing := true, st := "st=AWAKE", admissibleSeen := [] }

def admissible (t : Nat) (sg : Sig) (o i : Nat) : Bool :=
  idealV o i t sg && decide (((nowSec : Int) - 297 ≤ (t : Int)) ∧ ((t : Int) ≤ (nowSec : Int) + 297))

def specStep (s : SpecSt) (line : String) (implOut : String) : SpecSt × String :=
  if implOut.startsWith "panic" || implOut.startsWith "crash" then (s, "fail crashed") else
  match tokens line, tokens implOut with
  | ["reset", sg, asl], _ =>
    ({ signing := sg == "1", st := if asl == "1" then "st=SLEEPING" else "st=AWAKE", admissibleSeen := [] }, "ok")
  | ["d", via, _, origin, id, ts, sig, _], [st, sl, wk, fwd] =>
    match origin.toNat?, id.toNat?, parseTs ts with
    | some o, some i, some t =>
      match parseSig sig o i t with
      | none => (s, "ok")
      | some sg =>
        let ok := admissible t sg o i
        let acted := st != s.st || sl != "sl=0" || wk != "wk=0" || fwd != "fwd=-"
        let s' := { s with st := st, admissibleSeen := if ok then (o, i) :: s.admissibleSeen else s.admissibleSeen }
        if s.signing && acted && !ok then
          (s', if via == "qs" || via == "qw" then "fail queued-command-admitted-without-valid-signature"
               else if !idealV o i t sg then "fail command-admitted-without-valid-signature"
               else "fail command-admitted-outside-timestamp-window")
        else (s', "ok")
    | _, _, _ => (s, "ok")
  | ["peer", _], [st, _, _, fwd] =>
    -- forwarded pending wake: every item must describe an admissible command delivered earlier
    if !s.signing || fwd == "fwd=-" then ({ s with st := st }, "ok") else
    let items := (fwd.drop 4).toString.splitOn ","
    let bad := items.any fun it =>
      match it.splitOn ":" with
      | [_, _, o, i, tl, sl, _] =>
        match o.toNat?, i.toNat?, parseTs tl with
        | some o, some i, some t =>
          match parseSig sl o i t with
          | some sg => !admissible t sg o i
          | none => true
        | _, _, _ => true
      | _ => true
    ({ s with st := st }, if bad then "fail pending-wake-forwarded-inadmissible" else "ok")
  | _, _ => (s, "ok")

def main (args : List String) : IO Unit :=
  match args with
  | ["spec"] => runLines SpecSt.init (fun s l => match l.splitOn "\t" with
      | [op, out] => specStep s op out
      | _ => (s, "bad-op"))
  | _ => runLines St.init step

end MM.Engine.C28
