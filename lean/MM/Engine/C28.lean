import MM.Engine.Basic
import MM.Model.C28

/-
  Engine c28 (see harness/main/eng_c28.go for the op language).  The agent is index 0, its
  connected peers are 1, 2, 3; the nominal clock is 1 800 000 000.5 s (the harness stamps
  relative timestamps from its real clock; decisions depend only on the difference, and the
  generator keeps differences at least 3 s away from the window edge).
-/
namespace MM.Engine.C28
open MM MM.C28

def nowNs : Int := 1800000000500000000
def nowSec : Nat := 1800000000

def cfgOf (signing : Bool) : FCfg :=
  { signing, window := 300000000000, ttl := 300000000000, maxSize := 10000, localID := 0, peers := [1, 2, 3] }

structure St where
  cfg : FCfg
  canSign : Bool
  nextFresh : Nat
  a : AState
  /-- content of every command delivered in this case -> the tokens it was described with -/
  labels : List ((Nat × Nat × Nat × Sig) × (String × String))

def St.init : St := { cfg := cfgOf true, canSign := false, nextFresh := 2^63, a := { f := FState.empty, sl := .awake }, labels := [] }

def parseTs (tok : String) : Option Nat :=
  if tok.startsWith "r" then
    match (tok.drop 1).toString.toInt? with
    | some d => some (Int.toNat (((nowSec : Int) + d) % 18446744073709551616))   -- uint64(now + d) wraps
    | none => none
  else if tok.startsWith "a" then (tok.drop 1).toString.toNat?
  else none

def otherKind : Kind → Kind
  | .sleep => .wake
  | .wake => .sleep

/-- `k` = kind of the frame that carries the command.  `xkind`: the key holder issued (and signed)
    a command of the OTHER kind with these fields; the signature bytes are transplanted. -/
def parseSig (tok : String) (k : Kind) (o i t : Nat) : Option Sig :=
  match tok with
  | "zero" => some .zero
  | "valid" => some (.signed 0 k o i t)
  | "xkind" => some (.signed 0 (otherKind k) o i t)
  | "bad" => some .garbage
  | "otherkey" => some (.signed 1 k o i t)
  | "wrongorigin" => some (.signed 0 k (o + 1) i t)
  | "wrongid" => some (.signed 0 k o ((i + 1) % 2^64) t)
  | "wrongts" => some (.signed 0 k o i ((t + 1) % 2^64))
  | _ => none

def parseSeen (tok : String) : Option (List Nat) :=
  if tok == "-" then some [] else (tok.splitOn ".").mapM String.toNat?

def parseVia : String → Option Via
  | "fs" => some .floodSleep
  | "fw" => some .floodWake
  | "qs" => some .queuedSleep
  | "qw" => some .queuedWake
  | _ => none

def insertSorted (x : String) : List String → List String
  | [] => [x]
  | y :: ys => if x < y then x :: y :: ys else y :: insertSorted x ys

def sortStrings (l : List String) : List String := l.foldr insertSorted []

def showSt : SleepSt → String
  | .awake => "AWAKE"
  | .sleeping => "SLEEPING"
  | .polling => "POLLING"

def showSeen (l : List Nat) : String :=
  if l.isEmpty then "-" else ".".intercalate (l.map toString)

/-- ids of locally issued commands (`TriggerSleep`/`TriggerWake` use the clock) are printed as `fresh`;
    a transplanted signature (`xkind`) is byte-for-byte a valid one and is printed as `valid`. -/
def freshBase : Nat := 2^63

def showItem (labels : List ((Nat × Nat × Nat × Sig) × (String × String))) (x : Nat × Kind × Cmd) : String :=
  let (p, k, c) := x
  let (tl, sl) := match labels.find? (fun e => e.1 == (c.origin, c.id, c.ts, c.sig)) with
    | some e => e.2
    | none => (s!"?{c.ts}", "?")
  let sl := if sl == "xkind" then "valid" else sl
  let kt := match k with | .sleep => "S" | .wake => "W"
  let idTok := if c.id ≥ freshBase then "fresh" else toString c.id
  s!"{p}:{kt}:{c.origin}:{idTok}:{tl}:{sl}:{showSeen c.seenBy}"

def showOut (labels : List ((Nat × Nat × Nat × Sig) × (String × String))) (sl : SleepSt) (out : Outcome) : String :=
  let items := (sortStrings (out.sends.map (showItem labels))).eraseDups
  let fwd := if items.isEmpty then "-" else ",".intercalate items
  s!"st={showSt sl} sl={out.onSleep} wk={out.onWake} fwd={fwd}"

def mkCmd (k : Kind) (origin id ts sig seen : String) : Option (Cmd × (String × String)) :=
  match origin.toNat?, id.toNat?, parseTs ts, parseSeen seen with
  | some o, some i, some t, some sb =>
    match parseSig sig k o i t with
    | some sg => some ({ origin := o, id := i, ts := t, sig := sg, seenBy := sb }, (ts, sig))
    | none => none
  | _, _, _, _ => none

def labelOf (c : Cmd) (toks : String × String) : (Nat × Nat × Nat × Sig) × (String × String) :=
  ((c.origin, c.id, c.ts, c.sig), toks)

def step (s : St) (line : String) : St × String :=
  match tokens line with
  | ["reset", sg, asl] =>
    ({ cfg := cfgOf (sg != "0"), canSign := sg == "2", nextFresh := freshBase,
       a := { f := FState.empty, sl := if asl == "1" then .sleeping else .awake }, labels := [] }, "ok")
  | ["d", via, from_, origin, id, ts, sig, seen] =>
    match parseVia via, from_.toNat? with
    | some via, some from_ =>
      match mkCmd via.kind origin id ts sig seen with
      | none => (s, "bad-op")
      | some (c, toks) =>
        let labels := s.labels ++ [labelOf c toks]
        let (a', out) := deliver idealV s.cfg s.a nowNs via from_ c
        ({ s with a := a', labels }, showOut labels a'.sl out)
    | _, _ => (s, "bad-op")
  | ["dq", from_, o1, i1, t1, g1, b1, o2, i2, t2, g2, b2] =>
    -- one QUEUED_STATE frame carrying a sleep command AND a wake command: applied in that order
    match from_.toNat?, mkCmd .sleep o1 i1 t1 g1 b1, mkCmd .wake o2 i2 t2 g2 b2 with
    | some from_, some (c1, k1), some (c2, k2) =>
      let labels := s.labels ++ [labelOf c1 k1, labelOf c2 k2]
      let (a1, out1) := deliver idealV s.cfg s.a nowNs .queuedSleep from_ c1
      let (a2, out2) := deliver idealV s.cfg a1 nowNs .queuedWake from_ c2
      let out : Outcome := { Outcome.none with onSleep := out1.onSleep + out2.onSleep, onWake := out1.onWake + out2.onWake,
                                               sends := out1.sends ++ out2.sends }
      ({ s with a := a2, labels }, showOut labels a2.sl out)
    | _, _, _ => (s, "bad-op")
  | ["trig", k] =>
    match (if k == "s" then some Kind.sleep else if k == "w" then some Kind.wake else none) with
    | none => (s, "bad-op")
    | some k =>
      let c := issued s.canSign s.cfg nowNs k s.nextFresh
      let labels := s.labels ++ [labelOf c ("now", if s.canSign then "valid" else "zero")]
      let (a', out) := trigger s.canSign s.cfg s.a nowNs k s.nextFresh
      ({ s with a := a', labels, nextFresh := s.nextFresh + 1 }, showOut labels a'.sl out)
  | ["peer", p] =>
    match p.toNat? with
    | some p =>
      let (f', sends) := onPeerConnected idealV s.cfg s.a.f nowNs p
      let out : Outcome := { Outcome.none with sends := sends.map fun (q, c) => (q, Kind.wake, c) }
      ({ s with a := { s.a with f := f' } }, showOut s.labels s.a.sl out)
    | none => (s, "bad-op")
  | _ => (s, "bad-op")

/-! Executable statement of C28 on the implementation's own answers (mode `spec`): with a signing
    key configured, an answer that shows a state change, a callback or a forwarded frame is allowed
    only for a command carrying a signature the key holder made for THIS kind of command over its
    origin, id and timestamp (ideal signatures), stamped inside the window. -/

structure SpecSt where
  signing : Bool
  canSign : Bool
  st : String          -- state token of the previous answer in this case
  xkind : List (Nat × Nat)  -- (origin,id) of commands delivered with a transplanted (other-kind) signature

def SpecSt.init : SpecSt := { signing := true, canSign := false, st := "st=AWAKE", xkind := [] }

def inWin (t : Nat) : Bool := decide (((nowSec : Int) - 297 ≤ (t : Int)) ∧ ((t : Int) ≤ (nowSec : Int) + 297))

/-- (admissible for its kind, admissible for the code's kind-blind verifier) -/
def classify (k : Kind) (origin id ts sig : String) : Option (Bool × Bool × Nat × Nat) :=
  match origin.toNat?, id.toNat?, parseTs ts with
  | some o, some i, some t =>
    match parseSig sig k o i t with
    | some sg => some (idealKV k o i t sg && inWin t, idealV o i t sg && inWin t, o, i)
    | none => none
  | _, _, _ => none

def kindOfVia (via : String) : Kind := if via == "fs" || via == "qs" then .sleep else .wake

def specStep (s : SpecSt) (line : String) (implOut : String) : SpecSt × String :=
  if implOut.startsWith "panic" || implOut.startsWith "crash" then (s, "fail crashed") else
  if implOut == "skipped-drift" then (s, "ok") else
  match tokens line, tokens implOut with
  | ["reset", sg, asl], _ =>
    ({ signing := sg != "0", canSign := sg == "2", st := if asl == "1" then "st=SLEEPING" else "st=AWAKE", xkind := [] }, "ok")
  | ["d", via, _, origin, id, ts, sig, _], [st, sl, wk, fwd] =>
    match classify (kindOfVia via) origin id ts sig with
    | none => ({ s with st := st }, "ok")
    | some (okKind, okBlind, o, i) =>
      let acted := st != s.st || sl != "sl=0" || wk != "wk=0" || fwd != "fwd=-"
      let s' := { s with st := st, xkind := if sig == "xkind" then (o, i) :: s.xkind else s.xkind }
      if s.signing && acted && !okKind then
        (s', if okBlind then "fail cross-type-signature-accepted"
             else if via == "qs" || via == "qw" then "fail queued-command-admitted-without-valid-signature"
             else if sig != "valid" && sig != "xkind" then "fail command-admitted-without-valid-signature"
             else "fail command-admitted-outside-timestamp-window")
      else (s', "ok")
  | ["dq", _, o1, i1, t1, g1, _, o2, i2, t2, g2, _], [st, sl, wk, fwd] =>
    match classify .sleep o1 i1 t1 g1, classify .wake o2 i2 t2 g2 with
    | some (k1, b1, oo1, ii1), some (k2, b2, oo2, ii2) =>
      let s' := { s with st := st, xkind := (if g1 == "xkind" then [(oo1, ii1)] else []) ++ (if g2 == "xkind" then [(oo2, ii2)] else []) ++ s.xkind }
      let sleepActed := sl != "sl=0" || (fwd.splitOn ":S:").length > 1
      let wakeActed := wk != "wk=0" || (fwd.splitOn ":W:").length > 1
      if !s.signing then (s', "ok")
      else if sleepActed && !k1 then (s', if b1 then "fail cross-type-signature-accepted" else "fail queued-command-admitted-without-valid-signature")
      else if wakeActed && !k2 then (s', if b2 then "fail cross-type-signature-accepted" else "fail queued-command-admitted-without-valid-signature")
      else (s', "ok")
    | _, _ => ({ s with st := st }, "ok")
  | ["trig", k], [st, _, _, fwd] =>
    -- issuer side: with a private key every frame flooded must carry a valid signature, this agent as origin, the current time
    let s' := { s with st := st }
    if fwd == "fwd=-" then (s', "ok") else
    let items := (fwd.drop 4).toString.splitOn ","
    let want := if k == "s" then "S" else "W"
    let bad := items.any fun it =>
      match it.splitOn ":" with
      | [_, ty, o, _, tl, sl, sb] => ty != want || o != "0" || tl != "now" || sb != "0" || (s.canSign && sl != "valid") || (!s.canSign && sl != "zero")
      | _ => true
    (s', if bad then "fail issued-command-malformed-or-not-validly-signed" else "ok")
  | ["peer", _], [st, _, _, fwd] =>
    -- forwarded pending wake: every item must describe a command admissible as a WAKE command
    if !s.signing || fwd == "fwd=-" then ({ s with st := st }, "ok") else
    let items := (fwd.drop 4).toString.splitOn ","
    let verdicts := items.map fun it =>
      match it.splitOn ":" with
      | [_, _, o, i, tl, sl, _] =>
        if o == "0" && i == "fresh" then (if sl == "valid" && tl == "now" then "ok" else "bad")
        else match classify .wake o i tl sl with
          | some (okKind, _, oo, ii) => if !okKind then "bad" else if s.xkind.contains (oo, ii) then "xkind" else "ok"
          | none => "bad"
      | _ => "bad"
    ({ s with st := st },
      if verdicts.contains "bad" then "fail pending-wake-forwarded-inadmissible"
      else if verdicts.contains "xkind" then "fail cross-type-signature-forwarded" else "ok")
  | _, _ => (s, "ok")

/-- The harness abandons a case that has run too long on the real clock (relative stamps would have
    drifted toward the window edge): every op may be answered `skipped-drift`. -/
def allowSkipped (out : String) : String :=
  if out.startsWith "anyof " then out ++ " | skipped-drift" else s!"anyof {out} | skipped-drift"

def main (args : List String) : IO Unit :=
  match args with
  | ["spec"] => runLines SpecSt.init (fun s l => match l.splitOn "\t" with
      | [op, out] => specStep s op out
      | _ => (s, "bad-op"))
  | _ => runLines St.init (fun s l =>
      let (s', out) := step s l
      (s', if (tokens l).head? == some "reset" then out else allowSkipped out))

end MM.Engine.C28
