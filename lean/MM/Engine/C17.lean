import MM.Engine.Basic
import MM.Model.C17

/-
  Engine c17: the real exit.Handler and forward.Handler (recording StreamWriter, loopback TCP sink
  as destination) against MM/Model/C17.lean.  Serials are global over both handlers.

    open H id peer | openfail H kind id peer | data H id peer serial | close H id peer | rst H id peer | dsteof H serial | end
  answer: ev=[…sorted…] count=<exit>/<fwd> keys=[exit/id:serial … fwd/id:serial …]
-/
namespace MM.Engine.C17
open MM MM.C17

structure St where
  ex : Handler := {}
  fw : Handler := {}
  serial : Nat := 0
  recs : List (Nat × String × C17.Conn) := []   -- serial ↦ (handler, record)

def showEv : Ev → String
  | .ack p i => s!"ack:{p}:{i}"
  | .err p i => s!"err:{p}:{i}"
  | .close p i => s!"close:{p}:{i}"
  | .fin p i => s!"fin:{p}:{i}"
  | .dst s => s!"dst:{s}"
  | .dstClosed s => s!"dstclosed:{s}"

def insertStr (x : String) : List String → List String
  | [] => [x]
  | h :: t => if x ≤ h then x :: h :: t else h :: insertStr x t

def insertKey (e : Nat × C16.Entry) : List (Nat × C16.Entry) → List (Nat × C16.Entry)
  | [] => [e]
  | h :: t => if e.1 ≤ h.1 then e :: h :: t else h :: insertKey e t

def showKeys (name : String) (h : Handler) : List String :=
  (h.conns.foldr insertKey []).map (fun kv => s!"{name}/{kv.1}:{kv.2.serial}")

def out (s : St) (evs : List Ev) : St × String :=
  let es := (evs.map showEv).foldr insertStr []
  (s, s!"ev=[{" ".intercalate es}] count={s.ex.count}/{s.fw.count} keys=[{" ".intercalate (showKeys "exit" s.ex ++ showKeys "fwd" s.fw)}]")

/-- MaxConnections the harness configures for both handlers. -/
def maxConns : Nat := 6

def getH (s : St) (h : String) : Handler := if h == "exit" then s.ex else s.fw
def setH (s : St) (h : String) (x : Handler) : St := if h == "exit" then { s with ex := x } else { s with fw := x }

def step (s : St) (line : String) : St × String :=
  match tokens line with
  | "reset" :: _ => ({}, "ok")
  | ["end"] => out s []
  | ["open", h, i, p] =>
    let hd := { getH s h with next := s.serial, max := maxConns }
    let (hd', evs) := hd.tryOpen i.toNat! p.toNat!
    let s' := setH s h hd'
    if hd'.next == s.serial then out s' evs          -- refused: connection limit
    else out { s' with serial := s.serial + 1, recs := (s.serial, h, Conn.mk' i.toNat! p.toNat! s.serial) :: s.recs } evs
  | ["openfail", h, _, i, p] =>
    let (hd', evs) := (getH s h).openFail i.toNat! p.toNat!
    out (setH s h hd') evs
  | ["data", h, i, p, k] =>
    if k.toNat! ≥ s.serial then (s, "bad-op") else
    let (hd', evs) := (getH s h).data i.toNat! p.toNat! k.toNat!
    out (setH s h hd') evs
  | ["close", h, i, p] =>
    let (hd', evs) := (getH s h).closeConn i.toNat! p.toNat!
    out (setH s h hd') evs
  | ["rst", h, i, p] =>
    let (hd', evs) := (getH s h).closeConn i.toNat! p.toNat!
    out (setH s h hd') evs
  | ["dsteof", _, k] =>
    match s.recs.lookup k.toNat! with
    | some (h, c) =>
      if (getH s h).dstOpen.contains c.serial then
        let (hd', evs) := (getH s h).dstEof c
        out (setH s h hd') evs
      else out s []
    | none => out s []
  | _ => (s, "bad-op")

/-! ### executable statement of C17 for the handlers, on the implementation's answers:
    the counter always equals the number of records (`count-mismatch`); at `end`, when every tunnel
    has been closed or lost its destination, nothing is left (`not-empty`) — for every history,
    re-used and colliding stream ids included (repaired handlers). -/

structure SpecSt where
  liveIds : List (String × Nat) := []   -- ids with a record according to the protocol history
  collided : Bool := false

def parseCounts (out : String) : Option (Int × Int) :=
  match (out.splitOn "count=") with
  | [_, rest] =>
    match ((rest.splitOn " ").headD "").splitOn "/" with
    | [a, b] => some (a.toInt!, b.toInt!)
    | _ => none
  | _ => none

def parseKeys (out : String) : List String :=
  match out.splitOn "keys=[" with
  | [_, rest] => tokens ((rest.splitOn "]").headD "")
  | _ => []

def specStep (s : SpecSt) (l : String) : SpecSt × String :=
  match l.splitOn "\t" with
  | [op, out] =>
    if out.startsWith "panic" || out.startsWith "crash" then (s, "fail crashed")
    else if out.trimAscii.toString == "bad-op" then (s, "ok")   -- op names a serial that was never opened (open refused at the limit)
    else
    match tokens op with
    | "reset" :: _ => ({}, "ok")
    | _ =>
      let keys := parseKeys out
      let nEx := (keys.filter (·.startsWith "exit/")).length
      let nFw := (keys.filter (·.startsWith "fwd/")).length
      let s' : SpecSt :=
        match tokens op with
        | ["open", h, i, _] =>
          -- a second open under an id whose record is still present = bare-id collision
          let present := keys.any (fun k => k.startsWith (h ++ "/" ++ i ++ ":"))
          let was := s.liveIds.contains (h, i.toNat!)
          { liveIds := (h, i.toNat!) :: s.liveIds.filter (· != (h, i.toNat!)), collided := s.collided || (was && present) }
        | _ => s
      -- liveIds for the next op = ids that have a record now
      let s'' := { s' with liveIds := keys.filterMap (fun k => match k.splitOn "/" with
          | [h, r] => some (h, ((r.splitOn ":").headD "0").toNat!)
          | _ => none) }
      match parseCounts out with
      | none => (s'', "fail unparsable-output")
      | some (ce, cf) =>
        if ce != (nEx : Int) || cf != (nFw : Int) then
          (s'', "fail c17-count-mismatch")
        else if op.trimAscii.toString == "end" && (nEx + nFw != 0) then
          (s'', "fail c17-not-empty")
        else (s'', "ok")
  | _ => (s, "bad-op")

def main (args : List String) : IO Unit :=
  match args with
  | ["spec"] => runLines ({} : SpecSt) specStep
  | _ => runLines ({} : St) step

end MM.Engine.C17
