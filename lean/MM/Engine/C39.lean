import MM.Engine.Basic
import MM.Model.C39

/-
  Engine c39: control request/response forwarding of the real agent against MM/Model/C39.lean.

    reset | conn P | disc P | send T | sendfail T | sendstall T | release T ok|fail | sleep | wake | cancel id | req P id T [path…] | resp P id ok|fail tag
  answer: out=[…] pending=[ids] fwd=[id:peer …]
-/
namespace MM.Engine.C39
open MM MM.C39

def okStr (b : Bool) : String := if b then "ok" else "fail"

def showOut (a : Ag) : Out → Option String
  | .send to (.req id target path) =>
    if a.peers.contains to then some s!"{to}:req:{id}:{target}:{",".intercalate (path.map toString)}" else none
  | .send to (.resp id ok tag) =>
    if a.peers.contains to then some s!"{to}:resp:{id}:{okStr ok}:{tag}" else none
  | .deliver id ok tag => some s!"deliver:{id}:{okStr ok}:{tag}"
  | .sendErr => some "senderr"
  | .cancelled id => some s!"cancelled:{id}"

def insertNat (x : Nat) : List Nat → List Nat
  | [] => [x]
  | h :: t => if x ≤ h then x :: h :: t else h :: insertNat x t

def insertKV (e : Nat × Nat) : List (Nat × Nat) → List (Nat × Nat)
  | [] => [e]
  | h :: t => if e.1 ≤ h.1 then e :: h :: t else h :: insertKV e t

/-- deliveries are printed before frames (the harness collects the caller's answer first). -/
def render (a : Ag) (outs : List Out) : String :=
  let isDel : Out → Bool := fun o => match o with | .deliver .. => true | .sendErr => true | .cancelled _ => true | _ => false
  let items := (outs.filter isDel ++ outs.filter (fun o => !isDel o)).filterMap (showOut a)
  let pend := ((a.pending.map (·.1)).foldr insertNat []).map toString
  let fwd := (a.fwd.foldr insertKV []).map (fun kv => s!"{kv.1}:{kv.2}")
  s!"out=[{" ".intercalate items}] pending=[{" ".intercalate pend}] fwd=[{" ".intercalate fwd}] next={a.next}"

/-- engine state: the agent and the local requests whose write is stalled (target, id), oldest first. -/
structure ESt where
  a : Ag := {}
  stalled : List (Nat × Nat) := []

def stepA (a : Ag) (line : String) : Ag × String :=
  match tokens line with
  | "reset" :: _ => ({}, "ok")
  | ["sendfail", t] =>
    let (a', outs) := a.issueFail t.toNat!
    (a', render a' outs)
  | ["sleep"] => let a' := a.sleep; (a', render a' [])
  | ["wake"] => (a, render a [])
  | ["route", _, "via", _] => (a, render a [])   -- responses travel hop by hop via forwardedControl: routes play no part
  | ["conn", p] =>
    let a' := { a with peers := p.toNat! :: a.peers.filter (· != p.toNat!) }
    (a', render a' [])
  | ["disc", p] =>
    let a' := { a with peers := a.peers.filter (· != p.toNat!) }
    (a', render a' [])
  | ["send", t] =>
    let (a', outs) := a.issue t.toNat!
    (a', render a' outs)
  | ["cancel", i] =>
    let (a', outs) := a.cancel i.toNat!
    (a', render a' outs)
  | "req" :: p :: i :: t :: path =>
    let (a', outs) := a.onReq p.toNat! i.toNat! t.toNat! (path.map String.toNat!)
    (a', render a' outs)
  | ["resp", _, i, ok, tag] =>
    let (a', outs) := a.onResp i.toNat! (ok == "ok") tag.toNat!
    (a', render a' outs)
  | _ => (a, "bad-op")

/-! ### executable statement of C39 on the implementation's answers.

  The spec remembers, per (next hop, request id), the queue of requesters whose request this agent
  passed on to that hop (a peer, or the local caller) — i.e. it identifies a request the way the
  protocol does, by the connection it travels on.  A response from hop `P` with id `r` answers the
  oldest such request; it must be handed to that requester and to nobody else. -/

structure Rq where
  hop : Nat
  id : Nat
  origin : Option Nat    -- none = local caller
  target : Nat := 0      -- whom the request is for (local requests: the agent the caller asked)
  abandoned : Bool := false  -- local caller gave up; the request is still in flight and may be answered
  deriving DecidableEq

structure SpecSt where
  live : List Rq := []     -- oldest first
  peers : List Nat := []
  collided : Bool := false -- two requests live at this agent shared a bare request id at some point

/-- Failures in a case with such a collision carry the signature of the known finding. -/
def ftag (s : SpecSt) (what : String) : String :=
  if s.collided then "c39-collision-" ++ what else "c39-" ++ what

/-- The known finding is about two REQUESTERS sharing an id at this agent (two peers, or a peer and
    the agent's own request).  Two requests of the agent itself under one id are a different defect
    (id reuse by one originator) and are never excused. -/
def addRq (s : SpecSt) (r : Rq) : SpecSt :=
  { s with live := s.live ++ [r],
           collided := s.collided || s.live.any (fun x => x.id == r.id && !(x.origin.isNone && r.origin.isNone)) }

def parseItems (out : String) : List String :=
  match out.splitOn "out=[" with
  | [_, rest] => tokens ((rest.splitOn "]").headD "")
  | _ => []

def specStep (s : SpecSt) (l : String) : SpecSt × String :=
  match l.splitOn "\t" with
  | [op, out] =>
    if out.startsWith "panic" || out.startsWith "crash" then (s, "fail crashed")
    else
    let items := parseItems out
    match tokens op with
    | "reset" :: _ => ({}, "ok")
    | ["conn", p] => ({ s with peers := p.toNat! :: s.peers.filter (· != p.toNat!) }, "ok")
    | ["disc", p] => ({ s with peers := s.peers.filter (· != p.toNat!) }, "ok")
    | ["sleep"] => ({ s with peers := [] }, "ok")   -- requests in flight stay live: they may still be answered
    | ["release", t, "ok"] =>
      match items with
      | [it] =>
        match it.splitOn ":" with
        | [hop, "req", id, _, _] =>
          if s.live.any (fun r => r.origin.isNone && r.id == id.toNat!) then
            (addRq s ⟨hop.toNat!, id.toNat!, none, t.toNat!, false⟩, "fail c39-local-id-reused")
          else (addRq s ⟨hop.toNat!, id.toNat!, none, t.toNat!, false⟩, "ok")
        | _ => (s, "ok")
      | _ => (s, "ok")
    | ["send", t] =>
      -- a forwarded request of our own: read hop and id off the emitted frame
      match items with
      | [it] =>
        match it.splitOn ":" with
        | [hop, "req", id, _, _] =>
          -- ids of one originator must not be reused while an earlier request may still be answered
          if s.live.any (fun r => r.origin.isNone && r.id == id.toNat!) then
            (addRq s ⟨hop.toNat!, id.toNat!, none, t.toNat!, false⟩, "fail c39-local-id-reused")
          else (addRq s ⟨hop.toNat!, id.toNat!, none, t.toNat!, false⟩, "ok")
        | _ => (s, "ok")
      | _ => (s, "ok")
    | ["cancel", i] =>
      ({ s with live := s.live.map (fun r => if r.origin.isNone && r.id == i.toNat! then { r with abandoned := true } else r) }, "ok")
    | "req" :: p :: _ =>
      match items with
      | [it] =>
        match it.splitOn ":" with
        | [hop, "req", id, _, _] => (addRq s ⟨hop.toNat!, id.toNat!, some p.toNat!, 0, false⟩, "ok")
        | _ => (s, "ok")
      | _ => (s, "ok")
    | ["resp", p, i, ok, tag] =>
      let (p, i) := (p.toNat!, i.toNat!)
      match s.live.find? (fun r => r.hop == p && r.id == i) with
      | none =>
        -- no request with this id went to that hop.  If a request with this id is live on another
        -- hop the response is unsolicited (forged or misrouted upstream) and is not judged here; if no
        -- request with this id is live at all, the agent must not act on it.
        if s.live.any (fun r => r.id == i) then
          -- if the agent acted on it, the request it matched by bare id is consumed
          let s' := if items.isEmpty then s else
            match s.live.find? (fun r => r.id == i) with
            | some r => { s with live := s.live.erase r }
            | none => s
          (s', "ok")
        else (s, if items.isEmpty then "ok" else "fail " ++ ftag s "phantom")
      | some r =>
        let s' := { s with live := s.live.erase r }
        let want : List String :=
          match r.origin with
          | none => if r.abandoned then [] else [s!"deliver:{i}:{ok}:{tag}"]   -- the caller of THIS request instance
          | some q => if s.peers.contains q then [s!"{q}:resp:{i}:{ok}:{tag}"] else []
        -- a response frame handed to a peer that neither issued nor relayed the request
        let uninvolved := items.any (fun it => match it.splitOn ":" with
          | [q, "resp", _, _, _] => !(s.live.any (fun x => x.id == i && x.origin == some q.toNat!))
          | _ => false)
        if uninvolved then (s', "fail c39-response-to-uninvolved")
        else if items == want then (s', "ok")
        else if items.isEmpty then (s', "fail " ++ ftag s "dropped")
        else (s', "fail " ++ ftag s "misdelivered")
    | _ => (s, "ok")
  | _ => (s, "bad-op")

def step (s : ESt) (line : String) : ESt × String :=
  match tokens line with
  | "reset" :: _ => ({}, "ok")
  | ["sendstall", t] =>
    match s.a.issueBegin t.toNat! with
    | none => (s, render s.a [.sendErr])
    | some (a', id) => ({ a := a', stalled := s.stalled ++ [(t.toNat!, id)] }, render a' [])
  | ["release", t, ok] =>
    match s.stalled.find? (fun e => e.1 == t.toNat!) with
    | none => (s, render s.a [])
    | some e =>
      let (a', outs) := s.a.issueEnd e.1 e.2 (ok == "ok")
      ({ a := a', stalled := s.stalled.erase e }, render a' outs)
  | ["sleep"] => let (a', o) := stepA s.a line; ({ a := a', stalled := [] }, o)
  | _ => let (a', o) := stepA s.a line; ({ s with a := a' }, o)

def main (args : List String) : IO Unit :=
  match args with
  | ["spec"] => runLines ({} : SpecSt) specStep
  | _ => runLines ({} : ESt) step

end MM.Engine.C39
