import MM.Engine.Basic
import MM.Model.C35

/-
  Engine c35 (see harness/main/eng_c35.go for the protocol).
    red <loc>=<val> ...      -> ok orig=same n=<k> <val'>/<seen> ...
    hos <loc>=<val>[!] ...   -> ok orig=same <seen> ...          (assignments marked "!")
-/
namespace MM.Engine.C35
open MM MM.C35

structure Assign where
  loc : Loc
  val : Bytes
  watch : Bool

def parseLoc (s : String) : Loc :=
  let comps := s.splitOn "."
  { path := comps.map (fun c => if c.toNat?.isSome then "[]" else c),
    idx := comps.filterMap (·.toNat?) }

def parseAssign (tok : String) : Option Assign :=
  let watch := tok.endsWith "!"
  let body := if watch then (tok.dropEnd 1).toString else tok
  match body.splitOn "=" with
  | [l, v] => (bytesOfHex v).map fun b => { loc := parseLoc l, val := b, watch := watch }
  | _ => none

def parseOp (line : String) : Option (String × List Assign) :=
  match tokens line with
  | kind :: rest =>
    -- options (m=<mode>, b=<base>) select how the harness calls the code; the model's answer is the same
    let rest := rest.filter (fun t => !(t.startsWith "m=" || t.startsWith "b="))
    if kind = "red" ∨ kind = "hos" then (rest.mapM parseAssign).map (fun as => (kind, as)) else none
  | [] => none

/-- the configuration an op describes (distinct locations; absent = empty) -/
def cfgOf (as : List Assign) : Cfg := fun l =>
  match as.find? (fun a => a.loc == l) with
  | some a => a.val
  | none => []

def step (line : String) : String :=
  match parseOp line with
  | none => "bad-op"
  | some (kind, as) =>
    let out := redactAll redactedPaths (cfgOf as)
    let seen := fun (a : Assign) =>
      if a.val.isEmpty then "0" else if a.loc.path ∈ redactedPaths then "0" else "1"
    if kind = "red" then
      let n := (as.filter (fun a => !(out a.loc).isEmpty)).length
      s!"ok orig=same n={n}" ++ String.join (as.map fun a => " " ++ hexTok (out a.loc) ++ "/" ++ seen a)
    else
      "ok orig=same" ++ String.join ((as.filter (·.watch)).map fun a => " " ++ seen a)

/-! Executable statement of C35 on the implementation's own answer: a secret (as classified by
    `isSecretLeaf` over the regenerated schema) that is set must be rendered as the placeholder
    and its marker must not occur anywhere in String()'s output; the original is unchanged. -/

def isSecretPath (p : Path) : Bool :=
  match Gen.C35.leaves.find? (fun l => l.yaml == p) with
  -- the property's classes, plus (so that a new secret-looking field yields a concrete leaking
  -- configuration and not only a broken tie) every name-screened leaf that is not allow-listed
  | some l => isSecretLeaf l || (l.looksSecret && !notSecretAllowList.contains l.yaml)
  | none => false

def showLoc (l : Loc) : String := ".".intercalate l.path ++ "@" ++ ",".intercalate (l.idx.map toString)

def specRed : List Assign → List String → Option String
  | [], _ => none
  | a :: as, t :: ts =>
    if isSecretPath a.loc.path && !a.val.isEmpty && t != hexTok placeholder ++ "/0" then
      some ("secret-leaked " ++ showLoc a.loc)
    else specRed as ts
  | _ :: _, [] => some "unparsable-output"

def specHos : List Assign → List String → Option String
  | [], _ => none
  | a :: as, t :: ts =>
    if isSecretPath a.loc.path && !a.val.isEmpty && t != "0" then some ("secret-leaked " ++ showLoc a.loc)
    else specHos as ts
  | _ :: _, [] => some "unparsable-output"

def spec (line : String) (implOut : String) : String :=
  if implOut.startsWith "panic" || implOut.startsWith "crash" then "fail crashed"
  else match parseOp line, tokens implOut with
    | some (kind, as), "ok" :: orig :: rest =>
      if orig != "orig=same" then "fail original-changed"
      else if kind = "red" then
        match specRed as (rest.drop 1) with
        | some t => "fail " ++ t
        | none => "ok"
      else
        match specHos (as.filter (·.watch)) rest with
        | some t => "fail " ++ t
        | none => "ok"
    | some _, _ => "fail unparsable-output"
    | none, _ => "bad-op"

def main (args : List String) : IO Unit :=
  match args with
  | ["spec"] => runPure (fun l => match l.splitOn "\t" with
      | [op, out] => spec op out
      | _ => "bad-op")
  | _ => runPure step

end MM.Engine.C35
