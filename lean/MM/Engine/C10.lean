import MM.Engine.C09
import MM.Model.C10

/-!
  Line-protocol oracle for C10: all four tables plus the CIDR part of `routing.Manager`.

    reset <self>
    c<op …>      an op of MM/Engine/C08.lean on the CIDR table (cadd, crm, cdisc, cage, cclean, clook, cget,
                 crace <n> | add … | rm … with unprefixed inner ops)
    race <n> | dadv … | drm …     concurrent ops on the domain / forward / agent table (C09 engine)
    d… f… a…     the ops of MM/Engine/C09.lean
    mlocal <ip> <ones> <bits> <metric>                                   Manager.AddLocalRoute
    mrmlocal <ip> <ones> <bits>                                          Manager.RemoveLocalRoute
    madv <from> <origin> <seq> <path> <ip> <ones> <bits> <metric>        Manager.ProcessRouteAdvertise (one entry)
    mwd <origin> <ip> <ones> <bits>                                      Manager.ProcessRouteWithdraw
    mdisc <peer>   mclean <maxAge>   mage <n>   mlook <ip>
    mdyn <ip> <ones> <bits> <metric>   mrmdyn <ip> <ones> <bits>           Manager.AddDynamicRoute / RemoveDynamicRoute (ok|err)
    mdlocal <pattern> <metric>   mdrmlocal <pattern>                     Manager.AddLocalDomainRoute / RemoveLocalDomainRoute
    mflocal <key> <target> <metric>   mfrmlocal <key>                    Manager.AddLocalForwardRoute / RemoveLocalForwardRoute
    mdlook <name>   mflook <key>   malook <agent>                        Manager.LookupDomain / LookupForward / LookupAgent
    mddisc <peer>   mfdisc <peer>   madisc <peer>                        Manager.HandlePeerDisconnectDomain / Forward / Agent
    mnext <ip>                                                           Manager.LookupNextHop
    mdadv <from> <origin> <seq> <path> <pattern> <metric>                Manager.ProcessDomainRouteAdvertise
    mfadv <from> <origin> <seq> <path> <key> <target> <metric>           Manager.ProcessForwardRouteAdvertise
    maadv <from> <origin> <seq> <path> <agent> <metric>                  Manager.ProcessAgentRouteAdvertise

  (`mdadv`/`mfadv`/`maadv` act on the same domain/forward/agent tables as the `d`/`f`/`a` ops: the
  harness takes those tables from the Manager.)

  `spec` mode evaluates the maintenance rules on the implementation's own tables: the table the
  implementation printed after the previous op is taken as the starting point, the rule for this
  op says what the next table must contain, and that is compared (as a set of routes) with what
  the implementation printed next.
-/
namespace MM.Engine.C10
open MM MM.C08 MM.C09 MM.C10 MM.Engine MM.Engine.C08 MM.Engine.C09

structure St where
  self : Nat := 0
  c : C08.St := C08.St.init
  o : C09.St := {}
  m : Mgr := {}

def mdump (m : Mgr) : String := dump m.st.now m.st.tab

/-- the op with its first letter removed -/
def stripOp (line : String) : String :=
  match tokens line with
  | op :: rest => " ".intercalate ((op.drop 1).toString :: rest)
  | [] => ""

def step (st : St) (line : String) : St × String :=
  match tokens line with
  | "reset" :: self :: orc =>
    let s := natTok self
    let (ft, tt) := parseOracle orc
    ({ self := s, c := ⟨s, ⟨0, []⟩⟩, o := { self := s, foldTab := ft, trimTab := tt }, m := {} }, "ok")
  | ["mlocal", ip, ones, bits, metric] =>
    match parseNet ip ones bits with
    | some n =>
      let (m', ok) := st.m.addLocal st.self n (natTok metric)
      ({ st with m := m' }, s!"{ok} ; {mdump m'}")
    | none => (st, "bad-op")
  | ["mrmlocal", ip, ones, bits] =>
    match parseNet ip ones bits with
    | some n =>
      let (m', ok) := st.m.removeLocal st.self n
      ({ st with m := m' }, s!"{ok} ; {mdump m'}")
    | none => (st, "bad-op")
  | ["madv", fromP, orig, seq, path, ip, ones, bits, metric] =>
    match parseNet ip ones bits with
    | some n =>
      let (m', ok) := st.m.advertise st.self (natTok fromP) (natTok orig) (natTok seq) (parsePath path) n (natTok metric)
      ({ st with m := m' }, s!"{ok} ; {mdump m'}")
    | none => (st, "bad-op")
  | ["mwd", orig, ip, ones, bits] =>
    match parseNet ip ones bits with
    | some n =>
      let (m', ok) := st.m.withdraw (natTok orig) n
      ({ st with m := m' }, s!"{ok} ; {mdump m'}")
    | none => (st, "bad-op")
  | ["mdyn", ip, ones, bits, metric] =>
    match parseNet ip ones bits with
    | some n =>
      let (m', ok) := st.m.addDynamic st.self n (natTok metric)
      ({ st with m := m' }, s!"{if ok then "ok" else "err"} ; {mdump m'}")
    | none => (st, "bad-op")
  | ["mrmdyn", ip, ones, bits] =>
    match parseNet ip ones bits with
    | some n =>
      let (m', ok) := st.m.removeDynamic st.self n
      ({ st with m := m' }, s!"{if ok then "ok" else "err"} ; {mdump m'}")
    | none => (st, "bad-op")
  | ["mdlocal", pat, metric] =>
    match bytesOfHex pat with
    | some p =>
      let (m', d', ok) := st.m.addLocalDomain st.o.str st.self st.o.d p (natTok metric)
      ({ st with m := m', o := { st.o with d := d' } }, s!"{ok} ; {ddump d'}")
    | none => (st, "bad-op")
  | ["mdrmlocal", pat] =>
    match bytesOfHex pat with
    | some p =>
      let (m', d', ok) := st.m.removeLocalDomain st.o.str st.self st.o.d p
      ({ st with m := m', o := { st.o with d := d' } }, s!"{ok} ; {ddump d'}")
    | none => (st, "bad-op")
  | ["mflocal", key, target, metric] =>
    match bytesOfHex key, bytesOfHex target with
    | some k, some tg =>
      let (m', f', ok) := st.m.addLocalForward st.self st.o.f k tg (natTok metric)
      ({ st with m := m', o := { st.o with f := f' } }, s!"{ok} ; {fdump f'}")
    | _, _ => (st, "bad-op")
  | ["mfrmlocal", key] =>
    match bytesOfHex key with
    | some k =>
      let (m', f', ok) := st.m.removeLocalForward st.self st.o.f k
      ({ st with m := m', o := { st.o with f := f' } }, s!"{ok} ; {fdump f'}")
    | none => (st, "bad-op")
  | ["mdisc", peer] =>
    let m' := st.m.disconnect (natTok peer)
    ({ st with m := m' }, s!"{countRoutes st.m.st.tab - countRoutes m'.st.tab} ; {mdump m'}")
  | ["mclean", a] =>
    let m' := st.m.cleanup st.self (natTok a)
    ({ st with m := m' }, s!"{countRoutes st.m.st.tab - countRoutes m'.st.tab} ; {mdump m'}")
  | ["mage", n] =>
    let m' := st.m.tick (natTok n)
    ({ st with m := m' }, s!"ok ; {mdump m'}")
  | ["mlook", ip] =>
    match parseIP ip with
    | some a =>
      match lookup st.m.st.tab a with
      | none => (st, "none")
      | some r => (st, showHead (showEntry st.m.st.now) (get st.m.st.tab (eff r.pay)))
    | none => (st, "bad-op")
  | ["mnext", ip] => (st, (C08.step ⟨st.self, st.m.st⟩ s!"next {ip}").2)
  | ["mddisc", peer] =>
    let (o', out) := C09.step st.o s!"ddisc {peer}"
    ({ st with o := o' }, out)
  | ["mfdisc", peer] =>
    let (o', out) := C09.step st.o s!"fdisc {peer}"
    ({ st with o := o' }, out)
  | ["madisc", peer] =>
    let (o', out) := C09.step st.o s!"adisc {peer}"
    ({ st with o := o' }, out)
  | ["mdadv", fromP, orig, seq, path, pat, metric] =>
    let (o', out) := C09.step st.o s!"dadv {pat} {fromP} {orig} {advMetric (natTok metric)} {seq} {path}"
    ({ st with o := o' }, out)
  | ["mfadv", fromP, orig, seq, path, key, target, metric] =>
    let (o', out) := C09.step st.o s!"fadd {key} {target} {fromP} {orig} {advMetric (natTok metric)} {seq} {path}"
    ({ st with o := o' }, out)
  | ["maadv", fromP, orig, seq, path, ag, metric] =>
    let (o', out) := C09.step st.o s!"aadd {ag} {fromP} {orig} {metric} {seq} {path}"
    ({ st with o := o' }, out)
  | op :: _ =>
    if op.startsWith "c" then
      let (c', out) := C08.stepR st.c (stripOp line)
      ({ st with c := c' }, out)
    else
      let (o', out) := C09.stepR st.o line
      ({ st with o := o' }, out)
  | [] => (st, "bad-op")

/-! ### spec -/

/-- result token + sorted entry tokens (contents, not order) -/
def canonOut (out : String) : String × List String :=
  match out.splitOn " ; " with
  | [r, d] => (r.trimAscii.toString, ((tokens d).filter (·.startsWith "E")).toArray.qsort (· < ·) |>.toList)
  | _ => (out, [])

structure SpecSt where
  self : Nat := 0
  foldTab : List (Bytes × Bytes) := []
  trimTab : List (Bytes × Bytes) := []
  c : List String := []   -- tokens of the last CIDR dump
  d : List String := []
  f : List String := []
  a : List String := []
  m : List String := []
  mgr : Mgr := {}         -- the manager's own bookkeeping (sequence counter, local key sets)

def pathHasSelf (self : Nat) (path : String) : Bool := (parsePath path).contains self

/-- which table an op works on: `c` stand-alone CIDR table, `m` the manager's CIDR table,
    `d` / `f` / `a`, or `-` for lookups and other read-only ops -/
def kindOf (op opline : String) : String :=
  let readOnly := ["look", "get", "lookall", "has", "size", "routes", "dlook", "flook", "alook", "next"]
  if readOnly.contains (op.drop 1).toString || readOnly.contains op then "-"
  else if op = "race" then C09.raceTable opline
  else if op.startsWith "c" then "c"
  else if op.startsWith "m" then
    if ["mdadv", "mdlocal", "mdrmlocal", "mddisc"].contains op then "d"
    else if ["mfadv", "mflocal", "mfrmlocal", "mfdisc"].contains op then "f"
    else if op = "maadv" || op = "madisc" then "a"
    else "m"
  else (op.take 1).toString

/-- name of the rule an op exercises (the tag reported when the implementation breaks it) -/
def ruleOf (self : Nat) (op : String) (toks : List String) : String :=
  let o := (op.drop 1).toString
  if ["add", "adv", "dadv", "fadv", "aadv"].contains o then
    -- the path is the last argument of the direct adds, the 4th argument of the manager advertises
    let path := if op.startsWith "m" then (toks.drop 3).head?.getD "-" else toks.getLast?.getD "-"
    if pathHasSelf self path then "self-path-stored" else "update-rule"
  else if ["local", "dyn", "dlocal", "flocal"].contains o then "local-route-rule"
  else if ["rm", "wd", "rmlocal", "rmdyn", "drmlocal", "frmlocal"].contains o then "withdraw-inexact"
  else if ["disc", "ddisc", "fdisc", "adisc"].contains o then "disconnect-inexact"
  else if o = "clean" then "cleanup-inexact"
  else if o = "clear" then "clear-inexact"
  else "clock"

/-- compare what the rule yields from the implementation's previous table with what the
    implementation printed; `expected` may list several admissible results (`anyof`) -/
def verdict (self : Nat) (op : String) (toks : List String) (expected impl : String)
    (prev : List String) : String :=
  let i := canonOut impl
  let agrees := (alternatives expected).any (fun e => canonOut e == i)
  if (op.drop 1).toString = "race" || op = "race" then
    match wfTag (toks.any (fun t => t.startsWith "aadd" || t = "arm")) (dumpToks impl) with
    | some tag => "fail " ++ tag
    | none => if agrees then "ok" else "fail race-not-serializable"
  else if agrees then "ok"
  else
    let rule := ruleOf self op toks
    if rule = "cleanup-inexact" then
      -- did a local route disappear?
      let localsBefore := prev.filter fun tok =>
        tok.startsWith "E" && ((tok.splitOn ",").drop 2).head? == some (toString self)
      if localsBefore.any (fun tok =>
          !(i.2.any fun t2 => (t2.splitOn ",").take 6 == (tok.splitOn ",").take 6)) then
        "fail cleanup-removed-local"
      else "fail cleanup-inexact"
    else s!"fail {rule}"

/-- `AgentTable.RemoveRoute(agent, origin)` removes the first entry of that origin, i.e. one of the
    origin's entries with the least metric — which one, when several tie, depends on the order
    `sort.Slice` left inside the run: every choice is admissible. -/
def armAlternatives (tab : ATable) (now ag o : Nat) : String :=
  let g := get tab ag
  let cands := g.filter (·.origin == o)
  match cands.map (·.metric) with
  | [] => s!"false ; {adump ⟨now, tab⟩}"
  | m :: ms =>
    let least := ms.foldl min m
    let alts := (cands.filter (·.metric == least)).map fun x =>
      let g' := g.erase x
      let t' := if g'.isEmpty then del tab ag else set tab ag g'
      s!"true ; {adump ⟨now, t'⟩}"
    match alts with
    | [x] => x
    | xs => "anyof " ++ " | ".intercalate xs

def specStep (st : SpecSt) (l : String) : SpecSt × String :=
  match l.splitOn "\t" with
  | [opline, out] =>
    if out.startsWith "panic" || out.startsWith "crash" then (st, "fail crashed")
    else match tokens opline with
      | "reset" :: self :: orc =>
        if tokens out != ["ok"] then ({ self := natTok self }, "fail bad-oracle")
        else
          let (ft, tt) := parseOracle orc
          ({ self := natTok self, foldTab := ft, trimTab := tt }, "ok")
      | ["oracle", kind, i, o] =>
        match bytesOfHex i, bytesOfHex o with
        | some a, some b =>
          if tokens out != ["ok"] then (st, "fail bad-oracle")
          else if kind = "fold" then ({ st with foldTab := (a, b) :: st.foldTab }, "ok")
          else ({ st with trimTab := (a, b) :: st.trimTab }, "ok")
        | _, _ => (st, "bad-op")
      | op :: rest =>
        let kind := kindOf op opline
        let S := strOf st.foldTab st.trimTab
        -- the model started from the table the implementation printed last (only the table the
        -- op works on is rebuilt) and from the manager's bookkeeping so far
        let o0 : C09.St := { self := st.self, foldTab := st.foldTab, trimTab := st.trimTab }
        let ms0 : St := { self := st.self, m := st.mgr, o := o0 }
        if kind = "-" then (st, "ok")
        else if kind = "m" then
          let tab : CTable := rebuild eff C08.parseEntry baseNow st.m
          let (ms', expected) := step { ms0 with m := { st.mgr with st := ⟨baseNow, tab⟩ } } opline
          ({ st with m := dumpToks out, mgr := { ms'.m with st := ⟨0, []⟩ } },
            verdict st.self op rest expected out st.m)
        else if kind = "c" then
          let tab : CTable := rebuild eff C08.parseEntry baseNow st.c
          let (_, expected) := C08.stepR ⟨st.self, ⟨baseNow, tab⟩⟩ (stripOp opline)
          ({ st with c := dumpToks out }, verdict st.self op rest expected out st.c)
        else if kind = "d" then
          let tab : DTable := rebuild (domKey S) (parseCommon parseDomPay) baseNow st.d
          let (ms', expected) := step { ms0 with o := { o0 with d := ⟨baseNow, tab⟩ } } opline
          ({ st with d := dumpToks out, mgr := { ms'.m with st := ⟨0, []⟩ } },
            verdict st.self op rest expected out st.d)
        else if kind = "f" then
          let tab : FTable := rebuild (·.key) (parseCommon parseFwdPay) baseNow st.f
          let (ms', expected) := step { ms0 with o := { o0 with f := ⟨baseNow, tab⟩ } } opline
          ({ st with f := dumpToks out, mgr := { ms'.m with st := ⟨0, []⟩ } },
            verdict st.self op rest expected out st.f)
        else if kind = "a" then
          let tab : ATable := rebuild id (parseCommon parseAgPay) baseNow st.a
          let expected := match op, rest with
            | "arm", [ag, o] => armAlternatives tab baseNow (natTok ag) (natTok o)
            | _, _ => (step { ms0 with o := { o0 with a := ⟨baseNow, tab⟩ } } opline).2
          ({ st with a := dumpToks out }, verdict st.self op rest expected out st.a)
        else (st, "bad-op")
      | [] => (st, "bad-op")
  | _ => (st, "bad-op")

def main (args : List String) : IO Unit :=
  match args with
  | ["spec"] => runLines ({} : SpecSt) specStep
  | _ => runLines ({} : St) step

end MM.Engine.C10
