import MM.Engine.C09
import MM.Model.C10

/-!
  Line-protocol oracle for C10: all four tables plus the CIDR part of `routing.Manager`.

    reset <self>
    c<op …>      an op of MM/Engine/C08.lean on the CIDR table (cadd, crm, cdisc, cage, cclean, clook, cget,
                 crace <n> | add … | rm … with unprefixed inner ops)
    race <n> | dadv … | drm …     concurrent ops on the domain / forward / agent table (C09 engine)
    d… f… a…     the ops of MM/Engine/C09.lean
    mlocal <ip> <ones> <bits> <metric>                                   Manager.AddLocalRoute
    mrmlocal <ip> <ones> <bits>                                          Manager.RemoveLocalRoute
    madv <from> <origin> <seq> <path> <ip> <ones> <bits> <metric>        Manager.ProcessRouteAdvertise (one entry)
    mwd <origin> <ip> <ones> <bits>                                      Manager.ProcessRouteWithdraw
    mdisc <peer>   mclean <maxAge>   mage <n>   mlook <ip>
    mdadv <from> <origin> <seq> <path> <pattern> <metric>                Manager.ProcessDomainRouteAdvertise
    mfadv <from> <origin> <seq> <path> <key> <target> <metric>           Manager.ProcessForwardRouteAdvertise
    maadv <from> <origin> <seq> <path> <agent> <metric>                  Manager.ProcessAgentRouteAdvertise

  (`mdadv`/`mfadv`/`maadv` act on the same domain/forward/agent tables as the `d`/`f`/`a` ops: the
  harness takes those tables from the Manager.)

  `spec` mode evaluates the maintenance rules on the implementation's own tables: the table the
  implementation printed after the previous op is taken as the starting point, the rule for this
  op says what the next table must contain, and that is compared (as a set of routes) with what
  the implementation printed next.
-/
namespace MM.Engine.C10
open MM MM.C08 MM.C09 MM.C10 MM.Engine MM.Engine.C08 MM.Engine.C09

structure St where
  self : Nat := 0
  c : C08.St := C08.St.init
  o : C09.St := {}
  m : Mgr := {}

def mdump (m : Mgr) : String := dump m.st.now m.st.tab

/-- the op with its first letter removed -/
def stripOp (line : String) : String :=
  match tokens line with
  | op :: rest => " ".intercalate ((op.drop 1).toString :: rest)
  | [] => ""

def step (st : St) (line : String) : St × String :=
  match tokens line with
  | ["reset", self] =>
    let s := natTok self
    ({ self := s, c := ⟨s, ⟨0, []⟩⟩, o := { self := s }, m := {} }, "ok")
  | ["mlocal", ip, ones, bits, metric] =>
    match parseNet ip ones bits with
    | some n =>
      let (m', ok) := st.m.addLocal st.self n (natTok metric)
      ({ st with m := m' }, s!"{ok} ; {mdump m'}")
    | none => (st, "bad-op")
  | ["mrmlocal", ip, ones, bits] =>
    match parseNet ip ones bits with
    | some n =>
      let (m', ok) := st.m.removeLocal st.self n
      ({ st with m := m' }, s!"{ok} ; {mdump m'}")
    | none => (st, "bad-op")
  | ["madv", fromP, orig, seq, path, ip, ones, bits, metric] =>
    match parseNet ip ones bits with
    | some n =>
      let (m', ok) := st.m.advertise st.self (natTok fromP) (natTok orig) (natTok seq) (parsePath path) n (natTok metric)
      ({ st with m := m' }, s!"{ok} ; {mdump m'}")
    | none => (st, "bad-op")
  | ["mwd", orig, ip, ones, bits] =>
    match parseNet ip ones bits with
    | some n =>
      let (m', ok) := st.m.withdraw (natTok orig) n
      ({ st with m := m' }, s!"{ok} ; {mdump m'}")
    | none => (st, "bad-op")
  | ["mdisc", peer] =>
    let m' := st.m.disconnect (natTok peer)
    ({ st with m := m' }, s!"{countRoutes st.m.st.tab - countRoutes m'.st.tab} ; {mdump m'}")
  | ["mclean", a] =>
    let m' := st.m.cleanup st.self (natTok a)
    ({ st with m := m' }, s!"{countRoutes st.m.st.tab - countRoutes m'.st.tab} ; {mdump m'}")
  | ["mage", n] =>
    let m' := st.m.tick (natTok n)
    ({ st with m := m' }, s!"ok ; {mdump m'}")
  | ["mlook", ip] =>
    match parseIP ip with
    | some a => (st, showOpt st.m.st.now (lookup st.m.st.tab a))
    | none => (st, "bad-op")
  | ["mdadv", fromP, orig, seq, path, pat, metric] =>
    let (o', out) := C09.step st.o s!"dadv {pat} {fromP} {orig} {advMetric (natTok metric)} {seq} {path}"
    ({ st with o := o' }, out)
  | ["mfadv", fromP, orig, seq, path, key, target, metric] =>
    let (o', out) := C09.step st.o s!"fadd {key} {target} {fromP} {orig} {advMetric (natTok metric)} {seq} {path}"
    ({ st with o := o' }, out)
  | ["maadv", fromP, orig, seq, path, ag, metric] =>
    let (o', out) := C09.step st.o s!"aadd {ag} {fromP} {orig} {metric} {seq} {path}"
    ({ st with o := o' }, out)
  | op :: _ =>
    if op.startsWith "c" then
      let (c', out) := C08.stepR st.c (stripOp line)
      ({ st with c := c' }, out)
    else
      let (o', out) := C09.stepR st.o line
      ({ st with o := o' }, out)
  | [] => (st, "bad-op")

/-! ### spec -/

/-- result token + sorted entry tokens (contents, not order) -/
def canonOut (out : String) : String × List String :=
  match out.splitOn " ; " with
  | [r, d] => (r.trimAscii.toString, ((tokens d).filter (·.startsWith "E")).toArray.qsort (· < ·) |>.toList)
  | _ => (out, [])

structure SpecSt where
  self : Nat := 0
  c : List String := []   -- tokens of the last CIDR dump
  d : List String := []
  f : List String := []
  a : List String := []
  m : List String := []
  mseq : Nat := 0
  mlocals : List CKey := []

def pathHasSelf (self : Nat) (path : String) : Bool := (parsePath path).contains self

/-- name of the rule an op exercises (the tag reported when the implementation breaks it) -/
def ruleOf (self : Nat) (op : String) (toks : List String) : String :=
  let o := (op.drop 1).toString
  if o = "add" || o = "adv" || o = "local" || o = "dadv" || o = "fadv" || o = "aadv" then
    -- the path is the last argument of the direct adds, the 4th argument of the manager advertises
    let path := if op.startsWith "m" then (toks.drop 3).head?.getD "-" else toks.getLast?.getD "-"
    if pathHasSelf self path && o != "local" then "self-path-stored" else "update-rule"
  else if o = "rm" || o = "wd" || o = "rmlocal" then "withdraw-inexact"
  else if o = "disc" then "disconnect-inexact"
  else if o = "clean" then "cleanup-inexact"
  else if o = "clear" then "clear-inexact"
  else "clock"

/-- compare what the rule yields from the implementation's previous table with what the
    implementation printed -/
def verdict (self : Nat) (op : String) (toks : List String) (expected impl : String)
    (prev : List String) : String :=
  let i := canonOut impl
  if (op.drop 1).toString = "race" || op = "race" then
    match wfTag (toks.any (fun t => t.startsWith "aadd" || t = "arm")) (dumpToks impl) with
    | some tag => "fail " ++ tag
    | none => if (alternatives expected).any (fun e => canonOut e == i) then "ok"
              else "fail race-not-serializable"
  else if canonOut expected == i then "ok"
  else
    let rule := ruleOf self op toks
    if rule = "cleanup-inexact" then
      -- did a local route disappear?
      let localsBefore := prev.filter fun tok =>
        tok.startsWith "E" && ((tok.splitOn ",").drop 2).head? == some (toString self)
      if localsBefore.any (fun tok =>
          !(i.2.any fun t2 => (t2.splitOn ",").take 6 == (tok.splitOn ",").take 6)) then
        "fail cleanup-removed-local"
      else "fail cleanup-inexact"
    else s!"fail {rule}"

def specStep (st : SpecSt) (l : String) : SpecSt × String :=
  match l.splitOn "\t" with
  | [opline, out] =>
    if out.startsWith "panic" || out.startsWith "crash" then (st, "fail crashed")
    else match tokens opline with
      | ["reset", self] => ({ self := natTok self }, "ok")
      | op :: rest =>
        let o := (op.drop 1).toString
        if o = "look" || o = "get" || o = "lookall" || o = "has" || o = "size" || o = "routes" then (st, "ok")
        else if op.startsWith "m" && !(op = "mdadv" || op = "mfadv" || op = "maadv") then
          -- manager CIDR ops on the implementation's previous manager table
          let tab : CTable := rebuild eff C08.parseEntry baseNow st.m
          let ms : St := { self := st.self, m := { seq := st.mseq, locals := st.mlocals, st := ⟨baseNow, tab⟩ } }
          let (ms', expected) := step ms opline
          let v := verdict st.self op rest expected out st.m
          ({ st with m := dumpToks out, mseq := ms'.m.seq, mlocals := ms'.m.locals }, v)
        else if op.startsWith "c" then
          let tab : CTable := rebuild eff C08.parseEntry baseNow st.c
          let (_, expected) := C08.stepR ⟨st.self, ⟨baseNow, tab⟩⟩ (stripOp opline)
          ({ st with c := dumpToks out }, verdict st.self op rest expected out st.c)
        else
          let tbl := if op.startsWith "m" then (op.drop 1).toString
                     else if op = "race" then C09.raceTable opline else op
          let ms : St := { self := st.self }
          if tbl.startsWith "d" then
            let tab : DTable := rebuild domKey (parseCommon parseDomPay) baseNow st.d
            let (_, expected) := step { ms with o := { self := st.self, d := ⟨baseNow, tab⟩ } } opline
            ({ st with d := dumpToks out }, verdict st.self op rest expected out st.d)
          else if tbl.startsWith "f" then
            let tab : FTable := rebuild (·.key) (parseCommon parseFwdPay) baseNow st.f
            let (_, expected) := step { ms with o := { self := st.self, f := ⟨baseNow, tab⟩ } } opline
            ({ st with f := dumpToks out }, verdict st.self op rest expected out st.f)
          else if tbl.startsWith "a" then
            let tab : ATable := rebuild id (parseCommon parseAgPay) baseNow st.a
            let (_, expected) := step { ms with o := { self := st.self, a := ⟨baseNow, tab⟩ } } opline
            ({ st with a := dumpToks out }, verdict st.self op rest expected out st.a)
          else (st, "bad-op")
      | [] => (st, "bad-op")
  | _ => (st, "bad-op")

def main (args : List String) : IO Unit :=
  match args with
  | ["spec"] => runLines ({} : SpecSt) specStep
  | _ => runLines ({} : St) step

end MM.Engine.C10
