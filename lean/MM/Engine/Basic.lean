/-
  Line-protocol plumbing shared by all engines: read stdin line by line,
  thread a state through `step`, print one output line per input line.
-/
namespace MM.Engine

def tokens (line : String) : List String :=
  (line.trimAscii.toString.splitOn " ").filter (· ≠ "")

partial def loop {σ : Type} (h : IO.FS.Stream) (out : IO.FS.Stream)
    (step : σ → String → σ × String) (s : σ) : IO Unit := do
  let line ← h.getLine
  if line.isEmpty then
    out.flush
    return ()
  let (s', o) := step s line
  out.putStrLn o
  loop h out step s'

/-- Run a stateful engine over stdin. -/
def runLines {σ : Type} (init : σ) (step : σ → String → σ × String) : IO Unit := do
  let stdin ← IO.getStdin
  let stdout ← IO.getStdout
  loop stdin stdout step init

/-- Run a stateless engine over stdin. -/
def runPure (f : String → String) : IO Unit :=
  runLines () (fun _ l => ((), f l))

end MM.Engine
