import MM.Engine.Basic
import MM.Model.C02

/-
  Engine c02: prediction for the goroutine stress op (see harness/main/eng_c02.go).
  `spec` mode: no repeated header within an end, none shared between the ends, right prefixes.
-/
namespace MM.Engine.C02
open MM.C01 MM.C02

def part (name : String) (s0 n : Nat) : String :=
  let k := predictedCount s0 n
  if k = 0 then s!"{name} 0 {n} - - 0 0" else s!"{name} {k} {n - k} {s0} {s0 + k - 1} 0 0"

def stepLine (line : String) : String :=
  match tokens line with
  | ["stress", g, k, a, b] =>
    match g.toNat?, k.toNat?, a.toNat?, b.toNat? with
    | some g, some k, some a, some b =>
      if g < 1 ∨ g > 4096 ∨ a ≥ W ∨ b ≥ W then "bad-op"
      else s!"{part "I" a (g * k)} {part "R" b (g * k)} cross 0"
    | _, _, _, _ => "bad-op"
  | _ => "bad-op"

def spec (_op out : String) : String :=
  if out.startsWith "panic" ∨ out.startsWith "crash" then "fail crashed"
  else match tokens out with
    | ["I", _, _, _, _, d1, b1, "R", _, _, _, _, d2, b2, "cross", c] =>
      if d1 ≠ "0" ∨ d2 ≠ "0" ∨ c ≠ "0" then "fail nonce-reuse"
      else if b1 ≠ "0" ∨ b2 ≠ "0" then "fail wrong-direction-prefix"
      else "ok"
    | ["bad-op"] => "ok"
    | _ => "fail unparsable"

def main (args : List String) : IO Unit :=
  match args with
  | ["spec"] => runPure (fun l => match l.splitOn "\t" with
      | [op, out] => spec op out
      | _ => "bad-op")
  | _ => runPure stepLine

end MM.Engine.C02
