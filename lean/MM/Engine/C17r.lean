import MM.Engine.C16

/-
  Engine c17r: the relay-table / dispatch engine of C16 run for C17 (same ops, same model, same
  executable statement: tags `c17-relay-leak-on-disconnect`, `c17-not-empty`, `c17-collision-orphan`).
-/
namespace MM.Engine.C17r
def main (args : List String) : IO Unit := MM.Engine.C16.main args
end MM.Engine.C17r
