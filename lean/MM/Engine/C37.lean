import MM.Engine.Basic
import MM.Model.C37

/-
  Engine c37: `exp <text> [<key>=<value>]...` (all hex) -> `ok <expanded>`.
  The environment is exactly the listed bindings (the harness clears the process environment
  before every op); a later binding of the same key overrides an earlier one.
-/
namespace MM.Engine.C37
open MM MM.C37

def parseBinding (s : String) : Option (Bytes × Bytes) :=
  match s.splitOn "=" with
  | [k, v] => do
    let kb ← bytesOfHex k
    let vb ← bytesOfHex v
    pure (kb, vb)
  | _ => none

def parseBindings (toks : List String) : Option (List (Bytes × Bytes)) := toks.mapM parseBinding

/-- State: the process environment as an association list (later bindings win). -/
abbrev St := List (Bytes × Bytes)

inductive Op where
  | expand (text : Bytes)                 -- `x`: expand under the current environment
  | replaceEnv (bs : List (Bytes × Bytes)) (text : Option Bytes)   -- `reset` / `exp`
  | set (k v : Bytes)
  | unset (k : Bytes)

def parseOp (line : String) : Option Op :=
  match tokens line with
  | "exp" :: t :: binds => do
    let text ← bytesOfHex t
    let bs ← parseBindings binds
    pure (.replaceEnv bs (some text))
  | "reset" :: binds => (parseBindings binds).map fun bs => .replaceEnv bs none
  | ["set", kv] => (parseBinding kv).map fun (k, v) => .set k v
  | ["unset", k] => (bytesOfHex k).map .unset
  | ["x", t] => (bytesOfHex t).map .expand
  | _ => none

def apply (st : St) : Op → St × Option Bytes
  | .expand text => (st, some (expand (envOfList st) text))
  | .replaceEnv bs (some text) => (bs, some (expand (envOfList bs) text))
  | .replaceEnv bs none => (bs, none)
  | .set k v => (st ++ [(k, v)], none)
  | .unset k => (st.filter (fun p => p.1 != k), none)

def step (st : St) (line : String) : St × String :=
  match parseOp line with
  | none => (st, "bad-op")
  | some op =>
    match apply st op with
    | (st', some out) => (st', "ok " ++ hexTok out)
    | (st', none) => (st', "ok")

/-! Executable statement of C37 on the implementation's own answer.  Written directly from the
    property text for texts with at most one `$` (not through `tokens`); for texts with several
    `$` the answer must be the single-pass expansion the theorems are about. -/

def lookupOr (env : Env) (name : Bytes) (orig : Bytes) : Bytes :=
  match splitDefault name with
  | some (v, d) => (env v).getD d
  | none => (env name).getD orig

/-- Expected output for `pre ++ '$' :: rest` where neither `pre` nor `rest` contains `$`;
    second component names the documented form that applied. -/
def oneDollar (env : Env) (pre rest : Bytes) : Bytes × String :=
  match rest with
  | [] => (pre ++ [cDollar], "lone-dollar")
  | c :: r =>
    if c == cLBrace then
      let name := r.takeWhile (· != cRBrace)
      let after := r.dropWhile (· != cRBrace)
      match after with
      | [] => (pre ++ cDollar :: rest, "unterminated-brace")
      | _ :: post =>
        if name.isEmpty then (pre ++ cDollar :: rest, "empty-brace")
        else (pre ++ lookupOr env name (cDollar :: cLBrace :: (name ++ [cRBrace])) ++ post, "brace-form")
    else if isIdStart c then
      let name := rest.takeWhile isIdChar
      let post := rest.dropWhile isIdChar
      (pre ++ (env name).getD (cDollar :: name) ++ post, "bare-form")
    else (pre ++ cDollar :: rest, "dollar-literal")

/-- The statement on one answer, given the environment the expansion ran under. -/
def judge (env : Env) (text : Bytes) (implOut : String) : String :=
  match tokens implOut with
  | ["ok", o] =>
    match bytesOfHex o with
    | none => "fail unparsable-output"
    | some out =>
      let nd := (text.filter (· == cDollar)).length
      if nd == 0 then (if out == text then "ok" else "fail no-dollar-changed")
      else if nd == 1 then
        let pre := text.takeWhile (· != cDollar)
        let rest := (text.dropWhile (· != cDollar)).drop 1
        let (want, form) := oneDollar env pre rest
        if out == want then "ok" else "fail " ++ form
      else if out == expand env text then "ok" else "fail not-single-pass"
  | _ => "fail unparsable-output"

def specStep (st : St) (l : String) : St × String :=
  match l.splitOn "\t" with
  | [line, implOut] =>
    if implOut.startsWith "panic" || implOut.startsWith "crash" then (st, "fail crashed")
    else match parseOp line with
      | none => (st, "bad-op")
      | some op =>
        let (st', _) := apply st op
        match op with
        | .expand text => (st', judge (envOfList st) text implOut)
        | .replaceEnv bs (some text) => (st', judge (envOfList bs) text implOut)
        | _ => (st', if tokens implOut == ["ok"] then "ok" else "fail unparsable-output")
  | _ => (st, "bad-op")

def main (args : List String) : IO Unit :=
  match args with
  | ["spec"] => runLines ([] : St) specStep
  | _ => runLines ([] : St) step

end MM.Engine.C37
