import MM.Engine.Basic
import MM.Model.C37

/-
  Engine c37: `exp <text> [<key>=<value>]...` (all hex) -> `ok <expanded>`.
  The environment is exactly the listed bindings (the harness clears the process environment
  before every op); a later binding of the same key overrides an earlier one.
-/
namespace MM.Engine.C37
open MM MM.C37

def parseBinding (s : String) : Option (Bytes × Bytes) :=
  match s.splitOn "=" with
  | [k, v] => do
    let kb ← bytesOfHex k
    let vb ← bytesOfHex v
    pure (kb, vb)
  | _ => none

def parseOp (line : String) : Option (Bytes × List (Bytes × Bytes)) :=
  match tokens line with
  | "exp" :: t :: binds => do
    let text ← bytesOfHex t
    let bs ← binds.mapM parseBinding
    pure (text, bs)
  | _ => none

def step (line : String) : String :=
  match parseOp line with
  | some (text, bs) => "ok " ++ hexTok (expand (envOfList bs) text)
  | none => "bad-op"

/-! Executable statement of C37 on the implementation's own answer.  Written directly from the
    property text for texts with at most one `$` (not through `tokens`); for texts with several
    `$` the answer must be the single-pass expansion the theorems are about. -/

def lookupOr (env : Env) (name : Bytes) (orig : Bytes) : Bytes :=
  match splitDefault name with
  | some (v, d) => (env v).getD d
  | none => (env name).getD orig

/-- Expected output for `pre ++ '$' :: rest` where neither `pre` nor `rest` contains `$`;
    second component names the documented form that applied. -/
def oneDollar (env : Env) (pre rest : Bytes) : Bytes × String :=
  match rest with
  | [] => (pre ++ [cDollar], "lone-dollar")
  | c :: r =>
    if c == cLBrace then
      let name := r.takeWhile (· != cRBrace)
      let after := r.dropWhile (· != cRBrace)
      match after with
      | [] => (pre ++ cDollar :: rest, "unterminated-brace")
      | _ :: post =>
        if name.isEmpty then (pre ++ cDollar :: rest, "empty-brace")
        else (pre ++ lookupOr env name (cDollar :: cLBrace :: (name ++ [cRBrace])) ++ post, "brace-form")
    else if isIdStart c then
      let name := rest.takeWhile isIdChar
      let post := rest.dropWhile isIdChar
      (pre ++ (env name).getD (cDollar :: name) ++ post, "bare-form")
    else (pre ++ cDollar :: rest, "dollar-literal")

def spec (line : String) (implOut : String) : String :=
  if implOut.startsWith "panic" || implOut.startsWith "crash" then "fail crashed"
  else match parseOp line, tokens implOut with
    | some (text, bs), ["ok", o] =>
      match bytesOfHex o with
      | none => "fail unparsable-output"
      | some out =>
        let env := envOfList bs
        let nd := (text.filter (· == cDollar)).length
        if nd == 0 then (if out == text then "ok" else "fail no-dollar-changed")
        else if nd == 1 then
          let pre := text.takeWhile (· != cDollar)
          let rest := (text.dropWhile (· != cDollar)).drop 1
          let (want, form) := oneDollar env pre rest
          if out == want then "ok" else "fail " ++ form
        else if out == expand env text then "ok" else "fail not-single-pass"
    | some _, _ => "fail unparsable-output"
    | none, _ => "bad-op"

def main (args : List String) : IO Unit :=
  match args with
  | ["spec"] => runPure (fun l => match l.splitOn "\t" with
      | [op, out] => spec op out
      | _ => "bad-op")
  | _ => runPure step

end MM.Engine.C37
