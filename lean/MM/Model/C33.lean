/-
  Model of /repo/internal/sleep/window.go (WindowCalculator), statement by statement.

  Instants are `Int` nanoseconds on one arbitrary common axis (the harness uses nanoseconds since
  the Unix epoch); durations are `Int` nanoseconds.  The places where Go's fixed-width arithmetic
  differs from `Int` are explicit primitives:

  * `sub`    — `time.Time.Sub`, which saturates at the int64 `Duration` range;
  * `wrap64` — int64 multiplication wrap-around in `cycleNum * CycleLength`;
  * `Int.tdiv` / `Int.tmod` — Go's `/` and `%` on signed integers (truncate toward zero).

  `time.Time.Add` is plain addition (a `Time` holds int64 *seconds*, so adding a `Duration` cannot
  overflow anywhere near the instants considered).

  `cycleStart` is the code AFTER fixes/C33-floor-cycle-division.patch (floor division).  The
  pre-fix truncating version is kept as `cycleStartTrunc` for the regression witness only.
-/
namespace MM.C33

structure Cfg where
  /-- `CycleLength` (ns). -/
  C : Int
  /-- `WindowLength` (ns) as configured, before the constructor's clamp. -/
  W : Int
  /-- `ClockTolerance` (ns). -/
  tol : Int
  /-- `Epoch` as configured. -/
  epoch : Int
  deriving Repr

def minDur : Int := -(2^63)
def maxDur : Int := 2^63 - 1

/-- `a.Sub(b)` on `time.Time`: saturating at the `Duration` range. -/
def sub (a b : Int) : Int :=
  let d := a - b
  if d < minDur then minDur else if d > maxDur then maxDur else d

/-- int64 wrap-around. -/
def wrap64 (x : Int) : Int := (x + 2^63) % 2^64 - 2^63

/-- `time.Time{}` (January 1, year 1, UTC) in ns since the Unix epoch. -/
def zeroTime : Int := -62135596800000000000

/-- `NewWindowCalculator`: `if WindowLength >= CycleLength { WindowLength = CycleLength / 6 }`. -/
def effW (c : Cfg) : Int := if c.W ≥ c.C then Int.tdiv c.C 6 else c.W

/-- `NewWindowCalculator`: a zero `Epoch` becomes the Unix epoch. -/
def effEpoch (c : Cfg) : Int := if c.epoch = zeroTime then 0 else c.epoch

/-- `windowOffset`: `seed % uint64(maxOffset)` when `maxOffset > 0`, else 0.
    `seed` is `seedFromAgentID` (a uint64). -/
def offset (c : Cfg) (seed : Nat) : Int :=
  let maxOffset := c.C - effW c
  if maxOffset ≤ 0 then 0 else ((seed % (maxOffset.toNat % 2^64) : Nat) : Int)

/-- `cycleStart` (fixed code): floor division of the elapsed time by the cycle length. -/
def cycleStart (c : Cfg) (t : Int) : Int :=
  let elapsed := sub t (effEpoch c)
  let cycleNum := Int.tdiv elapsed c.C
  let cycleNum := if Int.tmod elapsed c.C < 0 then cycleNum - 1 else cycleNum
  effEpoch c + wrap64 (cycleNum * c.C)

/-- `cycleStart` as it was before the fix (truncating division). -/
def cycleStartTrunc (c : Cfg) (t : Int) : Int :=
  let elapsed := sub t (effEpoch c)
  effEpoch c + wrap64 (Int.tdiv elapsed c.C * c.C)

/-- `NextWindow`. -/
def nextWindowWith (cs : Cfg → Int → Int) (c : Cfg) (seed : Nat) (now : Int) : Int × Int :=
  let off := offset c seed
  let cycleStart := cs c now
  let windowStart := cycleStart + off
  let windowEnd := windowStart + effW c
  if now > windowEnd then
    let cycleStart := cycleStart + c.C
    let windowStart := cycleStart + off
    (windowStart, windowStart + effW c)
  else (windowStart, windowEnd)

def nextWindow (c : Cfg) (seed : Nat) (now : Int) : Int × Int := nextWindowWith cycleStart c seed now

structure Info where
  start : Int
  stop : Int
  safeStart : Int
  safeEnd : Int
  midpoint : Int
  timeUntil : Int
  active : Bool
  deriving Repr, DecidableEq

/-- `GetWindowInfo`. -/
def infoWith (cs : Cfg → Int → Int) (c : Cfg) (seed : Nat) (now : Int) : Info :=
  let (start, stop) := nextWindowWith cs c seed now
  let safeStart := start + -c.tol
  let safeEnd := stop + c.tol
  let midpoint := start + Int.tdiv (effW c) 2
  let timeUntil := if now < safeStart then sub safeStart now else 0
  let active := decide (¬ now < safeStart) && decide (now < safeEnd)
  { start, stop, safeStart, safeEnd, midpoint, timeUntil, active }

def info (c : Cfg) (seed : Nat) (now : Int) : Info := infoWith cycleStart c seed now

/-- `IsInWindow`. -/
def isInWindow (c : Cfg) (seed : Nat) (t : Int) : Bool := (info c seed t).active

/-- `PreviousWindow`. -/
def prevWindow (c : Cfg) (seed : Nat) (now : Int) : Int × Int :=
  let off := offset c seed
  let cycleStart := cycleStart c now
  let windowStart := cycleStart + off
  if now < windowStart then
    let windowStart := cycleStart + -c.C + off
    (windowStart, windowStart + effW c)
  else (windowStart, windowStart + effW c)

/-! The agent's windows as the property speaks of them: window `k` of an agent with seed `s`. -/

def winStart (c : Cfg) (seed : Nat) (k : Int) : Int := effEpoch c + k * c.C + offset c seed
def winEnd (c : Cfg) (seed : Nat) (k : Int) : Int := winStart c seed k + effW c

/-- Configurations and instants the theorems speak about: positive cycle, non-negative window and
    tolerance, and an instant whose distance to the epoch is representable as a `Duration`
    (about ±292 years) with one cycle of head-room below. -/
structure Valid (c : Cfg) (t : Int) : Prop where
  hC : 0 < c.C
  hW : 0 ≤ c.W
  htol : 0 ≤ c.tol
  hlo : -(2^63) + c.C ≤ t - effEpoch c
  hhi : t - effEpoch c < 2^63

end MM.C33
