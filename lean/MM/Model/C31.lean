/-
  Model of internal/peer/reconnect.go (Reconnector) composed with the callback
  peer.Manager.handleReconnect (internal/peer/manager.go), for ONE peer address.

  Atomic steps are exactly the regions the code runs under `Reconnector.mu`:

    schedule                 Schedule(addr)
    fire i                   timer i expires: first critical section of attemptReconnect
                             (emits `attempt` = the callback is invoked)
    retOk / retFail          the callback returns: second critical section of attemptReconnect
    retFailSched             as retFail, but the callback is Manager.handleReconnect for a
                             persistent peer: the failed dial calls Schedule(addr) itself
                             (connectWithTransport) BEFORE returning the error
    pause resume resetAll cancel stop

  `live` is the set of armed *time.Timer objects that have neither fired nor been stopped —
  whether or not the reconnector still holds a pointer to them (a timer it lost track of is an
  orphan: it still fires).  Each timer remembers the un-jittered delay it was armed with.
  Durations are nanoseconds in `Nat` (configured delays are non-negative); the multiplier is a
  rational `mnum/mden`; `time.Duration(float64(d) * m)` truncates, i.e. `d * mnum / mden`.

  `fx = true` is the code after fixes/C31-reconnect-pause-and-orphan-timer.patch, `fx = false`
  the code before it (kept for the witnesses in Props/C31.lean; its behaviour for a callback
  returning after its state object was replaced is not modelled and not used).
-/
namespace MM.C31

structure Cfg where
  I : Nat            -- InitialDelay
  M : Nat            -- MaxDelay
  mnum : Nat         -- Multiplier = mnum / mden
  mden : Nat
  jnum : Nat         -- Jitter = jnum / jden
  jden : Nat
  maxAtt : Nat       -- MaxAttempts (0 = unlimited)
  deriving DecidableEq, Repr

/-- `nextDelay = Duration(float64(nextDelay) * Multiplier); if nextDelay > MaxDelay { nextDelay = MaxDelay }`. -/
def nextD (c : Cfg) (d : Nat) : Nat := min (d * c.mnum / c.mden) c.M

/-- Un-jittered delay before the k-th consecutive retry: d₀ = I, dₖ₊₁ = min(⌊dₖ·m⌋, M). -/
def dseq (c : Cfg) : Nat → Nat
  | 0 => c.I
  | k + 1 => nextD c (dseq c k)

/-- `addJitter(d)` for the pseudo-random `x = now % 1000`: `d + (x/1000 − 1/2)·2·d·j`, truncated. -/
def jit (c : Cfg) (d x : Nat) : Nat :=
  d * (1000 * (c.jden - c.jnum) + 2 * x * c.jnum) / (1000 * c.jden)

structure PeerSt where
  attempts : Nat
  nextDelay : Nat
  timer : Option Nat      -- `state.timer`: id of the timer last stored (it may have fired or been stopped)
  obj : Nat               -- identity of this `*reconnectState` (attemptReconnect keeps the pointer)
  deriving DecidableEq, Repr

structure Timer where
  id : Nat
  delay : Nat             -- base delay it was armed with (before jitter)
  deriving DecidableEq, Repr

structure R where
  st : Option PeerSt := none       -- `states[addr]`
  live : List Timer := []
  paused : Bool := false
  closed : Bool := false
  flights : List Nat := []         -- callbacks in flight: the state object each one holds (oldest first)
  nextId : Nat := 0                -- allocator for timer ids and state-object ids
  deriving DecidableEq, Repr

inductive Ev where
  | attempt (n : Nat) (d : Nat) (whilePaused : Bool)   -- callback invoked: attempts after increment, delay of the timer
  deriving DecidableEq, Repr

inductive Label where
  | schedule | fire (i : Nat) | retOk | retFail | retFailSched
  | pause | resume | resetAll | cancel | stop
  deriving DecidableEq, Repr

/-- `t.Stop()` on a stored timer pointer. -/
def stopT (r : R) : Option Nat → R
  | none => r
  | some i => { r with live := r.live.filter (fun t => t.id != i) }

/-- `time.AfterFunc(addJitter(d), …)`; returns the new timer's id. -/
def arm (r : R) (d : Nat) : R × Nat :=
  ({ r with live := r.live ++ [⟨r.nextId, d⟩], nextId := r.nextId + 1 }, r.nextId)

/-- `Schedule(addr)`. -/
def schedule (c : Cfg) (r : R) : R :=
  if r.closed || r.paused then r else
  let (r, s) := match r.st with
    | some s => (r, s)
    | none => ({ r with nextId := r.nextId + 1 }, (⟨0, c.I, none, r.nextId⟩ : PeerSt))
  let r := stopT r s.timer
  if c.maxAtt > 0 && s.attempts ≥ c.maxAtt then { r with st := none }
  else
    let (r, i) := arm r s.nextDelay
    { r with st := some { s with timer := some i } }

/-- Timer `i` expires: `attemptReconnect` up to the callback invocation. -/
def fire (fx : Bool) (c : Cfg) (r : R) (i : Nat) : R × Option Ev :=
  match r.live.find? (fun t => t.id == i) with
  | none => (r, none)
  | some t =>
    let r := { r with live := r.live.filter (fun t => t.id != i) }
    match r.st with
    | none => (r, none)
    | some s =>
      if r.closed || (fx && r.paused) then (r, none)       -- fixed: `|| r.paused`
      else
        let s' := { s with attempts := s.attempts + 1, nextDelay := nextD c s.nextDelay }
        ({ r with st := some s', flights := r.flights ++ [s.obj] }, some (.attempt s'.attempts t.delay r.paused))

/-- The callback of the oldest attempt in flight returns: `attemptReconnect` after the callback. -/
def ret (fx : Bool) (c : Cfg) (r : R) (ok : Bool) : R :=
  match r.flights with
  | [] => r
  | obj :: rest =>
    let r := { r with flights := rest }
    if r.closed then r else
    match r.st with
    | none => r                                   -- fixed: state cancelled / reset meanwhile (pre-fix: not modelled)
    | some s =>
      if s.obj != obj then r                      -- fixed: state replaced meanwhile (pre-fix: not modelled)
      else
        -- fixed: `if state.timer != nil { state.timer.Stop(); state.timer = nil }`
        let (r, s) := if fx then (stopT r s.timer, { s with timer := none }) else (r, s)
        if ok then { r with st := none }
        else if c.maxAtt == 0 || s.attempts < c.maxAtt then
          if fx && r.paused then { r with st := some s }     -- fixed: no timer while paused; state kept
          else
            let (r, i) := arm r s.nextDelay
            { r with st := some { s with timer := some i } }
        else { r with st := none }

def pause (r : R) : R :=
  if r.paused || r.closed then r else
  match r.st with
  | none => { r with paused := true }
  | some s => { stopT r s.timer with paused := true, st := some { s with timer := none } }

def clear (r : R) : R :=
  match r.st with
  | none => r
  | some s => { stopT r s.timer with st := none }

def step (fx : Bool) (c : Cfg) (r : R) : Label → R × Option Ev
  | .schedule => (schedule c r, none)
  | .fire i => fire fx c r i
  | .retOk => (ret fx c r true, none)
  | .retFail => (ret fx c r false, none)
  | .retFailSched => (ret fx c (if r.flights.isEmpty then r else schedule c r) false, none)
  | .pause => (pause r, none)
  | .resume => ({ r with paused := false }, none)
  | .resetAll => (clear r, none)
  | .cancel => (clear r, none)
  | .stop => ({ clear r with closed := true }, none)

/-- Run a label sequence, collecting the events. -/
def run (fx : Bool) (c : Cfg) : R → List Label → R × List Ev
  | r, [] => (r, [])
  | r, l :: ls =>
    let (r', e) := step fx c r l
    let (r'', es) := run fx c r' ls
    (r'', (match e with | some e => [e] | none => []) ++ es)

/-! ### n peer addresses

  The real reconnector keeps one `reconnectState` per address in `states` and ONE `paused` / `closed`
  flag.  The system model gives every address its own `R` (with its own copy of the two flags);
  an address-level call (Schedule(a), expiry of a timer of a, return of a callback of a, Cancel(a))
  steps only that component, a reconnector-level call (Pause, Resume, ResetAll, Stop — one critical
  section that loops over all states) steps every component.  Props/C31.lean proves that the copies
  of the flags always agree (so the product IS a system with one shared flag) and that every
  component on its own is a run of the single-address LTS. -/

abbrev Sys := Nat → R

def Label.isGlobal : Label → Bool
  | .pause | .resume | .resetAll | .stop => true
  | _ => false

inductive SysLabel where
  | at (a : Nat) (l : Label)
  | all (l : Label)
  deriving DecidableEq, Repr

def SysLabel.wf : SysLabel → Bool
  | .at _ l => !l.isGlobal
  | .all l => l.isGlobal

def sysStep (c : Cfg) (s : Sys) : SysLabel → Sys × Option (Nat × Ev)
  | .at a l => (fun b => if b = a then (step true c (s a) l).1 else s b, ((step true c (s a) l).2).map (fun e => (a, e)))
  | .all l => (fun b => (step true c (s b) l).1, none)

end MM.C31
