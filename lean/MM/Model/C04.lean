/-
  C04 — symbolic (Dolev-Yao style) model of what crosses a transit agent for one tunnel.

  Honest ingress and exit run the key establishment of C03 and seal every application chunk with
  `SessionKey.Encrypt` (C01/C02).  A transit relays frames; it sees every field of every relayed
  frame.  Terms are symbolic: a `sealed` term reveals its body only to someone who can derive its
  key; a key `kdf (shared a b) …` is derivable only from `priv a` or `priv b`.
  Computational secrecy of X25519/HKDF/ChaCha20-Poly1305 is ASSUMED (that is what "symbolic" means).

  What the endpoints do when the peer's ephemeral key arrives as all-zero is part of the model, per
  tunnel kind (parameter `fb : Kind → Bool` of `decideWith`):
    the code after fixes/C04-refuse-zero-ephemeral-key.patch (`noFallback`): every kind refuses
      (ComputeECDH / "encryption required") -> no tunnel, no data frames;
    the pinned tree (`fallbackV0`): tcp/forward/shell/file refused, but for udp/icmp the key exchange
      was SKIPPED and datagrams travelled in PLAINTEXT (udp.Association.Encrypt / icmp.Session.Encrypt
      returned their input when no session key was set; agent.deriveICMPSessionKey returned nil, nil).
  Core Lean only.
-/
namespace MM.C04

inductive Party where
  | ingress | exit | transit
  deriving Repr, DecidableEq

inductive Term where
  | atom (n : Nat)                     -- an application payload chunk (secret)
  | const (n : Nat)                    -- public protocol data: ids, addresses, ports, ICMP id/seq
  | pub (p : Party)                    -- ephemeral public key of p
  | priv (p : Party)                   -- ephemeral private key of p
  | zeroKey                            -- the all-zero 32 bytes
  | shared (a b : Party)               -- X25519(priv a, pub b)
  | kdf (s : Term) (req : Nat) (i r : Term)
  | sealed (k : Term) (pfx ctr : Nat) (m : Term)
  deriving Repr, DecidableEq

/-- X25519 commutativity as a normal form: the secret between a and b, whichever side computes it. -/
def dhT (a b : Party) : Term :=
  match a, b with
  | .exit, .ingress => .shared .ingress .exit
  | .transit, .ingress => .shared .ingress .transit
  | .transit, .exit => .shared .exit .transit
  | a, b => .shared a b

inductive Kind where
  | tcp | forward | udp | icmp | shell | file
  deriving Repr, DecidableEq

def Kind.all : List Kind := [.tcp, .forward, .udp, .icmp, .shell, .file]

/-- Pinned tree: which kinds skipped encryption when the peer's ephemeral key was all-zero. -/
def fallbackV0 : Kind → Bool
  | .udp => true
  | .icmp => true
  | _ => false

/-- Fixed code: no kind does. -/
def noFallback : Kind → Bool := fun _ => false

inductive FType where
  | openF | ack | data
  deriving Repr, DecidableEq

/-- A frame as a transit sees it: type plus the list of its fields. -/
structure Frame where
  typ : FType
  fields : List Term
  deriving Repr, DecidableEq

/-- What an endpoint does with the peer key it received. -/
inductive Mode where
  | sealWith (k : Term)
  | plaintext
  | refuse
  deriving Repr, DecidableEq

/-- Key decision of an endpoint `me` of kind `kd` that received `peerKey` (request id `req`;
    `meIsInit` = it is the ingress side); `fb` = zero-key fallback table. -/
def decideWith (fb : Kind → Bool) (kd : Kind) (me : Party) (meIsInit : Bool) (req : Nat) (peerKey : Term) : Mode :=
  match peerKey with
  | .zeroKey => if fb kd then .plaintext else .refuse
  | .pub q =>
    if meIsInit then .sealWith (.kdf (dhT me q) req (.pub me) (.pub q))
    else .sealWith (.kdf (dhT me q) req (.pub q) (.pub me))
  | _ => .refuse

/-- The code as it is now. -/
def decide : Kind → Party → Bool → Nat → Term → Mode := decideWith noFallback

/-- Data frames for the chunks `cs` (atoms) in a mode, direction prefix `pfx`, counters from 0. -/
def dataFrames (m : Mode) (pfx : Nat) : Nat → List Nat → List Frame
  | _, [] => []
  | ctr, c :: cs =>
    match m with
    | .sealWith k => ⟨.data, [.sealed k pfx ctr (.atom c)]⟩ :: dataFrames m pfx (ctr + 1) cs
    | .plaintext => ⟨.data, [.atom c]⟩ :: dataFrames m pfx (ctr + 1) cs
    | .refuse => []

/-- Everything the ingress emits towards the exit: the open (request id, destination, its public
    key) and then its data frames, given the responder key `rk` it found in the ack. -/
def ingressFrames (fb : Kind → Bool) (kd : Kind) (req dest : Nat) (rk : Term) (up : List Nat) : List Frame :=
  ⟨.openF, [.const req, .const dest, .pub .ingress]⟩ ::
    dataFrames (decideWith fb kd .ingress true req rk) 0 0 up

/-- Everything the exit emits towards the ingress, given the initiator key `ik` it found in the open:
    nothing when it refuses; otherwise the ack (with its public key iff it did a key exchange) and
    its data frames. -/
def exitFrames (fb : Kind → Bool) (kd : Kind) (req bound : Nat) (ik : Term) (down : List Nat) : List Frame :=
  match decideWith fb kd .exit false req ik with
  | .refuse => []
  | .plaintext => ⟨.ack, [.const req, .const bound, .zeroKey]⟩ :: dataFrames .plaintext 0x80000000 0 down
  | .sealWith k => ⟨.ack, [.const req, .const bound, .pub .exit]⟩ :: dataFrames (.sealWith k) 0x80000000 0 down

/-- What a transit does to the two key fields it relays (everything else it forwards as is). -/
structure Tamper where
  ikSeenByExit : Term      -- the initiator key the exit receives
  rkSeenByIngress : Term   -- the responder key the ingress receives

/-- A relaying transit: forwards both keys untouched. -/
def passive : Tamper := ⟨.pub .ingress, .pub .exit⟩

/-- All frames that pass through the transit in one tunnel. -/
def wireWith (fb : Kind → Bool) (kd : Kind) (t : Tamper) (req dest bound : Nat) (up down : List Nat) : List Frame :=
  ingressFrames fb kd req dest t.rkSeenByIngress up ++ exitFrames fb kd req bound t.ikSeenByExit down

/-- The code as it is now. -/
def wire : Kind → Tamper → Nat → Nat → Nat → List Nat → List Nat → List Frame := wireWith noFallback

/-! ### observer knowledge -/

/-- Can a holder of the private keys `privs` derive key term `k`? -/
def knowsKey (privs : List Party) : Term → Bool
  | .kdf (.shared a b) _ _ _ => privs.contains a || privs.contains b
  | _ => false

/-- Application atoms an observer holding `privs` can read in a term. -/
def visible (privs : List Party) : Term → List Nat
  | .atom n => [n]
  | .sealed k _ _ m => if knowsKey privs k then visible privs m else []
  | _ => []

def visibleFrame (privs : List Party) (f : Frame) : List Nat := f.fields.flatMap (visible privs)

/-- Secret material that must never be a frame field: private keys, shared secrets, derived keys. -/
def isSecretMaterial : Term → Bool
  | .priv _ => true
  | .shared _ _ => true
  | .kdf _ _ _ _ => true
  | _ => false

end MM.C04
