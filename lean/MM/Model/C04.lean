/-
  C04 — symbolic (Dolev-Yao style) model of what crosses a transit agent for one tunnel.

  Honest ingress and exit run the key establishment of C03 and seal every application chunk with
  `SessionKey.Encrypt` (C01/C02).  A transit relays frames; it sees every field of every relayed
  frame.  Terms are symbolic: a `sealed` term reveals its body only to someone who can derive its
  key; a key `kdf (shared a b) …` is derivable only from `priv a` or `priv b`.
  Computational secrecy of X25519/HKDF/ChaCha20-Poly1305 is ASSUMED (that is what "symbolic" means).

  What an endpoint does when the peer's ephemeral key arrives as all-zero is part of the model, per
  side and per tunnel kind (`Tables`): it either REFUSES (ComputeECDH / "encryption required": no
  tunnel, no data frames) or FALLS BACK to plaintext.  On the pinned tree (`pinnedT`) tcp/forward/
  shell/file refuse on both sides, while for udp/icmp BOTH sides skipped the key exchange and relayed
  datagrams in plaintext (exit: udp/icmp handlers "encryption disabled", Association/Session.Encrypt
  return their input without a key; ingress: handleUDPOpenAck skipped the derivation,
  deriveICMPSessionKey returned nil,nil, relay paths sent data as is).  After
  fixes/C04-ingress-requires-ephemeral-key.patch the ingress refuses for every kind
  (`ingressFixedT`); the exit side is unchanged.  Which table describes the tree under test is a
  regenerated fact (MM/Gen/C04.lean, probed on the compiled code on every run).
  Core Lean only.
-/
namespace MM.C04

inductive Party where
  | ingress | exit | transit
  deriving Repr, DecidableEq

inductive Term where
  | atom (n : Nat)                     -- an application payload chunk (secret)
  | const (n : Nat)                    -- public protocol data: ids, addresses, ports, ICMP id/seq
  | pub (p : Party)                    -- ephemeral public key of p
  | priv (p : Party)                   -- ephemeral private key of p
  | zeroKey                            -- the all-zero 32 bytes
  | shared (a b : Party)               -- X25519(priv a, pub b)
  | kdf (s : Term) (req : Nat) (i r : Term)
  | sealed (k : Term) (pfx ctr : Nat) (m : Term)
  deriving Repr, DecidableEq

/-- X25519 commutativity as a normal form: the secret between a and b, whichever side computes it. -/
def dhT (a b : Party) : Term :=
  match a, b with
  | .exit, .ingress => .shared .ingress .exit
  | .transit, .ingress => .shared .ingress .transit
  | .transit, .exit => .shared .exit .transit
  | a, b => .shared a b

inductive Kind where
  | tcp | forward | udp | icmp | shell | file
  deriving Repr, DecidableEq

def Kind.all : List Kind := [.tcp, .forward, .udp, .icmp, .shell, .file]

/-- Pinned tree: which kinds skipped encryption when the peer's ephemeral key was all-zero. -/
def fallbackV0 : Kind → Bool
  | .udp => true
  | .icmp => true
  | _ => false

/-- No kind does. -/
def noFallback : Kind → Bool := fun _ => false

/-- Zero-key behaviour of the two sides. -/
structure Tables where
  ingress : Kind → Bool
  exit : Kind → Bool

def pinnedT : Tables := ⟨fallbackV0, fallbackV0⟩
def ingressFixedT : Tables := ⟨noFallback, fallbackV0⟩

/-- Tables from two probed booleans (does the side fall back at all for udp/icmp?). -/
def tablesOf (ingressFalls exitFalls : Bool) : Tables :=
  ⟨fun kd => ingressFalls && fallbackV0 kd, fun kd => exitFalls && fallbackV0 kd⟩

inductive FType where
  | openF | ack | data
  deriving Repr, DecidableEq

/-- A frame as a transit sees it: type plus the list of its fields. -/
structure Frame where
  typ : FType
  fields : List Term
  deriving Repr, DecidableEq

/-- What an endpoint does with the peer key it received. -/
inductive Mode where
  | sealWith (k : Term)
  | plaintext
  | refuse
  deriving Repr, DecidableEq

/-- Key decision of an endpoint `me` of kind `kd` that received `peerKey` (request id `req`;
    `meIsInit` = it is the ingress side); `fb` = that side's zero-key fallback table. -/
def decideWith (fb : Kind → Bool) (kd : Kind) (me : Party) (meIsInit : Bool) (req : Nat) (peerKey : Term) : Mode :=
  match peerKey with
  | .zeroKey => if fb kd then .plaintext else .refuse
  | .pub q =>
    if meIsInit then .sealWith (.kdf (dhT me q) req (.pub me) (.pub q))
    else .sealWith (.kdf (dhT me q) req (.pub q) (.pub me))
  | _ => .refuse

/-- Data frames for the chunks `cs` (atoms) in a mode, direction prefix `pfx`, counters from 0. -/
def dataFrames (m : Mode) (pfx : Nat) : Nat → List Nat → List Frame
  | _, [] => []
  | ctr, c :: cs =>
    match m with
    | .sealWith k => ⟨.data, [.sealed k pfx ctr (.atom c)]⟩ :: dataFrames m pfx (ctr + 1) cs
    | .plaintext => ⟨.data, [.atom c]⟩ :: dataFrames m pfx (ctr + 1) cs
    | .refuse => []

/-- What a transit does to a key field it relays. -/
inductive KeyEdit where
  | keep     -- forward as is
  | zero     -- overwrite with 32 zero bytes
  | own      -- substitute its own ephemeral public key
  deriving Repr, DecidableEq

def KeyEdit.apply (e : KeyEdit) (k : Term) : Term :=
  match e with
  | .keep => k
  | .zero => .zeroKey
  | .own => .pub .transit

/-- Transit behaviour on the two key fields (everything else it forwards unchanged). -/
structure Tamper where
  onOpen : KeyEdit
  onAck : KeyEdit
  deriving Repr, DecidableEq

/-- A relaying transit. -/
def passive : Tamper := ⟨.keep, .keep⟩

/-- The exit decides on the initiator key as it arrives. -/
def exitMode (T : Tables) (kd : Kind) (req : Nat) (t : Tamper) : Mode :=
  decideWith T.exit kd .exit false req (t.onOpen.apply (.pub .ingress))

/-- Key field of the ack the exit sends: its public key after a key exchange, all-zero in plaintext
    mode; no ack at all when it refused. -/
def ackKey : Mode → Option Term
  | .sealWith _ => some (.pub .exit)
  | .plaintext => some .zeroKey
  | .refuse => none

/-- The ingress decides on the key field of the ack as it arrives (no ack: never established). -/
def ingressMode (T : Tables) (kd : Kind) (req : Nat) (t : Tamper) : Mode :=
  match ackKey (exitMode T kd req t) with
  | none => .refuse
  | some k => decideWith T.ingress kd .ingress true req (t.onAck.apply k)

def Mode.established : Mode → Bool
  | .refuse => false
  | _ => true

/-- All frames that pass through the transit in one tunnel: the open (request id, destination, the
    ingress key), the ingress's data frames, the exit's ack and the exit's data frames.
    An exit in plaintext mode relays `down` bytes only when the ingress end came up: UDP replies and
    ICMP echo replies exist only in answer to datagrams / echo requests the ingress relayed
    (modelling assumption, named in props/C04.py). -/
def wireWith (T : Tables) (kd : Kind) (t : Tamper) (req dest bound : Nat) (up down : List Nat) : List Frame :=
  ⟨.openF, [.const req, .const dest, .pub .ingress]⟩ ::
  (dataFrames (ingressMode T kd req t) 0 0 up ++
   match exitMode T kd req t with
   | .refuse => []
   | .plaintext =>
     ⟨.ack, [.const req, .const bound, .zeroKey]⟩ ::
       (if (ingressMode T kd req t).established then dataFrames .plaintext 0x80000000 0 down else [])
   | .sealWith k =>
     ⟨.ack, [.const req, .const bound, .pub .exit]⟩ :: dataFrames (.sealWith k) 0x80000000 0 down)

/-! ### observer knowledge -/

/-- Can a holder of the private keys `privs` derive key term `k`? -/
def knowsKey (privs : List Party) : Term → Bool
  | .kdf (.shared a b) _ _ _ => privs.contains a || privs.contains b
  | _ => false

/-- Application atoms an observer holding `privs` can read in a term. -/
def visible (privs : List Party) : Term → List Nat
  | .atom n => [n]
  | .sealed k _ _ m => if knowsKey privs k then visible privs m else []
  | _ => []

def visibleFrame (privs : List Party) (f : Frame) : List Nat := f.fields.flatMap (visible privs)

/-- Secret material that must never be a frame field: private keys, shared secrets, derived keys. -/
def isSecretMaterial : Term → Bool
  | .priv _ => true
  | .shared _ _ => true
  | .kdf _ _ _ _ => true
  | _ => false

end MM.C04
