/-
  C16 / C17 — model of one agent's relay bookkeeping:
    * `relayTable` (internal/agent/relay_table.go): two Go maps keyed by the BARE stream id
      (`byUpstream[UpstreamID]`, `byDownstream[DownstreamID]`), every mutator statement by statement;
    * the stream-frame dispatch of internal/agent/agent.go (`handleStreamOpen/OpenAck/OpenErr/Data/
      Close/Reset`), udp.go and icmp.go as far as the relay tables are concerned: which table entry a
      frame `(peer, stream id)` selects, where it is forwarded and what is removed;
    * the per-connection odd/even stream id allocator (transport.StreamIDAllocator);
    * `handlePeerDisconnect` → `cleanupRelaysForPeer`.
  A Go map is an association list with at most one binding per key (`Map.set` replaces).
-/
namespace MM.C16

structure Entry where
  upPeer : Nat
  upId : Nat
  downPeer : Nat
  downId : Nat
  deriving DecidableEq, Repr, Inhabited

abbrev Map := List (Nat × Entry)

def Map.get (m : Map) (k : Nat) : Option Entry := m.lookup k
def Map.del (m : Map) (k : Nat) : Map := m.filter (fun e => e.1 != k)
def Map.set (m : Map) (k : Nat) (e : Entry) : Map := (k, e) :: m.del k

structure Table where
  byUp : Map := []
  byDown : Map := []
  deriving Repr

namespace Table

/-- `Insert`. -/
def insert (t : Table) (e : Entry) : Table :=
  { byUp := t.byUp.set e.upId e, byDown := t.byDown.set e.downId e }

/-- `Delete` (by the keys of `e`, whatever is stored under them). -/
def delete (t : Table) (e : Entry) : Table :=
  { byUp := t.byUp.del e.upId, byDown := t.byDown.del e.downId }

/-- `LookupBoth`. -/
def lookupBoth (t : Table) (id : Nat) : Option Entry × Option Entry :=
  (t.byUp.get id, t.byDown.get id)

/-- `LookupDownstream`. -/
def lookupDown (t : Table) (id : Nat) : Option Entry := t.byDown.get id

/-- `PopDownstreamFromPeer`. -/
def popDownFromPeer (t : Table) (id peer : Nat) : Table × Option Entry :=
  match t.byDown.get id with
  | some e => if e.downPeer = peer then (t.delete e, some e) else (t, none)
  | none => (t, none)

/-- `PopMatchingPeer`: `(entry, fromUpstream)`. -/
def popMatchingPeer (t : Table) (id peer : Nat) : Table × Option (Entry × Bool) :=
  match t.byUp.get id with
  | some up =>
    if up.upPeer = peer then (t.delete up, some (up, true))
    else match t.byDown.get id with
      | some down => if down.downPeer = peer then (t.delete down, some (down, false)) else (t, none)
      | none => (t, none)
  | none =>
    match t.byDown.get id with
    | some down => if down.downPeer = peer then (t.delete down, some (down, false)) else (t, none)
    | none => (t, none)

def involves (peer : Nat) (e : Entry) : Bool := e.upPeer == peer || e.downPeer == peer

/-- deleting a list of keys -/
def _root_.MM.C16.Map.delAll (m : Map) (ks : List Nat) : Map := ks.foldl (fun m k => m.del k) m

/-- `DeleteByPeer`: walks `byUpstream` ONLY; for every matching binding `id ↦ e` it executes
    `delete(byUpstream, id); delete(byDownstream, e.DownstreamID)`.  (Deletions commute, so Go's
    random map order is irrelevant.) -/
def deleteByPeer (t : Table) (peer : Nat) : Table × Nat :=
  let hit := t.byUp.filter (fun kv => involves peer kv.2)
  ({ byUp := t.byUp.delAll (hit.map (·.1)),
     byDown := t.byDown.delAll (hit.map (·.2.downId)) },
   hit.length)

/-- Where a data-type frame `(peer, id)` is forwarded: `LookupBoth` + peer disambiguation
    (handleStreamData / handleUDPDatagram / handleICMPEcho). -/
def route (t : Table) (peer id : Nat) : Option (Nat × Nat) :=
  let viaDown : Option (Nat × Nat) :=
    match t.byDown.get id with
    | some d => if d.downPeer = peer then some (d.upPeer, d.upId) else none
    | none => none
  match t.byUp.get id with
  | some u => if u.upPeer = peer then some (u.downPeer, u.downId) else viaDown
  | none => viaDown

def size (t : Table) : Nat × Nat := (t.byUp.length, t.byDown.length)

end Table

/-! ### dispatch at one agent -/

inductive Kind | tcp | udp | icmp
  deriving DecidableEq, Repr

/-- A frame sent to a peer: `(peer, what, stream id)`. -/
structure Sent where
  peer : Nat
  what : String
  id : Nat
  payload : String := ""   -- payload bytes (hex) and flags of a forwarded data / ack / err frame
  deriving DecidableEq, Repr

structure Agent where
  tcp : Table := {}
  udp : Table := {}
  icmp : Table := {}
  peers : List (Nat × Nat) := []   -- connected peer → next stream id its allocator hands out
  cleanAll : Bool := true          -- `cleanupRelaysForPeer` also cleans the UDP and ICMP tables (repaired code)
  udpExit : List Nat := []         -- exit-side UDP associations of this agent (udp.Handler.associations, bare stream id)
  uidx : List Nat := []            -- ingress side: udpIngressByLocalStream keys (local stream id of each client's destination association)
  deriving Repr

def Agent.table (a : Agent) : Kind → Table
  | .tcp => a.tcp | .udp => a.udp | .icmp => a.icmp

def Agent.setTable (a : Agent) (k : Kind) (t : Table) : Agent :=
  match k with
  | .tcp => { a with tcp := t } | .udp => { a with udp := t } | .icmp => { a with icmp := t }

def Agent.connected (a : Agent) (p : Nat) : Bool := (a.peers.lookup p).isSome

/-- `conn.NextStreamID()` : returns the current value, advances by 2. -/
def Agent.alloc (a : Agent) (p : Nat) : Agent × Nat :=
  match a.peers.lookup p with
  | some n => ({ a with peers := (p, n + 2) :: a.peers.filter (fun e => e.1 != p) }, n)
  | none => (a, 0)

/-- peer connects; `dialer` = this agent dialed it (allocator starts at 1), else 2. -/
def Agent.connect (a : Agent) (p : Nat) (dialer : Bool) : Agent :=
  { a with peers := (p, if dialer then 1 else 2) :: a.peers.filter (fun e => e.1 != p) }

/-- `*_OPEN` with a non-empty remaining path whose head is `next`. -/
def Agent.relayOpen (a : Agent) (k : Kind) (peer id next : Nat) : Agent × List Sent :=
  if !a.connected next then (a, [⟨peer, "err", id, ""⟩])
  else
    let (a1, downId) := a.alloc next
    let e : Entry := ⟨peer, id, next, downId⟩
    (a1.setTable k ((a1.table k).insert e), [⟨next, "open", downId, ""⟩])

/-- `*_OPEN_ACK`: `LookupDownstream` + peer check; `none` = not a relayed stream (handled locally). -/
def Agent.relayAck (a : Agent) (k : Kind) (peer id : Nat) (payload : String := "") : Option (Agent × List Sent) :=
  match (a.table k).lookupDown id with
  | some e => if e.downPeer = peer then some (a, [⟨e.upPeer, "ack", e.upId, payload⟩]) else none
  | none => none

/-- `*_OPEN_ERR`: `PopDownstreamFromPeer`. -/
def Agent.relayErr (a : Agent) (k : Kind) (peer id : Nat) (payload : String := "") : Option (Agent × List Sent) :=
  match (a.table k).popDownFromPeer id peer with
  | (t, some e) => some (a.setTable k t, [⟨e.upPeer, "err", e.upId, payload⟩])
  | (_, none) => none

/-- `STREAM_DATA` / `UDP_DATAGRAM` / `ICMP_ECHO`: `LookupBoth` + peer disambiguation; the frame's
    payload (and flags) are forwarded as they came. -/
def Agent.relayData (a : Agent) (k : Kind) (peer id : Nat) (payload : String := "") : Option (Agent × List Sent) :=
  match (a.table k).route peer id with
  | some (q, j) => some (a, [⟨q, "data", j, payload⟩])
  | none => none

/-- `STREAM_CLOSE` / `STREAM_RESET` / `UDP_CLOSE` / `ICMP_CLOSE`: `PopMatchingPeer`. -/
def Agent.relayClose (a : Agent) (k : Kind) (what : String) (peer id : Nat) : Option (Agent × List Sent) :=
  match (a.table k).popMatchingPeer id peer with
  | (t, some (e, true)) => some (a.setTable k t, [⟨e.downPeer, what, e.downId, ""⟩])
  | (t, some (e, false)) => some (a.setTable k t, [⟨e.upPeer, what, e.upId, ""⟩])
  | (_, none) => none

/-- `UDP_OPEN` with an empty path: the exit-side handler binds a socket and registers the association
    under the bare stream id (synchronously), then acknowledges. -/
def Agent.udpExitOpen (a : Agent) (peer id : Nat) : Agent × List Sent :=
  ({ a with udpExit := id :: a.udpExit.filter (· != id) }, [⟨peer, "ack", id, ""⟩])

/-- A new SOCKS5 UDP client at this agent (ingress): its destination association gets the next stream
    id of the connection to the exit-side peer and is entered in the reverse index under THAT id. -/
def Agent.udpIngressOpen (a : Agent) (next : Nat) : Agent × List Sent :=
  let (a1, id) := a.alloc next
  ({ a1 with uidx := id :: a1.uidx.filter (· != id) }, [⟨next, "open", id, ""⟩])

/-- `handleUDPOpenErr` for an ingress client: the reverse-index entry of exactly that local stream id
    is removed (after the relay table had its turn). -/
def Agent.udpIngressErr (a : Agent) (peer id : Nat) : Agent × List Sent :=
  match a.relayErr .udp peer id with
  | some (a', l) => (a', l)
  | none => ({ a with uidx := a.uidx.filter (· != id) }, [])

/-- `handleUDPDatagram`: a stream id that names an exit-side association is consumed by the UDP
    handler (no peer check), then one that names an ingress association by the ingress side; only
    otherwise the relay table is consulted. -/
def Agent.udpData (a : Agent) (peer id : Nat) (payload : String := "") : Option (Agent × List Sent) :=
  if a.udpExit.contains id || a.uidx.contains id then some (a, []) else a.relayData .udp peer id payload

/-- `handleUDPClose`: the exit-side association under that id (if any) is removed AND the relay
    table is asked (`PopMatchingPeer`) — both, always. -/
def Agent.udpClose (a : Agent) (peer id : Nat) : Agent × List Sent :=
  let a1 := { a with udpExit := a.udpExit.filter (· != id), uidx := a.uidx.filter (· != id) }
  match a1.relayClose .udp "close" peer id with
  | some (a2, l) => (a2, l)
  | none => (a1, [])

/-- `handlePeerDisconnect` → `cleanupRelaysForPeer`; the peer leaves the peer manager. -/
def Agent.disconnect (a : Agent) (p : Nat) : Agent :=
  let a := { a with peers := a.peers.filter (fun e => e.1 != p), tcp := (a.tcp.deleteByPeer p).1 }
  if a.cleanAll then { a with udp := (a.udp.deleteByPeer p).1, icmp := (a.icmp.deleteByPeer p).1 } else a

end MM.C16
