/-
  A small POSIX-like filesystem model and the model of
  /repo/internal/filetransfer/tar.go: UntarDirectory, sanitizeTarPath, validateSymlink,
  checkNoSymlinkComponents.

  Filesystem: a flat map from PHYSICAL absolute paths (lists of component names from the root of
  the sandbox) to entries — directory, regular file (an inode number; contents live in an inode
  table, so hard links alias), symbolic link (target as written).  Path resolution (`walk`) is the
  kernel's: component by component, ".." goes to the physical parent, a symbolic link is followed
  by splicing its target in front of the remaining components (absolute targets restart at the
  root), at most `fuel` follows (Linux: 40, then ELOOP).  System calls are written on top of
  `walk` exactly as far as UntarDirectory uses them: stat/lstat, mkdir, os.MkdirAll, open with
  O_CREAT|O_WRONLY|O_TRUNC, os.Remove, symlink, link.  They are a MODEL of the OS, validated by the
  correspondence run (real UntarDirectory on real directories), not verified.

  Component names are natural numbers (the engine maps byte strings injectively); 0 is "..".
  "." and empty components are dropped when a path string is parsed: neither filepath.Clean nor
  the kernel distinguishes them (a trailing "/" or "/." is not generated).

  `untar fix`: `fix = true` is the code with checkNoSymlinkComponents (the repaired code, which is
  what /repo contains once fixes/C27-*.patch is applied); `fix = false` is the code as it was.
-/
namespace MM.C27

abbrev Name := Nat
/-- the ".." component -/
def dd : Name := 0
abbrev Path := List Name

/-- A path as written in an archive header or a symlink: absolute or relative, components. -/
structure Target where
  abs : Bool
  comps : List Name
  deriving DecidableEq, Repr

inductive Kind where
  | dir
  | file (ino : Nat)
  | sym (t : Target)
  deriving DecidableEq, Repr

structure FS where
  ents : List (Path × Kind)   -- physical path ↦ entry; the root [] is an implicit directory
  data : List (Nat × Nat)     -- inode ↦ content id
  next : Nat                  -- next unused inode number
  deriving Repr

def FS.lookup (fs : FS) (p : Path) : Option Kind :=
  if p = [] then some .dir else (fs.ents.find? (fun e => e.1 = p)).map (·.2)

def FS.set (fs : FS) (p : Path) (k : Kind) : FS :=
  { fs with ents := (p, k) :: fs.ents.filter (fun e => e.1 ≠ p) }

def FS.del (fs : FS) (p : Path) : FS :=
  { fs with ents := fs.ents.filter (fun e => e.1 ≠ p) }

def FS.content (fs : FS) (i : Nat) : Option Nat := (fs.data.find? (fun e => e.1 = i)).map (·.2)

def FS.setData (fs : FS) (i c : Nat) : FS :=
  { fs with data := (i, c) :: fs.data.filter (fun e => e.1 ≠ i) }

/-- directory `q` has no entries -/
def FS.isEmptyDir (fs : FS) (q : Path) : Bool := fs.ents.all (fun e => e.1 = [] || e.1.dropLast ≠ q)

inductive Res where
  | found (p : Path) (k : Kind)       -- resolves to the existing entry at physical path p
  | missing (parent : Path) (n : Name) -- everything but the last component resolves to directory `parent`
  | err                               -- ENOENT/ENOTDIR on the way, or ELOOP
  deriving DecidableEq, Repr

/-- One pass over the components; `k` is what to do when a symbolic link has to be followed. -/
def walkAux (fs : FS) (follow : Bool) (k : Path → List Name → Res) : Path → List Name → Res
  | cur, [] => .found cur .dir
  | cur, n :: rest =>
    if n = dd then walkAux fs follow k cur.dropLast rest
    else match fs.lookup (cur ++ [n]) with
      | none => if rest = [] then .missing cur n else .err
      | some .dir => walkAux fs follow k (cur ++ [n]) rest
      | some (.file i) => if rest = [] then .found (cur ++ [n]) (.file i) else .err
      | some (.sym t) =>
        if rest = [] ∧ follow = false then .found (cur ++ [n]) (.sym t)
        else k (if t.abs then [] else cur) (t.comps ++ rest)

/-- Path resolution from physical directory `cur`; `fuel` = symbolic links that may still be followed. -/
def walk (fs : FS) (follow : Bool) : Nat → Path → List Name → Res
  | 0 => walkAux fs follow (fun _ _ => .err)
  | f + 1 => walkAux fs follow (walk fs follow f)

def lstat (fs : FS) (fu : Nat) (p : Path) : Res := walk fs false fu [] p
def stat (fs : FS) (fu : Nat) (p : Path) : Res := walk fs true fu [] p

/-- A system call's outcome: the filesystem afterwards and whether it succeeded. -/
abbrev Out := FS × Bool

def mkdir (fs : FS) (fu : Nat) (p : Path) : Out :=
  match lstat fs fu p with
  | .missing par n => (fs.set (par ++ [n]) .dir, true)
  | _ => (fs, false)

def isDirRes : Res → Bool
  | .found _ .dir => true
  | _ => false

/-- `os.MkdirAll` on the path whose components, last first, are `rp`. -/
def mkdirAllR (fs : FS) (fu : Nat) : List Name → Out
  | [] => (fs, true)
  | n :: rparent =>
    let p := (n :: rparent).reverse
    match stat fs fu p with
    | .found _ .dir => (fs, true)
    | .found _ _ => (fs, false)
    | _ =>
      match mkdirAllR fs fu rparent with
      | (fs1, false) => (fs1, false)
      | (fs1, true) =>
        match mkdir fs1 fu p with
        | (fs2, true) => (fs2, true)
        | (_, false) => (fs1, isDirRes (lstat fs1 fu p))

def mkdirAll (fs : FS) (fu : Nat) (p : Path) : Out := mkdirAllR fs fu p.reverse

/-- `os.OpenFile(p, O_CREATE|O_WRONLY|O_TRUNC)` followed by writing content `c`. -/
def openTrunc (fs : FS) (fu : Nat) (p : Path) (c : Nat) : Out :=
  match stat fs fu p with
  | .found _ (.file i) => (fs.setData i c, true)
  | .missing par n =>
    let i := fs.next
    (({ fs with next := i + 1 }.setData i c).set (par ++ [n]) (.file i), true)
  | _ => (fs, false)

/-- `os.Remove` (unlink, else rmdir); its error is ignored by the caller. -/
def remove (fs : FS) (fu : Nat) (p : Path) : FS :=
  match lstat fs fu p with
  | .found q .dir => if q ≠ [] ∧ fs.isEmptyDir q then fs.del q else fs
  | .found q _ => fs.del q
  | _ => fs

def symlink (fs : FS) (fu : Nat) (t : Target) (p : Path) : Out :=
  match lstat fs fu p with
  | .missing par n => (fs.set (par ++ [n]) (.sym t), true)
  | _ => (fs, false)

/-- `os.Link(old, new)`: link(2) does not follow a final symbolic link of `old`. -/
def link (fs : FS) (fu : Nat) (old new : Path) : Out :=
  match lstat fs fu old with
  | .found _ .dir => (fs, false)
  | .found _ k =>
    match lstat fs fu new with
    | .missing par n => (fs.set (par ++ [n]) k, true)
    | _ => (fs, false)
  | _ => (fs, false)

/-! ### lexical path functions (path/filepath) -/

/-- `filepath.Clean` of a relative path; `stack` is reversed. Leading ".." are kept. -/
def cleanRel (stack : List Name) : List Name → List Name
  | [] => stack.reverse
  | n :: rest =>
    if n = dd then
      match stack with
      | [] => cleanRel [dd] rest
      | top :: s => if top = dd then cleanRel (dd :: top :: s) rest else cleanRel s rest
    else cleanRel (n :: stack) rest

/-- `filepath.Clean` of an absolute path: ".." at the root is dropped. -/
def cleanAbs (stack : List Name) : List Name → List Name
  | [] => stack.reverse
  | n :: rest =>
    if n = dd then cleanAbs (stack.drop 1) rest else cleanAbs (n :: stack) rest

/-- `sanitizeTarPath`: the relative, cleaned name below `dest`, or a refusal.  (After Clean a ".."
    can only be leading, so the three textual tests collapse to "first component is .."; the
    absolute-prefix re-check can then not fail.) -/
def sanitize (name : Target) : Option (List Name) :=
  if name.abs then none
  else
    let c := cleanRel [] name.comps
    if c.head? = some dd then none else some c

/-- `validateSymlink`. -/
def validateSymlink (dest symPath : Path) (t : Target) : Bool :=
  !t.abs && dest.isPrefixOf (cleanAbs [] (symPath.dropLast ++ t.comps))

/-- `checkNoSymlinkComponents(destDir, cur ++ rel, includeLast)`, having verified `cur`. -/
def checkNoSym (fs : FS) (fu : Nat) (cur : Path) : List Name → Bool → Bool
  | [], _ => true
  | n :: rest, incl =>
    if rest = [] ∧ incl = false then true
    else match lstat fs fu (cur ++ [n]) with
      | .missing _ _ => true
      | .err => false
      | .found _ (.sym _) => false
      | .found _ _ => checkNoSym fs fu (cur ++ [n]) rest incl

inductive EType where
  | dir
  | reg (c : Nat)
  | sym (t : Target)
  | hard (t : Target)
  | other
  deriving DecidableEq, Repr

structure Entry where
  name : Target
  ty : EType
  deriving DecidableEq, Repr

def isSymRes : Res → Bool
  | .found _ (.sym _) => true
  | _ => false

/-- One iteration of the extraction loop. `false` = UntarDirectory returns an error here. -/
def stepEntry (fix : Bool) (fu : Nat) (dest : Path) (fs : FS) (e : Entry) : Out :=
  match sanitize e.name with
  | none => (fs, false)
  | some rel =>
    let target := dest ++ rel
    let isDir := match e.ty with | .dir => true | _ => false
    if fix && !checkNoSym fs fu dest rel isDir then (fs, false) else
    match e.ty with
    | .dir => mkdirAll fs fu target
    | .reg c =>
      match mkdirAll fs fu target.dropLast with
      | (fs1, false) => (fs1, false)
      | (fs1, true) =>
        let fs2 := if fix && isSymRes (lstat fs1 fu target) then remove fs1 fu target else fs1
        openTrunc fs2 fu target c
    | .sym t =>
      if fix && rel = [] then (fs, false) else
      if !validateSymlink dest target t then (fs, false) else
      match mkdirAll fs fu target.dropLast with
      | (fs1, false) => (fs1, false)
      | (fs1, true) => symlink (remove fs1 fu target) fu t target
    | .hard t =>
      if fix && rel = [] then (fs, false) else
      match sanitize t with
      | none => (fs, false)
      | some lrel =>
        if fix && !checkNoSym fs fu dest lrel true then (fs, false) else
        match mkdirAll fs fu target.dropLast with
        | (fs1, false) => (fs1, false)
        | (fs1, true) => link (remove fs1 fu target) fu (dest ++ lrel) target
    | .other => (fs, true)

def untarLoop (fix : Bool) (fu : Nat) (dest : Path) : FS → List Entry → Out
  | fs, [] => (fs, true)
  | fs, e :: es =>
    match stepEntry fix fu dest fs e with
    | (fs1, false) => (fs1, false)
    | (fs1, true) => untarLoop fix fu dest fs1 es

/-- `UntarDirectory(archive, dest)` for a well-formed archive. -/
def untar (fix : Bool) (fu : Nat) (dest : Path) (fs : FS) (es : List Entry) : Out :=
  match mkdirAll fs fu dest with
  | (fs1, false) => (fs1, false)
  | (fs1, true) => untarLoop fix fu dest fs1 es

end MM.C27
