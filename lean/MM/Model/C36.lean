/-
  Model of /repo/internal/embed/embed.go (AppendConfig, ReadEmbeddedConfig,
  HasEmbeddedConfig, GetOriginalBinarySize, CopyBinaryWithoutConfig, XOR).

  A file is its byte content.  Go's `int64(uint64)` conversion, `f.ReadAt`
  range behaviour and `make([]byte, n)` are explicit primitives with an
  explicit failure outcome, so "does not crash / does not read outside the
  file" is a statement about the model and not an artefact of totalisation.
  Constants (magic, XOR key, footer size) are regenerated from the source on
  every run into MM/Gen/C36.lean.
-/
import MM.Model.Bytes
import MM.Gen.C36

namespace MM.C36
open MM

def magic : Bytes := Gen.C36.magic
def xorKey : Bytes := Gen.C36.xorKey
/-- `FooterSize`; tied to the source by `footerSize_tie` in Props/C36.lean. -/
abbrev footerSize : Nat := 16

theorem keyLen_pos : 0 < xorKey.length := by decide

/-- `XOR(data)` starting at index `i`: `result[i] = b ^ XORKey[i % keyLen]`. -/
def xorFrom (i : Nat) : Bytes → Bytes
  | [] => []
  | b :: bs => (b ^^^ xorKey[i % xorKey.length]'(Nat.mod_lt _ keyLen_pos)) :: xorFrom (i+1) bs

def xor (data : Bytes) : Bytes := xorFrom 0 data

/-- Go's `int64(x)` for `x : uint64`. -/
def toInt64 (n : Nat) : Int :=
  if n % 2^64 < 2^63 then (n % 2^64 : Nat) else (n % 2^64 : Nat) - (2^64 : Int)

/-- `f.ReadAt(buf[:n], off)`: fails (error, nothing read past the file) unless the range lies
    inside the file. -/
def readAt (file : Bytes) (off : Int) (n : Nat) : Option Bytes :=
  if 0 ≤ off ∧ off + n ≤ file.length then some ((file.drop off.toNat).take n) else none

/-- Largest slice the runtime will even try to allocate (`maxAlloc` on amd64 is 2^48). -/
def maxAlloc : Int := 2^48

/-- `make([]byte, n)`: panics for a negative or out-of-range length. -/
def allocOK (n : Int) : Bool := decide (0 ≤ n ∧ n ≤ maxAlloc)

inductive Res (α : Type) where
  | ok (a : α)
  | noConfig          -- ErrNoEmbeddedConfig
  | tooLarge          -- ErrConfigTooLarge
  | already           -- ErrAlreadyEmbedded
  | ioErr             -- a read was refused because its range is not inside the file
  | panic             -- runtime panic (makeslice / slice bounds)
  deriving DecidableEq, Repr

/-- Last 16 bytes of a file of at least 16 bytes. -/
def footerOf (file : Bytes) : Bytes := file.drop (file.length - 16)

def footerMagic (footer : Bytes) : Bytes := footer.drop 8
def footerLen (footer : Bytes) : Nat := unle (footer.take 8)

/-- `HasEmbeddedConfig`. -/
def hasEmbedded (file : Bytes) : Bool :=
  if file.length < 16 then false else file.drop (file.length - 8) == magic

/-- `ReadEmbeddedConfig`, statement by statement (after the fix: the length is compared as an
    unsigned number against the bytes available before the footer). -/
def readEmbedded (file : Bytes) : Res Bytes :=
  let fileSize : Int := file.length
  if fileSize < 16 then .noConfig else
  match readAt file (fileSize - 16) 16 with
  | none => .ioErr
  | some footer =>
    if footerMagic footer ≠ magic then .noConfig else
    let configLen := footerLen footer
    if configLen = 0 then .noConfig else
    if configLen > (fileSize - 16).toNat then .tooLarge else
    let configStart : Int := fileSize - 16 - toInt64 configLen
    if !allocOK (toInt64 configLen) then .panic else
    match readAt file configStart configLen with
    | none => .ioErr
    | some xorConfig => .ok (xor xorConfig)

/-- The length handed to `make` by `ReadEmbeddedConfig`, when it gets that far. -/
def readAllocRequest (file : Bytes) : Option Int :=
  let fileSize : Int := file.length
  if fileSize < 16 then none else
  match readAt file (fileSize - 16) 16 with
  | none => none
  | some footer =>
    if footerMagic footer ≠ magic then none else
    let configLen := footerLen footer
    if configLen = 0 then none else
    if configLen > (fileSize - 16).toNat then none else
    some (toInt64 configLen)

/-- `GetOriginalBinarySize`. A failed footer read yields the file size (as in the code). -/
def originalSize (file : Bytes) : Res Int :=
  let fileSize : Int := file.length
  if fileSize < 16 then .ok fileSize else
  match readAt file (fileSize - 16) 16 with
  | none => .ok fileSize
  | some footer =>
    if footerMagic footer ≠ magic then .ok fileSize else
    let configLen := footerLen footer
    if configLen > (fileSize - 16).toNat then .tooLarge else
    .ok (fileSize - 16 - toInt64 configLen)

/-- `CopyBinaryWithoutConfig`: `make([]byte, origSize)` then `io.ReadFull` from offset 0. -/
def strip (file : Bytes) : Res Bytes :=
  match originalSize file with
  | .ok origSize =>
    if !allocOK origSize then .panic else
    match readAt file 0 origSize.toNat with
    | none => .ioErr
    | some data => .ok data
  | .tooLarge => .tooLarge
  | .noConfig => .noConfig
  | .already => .already
  | .ioErr => .ioErr
  | .panic => .panic

/-- `AppendConfig(src, dst, config)`: content of `dst`. -/
def appendConfig (src config : Bytes) : Res Bytes :=
  if src.length ≥ 16 ∧ src.drop (src.length - 8) = magic then .already else
  let xorConfig := xor config
  .ok (src ++ xorConfig ++ (leN 8 xorConfig.length ++ magic))

end MM.C36
