/-
  Model of /repo/internal/transport/transport.go : StreamIDAllocator
  (used by internal/peer/connection.go : Connection.NextStreamID, role = conn.IsDialer()).

      start := uint64(2); if isDialer { start = 1 };  a.next.Store(start)
      func (a *StreamIDAllocator) Next() uint64 { return a.next.Add(2) - 2 }

  `next` is an `atomic.Uint64`: `Add` is one indivisible read-modify-write (trusted Go
  primitive), the subtraction is goroutine-local.  Hence every execution of any number of
  goroutines calling `Next` concurrently is a SEQUENCE of atomic steps on the shared counter —
  a schedule says which goroutine performs the next step.  Arithmetic is modulo 2^64 as in Go.
-/
import MM.Gen.C38

namespace MM.C38

abbrev W : Nat := 2^64

/-- Initial counter value (`NewStreamIDAllocator`). -/
def start (isDialer : Bool) : Nat := if isDialer then Gen.C38.startDialer else Gen.C38.startListener

/-- One `Next()`: `(new counter, returned id)` — `Add(2)` wraps, then `- 2` wraps. -/
def next (ctr : Nat) : Nat × Nat :=
  let new := (ctr + Gen.C38.delta) % W
  (new, (new + W - Gen.C38.delta) % W)

/-- Run a schedule (list of goroutine ids, one per atomic step) from a counter value; result:
    which goroutine obtained which id, in linearisation order. -/
def run : Nat → List Nat → List (Nat × Nat)
  | _, [] => []
  | ctr, g :: rest => (g, (next ctr).2) :: run (next ctr).1 rest

/-- Ids handed out by an allocator of the given role under a schedule. -/
def ids (isDialer : Bool) (sched : List Nat) : List Nat := (run (start isDialer) sched).map (·.2)

end MM.C38
