/-
  Model of /repo/internal/config/config.go : expandEnvVars.

      var envVarRegex = regexp.MustCompile(`\$\{([^}]+)\}|\$([A-Za-z_][A-Za-z0-9_]*)`)
      func expandEnvVars(s string) string {
          return envVarRegex.ReplaceAllStringFunc(s, func(match string) string { ... })
      }

  The matcher is modelled on BYTES.  That is exact for Go's rune-based regexp because every
  metacharacter of the pattern (`$ { }` and the identifier classes) is ASCII: an ASCII byte
  never occurs inside a multi-byte UTF-8 sequence, an invalid byte is decoded as one rune of
  width one which `[^}]` accepts and the identifier classes reject, and `[^}]` also accepts
  newline.  `ReplaceAllStringFunc` scans left to right for the leftmost position at which the
  pattern matches (first alternative preferred, both alternatives are deterministic once the
  start is fixed: `[^}]+\}` ends at the first `}`; `[A-Za-z0-9_]*` is greedy), replaces the
  match, and continues after it; matches are never empty.

  `tokens` does not take the environment: the partition of the text into literal bytes and
  references is decided before any value is looked at, and `expand` maps every token once.
-/
import MM.Model.Bytes

namespace MM.C37
open MM

/-- `os.LookupEnv` as a partial map.  (On Linux: the empty key and keys containing `=`/NUL are
    never present; the theorems hold for every map.) -/
abbrev Env := Bytes → Option Bytes

abbrev cDollar : UInt8 := 0x24  -- '$'
abbrev cLBrace : UInt8 := 0x7B  -- '{'
abbrev cRBrace : UInt8 := 0x7D  -- '}'
abbrev cColon : UInt8 := 0x3A   -- ':'
abbrev cMinus : UInt8 := 0x2D   -- '-'

/-- `[A-Za-z_]` -/
def isIdStart (b : UInt8) : Bool :=
  (0x41 ≤ b && b ≤ 0x5A) || (0x61 ≤ b && b ≤ 0x7A) || b == 0x5F

/-- `[A-Za-z0-9_]` -/
def isIdChar (b : UInt8) : Bool := isIdStart b || (0x30 ≤ b && b ≤ 0x39)

def notRBrace (b : UInt8) : Bool := b != cRBrace

inductive Tok where
  | lit (b : UInt8)        -- a byte copied through
  | brace (name : Bytes)   -- `${name}`   (first alternative, group 1 = name)
  | bare (name : Bytes)    -- `$name`     (second alternative, group 2 = name)
  deriving DecidableEq, Repr

/-- The text a token was read from. -/
def Tok.src : Tok → Bytes
  | .lit b => [b]
  | .brace n => cDollar :: cLBrace :: (n ++ [cRBrace])
  | .bare n => cDollar :: n

/-- After a `$`: does `\{([^}]+)\}` match here?  Returns group 1. -/
def braceName : Bytes → Option Bytes
  | [] => none
  | c :: rest =>
    if c = cLBrace then
      let name := rest.takeWhile notRBrace
      -- a closing brace follows iff something is left after the name (checked without measuring `rest`)
      if name ≠ [] ∧ rest.drop name.length ≠ [] then some name else none
    else none

/-- After a `$`: does `([A-Za-z_][A-Za-z0-9_]*)` match here?  Returns group 2 (greedy). -/
def bareName : Bytes → Option Bytes
  | [] => none
  | c :: rest => if isIdStart c then some (c :: rest.takeWhile isIdChar) else none

/-- Leftmost-first, non-overlapping matches of the pattern over the whole text. -/
def tokens : Bytes → List Tok
  | [] => []
  | b :: rest =>
    if b = cDollar then
      match braceName rest with
      | some name => .brace name :: tokens (rest.drop (name.length + 2))
      | none =>
        match bareName rest with
        | some name => .bare name :: tokens (rest.drop name.length)
        | none => .lit b :: tokens rest
    else .lit b :: tokens rest
termination_by s => s.length
decreasing_by all_goals simp [List.length_drop] <;> omega

/-- `strings.Index(name, ":-")`: split at the FIRST `:-`. -/
def splitDefault : Bytes → Option (Bytes × Bytes)
  | [] => none
  | b :: rest =>
    if b = cColon ∧ rest.head? = some cMinus then some ([], rest.tail)
    else match splitDefault rest with
      | some (v, d) => some (b :: v, d)
      | none => none

/-- Body of the replacement callback: `name` is the extracted name, `orig` the matched text. -/
def replacement (env : Env) (name orig : Bytes) : Bytes :=
  match splitDefault name with
  | some (v, d) =>
    match env v with
    | some val => val
    | none => d
  | none =>
    match env name with
    | some val => val
    | none => orig

def subst (env : Env) : Tok → Bytes
  | .lit b => [b]
  | .brace n => replacement env n (Tok.src (.brace n))
  | .bare n => replacement env n (Tok.src (.bare n))

def expand (env : Env) (s : Bytes) : Bytes := (tokens s).flatMap (subst env)

/-- Environment given as an association list (the harness sets the variables in order, so the
    last binding of a key wins). -/
def envOfList (l : List (Bytes × Bytes)) : Env := fun k =>
  match l.reverse.find? (fun p => p.1 == k) with
  | some p => some p.2
  | none => none

end MM.C37
