/-
  C17 — bookkeeping of the exit handler (internal/exit/handler.go) and of the port-forward exit
  handler (internal/forward/handler.go); the two files share this logic line by line:

      connections map[uint64]*ActiveConnection      keyed by the BARE stream id
      connCount   atomic.Int64

    handleStreamOpenAsync : displaced := connections[id]; connections[id] = ac; if displaced == nil
                            { connCount.Add(1) } else { displaced.Close() }          (after a successful dial)
    removeConnection(id)  : if present { delete(connections, id); connCount.Add(-1) }
    closeConnection(id,p) : ac := removeConnection(id); if ac != nil { ac.Close(); WriteStreamClose(p, id) }
    HandleStreamData      : ac := connections[id]; decrypt with ac.sessionKey — a frame sealed under the
                            key of ANOTHER tunnel fails to decrypt → closeConnection(id, sender)
    readLoop(ac) exit     : closeRecord(ac)  — removes the record only if it is still stored under its id
                            (repaired by fixes/C17-teardown-compares-record.patch; the pinned code tore down
                            by id and counted a displaced record twice)
  Every accepted open gets a serial number (the order of successful dials); the serial stands for the
  record `ac`, its destination socket and its session key.
-/
import MM.Model.C16

namespace MM.C17

/-- One `ActiveConnection`; stored in the same association-list map type as the relay table
    (`MM.C16.Map`), with the fields read as: `upId` = StreamID, `upPeer` = RemoteID,
    `downId` = serial of the record (`downPeer` unused). -/
abbrev Conn := MM.C16.Entry

def Conn.mk' (id peer serial : Nat) : Conn := ⟨peer, id, 0, serial⟩
abbrev _root_.MM.C16.Entry.id (c : Conn) : Nat := c.upId
abbrev _root_.MM.C16.Entry.peer (c : Conn) : Nat := c.upPeer
abbrev _root_.MM.C16.Entry.serial (c : Conn) : Nat := c.downId

abbrev CMap := MM.C16.Map

structure Handler where
  conns : CMap := []
  count : Int := 0
  next : Nat := 0              -- serial of the next successful open
  dstOpen : List Nat := []     -- serials whose destination socket is still open
  max : Nat := 0               -- cfg.MaxConnections (0 = unlimited)
  wclosed : List Nat := []     -- serials whose destination write side was shut (FIN_WRITE from the client)
  deriving Repr

inductive Ev
  | ack (peer id : Nat)
  | err (peer id : Nat)         -- WriteStreamOpenErr
  | close (peer id : Nat)       -- WriteStreamClose
  | fin (peer id : Nat)         -- WriteStreamData(…, FIN_WRITE)
  | dst (serial : Nat)          -- bytes written to the destination socket of `serial`
  | dstClosed (serial : Nat)    -- destination socket of `serial` closed by the handler
  deriving DecidableEq, Repr

namespace Handler

/-- successful `handleStreamOpenAsync` (the record gets serial `h.next`).  A record already stored
    under the id is displaced: the slot is counted once, the displaced connection is closed. -/
def opened (h : Handler) (id peer : Nat) : Handler × List Ev :=
  match h.conns.get id with
  | some old =>
    ({ h with conns := h.conns.set id (Conn.mk' id peer h.next), next := h.next + 1,
              dstOpen := h.next :: h.dstOpen.filter (· != old.serial) },
     (if h.dstOpen.contains old.serial then [.dstClosed old.serial] else []) ++ [.ack peer id])
  | none =>
    ({ h with conns := h.conns.set id (Conn.mk' id peer h.next), count := h.count + 1, next := h.next + 1,
              dstOpen := h.next :: h.dstOpen },
     [.ack peer id])

/-- An open that is refused — connection limit, unknown forward key, resolve failure, destination
    not allowed, key generation / key exchange failure (all-zero or low-order ephemeral key), dial
    failure: `sendOpenErr` and nothing else; in particular `connCount` is untouched. -/
def openFail (h : Handler) (id peer : Nat) : Handler × List Ev := (h, [.err peer id])

/-- `HandleStreamOpen` with a reachable destination and a usable key: refused at the limit. -/
def tryOpen (h : Handler) (id peer : Nat) : Handler × List Ev :=
  if h.max > 0 ∧ h.count ≥ (h.max : Int) then h.openFail id peer else h.opened id peer

/-- `removeConnection`. -/
def remove (h : Handler) (id : Nat) : Handler × Option Conn :=
  match h.conns.get id with
  | some c => ({ h with conns := h.conns.del id, count := h.count - 1 }, some c)
  | none => (h, none)

/-- `closeConnection(id, notify)`. -/
def closeConn (h : Handler) (id notify : Nat) : Handler × List Ev :=
  match h.remove id with
  | (h', some c) =>
    ({ h' with dstOpen := h'.dstOpen.filter (· != c.serial) },
     (if h'.dstOpen.contains c.serial then [.dstClosed c.serial] else []) ++ [.close notify id])
  | (h', none) => (h', [])

/-- `HandleStreamData` with a payload sealed under the key of tunnel `serial`. -/
def data (h : Handler) (id fromPeer serial : Nat) : Handler × List Ev :=
  match h.conns.get id with
  | none => (h, [])
  | some c =>
    if !h.dstOpen.contains c.serial then (h, [])           -- ac.IsClosed()
    else if c.serial = serial then
      (if h.wclosed.contains c.serial then h.closeConn id fromPeer   -- write after CloseWrite fails
       else (h, [.dst c.serial]))
    else h.closeConn id fromPeer                           -- decrypt error

/-- `closeRecord(ac)`: tear down exactly the record `c` — only if it is still the one stored under
    its id. -/
def closeRecord (h : Handler) (c : Conn) : Handler × List Ev :=
  match h.conns.get c.id with
  | some cur =>
    if cur.serial = c.serial then
      ({ h with conns := h.conns.del c.id, count := h.count - 1, dstOpen := h.dstOpen.filter (· != c.serial) },
       (if h.dstOpen.contains c.serial then [.dstClosed c.serial] else []) ++ [.close c.peer c.id])
    else ({ h with dstOpen := h.dstOpen.filter (· != c.serial) }, [])
  | none => ({ h with dstOpen := h.dstOpen.filter (· != c.serial) }, [])

/-- the destination of `serial` closed its side: `readLoop` sends FIN and runs its deferred
    `closeRecord(ac)`. -/
def dstEof (h : Handler) (c : Conn) : Handler × List Ev :=
  let h1 := { h with dstOpen := h.dstOpen.filter (· != c.serial) }
  let (h2, evs) := h1.closeRecord c
  (h2, [.fin c.peer c.id] ++ evs)

end Handler

inductive Op
  | opened (id peer : Nat)
  | openFail (id peer : Nat)
  | data (id fromPeer serial : Nat)
  | close (id fromPeer : Nat)      -- STREAM_CLOSE / STREAM_RESET
  | dstEof (c : Conn)
  deriving Repr

def Handler.apply (h : Handler) : Op → Handler × List Ev
  | .opened id peer => h.opened id peer
  | .openFail id peer => h.openFail id peer
  | .data id p s => h.data id p s
  | .close id p => h.closeConn id p
  | .dstEof c => h.dstEof c

def Handler.run (h : Handler) (ops : List Op) : Handler := ops.foldl (fun h o => (h.apply o).1) h

end MM.C17
