/-
  Model of connection registration and teardown in internal/peer/manager.go
  (registerConnection, handleDisconnect, readLoop, keepaliveLoop, Disconnect, DisconnectAll)
  composed with internal/agent/agent.go:handlePeerDisconnect (routes and relay entries are removed
  BY PEER ID).

  Connections are numbered in order of creation.  `peers : peer id → Option connection` is the
  manager's map.  Routes and relay entries carry GHOST TAGS: the connection(s) that were registered
  for their peer(s) when they were learned — the code does not have them, the property talks about
  them.  Atomic steps = regions under `Manager.mu` plus the callback that follows:

    connect p      a handshake with peer p completes → registerConnection (register or reject+close)
    frame c        the remote end sends a frame on c (delivered to OnFrame iff the read loop runs)
    ktimeout c     keepaliveLoop: `conn.Close(); m.handleDisconnect(conn, timeout)`
    rclose c       the remote end closes c (the read loop's Read will fail)
    disconnect p / disconnectAll      map entry removed, connection closed (no callback here)
    readerr c      readLoop: Read failed → `conn.Close(); m.handleDisconnect(conn, err)`
    readSilent c   readLoop: a frame that was still in flight when the connection was closed locally is
                   read; back at the top of its loop the read loop finds `conn.Done()` closed and
                   returns WITHOUT calling handleDisconnect (no callback, no reconnect)
    learn / relay  the agent learns routes via p / creates a relay entry between p and q

  `fx = true`: code after fixes/C32-skip-stale-disconnect-callback.patch; `fx = false` before.
-/
namespace MM.C32

structure Conn where
  peer : Nat := 0
  exists_ : Bool := false
  started : Bool := false      -- was registered: read loop and keepalive loop were started
  closed : Bool := false       -- Close() has been called on it locally
  readErr : Bool := false      -- its read loop's blocked Read fails (local close or remote close) …
  readDone : Bool := false     -- … and the read loop has processed that (ran handleDisconnect, exited)
  rejected : Bool := false     -- duplicate: closed by registerConnection, never started
  delivered : Nat := 0         -- frames handed to OnFrame
  deriving DecidableEq, Repr

/-- A route (`q = p`, `tq = tp`) or a relay entry between peers `p` and `q`; `tp`/`tq` = the
    connections registered for `p`/`q` when it was created (ghost). -/
structure Entry where
  p : Nat
  q : Nat
  tp : Nat
  tq : Nat
  relay : Bool
  deriving DecidableEq, Repr

structure S where
  conn : Nat → Conn := fun _ => {}
  next : Nat := 0
  peers : Nat → Option Nat := fun _ => none
  entries : List Entry := []

def S.setConn (s : S) (i : Nat) (c : Conn) : S :=
  { s with conn := fun j => if j = i then c else s.conn j }

def S.setPeer (s : S) (p : Nat) (v : Option Nat) : S :=
  { s with peers := fun x => if x = p then v else s.peers x }

/-- `agent.handlePeerDisconnect`: routes with next hop `p` and relay entries involving `p` go. -/
def callback (s : S) (p : Nat) : S :=
  { s with entries := s.entries.filter (fun e => e.p != p && e.q != p) }

/-- `Manager.handleDisconnect(conn)`. -/
def handleDisconnect (fx : Bool) (s : S) (c : Nat) : S :=
  let p := (s.conn c).peer
  match s.peers p with
  | some c' =>
    if c' = c then callback (s.setPeer p none) p
    else if fx then s                      -- fixed: another connection is registered → stale, do nothing
    else callback s p                      -- before the fix: the callback ran anyway
  | none => callback s p

inductive Label where
  | connect (p : Nat)
  | frame (c : Nat)
  | ktimeout (c : Nat)
  | rclose (c : Nat)
  | disconnect (p : Nat)
  | disconnectAll (ps : List Nat)      -- the peer ids currently in the map
  | readerr (c : Nat)
  | readSilent (c : Nat)
  | learn (p : Nat) (n : Nat)
  | relay (p q : Nat)
  deriving DecidableEq, Repr

def closeConn (s : S) (c : Nat) : S :=
  s.setConn c { s.conn c with closed := true, readErr := true }

def disconnectPeer (s : S) (p : Nat) : S :=
  match s.peers p with
  | some c => closeConn (s.setPeer p none) c
  | none => s

/-- One step; the `String` is what the harness observes for that operation. -/
def step (fx : Bool) (s : S) : Label → S × String
  | .connect p =>
    let c := s.next
    let s := { s with next := s.next + 1 }
    match s.peers p with
    | some _ => (s.setConn c { peer := p, exists_ := true, closed := true, rejected := true }, "rejected")
    | none => ((s.setConn c { peer := p, exists_ := true, started := true }).setPeer p (some c), "registered")
  | .frame c =>
    let k := s.conn c
    if k.started && !k.closed && !k.readErr then
      (s.setConn c { k with delivered := k.delivered + 1 }, "delivered")
    else (s, "dropped")
  | .ktimeout c =>
    let k := s.conn c
    if k.started && !k.closed then (handleDisconnect fx (closeConn s c) c, "ok") else (s, "notopen")
  | .rclose c =>
    let k := s.conn c
    if k.started && !k.closed && !k.readErr then (s.setConn c { k with readErr := true }, "ok") else (s, "notopen")
  | .disconnect p =>
    match s.peers p with
    | some _ => (disconnectPeer s p, "ok")
    | none => (s, "notfound")
  | .disconnectAll ps => (ps.foldl disconnectPeer s, "ok")
  | .readerr c =>
    let k := s.conn c
    if k.started && k.readErr && !k.readDone then
      (handleDisconnect fx (s.setConn c { k with closed := true, readDone := true }) c, "ok")
    else (s, "noloop")
  | .readSilent c =>
    let k := s.conn c
    if k.started && k.closed && !k.readDone then (s.setConn c { k with readDone := true }, "silent")
    else (s, "noloop")
  | .learn p n =>
    match s.peers p with
    | some c => ({ s with entries := s.entries ++ List.replicate n ⟨p, p, c, c, false⟩ }, "ok")
    | none => (s, "noconn")
  | .relay p q =>
    match s.peers p, s.peers q with
    | some c, some c' => ({ s with entries := s.entries ++ [⟨p, q, c, c', true⟩] }, "ok")
    | _, _ => (s, "noconn")

def routesVia (s : S) (p : Nat) : Nat := (s.entries.filter (fun e => !e.relay && e.p == p)).length
def relaysOf (s : S) (p : Nat) : Nat := (s.entries.filter (fun e => e.relay && (e.p == p || e.q == p))).length

def run (fx : Bool) : S → List Label → S
  | s, [] => s
  | s, l :: ls => run fx (step fx s l).1 ls

end MM.C32
