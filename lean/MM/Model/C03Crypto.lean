/-
  Executable reference implementations used ONLY by the C03 correspondence engine (they validate the
  byte-level model of `DeriveSessionKey`'s salt/info layout and of `ComputeECDH`'s refusals against
  the real code): SHA-256, HMAC, HKDF (RFC 5869) and X25519 (RFC 7748, Montgomery ladder over Nat).
  No theorem depends on them.  Core Lean only.
-/
import MM.Model.Bytes

namespace MM.C03
open MM

/-! ### SHA-256 -/

def shaK : Array UInt32 := #[
  0x428a2f98, 0x71374491, 0xb5c0fbcf, 0xe9b5dba5, 0x3956c25b, 0x59f111f1, 0x923f82a4, 0xab1c5ed5,
  0xd807aa98, 0x12835b01, 0x243185be, 0x550c7dc3, 0x72be5d74, 0x80deb1fe, 0x9bdc06a7, 0xc19bf174,
  0xe49b69c1, 0xefbe4786, 0x0fc19dc6, 0x240ca1cc, 0x2de92c6f, 0x4a7484aa, 0x5cb0a9dc, 0x76f988da,
  0x983e5152, 0xa831c66d, 0xb00327c8, 0xbf597fc7, 0xc6e00bf3, 0xd5a79147, 0x06ca6351, 0x14292967,
  0x27b70a85, 0x2e1b2138, 0x4d2c6dfc, 0x53380d13, 0x650a7354, 0x766a0abb, 0x81c2c92e, 0x92722c85,
  0xa2bfe8a1, 0xa81a664b, 0xc24b8b70, 0xc76c51a3, 0xd192e819, 0xd6990624, 0xf40e3585, 0x106aa070,
  0x19a4c116, 0x1e376c08, 0x2748774c, 0x34b0bcb5, 0x391c0cb3, 0x4ed8aa4a, 0x5b9cca4f, 0x682e6ff3,
  0x748f82ee, 0x78a5636f, 0x84c87814, 0x8cc70208, 0x90befffa, 0xa4506ceb, 0xbef9a3f7, 0xc67178f2]

def shaInit : Array UInt32 := #[
  0x6a09e667, 0xbb67ae85, 0x3c6ef372, 0xa54ff53a, 0x510e527f, 0x9b05688c, 0x1f83d9ab, 0x5be0cd19]

def rotr (x : UInt32) (n : UInt32) : UInt32 := (x >>> n) ||| (x <<< (32 - n))

def be32 (a b c d : UInt8) : UInt32 :=
  (a.toUInt32 <<< 24) ||| (b.toUInt32 <<< 16) ||| (c.toUInt32 <<< 8) ||| d.toUInt32

/-- Message schedule of one 64-byte block. -/
def schedule (blk : Array UInt8) : Array UInt32 := Id.run do
  let mut w : Array UInt32 := Array.mkEmpty 64
  for t in [0:16] do
    w := w.push (be32 blk[4*t]! blk[4*t+1]! blk[4*t+2]! blk[4*t+3]!)
  for t in [16:64] do
    let w15 := w[t-15]!
    let w2 := w[t-2]!
    let s0 := rotr w15 7 ^^^ rotr w15 18 ^^^ (w15 >>> 3)
    let s1 := rotr w2 17 ^^^ rotr w2 19 ^^^ (w2 >>> 10)
    w := w.push (w[t-16]! + s0 + w[t-7]! + s1)
  return w

def compress (h : Array UInt32) (blk : Array UInt8) : Array UInt32 := Id.run do
  let w := schedule blk
  let mut a := h[0]!
  let mut b := h[1]!
  let mut c := h[2]!
  let mut d := h[3]!
  let mut e := h[4]!
  let mut f := h[5]!
  let mut g := h[6]!
  let mut hh := h[7]!
  for t in [0:64] do
    let s1 := rotr e 6 ^^^ rotr e 11 ^^^ rotr e 25
    let ch := (e &&& f) ^^^ ((~~~ e) &&& g)
    let t1 := hh + s1 + ch + shaK[t]! + w[t]!
    let s0 := rotr a 2 ^^^ rotr a 13 ^^^ rotr a 22
    let maj := (a &&& b) ^^^ (a &&& c) ^^^ (b &&& c)
    let t2 := s0 + maj
    hh := g; g := f; f := e; e := d + t1; d := c; c := b; b := a; a := t1 + t2
  return #[h[0]! + a, h[1]! + b, h[2]! + c, h[3]! + d, h[4]! + e, h[5]! + f, h[6]! + g, h[7]! + hh]

def shaPad (msg : Bytes) : Bytes :=
  let l := msg.length
  let z := (64 - (l + 9) % 64) % 64
  msg ++ [0x80] ++ List.replicate z 0 ++ beN 8 (8 * l)

def sha256 (msg : Bytes) : Bytes := Id.run do
  let data := (shaPad msg).toArray
  let mut h := shaInit
  for i in [0:data.size / 64] do
    h := compress h (data.extract (64*i) (64*i + 64))
  let mut out : Bytes := []
  for x in h.toList do
    out := out ++ beN 4 x.toNat
  return out

def xorPad (key : Bytes) (b : UInt8) : Bytes := key.map (· ^^^ b)

def hmac (key msg : Bytes) : Bytes :=
  let k0 := if key.length > 64 then sha256 key else key
  let k := k0 ++ List.replicate (64 - k0.length) 0
  sha256 (xorPad k 0x5c ++ sha256 (xorPad k 0x36 ++ msg))

/-- First `n ≤ 32` bytes of HKDF-SHA256(ikm, salt, info). -/
def hkdf32 (ikm salt info : Bytes) : Bytes :=
  let prk := hmac (if salt.isEmpty then List.replicate 32 0 else salt) ikm
  hmac prk (info ++ [1])

/-! ### X25519 -/

def p25519 : Nat := 2^255 - 19

def powMod (b e m : Nat) : Nat := Id.run do
  let mut r := 1
  let mut b := b % m
  let mut e := e
  for _ in [0:256] do
    if e % 2 = 1 then r := r * b % m
    b := b * b % m
    e := e / 2
  return r

/-- RFC 7748 X25519(k, u) on 32-byte strings. -/
def x25519 (k u : Bytes) : Bytes := Id.run do
  let p := p25519
  let kn0 := unle k
  -- clamp
  let kn := (kn0 % 2^255 / 8 * 8) % 2^254 + 2^254
  let x1 := (unle u % 2^255) % p
  let mut x2 := 1
  let mut z2 := 0
  let mut x3 := x1
  let mut z3 := 1
  let mut swap := 0
  for i in [0:255] do
    let t := 254 - i
    let kt := (kn / 2^t) % 2
    if swap ≠ kt then
      (x2, x3) := (x3, x2)
      (z2, z3) := (z3, z2)
    swap := kt
    let a := (x2 + z2) % p
    let aa := a * a % p
    let b := (x2 + p - z2) % p
    let bb := b * b % p
    let e := (aa + p - bb) % p
    let c := (x3 + z3) % p
    let d := (x3 + p - z3) % p
    let da := d * a % p
    let cb := c * b % p
    x3 := (da + cb) % p * ((da + cb) % p) % p
    z3 := x1 * ((da + p - cb) % p * ((da + p - cb) % p) % p) % p
    x2 := aa * bb % p
    z2 := e * ((aa + 121665 * e) % p) % p
  if swap = 1 then
    (x2, x3) := (x3, x2)
    (z2, z3) := (z3, z2)
  return leN 32 (x2 * powMod z2 (p - 2) p % p)

def basePoint : Bytes := 9 :: List.replicate 31 0

end MM.C03
