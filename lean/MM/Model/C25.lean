/-
  Model of /repo/internal/shell/executor.go: ValidateAuth, hasWildcard, IsCommandAllowed,
  ValidateArgs, AcquireSession, ReleaseSession, validateAndAcquire — statement by statement.

  Strings are Go strings, i.e. byte sequences (`Bytes`).  `dangerousArgPattern` is one regexp
  character class; the harness re-reads it from the compiled package on every run
  (`MM/Gen/C25.lean`: the class as rune ranges, all below 0x80, so matching a Go string against
  it is "some byte lies in a range").  bcrypt is an abstract predicate `pwOK hash password`.
  The session counter is the mutex-protected `e.sessions`; `AcquireSession` / `ReleaseSession`
  are single atomic steps (their bodies run under `e.mu`).
-/
import MM.Model.Bytes
import MM.Gen.C25

namespace MM.C25
open MM

structure Cfg where
  enabled : Bool
  whitelist : List Bytes
  hash : Bytes          -- PasswordHash; empty = no password configured
  maxSessions : Int     -- Go int; <= 0 means unlimited
  deriving Repr

structure Meta where
  command : Bytes
  args : List Bytes
  password : Bytes
  env : List Bytes := []     -- the request's environment map as "key=value" strings (map order is not fixed)
  workDir : Bytes := []      -- the request's working directory ("" = the agent's)
  deriving Repr

inductive Verdict where
  | ok
  | disabled
  | authRequired
  | badCreds
  | notAllowed
  | dangerous (i : Nat)
  | absArg (i : Nat)
  | maxSessions
  deriving DecidableEq, Repr

/-- One byte against the regenerated character class. -/
def inClass (ranges : List (Nat × Nat)) (b : UInt8) : Bool :=
  ranges.any (fun r => decide (r.1 ≤ b.toNat) && decide (b.toNat ≤ r.2))

/-- `dangerousArgPattern.MatchString(arg)`. -/
def dangerous (arg : Bytes) : Bool := arg.any (inClass Gen.C25.dangerousClass)

/-- `filepath.IsAbs` on unix: the string starts with '/'. -/
def isAbs (arg : Bytes) : Bool :=
  match arg with
  | b :: _ => b == 0x2f
  | [] => false

/-- `hasWildcard`: some whitelist entry is exactly "*". -/
def hasWildcard (c : Cfg) : Bool := c.whitelist.any (· == [0x2a])

/-- `strings.ContainsAny(command, "/\\")`. -/
def hasSep (cmd : Bytes) : Bool := cmd.any (fun b => b == 0x2f || b == 0x5c)

/-- `ValidateAuth` with bcrypt abstracted to `pwOK`. -/
def validateAuth (pwOK : Bytes → Bytes → Bool) (c : Cfg) (password : Bytes) : Option Verdict :=
  if c.hash = [] then none
  else if password = [] then some .authRequired
  else if pwOK c.hash password then none
  else some .badCreds

/-- `IsCommandAllowed`. -/
def isCommandAllowed (c : Cfg) (cmd : Bytes) : Bool :=
  if c.whitelist.length = 0 then false
  else if hasWildcard c then true
  else if hasSep cmd then false
  else c.whitelist.any (· == cmd)

/-- The argument loop of `ValidateArgs`, `i` = index of the head. -/
def argLoop (i : Nat) : List Bytes → Option Verdict
  | [] => none
  | a :: rest =>
    if dangerous a then some (.dangerous i)
    else if isAbs a then some (.absArg i)
    else argLoop (i+1) rest

/-- `ValidateArgs`. -/
def validateArgs (c : Cfg) (args : List Bytes) : Option Verdict :=
  if hasWildcard c then none else argLoop 0 args

/-- `AcquireSession` (one critical section): refuse at the limit, else increment. -/
def acquire (c : Cfg) (sessions : Int) : Verdict × Int :=
  if c.maxSessions > 0 ∧ sessions ≥ c.maxSessions then (.maxSessions, sessions)
  else (.ok, sessions + 1)

/-- `ReleaseSession` (one critical section): decrement, clamped at zero. -/
def release (sessions : Int) : Int := if sessions > 0 then sessions - 1 else sessions

/-- `validateAndAcquire`: verdict and the counter afterwards. -/
def validateAndAcquire (pwOK : Bytes → Bytes → Bool) (c : Cfg) (m : Meta) (sessions : Int) :
    Verdict × Int :=
  if !c.enabled then (.disabled, sessions) else
  match validateAuth pwOK c m.password with
  | some v => (v, sessions)
  | none =>
    if !isCommandAllowed c m.command then (.notAllowed, sessions) else
    match validateArgs c m.args with
    | some v => (v, sessions)
    | none => acquire c sessions

/-- The argument vector of the process `NewSession` / `NewPTYSession` build after admission:
    `exec.CommandContext(ctx, meta.Command, meta.Args...)` — the request's own command and arguments,
    unchanged. -/
def processArgv (m : Meta) : List Bytes := m.command :: m.args

/-- What else of the request reaches `exec.Cmd`, unvalidated (executor.go NewSession, pty_unix.go
    NewPTYSession): `cmd.Dir = meta.WorkDir` when non-empty, and `cmd.Env` = the agent's own
    environment followed by (PTY: `TERM=<tty.Term>` first) the request's `key=value` pairs; a
    non-PTY session without request pairs leaves `cmd.Env` nil (inherit). -/
structure ExecSurface where
  argv : List Bytes
  dir : Bytes
  envInherited : Bool          -- cmd.Env is nil / a copy of os.Environ() followed by `envExtra`
  envExtra : List Bytes
  deriving Repr

def execSurface (pty : Bool) (term : Bytes) (m : Meta) : ExecSurface :=
  { argv := processArgv m, dir := m.workDir,
    envInherited := !pty && m.env.isEmpty,
    envExtra := (if pty then [("TERM=".toUTF8.toList) ++ term] else []) ++ m.env }

/-! ### The session counter under concurrency

Threads interleave at the granularity of the two critical sections.  `held` is the ghost count of
sessions that acquired a slot and have not released it yet; a release step is taken only by such
a session (handler.go `releaseSession` is guarded by `ss.Released`, and the error paths of
`NewSession` / `NewPTYSession` / `handleMetadata` release exactly once before the session is
published). -/

structure St where
  counter : Int
  held : Nat
  deriving Repr

inductive Step (c : Cfg) : St → St → Prop where
  | acquireOk (s : St) (h : ¬ (c.maxSessions > 0 ∧ s.counter ≥ c.maxSessions)) :
      Step c s ⟨s.counter + 1, s.held + 1⟩
  | acquireFail (s : St) (h : c.maxSessions > 0 ∧ s.counter ≥ c.maxSessions) : Step c s s
  | release (s : St) (h : s.held > 0) : Step c s ⟨release s.counter, s.held - 1⟩

inductive Reachable (c : Cfg) : St → Prop where
  | init : Reachable c ⟨0, 0⟩
  | step {s t : St} : Reachable c s → Step c s t → Reachable c t

/-- The conclusion of the statement as a decidable predicate on one request (used by the
    engine's `spec` mode on the implementation's own answers). -/
def authorised (pwOK : Bytes → Bytes → Bool) (c : Cfg) (m : Meta) : Bool :=
  c.enabled && (c.hash == [] || pwOK c.hash m.password) &&
  (hasWildcard c ||
    (c.whitelist.any (· == m.command) && !hasSep m.command &&
      m.args.all (fun a => !dangerous a && !isAbs a)))

end MM.C25
