/-
  Model of /repo/internal/socks5/handler.go (`Handle`, `authenticate`, `readRequest`,
  `handleConnect`, `handleUDPAssociate`, `handleICMPEcho`, `sendReply`, `mapErrorToReply`) and of
  /repo/internal/socks5/auth.go (`NoAuthAuthenticator`, `UserPassAuthenticator.Authenticate`).

  The handler is a function from the bytes a client sends to
    * the list of messages the server writes (one element per `conn.Write`), and
    * the action it takes (dial / create a UDP association / create an ICMP session / nothing).

  `io.ReadFull(conn, buf)` on a stream that ends early is `readFull` returning `none`; the
  handler then returns an error without writing anything more.  The environment's answers (result
  of the dial, whether the client-disconnect monitor cancelled the dial context first, the UDP /
  ICMP back-ends) are explicit parameters, so every theorem quantifies over them.

  Also used by C21 (method selection and the RFC 1929 exchange live here).
-/
import MM.Model.Bytes

namespace MM.C23
open MM

/-! ### byte-stream reading -/

/-- `io.ReadFull` of `n` bytes. -/
def readFull (n : Nat) (inp : Bytes) : Option (Bytes × Bytes) :=
  if n ≤ inp.length then some (inp.take n, inp.drop n) else none

/-! ### authenticators (auth.go) -/

/-- An `Authenticator`: `NoAuthAuthenticator` or `UserPassAuthenticator` over a credential store
    (`Valid(username, password)`). -/
inductive Auth where
  | noAuth
  | userPass (valid : Bytes → Bytes → Bool)

/-- `GetMethod()`. -/
def Auth.method : Auth → UInt8
  | .noAuth => 0x00
  | .userPass _ => 0x02

/-- Outcome of `Handler.authenticate`: messages written, the unread rest of the stream when
    authentication succeeded, and (ghost) the credentials the store accepted. -/
structure AuthOut where
  replies : List Bytes
  rest : Option Bytes
  creds : Option (Bytes × Bytes)

/-- `UserPassAuthenticator.Authenticate` (RFC 1929). -/
def userPassAuth (valid : Bytes → Bytes → Bool) (inp : Bytes) : AuthOut :=
  match readFull 2 inp with
  | none => ⟨[], none, none⟩
  | some (hdr, r1) =>
    if hdr[0]! ≠ 0x01 then ⟨[], none, none⟩          -- "unsupported auth version": no reply
    else
      let uLen := (hdr[1]!).toNat
      if uLen = 0 then ⟨[], none, none⟩               -- "username is empty": no reply
      else match readFull uLen r1 with
        | none => ⟨[], none, none⟩
        | some (uname, r2) =>
          match readFull 1 r2 with
          | none => ⟨[], none, none⟩
          | some (pl, r3) =>
            let pLen := (pl[0]!).toNat
            -- `if pLen > 0 { ReadFull }` — reading 0 bytes always succeeds
            match readFull pLen r3 with
            | none => ⟨[], none, none⟩
            | some (pw, r4) =>
              if valid uname pw then ⟨[[0x01, 0x00]], some r4, some (uname, pw)⟩
              else ⟨[[0x01, 0x01]], none, none⟩

/-- Method selection loop of `authenticate`: the first authenticator (in list order) whose method
    the client offered. -/
def selectAuth (auths : List Auth) (methods : Bytes) : Option Auth :=
  auths.find? (fun a => methods.contains a.method)

/-- `NewHandler`: an empty authenticator list is replaced by `[NoAuthAuthenticator]`. -/
def newHandlerAuths (auths : List Auth) : List Auth :=
  if auths.isEmpty then [.noAuth] else auths

/-- `Handler.authenticate`. -/
def authenticate (auths : List Auth) (inp : Bytes) : AuthOut :=
  match readFull 2 inp with
  | none => ⟨[], none, none⟩
  | some (hdr, r1) =>
    if hdr[0]! ≠ 0x05 then ⟨[], none, none⟩
    else match readFull (hdr[1]!).toNat r1 with
      | none => ⟨[], none, none⟩
      | some (methods, r2) =>
        match selectAuth auths methods with
        | none => ⟨[[0x05, 0xFF]], none, none⟩
        | some a =>
          let sel : Bytes := [0x05, a.method]
          match a with
          | .noAuth => ⟨[sel], some r2, none⟩
          | .userPass valid =>
            let o := userPassAuth valid r2
            ⟨sel :: o.replies, o.rest, o.creds⟩

/-! ### address rendering (`net.IP.String`, `net.JoinHostPort`, `strconv.Itoa`) -/

def asciiOfChars (cs : List Char) : Bytes := cs.map (fun c => UInt8.ofNat c.toNat)

/-- `strconv.Itoa` as ASCII bytes. -/
def decimal (n : Nat) : Bytes := asciiOfChars (Nat.toDigits 10 n)

/-- Lower-case hex without leading zeros (`appendHex` of net/netip). -/
def hexNoPad (n : Nat) : Bytes := asciiOfChars (Nat.toDigits 16 n)

def dot : UInt8 := 0x2e
def colon : UInt8 := 0x3a

/-- Dotted quad of a 4-byte address. -/
def renderV4 (b : Bytes) : Bytes :=
  decimal (b[0]!).toNat ++ [dot] ++ decimal (b[1]!).toNat ++ [dot] ++
  decimal (b[2]!).toNat ++ [dot] ++ decimal (b[3]!).toNat

/-- `ip.To4() != nil` for a 16-byte address: `::ffff:a.b.c.d`. -/
def is4in6 (b : Bytes) : Bool :=
  b.length == 16 && (b.take 10).all (· == 0) && b[10]! == 0xff && b[11]! == 0xff

/-- 16-bit group `i` of a 16-byte address. -/
def group (b : Bytes) (i : Nat) : Nat := (b[2*i]!).toNat * 256 + (b[2*i+1]!).toNat

/-- The eight 16-bit groups. -/
def groups (b : Bytes) : List Nat := (List.range 8).map (group b)

/-- Which groups are zero. -/
def zeroPat (gs : List Nat) : List Bool := gs.map (· == 0)

/-- End of the run of zero groups starting at `j` (fuel-bounded; at most 8 groups). -/
def runEndP (pat : List Bool) : Nat → Nat → Nat
  | 0, j => j
  | fuel+1, j => if j < 8 ∧ pat[j]! = true then runEndP pat fuel (j+1) else j

/-- The longest run (length ≥ 2, leftmost on ties) of zero groups, as in `netip.Addr.appendTo6`;
    `(255, 255)` when there is none. -/
def longestRunP (pat : List Bool) : Nat × Nat :=
  (List.range 8).foldl (fun (acc : Nat × Nat) i =>
    let j := runEndP pat 8 i
    if j - i ≥ 2 ∧ j - i > acc.2 - acc.1 then (i, j) else acc) (255, 255)

def longestZeroRun (b : Bytes) : Nat × Nat := longestRunP (zeroPat (groups b))

/-- fields joined by a separator byte -/
def joinSep (sep : UInt8) : List Bytes → Bytes
  | [] => []
  | [x] => x
  | x :: y :: rest => x ++ [sep] ++ joinSep sep (y :: rest)

/-- The colon-separated fields `appendTo6` prints for groups `gs` with the zero run `[zs, ze)`
    elided: the groups before the run, an empty field for `::` (two at an end of the address), the
    groups after it.  (The printing loop of `appendTo6`, written as the list of fields it emits;
    compared with the real function by the differential run on every dialled address.) -/
def v6Fields (gs : List Nat) (zs ze : Nat) : List Bytes :=
  if zs < ze then
    (gs.take zs).map hexNoPad ++
      ([[]] ++ (if zs = 0 then [[]] else []) ++ (if ze = 8 then [[]] else [])) ++
      (gs.drop ze).map hexNoPad
  else gs.map hexNoPad

/-- `net.IP(b).String()` for a 16-byte `b`: dotted quad when it is an IPv4-mapped address,
    RFC 5952 text otherwise. -/
def renderV6 (b : Bytes) : Bytes :=
  if is4in6 b then renderV4 (b.drop 12)
  else
    let z := longestZeroRun b
    joinSep colon (v6Fields (groups b) z.1 z.2)

/-- `net.JoinHostPort(host, strconv.Itoa(port))`. -/
def joinHostPort (host : Bytes) (port : Nat) : Bytes :=
  if host.contains colon then [0x5b] ++ host ++ [0x5d, colon] ++ decimal port
  else host ++ [colon] ++ decimal port

/-! ### what the dialer does with the dial string: `net.SplitHostPort` (Agent.DialContext) -/

inductive Split where
  | ok (host port : Bytes)
  | err
  deriving DecidableEq, Repr

/-- Split at the LAST occurrence of `sep`: (before, after). -/
def splitLast (sep : UInt8) (s : Bytes) : Option (Bytes × Bytes) :=
  let r := s.reverse
  match r.dropWhile (· != sep) with
  | [] => none
  | _ :: preRev => some (preRev.reverse, (r.takeWhile (· != sep)).reverse)

/-- `net.SplitHostPort`. -/
def splitHostPort (s : Bytes) : Split :=
  match splitLast colon s with
  | none => .err                                     -- missing port
  | some (hp, port) =>
    if s.head? = some 0x5b then
      if ¬ s.contains 0x5d then .err                 -- missing ']'
      else
        let e := (s.takeWhile (· != 0x5d)).length     -- index of the first ']'
        if e + 1 = s.length then .err                -- missing port
        else if e + 1 = hp.length then
          let host := (s.take e).drop 1
          if (s.drop 1).contains 0x5b then .err      -- unexpected '['
          else if (s.drop (e + 1)).contains 0x5d then .err   -- unexpected ']'
          else .ok host port
        else .err                                    -- too many colons / missing port
    else
      if hp.contains colon then .err                 -- too many colons
      else if s.contains 0x5b then .err
      else if s.contains 0x5d then .err
      else .ok hp port

/-! ### requests -/

/-- The destination of a parsed request. -/
inductive Dest where
  | v4 (b : Bytes)       -- 4 bytes
  | dom (d : Bytes)      -- 1..255 bytes, used verbatim
  | v6 (b : Bytes)       -- 16 bytes
  deriving DecidableEq, Repr

/-- `req.DestAddr`. -/
def Dest.render : Dest → Bytes
  | .v4 b => renderV4 b
  | .dom d => d
  | .v6 b => renderV6 b

/-- `req.DestIP` (nil for domains). -/
def Dest.ip : Dest → Option Bytes
  | .v4 b => some b
  | .dom _ => none
  | .v6 b => some b

/-- `ip.To4()`. -/
def to4 (b : Bytes) : Option Bytes :=
  if b.length = 4 then some b else if is4in6 b then some (b.drop 12) else none

/-- `ip.IsUnspecified()`: equal to 0.0.0.0 or :: (an IPv4-mapped 0.0.0.0 counts). -/
def isUnspecified (b : Bytes) : Bool :=
  match to4 b with
  | some q => q.all (· == 0)
  | none => b.length == 16 && b.all (· == 0)

/-- `sendReply(conn, reply, bindIP, bindPort)`: the bytes of the single `Write`. `bindIP = []` is
    the nil IP. -/
def mkReply (rep : UInt8) (bindIP : Bytes) (port : Nat) : Bytes :=
  match to4 bindIP with
  | some q => [0x05, rep, 0x00, 0x01] ++ q ++ beN 2 port
  | none =>
    if bindIP.length ≠ 0 then [0x05, rep, 0x00, 0x04] ++ bindIP ++ beN 2 port
    else [0x05, rep, 0x00, 0x01] ++ [0, 0, 0, 0] ++ beN 2 port

/-- Classes of dial error that `mapErrorToReply` distinguishes. -/
inductive DialErr where
  | dns        -- *net.DNSError (anywhere in the chain)
  | timeout    -- *net.OpError with Timeout()
  | dialOp     -- *net.OpError with Op == "dial"
  | other
  deriving DecidableEq, Repr

def mapErrorToReply : DialErr → UInt8
  | .dns => 0x04
  | .timeout => 0x06
  | .dialOp => 0x04
  | .other => 0x01

/-- Result of `dialer.DialContext`: a connection whose `LocalAddr()` is `(ip, port)`, or an error. -/
inductive DialRes where
  | ok (localIP : Bytes) (localPort : Nat)
  | fail (e : DialErr)
  deriving DecidableEq, Repr

/-- State of the optional UDP / ICMP back-end: not set, set but disabled, enabled and the mesh-side
    creation succeeds / fails. -/
inductive Backend where
  | absent | disabled | createOk | createFail
  deriving DecidableEq, Repr

/-- Everything the handler gets from its environment. -/
structure Env where
  auths : List Auth                 -- as passed to `NewHandler`
  dial : DialRes
  /-- the monitor goroutine of `handleConnect` cancelled the dial context before the dial returned
      (it saw client data or EOF) -/
  cancelled : Bool
  udp : Backend
  icmp : Backend
  /-- `conn.LocalAddr()` as a TCP address IP (`[]` when it is not a TCP address) -/
  ctrlLocalIP : Bytes

inductive Action where
  | none
  | dial (addr : Bytes)                         -- `DialContext(ctx, "tcp", addr)`
  | udp (expected : Option (Bytes × Nat))       -- `CreateUDPAssociation(ctx, expected)`
  | icmp (ip : Bytes)                           -- `CreateICMPSession(ctx, ip)`
  deriving DecidableEq, Repr

structure Result where
  replies : List Bytes
  action : Action
  creds : Option (Bytes × Bytes) := none

/-- `handleConnect`. -/
def handleConnect (env : Env) (d : Dest) (port : Nat) : Result :=
  let target := joinHostPort d.render port
  match env.dial with
  | .ok ip p => ⟨[mkReply 0x00 ip p], .dial target, none⟩
  | .fail e =>
    if env.cancelled then ⟨[], .dial target, none⟩       -- "client disconnected during dial": no reply
    else ⟨[mkReply (mapErrorToReply e) [] 0], .dial target, none⟩

/-- `handleUDPAssociate`; on success the reply carries the relay socket's port, which the model
    leaves as 0 (the harness blanks it after checking it is the association's real port). -/
def handleUDP (env : Env) (d : Dest) (port : Nat) : Result :=
  match env.udp with
  | .absent | .disabled => ⟨[mkReply 0x07 [] 0], .none, none⟩
  | be =>
    let expected : Option (Bytes × Nat) :=
      match d.ip with
      | some ip => if isUnspecified ip then none else some (ip, port)
      | none => none
    match be with
    | .createFail => ⟨[mkReply 0x01 [] 0], .udp expected, none⟩
    | _ =>
      let replyIP := if env.ctrlLocalIP.length ≠ 0 ∧ ¬ isUnspecified env.ctrlLocalIP
                     then env.ctrlLocalIP else [127, 0, 0, 1]
      ⟨[mkReply 0x00 replyIP 0], .udp expected, none⟩

/-- `handleICMPEcho` (only the failing mesh-side creation is modelled past the checks). -/
def handleICMP (env : Env) (d : Dest) : Result :=
  match env.icmp with
  | .absent | .disabled => ⟨[mkReply 0x07 [] 0], .none, none⟩
  | be =>
    match d.ip with
    | none => ⟨[mkReply 0x08 [] 0], .none, none⟩
    | some ip =>
      if isUnspecified ip then ⟨[mkReply 0x08 [] 0], .none, none⟩
      else match be with
        | .createFail => ⟨[mkReply 0x01 [] 0], .icmp ip, none⟩
        | _ => ⟨[mkReply 0x00 [] 0], .icmp ip, none⟩

/-- Command dispatch of `Handle`. -/
def dispatch (env : Env) (cmd : UInt8) (d : Dest) (port : Nat) : Result :=
  if cmd = 0x01 then handleConnect env d port
  else if cmd = 0x03 then handleUDP env d port
  else if cmd = 0x04 then handleICMP env d
  else ⟨[mkReply 0x07 [] 0], .none, none⟩

/-- Outcome of `readRequest`. -/
inductive ReqOut where
  | err (replies : List Bytes)                       -- error return (possibly after a reply)
  | ok (cmd : UInt8) (d : Dest) (port : Nat)

/-- `readRequest`. -/
def readRequest (inp : Bytes) : ReqOut :=
  match readFull 4 inp with
  | none => .err []
  | some (hdr, r1) =>
    if hdr[0]! ≠ 0x05 then .err []
    else
      let cmd := hdr[1]!
      let atyp := hdr[3]!
      let port (d : Dest) (r : Bytes) : ReqOut :=
        match readFull 2 r with
        | none => .err []
        | some (pb, _) => .ok cmd d (unbe pb)
      if atyp = 0x01 then
        match readFull 4 r1 with
        | none => .err []
        | some (a, r2) => port (.v4 a) r2
      else if atyp = 0x03 then
        match readFull 1 r1 with
        | none => .err []
        | some (lb, r2) =>
          let n := (lb[0]!).toNat
          if n = 0 then .err [mkReply 0x01 [] 0]
          else match readFull n r2 with
            | none => .err []
            | some (dm, r3) => port (.dom dm) r3
      else if atyp = 0x04 then
        match readFull 16 r1 with
        | none => .err []
        | some (a, r2) => port (.v6 a) r2
      else .err [mkReply 0x08 [] 0]

/-- What follows a successful authentication. -/
def requestPhase (env : Env) (inp : Bytes) : Result :=
  match readRequest inp with
  | .err rs => ⟨rs, .none, none⟩
  | .ok cmd d port => dispatch env cmd d port

/-- `Handler.Handle` for a handler made by `NewHandler(env.auths, dialer)`. -/
def handle (env : Env) (inp : Bytes) : Result :=
  let a := authenticate (newHandlerAuths env.auths) inp
  match a.rest with
  | none => ⟨a.replies, .none, a.creds⟩
  | some rest =>
    let r := requestPhase env rest
    ⟨a.replies ++ r.replies, r.action, a.creds⟩

/-! ### shape of server messages -/

/-- A method-selection message `VER METHOD`. -/
def isMethodSel : Bytes → Bool
  | [v, _] => v == 0x05
  | _ => false
/-- An RFC 1929 status message. -/
def isAuthStatus (m : Bytes) : Bool := m == [0x01, 0x00] || m == [0x01, 0x01]
/-- A SOCKS5 reply `VER REP RSV ATYP BND.ADDR BND.PORT` with an IPv4 or IPv6 bound address. -/
def isReply : Bytes → Bool
  | v :: _ :: rsv :: atyp :: rest =>
    v == 0x05 && rsv == 0x00 && ((atyp == 0x01 && rest.length == 6) || (atyp == 0x04 && rest.length == 18))
  | _ => false

def wfMsg (m : Bytes) : Bool := isMethodSel m || isAuthStatus m || isReply m

/-- Reply code of a reply message. -/
def replyCode (m : Bytes) : UInt8 := m[1]!

/-! ### wire encoding of a request (used to state the theorems and by the spec) -/

def Dest.encode : Dest → Bytes
  | .v4 b => [0x01] ++ b
  | .dom d => [0x03, UInt8.ofNat d.length] ++ d
  | .v6 b => [0x04] ++ b

/-- Shape constraints a `Dest` must meet to be encodable. -/
def Dest.wf : Dest → Prop
  | .v4 b => b.length = 4
  | .dom d => 0 < d.length ∧ d.length < 256
  | .v6 b => b.length = 16

instance (d : Dest) : Decidable d.wf := by
  cases d <;> unfold Dest.wf <;> infer_instance

/-- `VER CMD RSV ATYP DST.ADDR DST.PORT`. -/
def encodeRequest (cmd rsv : UInt8) (d : Dest) (port : Nat) : Bytes :=
  [0x05, cmd, rsv] ++ d.encode ++ beN 2 port

/-- `VER NMETHODS METHODS`. -/
def encodeGreeting (methods : Bytes) : Bytes :=
  [0x05, UInt8.ofNat methods.length] ++ methods

end MM.C23
