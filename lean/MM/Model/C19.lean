/-
  Model of the exit agent's access control:

    internal/exit/handler.go    isAllowed, isDomainAllowed, AddAllowedRoute (AS FIXED by
                                fixes/C19-idempotent-allowed-route.patch), RemoveAllowedRoute,
                                the open decision of HandleStreamOpen / handleStreamOpenAsync
    internal/routing/manager.go AddDynamicRoute, RemoveDynamicRoute (the localRoutes /
                                dynamicRoutes maps)
    internal/agent/agent.go     ManageRoute (add / remove), ensureExitHandler, the exit part of
                                initComponents

  Networks are what `net.ParseCIDR` returns: a masked 4- or 16-byte address and a prefix length.
  `IPNet.Contains` is modelled byte for byte (including the IPv4-mapped conversions of
  `networkNumberAndMask`); `IPNet.String()` — used as map key by the manager and as identity by
  the handler's remove — is modelled by the normal form `Net.key` it is a function of.
-/
import MM.Model.C23

namespace MM.C19
open MM

/-- A `*net.IPNet` as produced by `net.ParseCIDR`: `ip` is 4 or 16 bytes, already masked. -/
structure Net where
  ip : Bytes
  bits : Nat
  deriving DecidableEq, Repr

/-- Byte `i` of `net.CIDRMask(bits, _)`. -/
def maskByte (bits i : Nat) : UInt8 :=
  if bits ≥ 8 * (i + 1) then 0xff
  else if bits ≤ 8 * i then 0x00
  else (0xff : UInt8) <<< (UInt8.ofNat (8 - (bits - 8 * i)))

/-- `ip.Mask(CIDRMask(bits, 8*len))`. -/
def maskIP (ip : Bytes) (bits : Nat) : Bytes :=
  (List.range ip.length).map (fun i => ip[i]! &&& maskByte bits i)

/-- `net.ParseCIDR` on address bytes `ip` (4 or 16) and prefix length `bits`. -/
def mkNet (ip : Bytes) (bits : Nat) : Net := ⟨maskIP ip bits, bits⟩

/-- `networkNumberAndMask`: an IPv4-mapped network number is reduced to 4 bytes and the mask to
    its last 4 bytes. -/
def Net.norm (n : Net) : Net :=
  if C23.is4in6 n.ip then ⟨n.ip.drop 12, n.bits - 96⟩ else n

/-- What `IPNet.String()` is a function of (the manager's map key; the identity used by
    `RemoveAllowedRoute` and the fixed `AddAllowedRoute`). -/
def Net.key (n : Net) : Net := n.norm

/-- `IPNet.Contains(ip)`. -/
def Net.contains (n : Net) (ip : Bytes) : Bool :=
  let nn := n.norm
  let x := match C23.to4 ip with
    | some q => q
    | none => ip
  x.length == nn.ip.length &&
    (List.range x.length).all (fun i => (nn.ip[i]! &&& maskByte nn.bits i) == (x[i]! &&& maskByte nn.bits i))

/-! ### domain patterns -/

def lowerByte (b : UInt8) : UInt8 := if 0x41 ≤ b ∧ b ≤ 0x5a then b + 0x20 else b
/-- `strings.ToLower` on ASCII. -/
def lower (s : Bytes) : Bytes := s.map lowerByte

def isSpace (b : UInt8) : Bool := b == 0x20 || (0x09 ≤ b && b ≤ 0x0d)
/-- `strings.TrimSpace` on ASCII. -/
def trimSpace (s : Bytes) : Bytes := ((s.dropWhile isSpace).reverse.dropWhile isSpace).reverse

/-- `exit.DomainPattern`. -/
structure Pattern where
  pattern : Bytes       -- as configured (not trimmed)
  isWildcard : Bool
  baseDomain : Bytes
  deriving DecidableEq, Repr

/-- `routing.ParseDomainPattern` as used by `initComponents`. -/
def parsePattern (p : Bytes) : Pattern :=
  let t := trimSpace p
  if t.take 2 == [0x2a, 0x2e] ∧ t.length ≥ 2 then ⟨p, true, t.drop 2⟩ else ⟨p, false, t⟩

def hasSuffix (s suf : Bytes) : Bool := suf.length ≤ s.length && s.drop (s.length - suf.length) == suf

/-- One iteration of the loop of `isDomainAllowed`. -/
def patternMatches (dp : Pattern) (domainLower : Bytes) : Bool :=
  if dp.isWildcard then
    let suffix := [0x2e] ++ lower dp.baseDomain
    if hasSuffix domainLower suffix then
      let prefix_ := domainLower.take (domainLower.length - suffix.length)
      !prefix_.contains 0x2e && prefix_.length > 0
    else false
  else domainLower == lower dp.pattern

/-- `isDomainAllowed`. -/
def isDomainAllowed (pats : List Pattern) (domain : Bytes) : Bool :=
  if pats.isEmpty then false else pats.any (fun dp => patternMatches dp (lower domain))

/-- `isAllowed`. -/
def isAllowed (routes : List Net) (ip : Bytes) : Bool :=
  if routes.isEmpty then false else routes.any (fun r => r.contains ip)

/-! ### the agent's route-management state -/

structure St where
  /-- keys of the config routes in `Manager.localRoutes` (`cfg.Exit.Routes`, added whether or not
      the exit is enabled) -/
  cfgKeys : List Net
  /-- `Manager.dynamicRoutes` (key ↦ network, metric), unique keys, insertion order -/
  dyn : List (Net × Net × Nat)
  /-- `exitHandler.cfg.AllowedRoutes`; `none` = the agent has no exit handler -/
  allowed : Option (List Net)
  /-- `exitHandler.cfg.AllowedDomains` -/
  domains : List Pattern
  deriving Repr

/-- `initComponents`: the handler exists from the start iff `exit.enabled`. -/
def init (exitEnabled : Bool) (cfgNets : List Net) (pats : List Bytes) : St :=
  { cfgKeys := cfgNets.map Net.key
    dyn := []
    allowed := if exitEnabled then some cfgNets else none
    domains := if exitEnabled then pats.map parsePattern else [] }

def dynHas (dyn : List (Net × Net × Nat)) (k : Net) : Bool := dyn.any (fun e => e.1 == k)

/-- `m.dynamicRoutes[key] = lr` (insert or update in place). -/
def dynSet (dyn : List (Net × Net × Nat)) (k n : Net) (metric : Nat) : List (Net × Net × Nat) :=
  if dynHas dyn k then dyn.map (fun e => if e.1 == k then (k, n, metric) else e)
  else dyn ++ [(k, n, metric)]

/-- `Handler.AddAllowedRoute` (fixed): no second entry for a network that is already listed. -/
def addAllowed (routes : List Net) (n : Net) : List Net :=
  if routes.any (fun r => r.key == n.key) then routes else routes ++ [n]

/-- `Handler.RemoveAllowedRoute`: removes the first entry with the same `String()`. -/
def removeAllowed : List Net → Net → List Net
  | [], _ => []
  | r :: rs, n => if r.key == n.key then rs else r :: removeAllowed rs n

inductive Outcome where
  | ok
  | errConfigRoute      -- "exists as a config route" / "is a config route and cannot be removed"
  | errNotFound
  deriving DecidableEq, Repr

/-- `ManageRoute("add", …)`: `AddDynamicRoute`, then `ensureExitHandler().AddAllowedRoute`. -/
def add (s : St) (n : Net) (metric : Nat) : St × Outcome :=
  let k := n.key
  if s.cfgKeys.contains k ∧ ¬ dynHas s.dyn k then (s, .errConfigRoute)
  else
    ({ s with dyn := dynSet s.dyn k n metric
              allowed := some (addAllowed (s.allowed.getD []) n) }, .ok)

/-- `ManageRoute("remove", …)`: `RemoveDynamicRoute`, then `exitHandler.RemoveAllowedRoute`. -/
def remove (s : St) (n : Net) : St × Outcome :=
  let k := n.key
  if ¬ dynHas s.dyn k then
    (s, if s.cfgKeys.contains k then .errConfigRoute else .errNotFound)
  else
    ({ s with dyn := s.dyn.filter (fun e => !(e.1 == k))
              allowed := s.allowed.map (fun rs => removeAllowed rs n) }, .ok)

/-! ### the single-lock steps `ManageRoute` is made of (for the concurrency argument) -/

/-- `Manager.AddDynamicRoute` (one critical section of `Manager.mu`); `false` = refused. -/
def mAddStep (s : St) (n : Net) (metric : Nat) : St × Bool :=
  let k := n.key
  if s.cfgKeys.contains k ∧ ¬ dynHas s.dyn k then (s, false)
  else ({ s with dyn := dynSet s.dyn k n metric }, true)

/-- `ensureExitHandler().AddAllowedRoute` (one critical section of `Handler.routesMu`). -/
def hAddStep (s : St) (n : Net) : St :=
  { s with allowed := some (addAllowed (s.allowed.getD []) n) }

/-- `Manager.RemoveDynamicRoute`; `false` = refused. -/
def mRemoveStep (s : St) (n : Net) : St × Bool :=
  let k := n.key
  if ¬ dynHas s.dyn k then (s, false)
  else ({ s with dyn := s.dyn.filter (fun e => !(e.1 == k)) }, true)

/-- `exitHandler.RemoveAllowedRoute` (when there is a handler). -/
def hRemoveStep (s : St) (n : Net) : St :=
  { s with allowed := s.allowed.map (fun rs => removeAllowed rs n) }

/-- A crafted open request's destination. -/
inductive Dest where
  | ip (b : Bytes)                          -- an IP literal (4 or 16 bytes)
  | name (d : Bytes) (resolved : Option Bytes)  -- a name and what the resolver answers
  deriving DecidableEq, Repr

inductive OpenRes where
  | dial (ip : Bytes)
  | denied
  | unresolved
  deriving DecidableEq, Repr

/-- `handleStreamOpen` (agent) → `HandleStreamOpen` → `handleStreamOpenAsync` up to the dial. -/
def openDest (s : St) (d : Dest) : OpenRes :=
  match s.allowed with
  | none => .denied                        -- no exit handler: the open is ignored
  | some routes =>
    match d with
    | .ip b => if isAllowed routes b then .dial b else .denied
    | .name nm res =>
      let domainAllowed := isDomainAllowed s.domains nm
      match res with
      | none => .unresolved
      | some b => if domainAllowed || isAllowed routes b then .dial b else .denied

inductive Op where
  | add (n : Net) (metric : Nat)
  | remove (n : Net)
  | open_ (d : Dest)
  deriving Repr

def step (s : St) : Op → St
  | .add n m => (add s n m).1
  | .remove n => (remove s n).1
  | .open_ _ => s

def run (s : St) (ops : List Op) : St := ops.foldl step s

end MM.C19
