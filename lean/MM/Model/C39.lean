/-
  C39 — model of one agent's control request/response forwarding (internal/agent/agent.go:
  SendControlRequestWithData, handleControlRequest, handleControlResponse, sendControlResponse).

      pendingControl   map[uint64]*pendingControlRequest     requests this agent issued   — key: bare request id
      forwardedControl map[uint64]*forwardedControlRequest   requests this agent relayed  — key: bare request id
      nextControlID    per-agent counter 1,2,3,…

  Agents are small numbers; a response carries `tag` = the agent that produced it (the real status
  answer contains the responder's agent id).  Route tables are not modelled: with an empty path the
  next hop is the target itself when it is a direct peer, otherwise "no route".
-/
namespace MM.C39

abbrev AMap (β : Type) := List (Nat × β)
def AMap.get {β} (m : AMap β) (k : Nat) : Option β := m.lookup k
def AMap.del {β} (m : AMap β) (k : Nat) : AMap β := m.filter (fun e => e.1 != k)
def AMap.set {β} (m : AMap β) (k : Nat) (v : β) : AMap β := (k, v) :: m.del k

inductive Msg
  | req (id target : Nat) (path : List Nat)
  | resp (id : Nat) (ok : Bool) (tag : Nat)
  deriving DecidableEq, Repr

inductive Out
  | send (to : Nat) (m : Msg)
  | deliver (id : Nat) (ok : Bool) (tag : Nat)   -- handed to the local caller waiting on request `id`
  | sendErr                                       -- SendControlRequest returned an error to its caller
  | cancelled (id : Nat)                          -- the caller of request `id` gave up (ctx.Done)
  deriving DecidableEq, Repr

structure Ag where
  self : Nat := 0
  peers : List Nat := []
  pending : AMap Unit := []     -- pendingControl
  fwd : AMap Nat := []          -- forwardedControl: id ↦ SourcePeer
  next : Nat := 0               -- nextControlID
  deriving Repr

namespace Ag

/-- `SendControlRequestWithData`, first part: route lookup, id allocation, pending entry (one critical
    section).  `none` = no route (nothing allocated). -/
def issueBegin (a : Ag) (target : Nat) : Option (Ag × Nat) :=
  if !a.peers.contains target then none
  else
    let id := a.next + 1
    some ({ a with next := id, pending := a.pending.set id () }, id)

/-- … second part: the write to the next hop.  A failed write drops the pending entry; the id stays
    burnt (`nextControlID` is never decremented). -/
def issueEnd (a : Ag) (target id : Nat) (ok : Bool) : Ag × List Out :=
  if ok then (a, [.send target (.req id target [])])
  else ({ a with pending := a.pending.del id }, [.sendErr])

/-- `SendControlRequestWithData` toward a directly connected target (or with no route). -/
def issue (a : Ag) (target : Nat) : Ag × List Out :=
  if !a.peers.contains target then (a, [.sendErr])          -- findControlPath: no route
  else
    let id := a.next + 1
    ({ a with next := id, pending := a.pending.set id () }, [.send target (.req id target [])])

/-- a local request whose write to the next hop fails (= `issueBegin` then `issueEnd … false`). -/
def issueFail (a : Ag) (target : Nat) : Ag × List Out :=
  if !a.peers.contains target then (a, [.sendErr])
  else ({ a with next := a.next + 1, pending := (a.pending.set (a.next + 1) ()).del (a.next + 1) }, [.sendErr])

/-- `enterSleep`: every peer connection is closed; the control bookkeeping is kept (requests in
    flight may still be answered after wake; their ids stay burnt). -/
def sleep (a : Ag) : Ag := { a with peers := [] }

/-- The caller of local request `id` gives up (context cancelled or timed out): the pending entry is
    dropped; the request itself is in flight and may still be answered, so `nextControlID` keeps its
    value — the id is never handed out again. -/
def cancel (a : Ag) (id : Nat) : Ag × List Out :=
  if (a.pending.get id).isSome then ({ a with pending := a.pending.del id }, [.cancelled id]) else (a, [])

/-- next hop and remaining path of a request that is not for us. -/
def hopOf (a : Ag) (target : Nat) (path : List Nat) : Option (Nat × List Nat) :=
  match path with
  | n :: rest => some (n, rest)
  | [] => if a.peers.contains target then some (target, []) else none

/-- `handleControlRequest`. -/
def onReq (a : Ag) (src id target : Nat) (path : List Nat) : Ag × List Out :=
  if target != 0 && target != a.self then
    match a.hopOf target path with
    | none => (a, [.send src (.resp id false a.self)])                     -- "no route to target"
    | some (n, rest) =>
      if !a.peers.contains n then (a, [.send src (.resp id false a.self)]) -- "next hop not connected"
      else ({ a with fwd := a.fwd.set id src }, [.send n (.req id target rest)])
  else
    (a, [.send src (.resp id true a.self)])                                -- handled locally

/-- `handleControlResponse`. -/
def onResp (a : Ag) (id : Nat) (ok : Bool) (tag : Nat) : Ag × List Out :=
  let hasPending := (a.pending.get id).isSome
  let fw := a.fwd.get id
  let a' := { a with pending := a.pending.del id, fwd := a.fwd.del id }
  if hasPending then (a', [.deliver id ok tag])
  else match fw with
    | some p => (a', [.send p (.resp id ok tag)])
    | none => (a', [])

end Ag

/-! ### a network of such agents (FIFO delivery), for the system-level statement -/

structure Net where
  agents : List (Nat × Ag) := []
  queue : List (Nat × Nat × Msg) := []            -- (from, to, message), FIFO
  delivered : List (Nat × Nat × Bool × Nat) := [] -- (agent, request id, ok, tag)
  deriving Repr

def Net.agent (n : Net) (i : Nat) : Option Ag := n.agents.lookup i
def Net.setAgent (n : Net) (i : Nat) (a : Ag) : Net :=
  { n with agents := (i, a) :: n.agents.filter (fun e => e.1 != i) }

def Net.absorb (n : Net) (i : Nat) (a : Ag) (outs : List Out) : Net :=
  let n := n.setAgent i a
  outs.foldl (fun n o => match o with
    | .send to m => if a.peers.contains to then { n with queue := n.queue ++ [(i, to, m)] } else n
    | .deliver id ok tag => { n with delivered := n.delivered ++ [(i, id, ok, tag)] }
    | .sendErr => n
    | .cancelled _ => n) n

/-- agent `i` issues a request toward `target`. -/
def Net.issue (n : Net) (i target : Nat) : Net :=
  match n.agent i with
  | some a => let (a', outs) := a.issue target; n.absorb i a' outs
  | none => n

/-- agent `i` issues a request toward `target` through next hop `hop` with the given remaining path
    (what `findControlPath` returns from the route table). -/
def Net.issueVia (n : Net) (i target hop : Nat) (path : List Nat) : Net :=
  match n.agent i with
  | some a =>
    let id := a.next + 1
    n.absorb i { a with next := id, pending := a.pending.set id () } [.send hop (.req id target path)]
  | none => n

/-- deliver the head of the queue. -/
def Net.stepQ (n : Net) : Net :=
  match n.queue with
  | [] => n
  | (src, dst, m) :: rest =>
    let n := { n with queue := rest }
    match n.agent dst with
    | none => n
    | some a =>
      match m with
      | .req id target path => let (a', outs) := a.onReq src id target path; n.absorb dst a' outs
      | .resp id ok tag => let (a', outs) := a.onResp id ok tag; n.absorb dst a' outs

def Net.runQ : Nat → Net → Net
  | 0, n => n
  | k + 1, n => Net.runQ k n.stepQ

end MM.C39
