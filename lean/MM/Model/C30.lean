/-
  Model of /repo/internal/sleep/sleep.go `Manager` as a labelled transition system whose atomic
  steps are the `stateMu` critical sections (Go's `sync.Mutex` gives their mutual exclusion; that
  is trusted, not modelled):

    sleep        Sleep(): one critical section — check, OnSleep, state := SLEEPING, schedule, persist
    wake         Wake():  one critical section — check, stop timer, OnWake, state := AWAKE, persist
    pollBegin i  Poll() first section — if state ≠ SLEEPING return; state := POLLING; unlock
    pollInvoke i Poll() calls the OnPoll callback (outside the lock)
    pollReturn i OnPoll returns; Poll() waits PollDuration (no effect)
    pollEnd i    Poll() second section — if state = AWAKE return; OnPollEnd; state := SLEEPING;
                 schedule; persist

  `i` names one of finitely many concurrent Poll() invocations (timer goroutines; `Poll` is also
  a public method).  Callbacks are assumed to succeed (an OnSleep/OnWake error aborts the
  transition before the state changes).  The persisted state is the `state` field last written by
  `persistState` (PersistState enabled, write errors not modelled).  A timer firing is modelled as
  `pollBegin` being enabled at any time: `Poll` itself decides by looking at the state.
-/
namespace MM.C30

inductive St where
  | awake | sleeping | polling
  deriving DecidableEq, Repr

/-- Program counter of one Poll() invocation. -/
inductive PC where
  | idle      -- not running
  | afterP1   -- state set to POLLING, lock released, OnPoll not yet invoked
  | inCb      -- inside the OnPoll callback
  | waiting   -- OnPoll returned; waiting PollDuration, then for the lock
  deriving DecidableEq, Repr

structure Thread where
  pc : PC
  /-- number of completed Wake() transitions when this poll began -/
  epoch : Nat
  deriving DecidableEq, Repr

structure S where
  st : St
  /-- persisted state (`none`: never written) -/
  file : Option St
  /-- completed Wake() transitions so far -/
  wakes : Nat
  threads : List Thread
  deriving DecidableEq, Repr

def S.init (n : Nat) : S := { st := .awake, file := none, wakes := 0, threads := List.replicate n { pc := .idle, epoch := 0 } }

inductive Label where
  | sleep | wake
  | pollBegin (i : Nat) | pollInvoke (i : Nat) | pollReturn (i : Nat) | pollEnd (i : Nat)
  /-- process restart at a quiescent point: a NEW Manager on the same data directory, `LoadState()`,
      then (as `Agent.Start` does) `Sleep()` if the loaded state is SLEEPING — which is refused, the
      state is already SLEEPING.  `graceful`: the old manager's `Stop()` ran first (it persists). -/
  | restart (graceful : Bool)
  deriving DecidableEq, Repr

/-- What a step returns to its caller. -/
inductive Res where
  | ok
  | errAlreadySleeping
  | errNotSleeping
  | skipped        -- Poll(): "silently skip if not sleeping" / "woken during poll"
  | disabled       -- the label is not enabled in this state (no such step)
  deriving DecidableEq, Repr

/-- Callback invocations; `stale` = a Wake() completed after this poll began. -/
inductive Event where
  | onSleep | onWake
  | onPoll (i : Nat) (stale : Bool)
  | onPollEnd (i : Nat) (stale : Bool)
  deriving DecidableEq, Repr

/-- `LoadState()`: the persisted state, or the initial AWAKE when there is no state file. -/
def loaded (file : Option St) : St := file.getD .awake

def setThread (l : List Thread) (i : Nat) (t : Thread) : List Thread := l.set i t

def step (s : S) : Label → S × Res × List Event
  | .sleep =>
    if s.st = .awake then ({ s with st := .sleeping, file := some .sleeping }, .ok, [.onSleep])
    else (s, .errAlreadySleeping, [])
  | .wake =>
    if s.st = .awake then (s, .errNotSleeping, [])
    else ({ s with st := .awake, file := some .awake, wakes := s.wakes + 1 }, .ok, [.onWake])
  | .pollBegin i =>
    match s.threads[i]? with
    | some t =>
      if t.pc ≠ .idle then (s, .disabled, [])
      else if s.st ≠ .sleeping then (s, .skipped, [])
      else ({ s with st := .polling, threads := setThread s.threads i { pc := .afterP1, epoch := s.wakes } }, .ok, [])
    | none => (s, .disabled, [])
  | .pollInvoke i =>
    match s.threads[i]? with
    | some t =>
      if t.pc ≠ .afterP1 then (s, .disabled, [])
      else ({ s with threads := setThread s.threads i { t with pc := .inCb } }, .ok, [.onPoll i (decide (s.wakes > t.epoch))])
    | none => (s, .disabled, [])
  | .pollReturn i =>
    match s.threads[i]? with
    | some t =>
      if t.pc ≠ .inCb then (s, .disabled, [])
      else ({ s with threads := setThread s.threads i { t with pc := .waiting } }, .ok, [])
    | none => (s, .disabled, [])
  | .pollEnd i =>
    match s.threads[i]? with
    | some t =>
      if t.pc ≠ .waiting then (s, .disabled, [])
      else if s.st = .awake then ({ s with threads := setThread s.threads i { t with pc := .idle } }, .skipped, [])
      else ({ s with st := .sleeping, file := some .sleeping, threads := setThread s.threads i { t with pc := .idle } },
            .ok, [.onPollEnd i (decide (s.wakes > t.epoch))])
    | none => (s, .disabled, [])
  | .restart graceful =>
    if !(s.threads.all fun t => t.pc == .idle) then (s, .disabled, [])
    else
      let file := if graceful then some s.st else s.file
      ({ st := loaded file, file, wakes := 0, threads := s.threads.map fun _ => { pc := .idle, epoch := 0 } }, .ok, [])

/-- Run a schedule; collect all events. -/
def run (s : S) : List Label → S × List Event
  | [] => (s, [])
  | l :: ls =>
    let (s1, _, ev) := step s l
    let (s2, evs) := run s1 ls
    (s2, ev ++ evs)

/-- Reachability from the initial state with `n` poll threads. -/
inductive Reachable (n : Nat) : S → Prop where
  | init : Reachable n (S.init n)
  | step {s : S} (l : Label) : Reachable n s → Reachable n (step s l).1

def allIdle (s : S) : Bool := s.threads.all fun t => t.pc == .idle

def isStale : Event → Bool
  | .onPoll _ b => b
  | .onPollEnd _ b => b
  | _ => false

/-! ### Agent.doPoll (the OnPoll callback of the real agent): check-then-act

    `doPoll` reconnects, waits for the poll duration (or a wake signal), then reads the manager's
    state WITHOUT the manager's lock and, unless it is AWAKE, calls `peerMgr.DisconnectAll()`.
    Steps: `dpStart` = everything up to and including the state check; `dpRelease` = DisconnectAll. -/

inductive DLabel where
  | sleep | wake | dpStart | dpRelease
  /-- a WAKE_COMMAND frame arrives: `handleWakeCommand` calls `Wake()` and, if a poll cycle is
      active, `signalWake()` (cancels the poll context, signals the wake channel) -/
  | wakeCmd
  deriving DecidableEq, Repr

structure DS where
  st : St
  /-- a doPoll has passed its state check and is about to call DisconnectAll -/
  parked : Bool
  /-- a doPoll sits in its wait (`select` on poll timeout / wake signal / stop) -/
  waiting : Bool
  /-- configuration: the poll duration is long, so a started doPoll stays in its wait until it is
      signalled (`true`), or short, so it times out at once (`false`) -/
  longPoll : Bool
  deriving DecidableEq, Repr

inductive DEvent where
  /-- `DisconnectAll()` invoked by doPoll; `awake` = manager state at that moment -/
  | disconnect (awake : Bool)
  deriving DecidableEq, Repr

inductive DRes where
  | ok | refused | returned | parked | waiting | disconnected | disabled
  deriving DecidableEq, Repr

/-- result, and whether a waiting doPoll returned because of this step -/
def dstep (s : DS) : DLabel → DS × DRes × List DEvent
  | .sleep => if s.st = .awake then ({ s with st := .sleeping }, .ok, []) else (s, .refused, [])
  | .wake => if s.st = .awake then (s, .refused, []) else ({ s with st := .awake }, .ok, [])
  | .dpStart =>
    if s.parked || s.waiting then (s, .disabled, [])
    else if s.longPoll then ({ s with waiting := true }, .waiting, [])
    else if s.st = .awake then (s, .returned, [])       -- "poll cycle ended but agent is awake"
    else ({ s with parked := true }, .parked, [])
  | .dpRelease =>
    if !s.parked then (s, .disabled, [])
    else ({ s with parked := false }, .disconnected, [.disconnect (decide (s.st = .awake))])
  | .wakeCmd =>
    -- Wake() first; then signalWake(): a doPoll in its wait returns (through the cancelled context
    -- it sees AWAKE, through the wake channel it calls Wake() again - refused - and returns); a
    -- doPoll already past its state check is not affected
    let s1 := if s.st = .awake then s else { s with st := .awake }
    ({ s1 with waiting := false }, if s.st = .awake then .refused else .ok, [])

def drun (s : DS) : List DLabel → DS × List DEvent
  | [] => (s, [])
  | l :: ls =>
    let (s1, _, ev) := dstep s l
    let (s2, evs) := drun s1 ls
    (s2, ev ++ evs)

def DS.init (longPoll : Bool := false) : DS := { st := .awake, parked := false, waiting := false, longPoll }

end MM.C30
