/-
  Model of /repo/internal/filetransfer/stream.go (validatePath and what it calls:
  containsDangerousChars, normalizePath, isPathUnderPrefix, isPathAllowed), of path/filepath's
  Clean and Match as far as they are used there, and of the filesystem calls that each file
  transfer / browse operation makes (download, upload, browse list / stat / chmod / delete), on the
  filesystem model of MM/Model/C27.lean (physical resolution of symbolic links).

  Go strings are byte lists.  Unicode NFC normalisation is a parameter `nfc` (golang.org/x/text is
  trusted); UTF-8 decoding follows unicode/utf8 (invalid bytes decode to U+FFFD, width 1).
  Modelled, not verified: path/filepath.Clean / Match, the OS.  Validated by the correspondence run.
-/
import MM.Model.Bytes
import MM.Model.C27

namespace MM.C26
open MM MM.C27

def SL : UInt8 := 0x2f   -- '/'
def DOT : UInt8 := 0x2e

/-- Split at every `sep` ("a/b" ↦ [a, b]; "/a" ↦ [[], a]; "" ↦ [[]]). -/
def splitOn (sep : UInt8) : Bytes → List Bytes
  | [] => [[]]
  | c :: cs =>
    if c = sep then [] :: splitOn sep cs
    else match splitOn sep cs with
      | s :: ss => (c :: s) :: ss
      | [] => [[c]]

def joinSl : List Bytes → Bytes
  | [] => []
  | [a] => a
  | a :: rest => a ++ SL :: joinSl rest

/-- component pass of `filepath.Clean`; `stack` reversed. -/
def cleanComps (rooted : Bool) (stack : List Bytes) : List Bytes → List Bytes
  | [] => stack.reverse
  | c :: rest =>
    if c = [] ∨ c = [DOT] then cleanComps rooted stack rest
    else if c = [DOT, DOT] then
      match stack with
      | top :: s =>
        if top = [DOT, DOT] then cleanComps rooted (c :: stack) rest else cleanComps rooted s rest
      | [] => if rooted then cleanComps rooted [] rest else cleanComps rooted [c] rest
    else cleanComps rooted (c :: stack) rest

/-- `filepath.Clean` (unix). -/
def clean (s : Bytes) : Bytes :=
  if s = [] then [DOT] else
  let rooted := s.head? = some SL
  let out := cleanComps rooted [] (splitOn SL s)
  if rooted then SL :: joinSl out
  else if out = [] then [DOT] else joinSl out

def isAbs (s : Bytes) : Bool := s.head? == some SL

def hasInfix (pat : Bytes) : Bytes → Bool
  | [] => pat.isEmpty
  | c :: cs => pat.isPrefixOf (c :: cs) || hasInfix pat cs

def hasSuffix (suf s : Bytes) : Bool := suf.isSuffixOf s

/-- `containsDangerousChars`: a NUL or control character other than \t \n \r.  Over UTF-8 decoding
    with U+FFFD for invalid bytes, a control rune is a byte 00–1F / 7F, or the pair C2 80–9F. -/
def dangerous : Bytes → Bool
  | [] => false
  | b :: rest =>
    (b < 0x20 && b != 0x09 && b != 0x0a && b != 0x0d) || b == 0x7f ||
    (b == 0xc2 && (match rest with | c :: _ => 0x80 ≤ c && c ≤ 0x9f | [] => false)) ||
    dangerous rest

/-! ### unicode/utf8.DecodeRune -/

def isCont (b : UInt8) : Bool := 0x80 ≤ b && b ≤ 0xbf

/-- (rune, width); invalid ↦ (U+FFFD, 1); empty ↦ (U+FFFD, 0). -/
def decodeRune : Bytes → Nat × Nat
  | [] => (0xfffd, 0)
  | b0 :: rest =>
    if b0 < 0x80 then (b0.toNat, 1)
    else if 0xc2 ≤ b0 && b0 ≤ 0xdf then
      match rest with
      | b1 :: _ => if isCont b1 then ((b0.toNat % 32) * 64 + b1.toNat % 64, 2) else (0xfffd, 1)
      | [] => (0xfffd, 1)
    else if 0xe0 ≤ b0 && b0 ≤ 0xef then
      match rest with
      | b1 :: b2 :: _ =>
        let lo : UInt8 := if b0 = 0xe0 then 0xa0 else 0x80
        let hi : UInt8 := if b0 = 0xed then 0x9f else 0xbf
        if lo ≤ b1 && b1 ≤ hi && isCont b2 then
          ((b0.toNat % 16) * 4096 + (b1.toNat % 64) * 64 + b2.toNat % 64, 3)
        else (0xfffd, 1)
      | _ => (0xfffd, 1)
    else if 0xf0 ≤ b0 && b0 ≤ 0xf4 then
      match rest with
      | b1 :: b2 :: b3 :: _ =>
        let lo : UInt8 := if b0 = 0xf0 then 0x90 else 0x80
        let hi : UInt8 := if b0 = 0xf4 then 0x8f else 0xbf
        if lo ≤ b1 && b1 ≤ hi && isCont b2 && isCont b3 then
          ((b0.toNat % 8) * 262144 + (b1.toNat % 64) * 4096 + (b2.toNat % 64) * 64 + b3.toNat % 64, 4)
        else (0xfffd, 1)
      | _ => (0xfffd, 1)
    else (0xfffd, 1)

/-! ### path/filepath.Match (unix) -/

/-- `scanChunk` after the leading stars: length of the chunk. -/
def chunkLen : Bytes → Bool → Nat
  | [], _ => 0
  | 0x5c :: _ :: rest, inr => 2 + chunkLen rest inr          -- '\\' x
  | [0x5c], _ => 1
  | 0x5b :: rest, _ => 1 + chunkLen rest true                 -- '['
  | 0x5d :: rest, _ => 1 + chunkLen rest false                -- ']'
  | 0x2a :: rest, inr => if inr then 1 + chunkLen rest inr else 0   -- '*'
  | _ :: rest, inr => 1 + chunkLen rest inr

def dropStars : Bytes → Bytes × Bool
  | 0x2a :: rest => ((dropStars rest).1, true)
  | p => (p, false)

/-- (star, chunk, rest) -/
def scanChunk (pattern : Bytes) : Bool × Bytes × Bytes :=
  let (p, star) := dropStars pattern
  let n := chunkLen p false
  (star, p.take n, p.drop n)

/-- `getEsc`: (rune, rest) or bad pattern. -/
def getEsc (chunk : Bytes) : Option (Nat × Bytes) :=
  match chunk with
  | [] => none
  | c :: _ =>
    if c = 0x2d ∨ c = 0x5d then none else
    let chunk1 := if c = 0x5c then chunk.drop 1 else chunk
    if chunk1 = [] then none else
    let (r, n) := decodeRune chunk1
    if r = 0xfffd ∧ n = 1 then none else
    let nchunk := chunk1.drop n
    if nchunk = [] then none else some (r, nchunk)

inductive MC where
  | ok (rest : Bytes)
  | fail
  | bad
  deriving DecidableEq, Repr

/-- the range loop of a character class: (matched, chunk after the closing bracket) or bad. -/
def classLoop : Nat → Bytes → Nat → Bool → Nat → Option (Bool × Bytes)
  | 0, _, _, _, _ => none
  | fuel + 1, chunk, r, m, nrange =>
    match chunk with
    | 0x5d :: rest => if nrange > 0 then some (m, rest) else classStep fuel chunk r m nrange
    | _ => classStep fuel chunk r m nrange
where
  classStep (fuel : Nat) (chunk : Bytes) (r : Nat) (m : Bool) (nrange : Nat) : Option (Bool × Bytes) :=
    match getEsc chunk with
    | none => none
    | some (lo, c1) =>
      match c1 with
      | 0x2d :: c2 =>
        match getEsc c2 with
        | none => none
        | some (hi, c3) => classLoop fuel c3 r (m || (decide (lo ≤ r) && decide (r ≤ hi))) (nrange + 1)
      | _ => classLoop fuel c1 r (m || (decide (lo ≤ r) && decide (r ≤ lo))) (nrange + 1)

/-- `matchChunk`. -/
def matchChunk : Nat → Bytes → Bytes → Bool → MC
  | 0, _, _, _ => .bad
  | fuel + 1, chunk, s, failed0 =>
    match chunk with
    | [] => if failed0 then .fail else .ok s
    | c :: crest =>
      let failed := failed0 || s.isEmpty
      if c = 0x5b then
        let (r, s1) := if failed then (0, s) else ((decodeRune s).1, s.drop (decodeRune s).2)
        let (neg, c1) := match crest with
          | 0x5e :: c' => (true, c')
          | _ => (false, crest)
        match classLoop (fuel + 1) c1 r false 0 with
        | none => .bad
        | some (m, c2) => matchChunk fuel c2 s1 (failed || m == neg)
      else if c = 0x3f then
        if failed then matchChunk fuel crest s failed
        else matchChunk fuel crest (s.drop (decodeRune s).2) (s.head? == some SL)
      else
        let lit : Option (UInt8 × Bytes) :=
          if c = 0x5c then (match crest with | x :: r => some (x, r) | [] => none) else some (c, crest)
        match lit with
        | none => .bad
        | some (x, cr) =>
          if failed then matchChunk fuel cr s failed
          else matchChunk fuel cr (s.drop 1) (s.head? != some x)

/-- the star loop of `Match`: try the chunk at name[i+1:] for i = 0, 1, … while name[i] ≠ '/'.
    Returns the remainder to continue with, `none` for "no match", or bad. -/
def starLoop (fuel : Nat) (chunk : Bytes) (lastChunk : Bool) : Bytes → Option (Option Bytes)
  | [] => some none
  | b :: rest =>
    if b = SL then some none else
    match matchChunk fuel chunk rest false with
    | .ok t => if lastChunk ∧ t ≠ [] then starLoop fuel chunk lastChunk rest else some (some t)
    | .bad => none
    | .fail => starLoop fuel chunk lastChunk rest

/-- `filepath.Match`: `some true/false`, `none` = ErrBadPattern. -/
def globMatch : Nat → Bytes → Bytes → Option Bool
  | 0, _, _ => none
  | fuel + 1, pattern, name =>
    if pattern = [] then some name.isEmpty else
    let (star, chunk, rest) := scanChunk pattern
    if star ∧ chunk = [] then some (!name.contains SL) else
    let cf := chunk.length + 2
    match matchChunk cf chunk name false with
    | .ok t =>
      if t = [] ∨ rest ≠ [] then globMatch fuel rest t
      else afterFirst fuel star chunk rest name cf
    | .bad => none
    | .fail => afterFirst fuel star chunk rest name cf
where
  afterFirst (fuel : Nat) (star : Bool) (chunk rest name : Bytes) (cf : Nat) : Option Bool :=
    if star then
      match starLoop cf chunk (rest = []) name with
      | none => none
      | some none => some false
      | some (some t) => globMatch fuel rest t
    else some false

def matchOK (pattern name : Bytes) : Bool := globMatch (pattern.length + 2) pattern name == some true

/-- `filepath.Dir` of a clean absolute or relative path. -/
def dirOf (p : Bytes) : Bytes :=
  let parts := splitOn SL p
  clean (joinSl parts.dropLast ++ (if parts.length > 1 then [SL] else []))

/-! ### stream.go -/

structure Cfg where
  enabled : Bool
  allowed : List Bytes
  hash : Bytes := []      -- PasswordHash; empty = no password configured
  maxSize : Nat := 0      -- MaxFileSize; 0 = unlimited
  deriving Repr

def normalize (nfc : Bytes → Bytes) (p : Bytes) : Bytes := clean (nfc p)

/-- `isPathUnderPrefix`. -/
def underPrefix (nfc : Bytes → Bytes) (path pre : Bytes) : Bool :=
  let cp := normalize nfc path
  let cpre := normalize nfc pre
  cp == cpre || (if hasSuffix [SL] cpre then cpre else cpre ++ [SL]).isPrefixOf cp

def globChars (p : Bytes) : Bool := p.any (fun b => b == 0x2a || b == 0x3f || b == 0x5b)

/-- the parent walk of `isPathAllowed`: dir, Dir(dir), … until "/" or ".". -/
def parentWalk (pat : Bytes) : Nat → Bytes → Bool
  | 0, _ => false
  | fuel + 1, dir =>
    if dir = [SL] ∨ dir = [DOT] then false
    else matchOK pat dir || parentWalk pat fuel (dirOf dir)

/-- `isPathAllowed(path, pattern)`. -/
def pathAllowed (nfc : Bytes → Bytes) (path pattern : Bytes) : Bool :=
  let cpat := normalize nfc pattern
  if hasSuffix [SL, 0x2a, 0x2a] cpat then underPrefix nfc path (cpat.take (cpat.length - 3))
  else if globChars cpat then matchOK cpat path || parentWalk cpat (path.length + 1) path
  else underPrefix nfc path cpat

inductive V where
  | ok
  | dangerous
  | notAbs
  | traversal
  | emptyList
  | notAllowed
  deriving DecidableEq, Repr

/-- `validatePath`. -/
def validatePath (nfc : Bytes → Bytes) (c : Cfg) (path : Bytes) : V :=
  if dangerous path then .dangerous else
  let np := normalize nfc path
  if !isAbs np then .notAbs else
  if hasInfix [DOT, DOT] np then .traversal else
  if c.allowed.length = 0 then .emptyList else
  if c.allowed.any (fun pat => pat == [0x2a] || pathAllowed nfc np pat) then .ok else .notAllowed

/-! ### the operations on the filesystem -/

/-- byte string of a component ↦ name; ".." is 0 -/
def encName (b : Bytes) : Name := if b = [DOT, DOT] then 0 else b.foldl (fun acc x => acc * 256 + x.toNat) 1

def decNameAux : Nat → Nat → Bytes → Bytes
  | 0, _, acc => acc
  | fuel + 1, n, acc => if n ≤ 1 then acc else decNameAux fuel (n / 256) (UInt8.ofNat (n % 256) :: acc)

def decName (n : Name) : Bytes := if n = 0 then [DOT, DOT] else decNameAux (n + 1) n []

/-- components of a path string as the kernel sees them -/
def compsOf (p : Bytes) : Path := ((splitOn SL p).filter (fun c => c ≠ [] ∧ c ≠ [DOT])).map encName

def strOfPath (p : Path) : Bytes := SL :: joinSl (p.map decName)

inductive Op where
  | download
  | upload (content : Nat)
  | list
  | stat
  | chmod
  | delete (recursive : Bool)
  deriving DecidableEq, Repr

inductive Err where
  | disabled
  | pathRequired
  | invalid (v : V)
  | symlinkTarget        -- download: final symlink resolves outside the allowed list / cannot be resolved
  | notFound
  | notDir
  | notEmpty
  | io                   -- the OS refused (mkdir/open/chmod/remove failed)
  | authRequired
  | authFailed
  | tooLarge             -- refused before anything was written / read
  | tooLargeWritten      -- upload: the data exceeded MaxFileSize; MaxFileSize+1 bytes were written
  deriving DecidableEq, Repr

/-- What a request carries besides the path, and the two facts about file contents the size limit
    needs.  bcrypt is the abstract predicate `pwOK hash password`. -/
structure Ctx where
  pwOK : Bytes → Bytes → Bool
  password : Bytes
  declSize : Int              -- TransferMetadata.Size of an upload (may be -1 / 0 = unknown)
  sizeOf : Nat → Nat          -- length of the byte string behind a content id
  trunc : Nat → Nat → Nat     -- content id of the first n bytes of a content

/-- `authenticate`. -/
def authenticate (x : Ctx) (c : Cfg) : Option Err :=
  if c.hash = [] then none
  else if x.password = [] then some .authRequired
  else if x.pwOK c.hash x.password then none
  else some .authFailed

structure Result where
  fs : FS
  err : Option Err
  touched : List Path     -- physical paths read, listed, written, created, chmod-ed or deleted
  names : List Name       -- list: the entries returned
  deriving Repr

/-- `os.RemoveAll`. -/
def removeAll (fs : FS) (fu : Nat) (p : Path) : FS × List Path :=
  match lstat fs fu p with
  | .found q .dir =>
    if q = [] then (fs, []) else
    let gone := (fs.ents.filter (fun e => q.isPrefixOf e.1)).map (·.1)
    ({ fs with ents := fs.ents.filter (fun e => !q.isPrefixOf e.1) }, gone)
  | .found q _ => (fs.del q, [q])
  | _ => (fs, [])

def children (fs : FS) (q : Path) : List Name :=
  (fs.ents.filter (fun e => e.1 ≠ [] ∧ e.1.dropLast = q)).filterMap (fun e => e.1.getLast?)

/-- all names of the inode behind physical path `q` (hard links), or `q` itself -/
def aliases (fs : FS) (q : Path) : List Path :=
  match fs.lookup q with
  | some (.file i) => (fs.ents.filter (fun e => e.2 == .file i)).map (·.1)
  | _ => [q]

/-- the path string ends in "/" or "/." (and is not just "/") -/
def trailingDir (path : Bytes) : Bool :=
  (hasSuffix [SL] path || hasSuffix [SL, DOT] path) && !(compsOf path).isEmpty

def dirOnly : Res → Res
  | .found q .dir => .found q .dir
  | _ => .err

/-- entries of `fs1` that `fs` does not have (created by the operation) -/
def changedKeys (fs fs1 : FS) : List Path :=
  (fs1.ents.filter (fun e => fs1.lookup e.1 ≠ fs.lookup e.1)).map (·.1)

def failR (fs : FS) (e : Err) : Result := ⟨fs, some e, [], []⟩

/-- size of the file behind inode `i` -/
def fileSize (x : Ctx) (fs : FS) (i : Nat) : Nat :=
  match fs.content i with
  | some cid => x.sizeOf cid
  | none => 0

/-- the download size check: a regular file larger than a configured MaxFileSize -/
def tooBig (x : Ctx) (c : Cfg) (fs : FS) : Kind → Bool
  | .file i => decide (c.maxSize > 0) && decide (fileSize x fs i > c.maxSize)
  | _ => false

/-- download: ValidateDownloadMetadata (after validatePath) + ReadFileForDownload. -/
def opDownload (x : Ctx) (nfc : Bytes → Bytes) (fu : Nat) (c : Cfg) (fs : FS) (path : Bytes) : Result :=
  let p := compsOf (clean path)
  -- ValidateDownloadMetadata works on the path AS SENT (the kernel resolves its ".." physically);
  -- validateSymlinkTarget looks only at a symbolic link as the FINAL component
  let praw := compsOf path
  -- a trailing "/" or "/." makes the kernel resolve the final component and demand a directory
  let tr := trailingDir path
  let lst := if tr then dirOnly (stat fs fu praw) else lstat fs fu praw
  let stt := if tr then dirOnly (stat fs fu praw) else stat fs fu praw
  let symOK : Bool :=
    match lst with
    | .found _ (.sym _) =>
      (match stat fs fu praw with
       | .found q _ => validatePath nfc c (strOfPath q) == .ok
       | _ => false)
    | _ => true
  if !symOK then failR fs .symlinkTarget else
  match stt with
  | .found _ k =>
    -- size limit for regular files (of the file the path AS SENT resolves to)
    if tooBig x c fs k then failR fs .tooLarge else
    -- ReadFileForDownload cleans the path lexically and opens it
    (match stat fs fu p with
     | .found q _ => ⟨fs, none, [q], []⟩
     | _ => failR fs .notFound)
  | _ => failR fs .notFound

/-- upload of a single file: the size check of ValidateUploadMetadata, then WriteUploadedFile
    (MkdirAll of the parent, open with O_TRUNC, copy at most MaxFileSize+1 bytes). -/
def opUpload (x : Ctx) (fu : Nat) (c : Cfg) (fs : FS) (path : Bytes) (content : Nat) : Result :=
  if x.declSize > 0 ∧ c.maxSize > 0 ∧ x.declSize > c.maxSize then failR fs .tooLarge else
  let p := compsOf (clean path)
  let over : Bool := decide (c.maxSize > 0) && decide (x.sizeOf content > c.maxSize)
  let written := if over then x.trunc content (c.maxSize + 1) else content
  let err : Option Err := if over then some .tooLargeWritten else none
  match mkdirAll fs fu p.dropLast with
  | (fs1, false) => ⟨fs1, some .io, changedKeys fs fs1, []⟩
  | (fs1, true) =>
    match stat fs1 fu p with
    | .found q (.file _) => ⟨(openTrunc fs1 fu p written).1, err, changedKeys fs fs1 ++ aliases fs1 q, []⟩
    | .missing par n => ⟨(openTrunc fs1 fu p written).1, err, changedKeys fs fs1 ++ [par ++ [n]], []⟩
    | _ => ⟨fs1, some .io, changedKeys fs fs1, []⟩

def opList (fu : Nat) (fs : FS) (path : Bytes) : Result :=
  match stat fs fu (compsOf (clean path)) with
  | .found q .dir => ⟨fs, none, [q], children fs q⟩
  | .found _ _ => failR fs .notDir
  | _ => failR fs .notFound

def opStat (fu : Nat) (fs : FS) (path : Bytes) : Result :=
  let p := compsOf (clean path)
  match lstat fs fu p with
  | .found q (.sym _) =>
    (match stat fs fu p with
     | .found t _ => ⟨fs, none, [q, t], []⟩
     | _ => ⟨fs, none, [q], []⟩)
  | .found q _ => ⟨fs, none, [q], []⟩
  | _ => failR fs .notFound

def opChmod (fu : Nat) (fs : FS) (path : Bytes) : Result :=
  match stat fs fu (compsOf (clean path)) with
  | .found q _ => ⟨fs, none, aliases fs q, []⟩
  | _ => failR fs .io

def opDelete (fu : Nat) (fs : FS) (path : Bytes) (recursive : Bool) : Result :=
  let p := compsOf (clean path)
  match lstat fs fu p with
  | .found q k =>
    -- entry.IsDir: of the link's target when the final component is a symbolic link
    let tgt : Option (Path × Kind) :=
      match k with
      | .sym _ => (match stat fs fu p with | .found t k' => some (t, k') | _ => none)
      | _ => some (q, k)
    let isDir := match tgt with | some (_, .dir) => true | _ => false
    let listed : List Path := match tgt with | some (t, .dir) => [t] | _ => []
    let nonEmpty := match tgt with | some (t, .dir) => !(children fs t).isEmpty | _ => false
    if isDir && nonEmpty && !recursive then ⟨fs, some .notEmpty, listed, []⟩
    else if recursive && isDir then
      let (fs1, gone) := removeAll fs fu p
      ⟨fs1, none, listed ++ gone, []⟩
    else
      let fs1 := remove fs fu p
      if fs1.lookup q = fs.lookup q ∧ q ≠ [] then ⟨fs, some .io, listed, []⟩ else ⟨fs1, none, listed ++ [q], []⟩
  | _ => failR fs .notFound

/-- the operation proper, once the request passed `validatePath` -/
def dispatch (x : Ctx) (nfc : Bytes → Bytes) (fu : Nat) (c : Cfg) (fs : FS) (op : Op) (path : Bytes) : Result :=
  match op with
  | .download => opDownload x nfc fu c fs path
  | .upload content => opUpload x fu c fs path content
  | .list => opList fu fs path
  | .stat => opStat fu fs path
  | .chmod => opChmod fu fs path
  | .delete recursive => opDelete fu fs path recursive

def isBrowse : Op → Bool
  | .download => false
  | .upload _ => false
  | _ => true

/-- One request.  `path` is the path string of the request. -/
def runOp (x : Ctx) (nfc : Bytes → Bytes) (fu : Nat) (c : Cfg) (fs : FS) (op : Op) (path : Bytes) : Result :=
  if !c.enabled then failR fs .disabled else
  match authenticate x c with
  | some e => failR fs e
  | none =>
    if isBrowse op && path.isEmpty then failR fs .pathRequired else
    match validatePath nfc c path with
    | .ok => dispatch x nfc fu c fs op path
    | v => failR fs (.invalid v)

end MM.C26
