/-
  C02 — labelled transition system of `SessionKey.Encrypt` calls on the two ends of one session.

  Each `Encrypt` call takes its nonce inside one mutex-protected region
      s.mu.Lock(); [exhaustion check]; nonce := s.buildSendNonce(); s.sendNonce++; s.mu.Unlock()
  (tie: AST region fact in MM/Gen/C02.lean) and seals with that thread-local nonce afterwards.
  So the nonce a call uses is fixed by ONE atomic step, and any number of concurrent senders on
  either end is any interleaving of the labels `encI | encR`.  `encrypt` is the C01 model function.
  Core Lean only.
-/
import MM.Model.C01

namespace MM.C02
open MM.C01

inductive Label where
  | encI
  | encR
  deriving Repr, DecidableEq

/-- One nonce handed to a successful `Encrypt` call: which end, the 4-byte prefix, the counter. -/
structure Nonce where
  byInit : Bool
  pfx : Nat
  ctr : Nat
  deriving Repr, DecidableEq

/-- The 12 bytes that go on the wire / into the AEAD. -/
def Nonce.wire (n : Nonce) : Nat × Nat := (n.pfx, n.ctr)

structure St where
  i : Sess
  r : Sess
  nonces : List Nonce      -- newest first, one per successful Encrypt call
  deriving Repr

def start (sendI sendR : Nat) : St := { i := ⟨true, sendI, 0⟩, r := ⟨false, sendR, 0⟩, nonces := [] }

def step (st : St) : Label → St
  | .encI => match encrypt st.i 0 0 with
    | (s', some p) => { st with i := s', nonces := ⟨true, p.pfx, p.ctr⟩ :: st.nonces }
    | (s', none) => { st with i := s' }
  | .encR => match encrypt st.r 0 0 with
    | (s', some p) => { st with r := s', nonces := ⟨false, p.pfx, p.ctr⟩ :: st.nonces }
    | (s', none) => { st with r := s' }

def run (st : St) : List Label → St
  | [] => st
  | l :: rest => run (step st l) rest

/-- Prediction used by the stress correspondence: `n` Encrypt calls at an end whose counter starts
    at `s0` hand out exactly the counters `s0 … s0+k-1` with `k = min n (2^64-1 - s0)`; the remaining
    calls fail. -/
def predictedCount (s0 n : Nat) : Nat := min n (maxCtr - s0)

end MM.C02
