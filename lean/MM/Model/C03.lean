/-
  C03 — model of session-key establishment:
    internal/crypto/crypto.go  ComputeECDH, DeriveSessionKey (salt layout)
    every DeriveSessionKey call site of the tunnel kinds (table regenerated into MM/Gen/C03.lean)

  Cryptography enters as PARAMETERS with hypotheses (structure fields), never as axioms:
  `DH` (X25519) with commutativity, `kdf` (HKDF-SHA256) with injectivity where stated.
  Core Lean only.
-/
import MM.Model.Bytes

namespace MM.C03
open MM

/-- `salt := streamID(be64) ‖ initiatorPub ‖ responderPub` exactly as DeriveSessionKey builds it. -/
def salt (req : Nat) (iPub rPub : Bytes) : Bytes := beN 8 req ++ iPub ++ rPub

def zero32 : Bytes := List.replicate 32 0

/-- `ComputeECDH` over a raw scalar multiplication `mult`: refuse an all-zero remote key and an
    all-zero result (low-order remote point). -/
def computeECDH (mult : Bytes → Bytes → Bytes) (priv remote : Bytes) : Option Bytes :=
  if remote = zero32 then none
  else
    let s := mult priv remote
    if s = zero32 then none else some s

/-- Abstract Diffie-Hellman as the call sites use it: `dh a B` is `ComputeECDH(a, B)` (may refuse). -/
structure DH (Priv Pub Secret : Type) where
  pub : Priv → Pub
  dh : Priv → Pub → Option Secret
  comm : ∀ a b, dh a (pub b) = dh b (pub a)

/-- Which value a call site puts into an argument slot. -/
inductive Role where
  | localPub    -- the public half of the private key given to ComputeECDH at this site
  | remotePub   -- the very expression given to ComputeECDH as the remote key
  | other       -- anything else (unresolved)
  deriving Repr, DecidableEq

/-- One `DeriveSessionKey` call site as read from the source. -/
structure Site where
  loc : String               -- file:line func
  kind : String              -- tunnel kind
  isInit : Option Bool       -- literal last argument (none = not a literal)
  initRole : Role            -- argument 3 (initiatorPub)
  respRole : Role            -- argument 4 (responderPub)
  secretFromECDH : Bool      -- argument 1 is the variable assigned from ComputeECDH in the same function
  errChecked : Bool          -- that ECDH's error is tested and the failing branch returns
  req : String               -- argument 2 as written
  deriving Repr

def Role.pick {α : Type} (r : Role) (loc rem oth : α) : α :=
  match r with
  | .localPub => loc
  | .remotePub => rem
  | .other => oth

section
variable {Priv Pub Secret Key : Type}

/-- The key a site computes when run with local private key `priv`, received remote key `remote`
    and request id `req` (`oth` stands for whatever an unresolved argument evaluates to). -/
def siteKey (D : DH Priv Pub Secret) (enc : Pub → Bytes) (kdf : Secret → Bytes → Key)
    (s : Site) (priv : Priv) (remote : Pub) (req : Nat) (oth : Pub) : Option Key :=
  (D.dh priv remote).map fun sec =>
    kdf sec (salt req (enc (s.initRole.pick (D.pub priv) remote oth))
                      (enc (s.respRole.pick (D.pub priv) remote oth)))
end

/-- A site is canonical when the side that passes `true` puts its own key first and the received
    key second, the side that passes `false` the other way round, and the secret comes from a
    checked ComputeECDH. -/
def Site.canonical (s : Site) : Bool :=
  s.secretFromECDH && s.errChecked &&
  match s.isInit with
  | some true => s.initRole == .localPub && s.respRole == .remotePub
  | some false => s.initRole == .remotePub && s.respRole == .localPub
  | none => false

def kinds : List String := ["tcp", "forward", "udp", "icmp", "shell", "file"]

end MM.C03
