/-
  Model of the persistent agent state in the data directory and of what a process crash can
  leave behind:

    internal/identity/identity.go   AgentID.Store, Load, LoadOrCreate
    internal/identity/keypair.go    Keypair.Store, LoadKeypair, LoadOrCreateKeypair
    internal/sleep/sleep.go         persistState, LoadState
    internal/agent/agent.go         New (identity, keypair), Start (sleepMgr.LoadState)

  The data directory is a record of the eight file names the code uses.  A file's content is
  abstract: the complete rendering of a value (`whole v`), the first `k` bytes of that rendering
  (`cut v k`; `cut v 0` is the file right after `open(O_TRUNC)`), or anything else (`junk`).
  Every writer is the *sequence of os.* calls it performs* (`Op`), `os.WriteFile` being
  open+truncate | partial write | full write.  `crashStates s ops` are all directory states a
  process kill can leave: every prefix of the sequence, and inside a `WriteFile` every prefix
  of the data.  Recovery (`start`) is the decision code of LoadOrCreate / LoadOrCreateKeypair /
  LoadState and returns the `Op`s it performs itself (creating what is missing), so "crash
  during recovery" is covered by the same definitions.

  Values are tags (`Nat`); `derive : Nat → Nat` (X25519 base-point multiplication) is a
  parameter — nothing about it is assumed.

  This file models the code AFTER fixes/C34-keypair-rederive-pub.patch and
  fixes/C34-sleep-state-atomic.patch.  The pre-fix decision / writer are kept as
  `startKeyOld` / `persistOpsOld` for the witnesses in Props/C34.lean.
-/
namespace MM.C34

inductive Content where
  | whole (v : Nat)
  | cut (v : Nat) (k : Nat)
  | junk
  deriving DecidableEq, Repr, Inhabited

/-- File names in the data directory. -/
inductive F where
  | id | idT        -- agent_id, agent_id.tmp
  | key | keyT      -- agent_key, agent_key.tmp
  | pub | pubT      -- agent_key.pub, agent_key.pub.tmp
  | sl | slT        -- sleep_state.json, sleep_state.json.tmp
  deriving DecidableEq, Repr

structure FS where
  dir : Bool := false
  id : Option Content := none
  idT : Option Content := none
  key : Option Content := none
  keyT : Option Content := none
  pub : Option Content := none
  pubT : Option Content := none
  sl : Option Content := none
  slT : Option Content := none
  deriving DecidableEq, Repr, Inhabited

def FS.get (s : FS) : F → Option Content
  | .id => s.id | .idT => s.idT | .key => s.key | .keyT => s.keyT
  | .pub => s.pub | .pubT => s.pubT | .sl => s.sl | .slT => s.slT

def FS.set (s : FS) (f : F) (c : Option Content) : FS :=
  match f with
  | .id => { s with id := c } | .idT => { s with idT := c }
  | .key => { s with key := c } | .keyT => { s with keyT := c }
  | .pub => { s with pub := c } | .pubT => { s with pubT := c }
  | .sl => { s with sl := c } | .slT => { s with slT := c }

/-- Rendered lengths: 32 hex + "\n", 64 hex + "\n"; the JSON length does not matter (every
    strict prefix of a JSON object is unparsable) and is a nominal constant. -/
def idLen : Nat := 33
def keyLen : Nat := 65
def slLen : Nat := 64

inductive Op where
  | mkdirAll
  | writeFile (f : F) (v : Nat) (len : Nat)   -- os.WriteFile(f, render v): open(O_CREAT|O_TRUNC); write; close
  | rename (a b : F)                          -- os.Rename(a, b)
  deriving DecidableEq, Repr

/-- Effect of a completed call. -/
def apply (s : FS) : Op → FS
  | .mkdirAll => { s with dir := true }
  | .writeFile f v _ => s.set f (some (.whole v))
  | .rename a b => match s.get a with
      | some c => (s.set b (some c)).set a none
      | none => s

/-- States strictly inside a call (a process kill is the only fault considered). -/
def during (s : FS) : Op → List FS
  | .writeFile f v len => (List.range len).map (fun k => s.set f (some (.cut v k)))
  | _ => []

def applyAll (s : FS) : List Op → FS
  | [] => s
  | op :: r => applyAll (apply s op) r

/-- Every state a kill during `ops` (started in `s`) can leave, the untouched and the completed
    state included. -/
def crashStates (s : FS) : List Op → List FS
  | [] => [s]
  | op :: r => s :: during s op ++ crashStates (apply s op) r

/-- States at call boundaries only. -/
def prefixStates (s : FS) : List Op → List FS
  | [] => [s]
  | op :: r => s :: prefixStates (apply s op) r

/-! ### Parsing -/

/-- `ParseAgentID/ParseKey(strings.TrimSpace(data))`: exactly `len-1` hex characters. A prefix
    that lacks only the final newline still parses. -/
def parseHex (len : Nat) : Content → Option Nat
  | .whole v => some v
  | .cut v k => if k + 1 = len then some v else none
  | .junk => none

/-- `json.Unmarshal`: only a complete object parses. -/
def parseSleep : Content → Option Nat
  | .whole v => some v
  | _ => none

/-! ### Writers -/

/-- `AgentID.Store`. -/
def storeIdOps (v : Nat) : List Op :=
  [.mkdirAll, .writeFile .idT v idLen, .rename .idT .id]

/-- `Keypair.Store`. -/
def storeKeyOps (derive : Nat → Nat) (k : Nat) : List Op :=
  [.mkdirAll, .writeFile .keyT k keyLen, .rename .keyT .key,
   .writeFile .pubT (derive k) keyLen, .rename .pubT .pub]

/-- `persistState` (fixed): temp file + rename. Without the directory `WriteFile` fails and
    nothing happens. -/
def persistOps (s : FS) (w : Nat) : List Op :=
  if s.dir then [.writeFile .slT w slLen, .rename .slT .sl] else []

/-- `persistState` before the fix: in-place `os.WriteFile`. -/
def persistOpsOld (s : FS) (w : Nat) : List Op :=
  if s.dir then [.writeFile .sl w slLen] else []

/-! ### Recovery -/

/-- `LoadOrCreate`: (result, calls performed). `none` = start fails. -/
def startId (s : FS) (fresh : Nat) : Option Nat × List Op :=
  match s.id with
  | none => (some fresh, storeIdOps fresh)            -- "agent ID not found" → create
  | some c => (parseHex idLen c, [])                  -- parse error → start fails

/-- `LoadOrCreateKeypair` (fixed): result is (private, public). -/
def startKey (derive : Nat → Nat) (s : FS) (fresh : Nat) : Option (Nat × Nat) × List Op :=
  match s.key with
  | none => (some (fresh, derive fresh), storeKeyOps derive fresh)   -- "keypair not found" → create
  | some c =>
    match parseHex keyLen c with
    | none => (none, [])
    | some k =>
      match s.pub with
      | none =>                                        -- fixed: re-derive and re-store the public key
        (some (k, derive k), [.writeFile .pubT (derive k) keyLen, .rename .pubT .pub])
      | some pc =>
        match parseHex keyLen pc with
        | none => (none, [])
        | some p => if p = derive k then (some (k, p), []) else (none, [])

/-- `LoadOrCreateKeypair` before the fix: "public key not found" counts as "no keypair". -/
def startKeyOld (derive : Nat → Nat) (s : FS) (fresh : Nat) : Option (Nat × Nat) × List Op :=
  match s.key with
  | none => (some (fresh, derive fresh), storeKeyOps derive fresh)
  | some c =>
    match parseHex keyLen c with
    | none => (none, [])
    | some k =>
      match s.pub with
      | none => (some (fresh, derive fresh), storeKeyOps derive fresh)
      | some pc =>
        match parseHex keyLen pc with
        | none => (none, [])
        | some p => if p = derive k then (some (k, p), []) else (none, [])

/-- `LoadState`: `none` = error (logged; the agent then starts awake with sequence 0). -/
def loadSleep (s : FS) : Option Nat :=
  match s.sl with
  | some c => parseSleep c
  | none => none

structure Started where
  id : Nat
  priv : Nat
  pub : Nat
  sleep : Option Nat
  deriving DecidableEq, Repr

/-- `agent.New` + sleep `LoadState`: `none` = the start fails. An identity failure returns before
    the keypair is touched. The keypair decision reads only key files, which the identity calls
    do not touch, so both decisions are taken on `s`. -/
def start (derive : Nat → Nat) (s : FS) (fi fk : Nat) : Option Started × List Op :=
  match startId s fi with
  | (none, _) => (none, [])
  | (some i, ops1) =>
    match startKey derive s fk with
    | (none, _) => (none, ops1)
    | (some (k, p), ops2) => (some ⟨i, k, p, loadSleep s⟩, ops1 ++ ops2)

def startOld (derive : Nat → Nat) (s : FS) (fi fk : Nat) : Option Started × List Op :=
  match startId s fi with
  | (none, _) => (none, [])
  | (some i, ops1) =>
    match startKeyOld derive s fk with
    | (none, _) => (none, ops1)
    | (some (k, p), ops2) => (some ⟨i, k, p, loadSleep s⟩, ops1 ++ ops2)

/-- What the process may be doing when it is killed. -/
inductive Action where
  | start (fi fk : Nat)     -- agent start (LoadOrCreate, LoadOrCreateKeypair, LoadState)
  | persist (w : Nat)       -- sleep manager saving state `w`
  | storeId (v : Nat)       -- start with an explicit `agent.id` in the config: AgentID.Store(v)
  deriving DecidableEq, Repr

def actionOps (derive : Nat → Nat) (s : FS) : Action → List Op
  | .start fi fk => (start derive s fi fk).2
  | .persist w => persistOps s w
  | .storeId v => storeIdOps v

/-- The four final names (what recovery reads). -/
structure Obs where
  id : Option Content
  key : Option Content
  pub : Option Content
  sl : Option Content
  deriving DecidableEq, Repr

def FS.obs (s : FS) : Obs := ⟨s.id, s.key, s.pub, s.sl⟩

/-- Calls that never write a final name in place. -/
def Op.tmpOnly : Op → Bool
  | .writeFile f _ _ => f = .idT || f = .keyT || f = .pubT || f = .slT
  | _ => true

/-- Directory states that crashes of the modelled writers produce from an empty directory
    (inductive invariant, `good_preserved` in Lemmas/C34.lean): final names hold complete
    renderings only; a public key never exists without its private key and, when present,
    is the derived one. -/
def good (derive : Nat → Nat) (s : FS) : Bool :=
  (match s.id with | none => true | some (.whole _) => true | _ => false) &&
  (match s.key, s.pub with
    | none, none => true
    | some (.whole _), none => true
    | some (.whole k), some (.whole p) => p = derive k
    | _, _ => false) &&
  (match s.sl with | none => true | some (.whole _) => true | _ => false)

end MM.C34
