/-
  Model of the four route tables of /repo/internal/routing
  (table.go, domain.go, forward.go, agent.go).

  All four tables are the same machine: a Go map from a key to a slice of
  route entries, one entry per "slot" (origin agent; origin agent + next hop
  for the agent table), each slice re-sorted by metric after every insertion.
  The generic part (`KTable`, `addRoute`, `removeRoute`, `removeFromPeer`,
  `cleanupStale`) is written once over a configuration `Cfg`; this file then
  instantiates it for the CIDR table (`routing.Table`), MM/Model/C09.lean for the
  domain, forward-key and agent tables.

  A Go map is modelled as an association list with distinct keys (the order is
  the model's own; every theorem that depends on the iteration order of the map
  is proved for every order).  `sort.Slice` is modelled as the stable insertion
  sort (for slices of at most 12 elements that is exactly what Go runs).
  Time is a logical clock: an entry remembers when it was last written
  (`born`), `cleanupStale now maxAge` drops non-local entries older than `maxAge`.

  The CIDR part models the code after fixes/C08-canonical-network.patch:
  `AddRoute` stores and keys a route by `canonicalNetwork(route.Network)`.
-/
import MM.Model.Bytes

namespace MM.C08
open MM

/-! ## Generic keyed route table -/

/-- One stored route.  `pay` is the table-specific part (network / pattern / key / agent). -/
structure Entry (P : Type) where
  pay : P
  nextHop : Nat
  origin : Nat
  metric : Nat
  seq : Nat
  path : List Nat
  /-- logical time of the last add/refresh (`LastUpdate`) -/
  born : Nat
deriving DecidableEq, Repr, Inhabited

abbrev Group (P : Type) := List (Entry P)
/-- `map[K][]*Route` -/
abbrev KTable (K P : Type) := List (K × Group P)

/-- What distinguishes the four tables. -/
structure Cfg (K P : Type) where
  /-- `false`: the argument is rejected up front (nil network, empty pattern, empty key) -/
  valid : P → Bool
  /-- what is stored for a payload (canonical network for the CIDR table, identity elsewhere) -/
  store : P → P
  /-- map key of a stored payload -/
  keyOf : P → K
  /-- `true` for the agent table: the slot is (origin, next hop) instead of origin alone -/
  byHop : Bool

section generic
variable {K P : Type} [DecidableEq K]

/-- "we already have a route from this origin (via this next hop)" -/
def sameSlot (byHop : Bool) (r e : Entry P) : Bool :=
  r.origin == e.origin && (!byHop || r.nextHop == e.nextHop)

/-- `route.Sequence > r.Sequence || (route.Sequence == r.Sequence && route.Metric < r.Metric)` -/
def newer (e r : Entry P) : Bool :=
  decide (e.seq > r.seq) || (e.seq == r.seq && decide (e.metric < r.metric))

/-- insertion step of the stable sort by metric -/
def ins (x : Entry P) : Group P → Group P
  | [] => [x]
  | y :: ys => if x.metric ≤ y.metric then x :: y :: ys else y :: ins x ys

/-- `sort.Slice(routes, metric <)` as the stable sort -/
def sortG : Group P → Group P
  | [] => []
  | x :: xs => ins x (sortG xs)

/-- The scan `for i, r := range routes { if sameSlot … }` of `AddRoute`:
    `none` = no entry in that slot, `some none` = entry found and the update refused,
    `some (some g)` = entry replaced in place (not yet re-sorted). -/
def replG (byHop : Bool) (e : Entry P) : Group P → Option (Option (Group P))
  | [] => none
  | r :: rs =>
    if sameSlot byHop r e then
      (if newer e r then some (some (e :: rs)) else some none)
    else match replG byHop e rs with
      | none => none
      | some none => some none
      | some (some rs') => some (some (r :: rs'))

/-- `m[k]` (nil slice when absent) -/
def get (t : KTable K P) (k : K) : Group P :=
  match t with
  | [] => []
  | (k', g) :: rest => if k' = k then g else get rest k

/-- `delete(m, k)` -/
def del (t : KTable K P) (k : K) : KTable K P := t.filter (fun kg => !decide (kg.1 = k))

/-- `m[k] = g` -/
def set (t : KTable K P) (k : K) (g : Group P) : KTable K P :=
  match t with
  | [] => [(k, g)]
  | (k', g') :: rest => if k' = k then (k, g) :: rest else (k', g') :: set rest k g

/-- all stored routes -/
def routes (t : KTable K P) : List (Entry P) := t.flatMap (·.2)

/-- what `AddRoute` stores for an argument: `route.Clone()` with the stored form of the payload -/
def stored (c : Cfg K P) (e : Entry P) : Entry P := { e with pay := c.store e.pay }

/-- `AddRoute`: returns the new table and the boolean the Go method returns. -/
def addRoute (c : Cfg K P) (self : Nat) (t : KTable K P) (e : Entry P) : KTable K P × Bool :=
  if !c.valid e.pay then (t, false)
  else if e.path.contains self then (t, false)      -- loop detected
  else
    let e' := stored c e
    let k := c.keyOf e'.pay
    match replG c.byHop e' (get t k) with
    | some none => (t, false)                       -- older / worse route
    | some (some g') => (set t k (sortG g'), true)  -- replaced in place, re-sorted
    | none => (set t k (sortG (get t k ++ [e'])), true)

/-- remove the first entry of that origin: `append(routes[:i], routes[i+1:]...)` -/
def removeG (o : Nat) : Group P → Option (Group P)
  | [] => none
  | r :: rs => if r.origin = o then some rs else (removeG o rs).map (r :: ·)

/-- `RemoveRoute(key, origin)` -/
def removeRoute (t : KTable K P) (k : K) (o : Nat) : KTable K P × Bool :=
  match removeG o (get t k) with
  | none => (t, false)
  | some [] => (del t k, true)
  | some g' => (set t k g', true)

/-- filter every slice, delete the keys whose slice became empty -/
def filterT (keep : Entry P → Bool) (t : KTable K P) : KTable K P :=
  (t.map (fun kg => (kg.1, kg.2.filter keep))).filter (fun kg => !kg.2.isEmpty)

/-- `RemoveRoutesFromPeer(peer)` -/
def removeFromPeer (t : KTable K P) (peer : Nat) : KTable K P :=
  filterT (fun r => !(r.nextHop == peer)) t

/-- `r.OriginAgent == localID || now.Sub(r.LastUpdate) <= maxAge` -/
def fresh (self now maxAge : Nat) (r : Entry P) : Bool :=
  r.origin == self || decide (now - r.born ≤ maxAge)

/-- `CleanupStaleRoutes(maxAge)` at logical time `now` -/
def cleanupStale (self now maxAge : Nat) (t : KTable K P) : KTable K P :=
  filterT (fresh self now maxAge) t

/-- `routes[0]` of the slice stored under `k` (GetRoute, and Lookup of the forward / agent tables) -/
def best (t : KTable K P) (k : K) : Option (Entry P) := (get t k).head?

/-- `HasRoute(key, origin)` -/
def hasRoute (t : KTable K P) (k : K) (o : Nat) : Bool := (get t k).any (fun r => r.origin == o)

/-- `Size()`: number of keys -/
def size (t : KTable K P) : Nat := t.length

/-- `TotalRoutes()` -/
def totalRoutes (t : KTable K P) : Nat := (routes t).length

/-! ### histories -/

/-- One mutation of a table (the four Go mutators plus the passage of time). -/
inductive Op (K P : Type) where
  | add (e : Entry P)                 -- `born` is overwritten with the clock
  | remove (k : K) (origin : Nat)
  | disconnect (peer : Nat)
  | tick (n : Nat)                    -- `n` time units pass
  | cleanup (maxAge : Nat)

structure State (K P : Type) where
  now : Nat
  tab : KTable K P

def State.init : State K P := ⟨0, []⟩

def step (c : Cfg K P) (self : Nat) (s : State K P) : Op K P → State K P
  | .add e => { s with tab := (addRoute c self s.tab { e with born := s.now }).1 }
  | .remove k o => { s with tab := (removeRoute s.tab k o).1 }
  | .disconnect p => { s with tab := removeFromPeer s.tab p }
  | .tick n => { s with now := s.now + n }
  | .cleanup a => { s with tab := cleanupStale self s.now a s.tab }

/-- The table after a history. -/
def run (c : Cfg K P) (self : Nat) (ops : List (Op K P)) : State K P :=
  ops.foldl (step c self) State.init

end generic

/-! ## Atomic steps

  The theorems treat every table method as one atomic step.  `tools/lockshape.go` prints, per
  method, how often it acquires the mutex and under which lock it touches the route map / calls
  sibling methods; `stepsAtomic` is the granularity the proofs need, checked by `decide` on the
  regenerated facts (MM/Props/C08Lock.lean, C09Lock.lean, C10Lock.lean). -/

/-- every mutating method acquires the lock exactly once and touches the guarded maps / calls its
    helpers only under the write lock; every reading method acquires it exactly once and reads
    under the read or write lock -/
def stepsAtomic (acq : List (String × Nat)) (acc : List (String × String × Bool × String))
    (calls : List (String × String × String)) (mutators readers : List String) : Bool :=
  mutators.all (fun m => acq.lookup m == some 1) &&
  readers.all (fun m => acq.lookup m == some 1) &&
  acc.all (fun a =>
    if mutators.contains a.1 then a.2.2.2 == "W"
    else if readers.contains a.1 then (a.2.2.2 == "R" || a.2.2.2 == "W") && !a.2.2.1
    else true) &&
  calls.all (fun c =>
    if mutators.contains c.1 then c.2.2 == "W"
    else if readers.contains c.1 then c.2.2 == "R" || c.2.2 == "W"
    else true)

/-! ## CIDR table (`routing.Table`) -/

/-- A `*net.IPNet` as the table receives it: `IP` of `len` bytes with big-endian value `addr`,
    `Mask = net.CIDRMask(ones, mbits)`; `mbits = 0` stands for a nil / unusable mask.
    (Only contiguous masks are representable.) -/
structure IPNet where
  len : Nat
  addr : Nat
  ones : Nat
  mbits : Nat
deriving DecidableEq, Repr, Inhabited

/-- A `net.IP`: byte length and big-endian value. -/
structure IPAddr where
  len : Nat
  addr : Nat
deriving DecidableEq, Repr

/-- `ip.To4()`: 4-byte form of an IPv4 or IPv4-mapped address. -/
def to4 (len addr : Nat) : Option Nat :=
  if len = 4 then some addr
  else if len = 16 ∧ addr / 2^32 = 0xffff then some (addr % 2^32)
  else none

/-- `networkNumberAndMask(n)`: address family width, network number, prefix length as
    `Contains` and `String` see them; `none` when the lengths do not fit together. -/
def eff (n : IPNet) : Option (Nat × Nat × Nat) :=
  if n.ones > n.mbits then none       -- `net.CIDRMask` returns nil
  else match to4 n.len n.addr with
  | some a4 =>
    if n.mbits = 32 then some (32, a4, n.ones)
    else if n.mbits = 128 then some (32, a4, n.ones - 96)   -- `m = m[12:]`
    else none
  | none =>
    if n.len = 16 ∧ n.mbits = 128 then some (128, n.addr, n.ones) else none

/-- The address as `Contains` normalises it. -/
def effIP (ip : IPAddr) : Option (Nat × Nat) :=
  match to4 ip.len ip.addr with
  | some a4 => some (32, a4)
  | none => if ip.len = 16 then some (128, ip.addr) else none

/-- clear the low `s` bits -/
def maskLow (a s : Nat) : Nat := a / 2^s * 2^s

/-- `n.Contains(ip)` for the address as `lookupUnlocked` passes it (`ip.To16()`, nil unless the
    address has 4 or 16 bytes).  `Contains` compares `len(ip)` with the length of the network
    number and then the masked bytes — so an unusable network (nil network number) "contains"
    exactly the unusable address (nil), a corner the model keeps. -/
def contains (n : IPNet) (ip : IPAddr) : Bool :=
  match eff n, effIP ip with
  | some (b, a, o), some (b', x) => b == b' && x / 2^(b - o) == a / 2^(b - o)
  | none, none => true
  | _, _ => false

/-- Prefix length of a network within its own address family (0 for an unusable network). -/
def plen (n : IPNet) : Nat :=
  match eff n with
  | some (_, _, o) => o
  | none => 0

/-- `canonicalNetwork(n)` of the repaired table.go. -/
def canon (n : IPNet) : IPNet :=
  match eff n with
  | some (b, a, o) => { len := b / 8, addr := maskLow a (b - o), ones := o, mbits := b }
  | none => n

/-- `ones, _ := n.Mask.Size()` -/
def rawOnes (n : IPNet) : Nat := if n.mbits = 0 then 0 else n.ones

/-- The map key `network.String()`; `net.IPNet.String` is a one-to-one rendering of
    `networkNumberAndMask`'s result ("<nil>" for `none`). -/
abbrev CKey := Option (Nat × Nat × Nat)

def cidrCfg : Cfg CKey IPNet where
  valid := fun _ => true
  store := canon
  keyOf := eff
  byHop := false

abbrev CTable := KTable CKey IPNet

/-- one iteration of the loop in `lookupUnlocked` (`bestPrefixLen` starts at -1) -/
def lookupStep (ip : IPAddr) (bestR : Option (Entry IPNet)) (kg : CKey × Group IPNet) :
    Option (Entry IPNet) :=
  match kg.2 with
  | [] => bestR
  | first :: _ =>
    if !contains first.pay ip then bestR
    else match bestR with
      | none => some first
      | some b => if rawOnes first.pay > rawOnes b.pay then some first else bestR

/-- `Table.Lookup(ip)` for the iteration order `t`. -/
def lookup (t : CTable) (ip : IPAddr) : Option (Entry IPNet) :=
  t.foldl (lookupStep ip) none

/-- insertion step of the sort in `LookupAll`: longest prefix first, then metric -/
def insAll (x : Entry IPNet) : List (Entry IPNet) → List (Entry IPNet)
  | [] => [x]
  | y :: ys =>
    if rawOnes x.pay > rawOnes y.pay ∨ (rawOnes x.pay = rawOnes y.pay ∧ x.metric ≤ y.metric)
    then x :: y :: ys else y :: insAll x ys

/-- `Table.LookupAll(ip)`: the best route of every matching prefix, longest prefix first.
    (Two matching slices never have the same prefix length in a well-formed table, so the
    unstable `sort.Slice` has a single possible result.) -/
def lookupAll (t : CTable) (ip : IPAddr) : List (Entry IPNet) :=
  (t.filterMap fun kg => match kg.2 with
    | first :: _ => if contains first.pay ip then some first else none
    | [] => none).foldr insAll []

/-- key used by `RemoveRoute` / `GetRoute` / `HasRoute` for a caller-supplied network -/
def cidrKey (n : IPNet) : CKey := eff (canon n)

end MM.C08
