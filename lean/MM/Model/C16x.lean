/-
  C16 — an agent that is exit endpoint AND transit: the TCP dispatch order of
  handleStreamData / handleStreamClose / handleStreamReset (internal/agent/agent.go):
  the relay table is consulted FIRST (stream id + source peer), only a frame no relay entry claims
  reaches the exit handler, whose connection map is keyed by the bare stream id (MM/Model/C17.lean).
-/
import MM.Model.C17

namespace MM.C16
open MM.C17

structure Node where
  a : Agent := {}
  ex : Handler := {}
  deriving Repr

/-- What the handler's events are on the wire / at the destination. -/
def splitEvs (evs : List Ev) : List Sent × List String :=
  (evs.filterMap (fun e => match e with
      | .ack p i => some ⟨p, "ack", i, ""⟩
      | .err p i => some ⟨p, "err", i, ""⟩
      | .close p i => some ⟨p, "close", i, ""⟩
      | _ => none),
   evs.filterMap (fun e => match e with
      | .dst s => some s!"dst:{s}"
      | .dstClosed s => some s!"dstclosed:{s}"
      | _ => none))

/-- STREAM_DATA from `peer` with stream id `id`, payload sealed under the key of exit tunnel `serial`
    (a serial that belongs to no tunnel = undecryptable payload). -/
def Node.data (n : Node) (peer id serial : Nat) (payload : String := "") (fin : Bool := false) :
    Node × List Sent × List String :=
  match n.a.tcp.route peer id with
  | some (q, j) => (n, [⟨q, "data", j, payload⟩], [])
  | none =>
    -- exit handler: payload first (len(data) == 0: nothing to decrypt or write), then FIN_WRITE shuts the
    -- write side of the destination socket of the record that is (still) stored under the id
    let (ex1, evs) := if payload.startsWith "-" then (n.ex, []) else n.ex.data id peer serial
    let ex2 := if fin then
        (match ex1.conns.get id with
         | some c => { ex1 with wclosed := c.serial :: ex1.wclosed }
         | none => ex1)
      else ex1
    ({ n with ex := ex2 }, splitEvs evs)

/-- STREAM_CLOSE / STREAM_RESET. -/
def Node.close (n : Node) (what : String) (peer id : Nat) : Node × List Sent × List String :=
  match n.a.relayClose .tcp what peer id with
  | some (a', l) => ({ n with a := a' }, l, [])
  | none =>
    let (ex', evs) := n.ex.closeConn id peer
    ({ n with ex := ex' }, splitEvs evs)

/-- STREAM_OPEN with an empty remaining path, reachable destination, usable key. -/
def Node.xopen (n : Node) (peer id : Nat) : Node × List Sent × List String :=
  let (ex', evs) := n.ex.opened id peer
  ({ n with ex := ex' }, splitEvs evs)

end MM.C16
