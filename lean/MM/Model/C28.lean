/-
  Model of the sleep/wake command admission code, after fixes/C28-*.patch and fixes/C29-*.patch:

  * internal/flood/flood.go  markSleepCmdSeen, HandleSleepCommand, HandleWakeCommand,
    verifySleepCommand / verifyWakeCommand (identical), floodSleepCommand / floodWakeCommand,
    storePendingWake, OnPeerConnected, cleanupSleepCmdCache (the latter is used by C29);
  * internal/agent/agent.go  handleSleepCommand, handleWakeCommand, handleQueuedState
    (applySleepCommand / applyWakeCommand), and the Awake/Sleeping part of sleep.Manager.

  Time is explicit: `now : Int` nanoseconds since the Unix epoch is an argument of every step
  (the code reads `time.Now()`).  Command timestamps are uint64 Unix seconds.  Signature
  validity is an abstract predicate `V origin id ts sig` standing for
  `crypto.Verify(pub, SignableBytes(origin ‖ id ‖ ts), sig)` (Ed25519 is modelled, not verified);
  the engine instantiates it with the ideal signature scheme `idealV`.

  The pre-fix behaviours are kept as `…Pinned` definitions for the regression witnesses only.
-/
namespace MM.C28

inductive Kind where
  | sleep | wake
  deriving DecidableEq, Repr

/-- A 64-byte signature field, abstractly: all zero bytes, arbitrary non-zero bytes, or a
    signature the holder of key `key` made when issuing a command of kind `kind` with fields
    `(origin, id, ts)`.  The kind records what the key holder ISSUED; the bytes that are signed
    (`SignableBytes` = origin ‖ id ‖ ts) do not contain it. -/
inductive Sig where
  | zero
  | garbage
  | signed (key : Nat) (kind : Kind) (origin id ts : Nat)
  deriving DecidableEq, Repr

structure Cmd where
  origin : Nat
  id : Nat
  /-- `Timestamp` (uint64 Unix seconds). -/
  ts : Nat
  sig : Sig
  seenBy : List Nat
  deriving DecidableEq, Repr

/-- Abstract signature verification with the configured public key. -/
abbrev Verifier := Nat → Nat → Nat → Sig → Bool

/-- Ideal signatures as the CODE verifies them: valid iff made with the configured key (key 0) over
    exactly these origin, id and timestamp — whatever kind of command the key holder issued, because
    the signed bytes carry no command type. -/
def idealV : Verifier := fun o i t s =>
  match s with
  | .signed 0 _ o' i' t' => o' == o && i' == i && t' == t
  | _ => false

/-- What a verifier whose signed bytes bind the command type would accept for kind `k`. -/
def idealKV (k : Kind) : Verifier := fun o i t s => s == .signed 0 k o i t

structure FCfg where
  /-- `signingPubKey != nil`. -/
  signing : Bool
  /-- `timestampWindow` (ns). -/
  window : Int
  /-- `SeenCacheTTL` (ns). -/
  ttl : Int
  /-- `MaxSeenCacheSize`. -/
  maxSize : Nat
  localID : Nat
  /-- `sender.GetPeerIDs()`. -/
  peers : List Nat
  deriving Repr

structure Seen where
  origin : Nat
  id : Nat
  seenAt : Int
  seenFrom : Nat
  deriving DecidableEq, Repr

structure FState where
  seen : List Seen
  pending : Option (Cmd × Int)
  deriving Repr

def FState.empty : FState := { seen := [], pending := none }

/-! ### time arithmetic of `verifySleepCommand` -/

def minDur : Int := -(2^63)
def maxDur : Int := 2^63 - 1
def wrap64 (x : Int) : Int := (x + 2^63) % 2^64 - 2^63
/-- `int64(x)` for `x : uint64`. -/
def toInt64 (n : Nat) : Int := wrap64 (n % 2^64 : Nat)
/-- Seconds between year 1 and 1970 (`unixToInternal`). -/
def unixToInternal : Int := 62135596800
/-- The instant `time.Unix(int64(ts), 0)` denotes, in Unix seconds (the addition of
    `unixToInternal` inside `time.Unix` wraps in int64). -/
def cmdSec (ts : Nat) : Int := wrap64 (toInt64 ts + unixToInternal) - unixToInternal
/-- Saturating `time.Time.Sub`. -/
def satDur (d : Int) : Int := if d < minDur then minDur else if d > maxDur then maxDur else d
/-- `time.Since(cmdTime)`. -/
def since (now : Int) (ts : Nat) : Int := satDur (now - cmdSec ts * 1000000000)
/-- `if timeDiff < 0 { timeDiff = -timeDiff }` (int64 negation wraps at the minimum). -/
def absDur (d : Int) : Int := if d < 0 then wrap64 (-d) else d

/-- Fixed check: `timeDiff < 0 || timeDiff > window`. -/
def tsOutside (cfg : FCfg) (now : Int) (ts : Nat) : Bool :=
  decide (absDur (since now ts) < 0) || decide (absDur (since now ts) > cfg.window)

/-- Pre-fix check: `timeDiff > window` only (a saturated negative difference slips through). -/
def tsOutsidePinned (cfg : FCfg) (now : Int) (ts : Nat) : Bool :=
  decide (absDur (since now ts) > cfg.window)

/-- `verifySleepCommand` / `verifyWakeCommand` (`== nil`). -/
def verifyWith (outside : FCfg → Int → Nat → Bool) (V : Verifier) (cfg : FCfg) (now : Int) (c : Cmd) : Bool :=
  if !cfg.signing then true
  else if c.sig = .zero then false
  else if outside cfg now c.ts then false
  else V c.origin c.id c.ts c.sig

def verify := verifyWith tsOutside

/-! ### seen cache -/

def keyEq (e : Seen) (origin id : Nat) : Bool := e.origin == origin && e.id == id

def hasKey (l : List Seen) (origin id : Nat) : Bool := l.any (keyEq · origin id)

/-- `markSleepCmdSeen`: returns the new cache and whether the key was new. -/
def mark (l : List Seen) (now : Int) (origin id from_ : Nat) : List Seen × Bool :=
  if hasKey l origin id then
    (l.map fun e => if keyEq e origin id && e.seenFrom != from_ then { e with seenAt := now } else e, false)
  else
    ({ origin, id, seenAt := now, seenFrom := from_ } :: l, true)

/-- `sleepCmdCacheTTL()`: `SeenCacheTTL`, but never less than twice the timestamp window
    (fixes/C29-sleep-cache-ttl.patch). -/
def sleepTtl (cfg : FCfg) : Int := if cfg.ttl < 2 * cfg.window then 2 * cfg.window else cfg.ttl

/-- The TTL pass of `cleanupSleepCmdCache`: entries with `now - SeenAt > expiry` are deleted. -/
def expire (l : List Seen) (now ttl : Int) : List Seen := l.filter fun e => !decide (now - e.seenAt > ttl)

/-! ### flooder handlers -/

/-- `floodFrame`: every connected peer except the source and those already in `seenBy`. -/
def recipients (cfg : FCfg) (from_ : Nat) (seenBy : List Nat) : List Nat :=
  cfg.peers.filter fun p => p != from_ && !seenBy.contains p

/-- `HandleSleepCommand` / `HandleWakeCommand`: new state, the boolean result, frames sent.
    Order of the checks (after fixes/C29-verify-before-mark.patch): SeenBy loop check, signature
    and timestamp verification, and only then the seen-cache test-and-set. -/
def handleWith (outside : FCfg → Int → Nat → Bool) (V : Verifier) (cfg : FCfg) (st : FState) (now : Int)
    (k : Kind) (from_ : Nat) (c : Cmd) : FState × Bool × List (Nat × Cmd) :=
  if c.seenBy.contains cfg.localID then (st, false, [])
  else if !verifyWith outside V cfg now c then (st, false, [])
  else
    let (seen', isNew) := mark st.seen now c.origin c.id from_
    let st1 := { st with seen := seen' }
    if !isNew then (st1, false, [])
    else
      let fwd := { c with seenBy := c.seenBy ++ [cfg.localID] }
      let sends := (recipients cfg from_ fwd.seenBy).map fun p => (p, fwd)
      let st2 := match k with
        | .wake => { st1 with pending := some (c, now) }
        | .sleep => st1
      (st2, true, sends)

/-- The order before that fix: the key was recorded in the seen cache BEFORE verification. -/
def handleMarkFirst (V : Verifier) (cfg : FCfg) (st : FState) (now : Int)
    (k : Kind) (from_ : Nat) (c : Cmd) : FState × Bool × List (Nat × Cmd) :=
  let (seen', isNew) := mark st.seen now c.origin c.id from_
  let st1 := { st with seen := seen' }
  if !isNew then (st1, false, [])
  else if c.seenBy.contains cfg.localID then (st1, false, [])
  else if !verify V cfg now c then (st1, false, [])
  else
    let fwd := { c with seenBy := c.seenBy ++ [cfg.localID] }
    let sends := (recipients cfg from_ fwd.seenBy).map fun p => (p, fwd)
    let st2 := match k with
      | .wake => { st1 with pending := some (c, now) }
      | .sleep => st1
    (st2, true, sends)

def handle := handleWith tsOutside

/-- `OnPeerConnected` (with the re-verification added by the fix). -/
def onPeerConnected (V : Verifier) (cfg : FCfg) (st : FState) (now : Int) (peer : Nat) : FState × List (Nat × Cmd) :=
  match st.pending with
  | none => (st, [])
  | some (c, storedAt) =>
    if now - storedAt > cfg.ttl then ({ st with pending := none }, [])
    else if peer = c.origin then (st, [])
    else if !verify V cfg now c then ({ st with pending := none }, [])
    else (st, [(peer, { c with seenBy := [cfg.localID] })])

/-- `OnPeerConnected` before the fix (no re-verification). -/
def onPeerConnectedPinned (cfg : FCfg) (st : FState) (now : Int) (peer : Nat) : FState × List (Nat × Cmd) :=
  match st.pending with
  | none => (st, [])
  | some (c, storedAt) =>
    if now - storedAt > cfg.ttl then ({ st with pending := none }, [])
    else if peer = c.origin then (st, [])
    else (st, [(peer, { c with seenBy := [cfg.localID] })])

/-! ### agent level -/

inductive SleepSt where
  | awake | sleeping | polling
  deriving DecidableEq, Repr

/-- `sleep.Manager.Sleep()`: refused unless awake.  Returns the new state and whether `OnSleep` ran. -/
def mgrSleep : SleepSt → SleepSt × Bool
  | .awake => (.sleeping, true)
  | s => (s, false)

/-- `sleep.Manager.Wake()`: refused when awake. -/
def mgrWake : SleepSt → SleepSt × Bool
  | .awake => (.awake, false)
  | _ => (.awake, true)

structure AState where
  f : FState
  sl : SleepSt
  deriving Repr

/-- The ways a command can reach an agent. -/
inductive Via where
  | floodSleep    -- SLEEP_COMMAND frame
  | floodWake     -- WAKE_COMMAND frame
  | queuedSleep   -- SleepCmd inside a QUEUED_STATE frame
  | queuedWake    -- WakeCmd inside a QUEUED_STATE frame
  deriving DecidableEq, Repr

def Via.kind : Via → Kind
  | .floodSleep | .queuedSleep => .sleep
  | .floodWake | .queuedWake => .wake

structure Outcome where
  /-- `sleepMgr.Sleep()` was invoked. -/
  sleepInvoked : Bool
  /-- `sleepMgr.Wake()` was invoked. -/
  wakeInvoked : Bool
  /-- `OnSleep` callbacks run. -/
  onSleep : Nat
  /-- `OnWake` callbacks run. -/
  onWake : Nat
  /-- sleep/wake command frames sent: (to peer, kind, command). -/
  sends : List (Nat × Kind × Cmd)
  deriving Repr

def Outcome.none : Outcome := { sleepInvoked := false, wakeInvoked := false, onSleep := 0, onWake := 0, sends := [] }

/-- `applySleepCommand` / `applyWakeCommand`: every `via` goes through the flooder's handler. -/
def deliver (V : Verifier) (cfg : FCfg) (a : AState) (now : Int) (via : Via) (from_ : Nat) (c : Cmd) : AState × Outcome :=
  let k := via.kind
  let (f', accepted, sends) := handle V cfg a.f now k from_ c
  let out0 : Outcome := { Outcome.none with sends := sends.map fun (p, c) => (p, k, c) }
  if !accepted then ({ a with f := f' }, out0)
  else match k with
    | .sleep =>
      let (s', cb) := mgrSleep a.sl
      ({ f := f', sl := s' }, { out0 with sleepInvoked := true, onSleep := if cb then 1 else 0 })
    | .wake =>
      let (s', cb) := mgrWake a.sl
      ({ f := f', sl := s' }, { out0 with wakeInvoked := true, onWake := if cb then 1 else 0 })

/-- The code before the fix: a command inside QUEUED_STATE was applied without any check. -/
def deliverPinned (V : Verifier) (cfg : FCfg) (a : AState) (now : Int) (via : Via) (from_ : Nat) (c : Cmd) : AState × Outcome :=
  match via with
  | .queuedSleep =>
    let (s', cb) := mgrSleep a.sl
    ({ a with sl := s' }, { Outcome.none with sleepInvoked := true, onSleep := if cb then 1 else 0 })
  | .queuedWake =>
    let (s', cb) := mgrWake a.sl
    ({ a with sl := s' }, { Outcome.none with wakeInvoked := true, onWake := if cb then 1 else 0 })
  | _ =>
    let k := via.kind
    let (f', accepted, sends) := handleWith tsOutsidePinned V cfg a.f now k from_ c
    let out0 : Outcome := { Outcome.none with sends := sends.map fun (p, c) => (p, k, c) }
    if !accepted then ({ a with f := f' }, out0)
    else match k with
      | .sleep =>
        let (s', cb) := mgrSleep a.sl
        ({ f := f', sl := s' }, { out0 with sleepInvoked := true, onSleep := if cb then 1 else 0 })
      | .wake =>
        let (s', cb) := mgrWake a.sl
        ({ f := f', sl := s' }, { out0 with wakeInvoked := true, onWake := if cb then 1 else 0 })

/-! ### issuer side: `Agent.TriggerSleep` / `Agent.TriggerWake` (an operator action on this agent) -/

/-- `FloodSleepCommand` / `FloodWakeCommand`: the local command is recorded as seen (from the agent
    itself), a wake command is stored for peers that connect later, and the command goes to every
    connected peer with `SeenBy = [local]`. -/
def floodLocal (cfg : FCfg) (st : FState) (now : Int) (k : Kind) (c : Cmd) : FState × List (Nat × Cmd) :=
  let st1 := { st with seen := (mark st.seen now c.origin c.id cfg.localID).1 }
  let st2 := match k with
    | .wake => { st1 with pending := some (c, now) }
    | .sleep => st1
  (st2, cfg.peers.map fun p => (p, { c with seenBy := [cfg.localID] }))

/-- The command `TriggerSleep`/`TriggerWake` builds: origin = this agent, `Timestamp = time.Now().Unix()`,
    signed with the configured private key when there is one (`CanSign`), otherwise unsigned. -/
def issued (canSign : Bool) (cfg : FCfg) (now : Int) (k : Kind) (id : Nat) : Cmd :=
  let ts := (now / 1000000000).toNat
  { origin := cfg.localID, id, ts, sig := if canSign then .signed 0 k cfg.localID id ts else .zero, seenBy := [cfg.localID] }

/-- `TriggerSleep`: flood first, then `Sleep()`.  `TriggerWake`: `Wake()` first (an error aborts),
    then flood (repeatedly; the frames are identical). -/
def trigger (canSign : Bool) (cfg : FCfg) (a : AState) (now : Int) (k : Kind) (id : Nat) : AState × Outcome :=
  let c := issued canSign cfg now k id
  match k with
  | .sleep =>
    let (f', sends) := floodLocal cfg a.f now k c
    let (s', cb) := mgrSleep a.sl
    ({ f := f', sl := s' },
     { Outcome.none with sleepInvoked := true, onSleep := (if cb then 1 else 0), sends := sends.map fun (p, c) => (p, k, c) })
  | .wake =>
    let (s', cb) := mgrWake a.sl
    if !cb then (a, { Outcome.none with wakeInvoked := true })
    else
      let (f', sends) := floodLocal cfg a.f now k c
      ({ f := f', sl := s' },
       { Outcome.none with wakeInvoked := true, onWake := 1, sends := sends.map fun (p, c) => (p, k, c) })

end MM.C28
