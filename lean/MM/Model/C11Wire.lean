import MM.Engine.Basic
import MM.Model.C11

/-
  Line protocol of the flood engines c11..c15 (see harness/main/eng_c11.go for the op list and the
  output format).  Three modes:

    default   model only; `replay` visits the origins in canonical (ascending) order
    follow    input lines are `op<TAB>implementation output`; the model takes SendFullTable's
              origin order (Go map iteration: any permutation is admissible) from the
              implementation's answer, checks that it IS a permutation of the model's origin set
              and prints the model's own line — which the driver compares with the implementation's
    spec      input lines are `op<TAB>implementation output`; the executable statement of one
              property (C11..C15) is evaluated on the implementation's own answers
-/
namespace MM.C11.Wire
open MM.Engine MM.C11

/-! ### printing -/

def joinOr (sep : String) (xs : List String) : String :=
  if xs.isEmpty then "_" else sep.intercalate xs

def pathStr (p : List Node) : String := joinOr "-" (p.map toString)

def entryStr (e : Entry) : String :=
  s!"{e.kind}:{e.key}:{e.origin}:{e.nextHop}:{e.metric}:{e.seq}:{e.lu}:{pathStr e.path}"

def leTab (a b : Entry) : Bool :=
  if a.kind != b.kind then a.kind < b.kind
  else if a.key != b.key then a.key < b.key
  else a.origin ≤ b.origin

def canonEntries (st : NodeSt) : List Entry :=
  st.tab.mergeSort leTab ++ st.agents.mergeSort (fun a b => a.key ≤ b.key)

def leSeen (a b : Node × Nat) : Bool := if a.1 != b.1 then a.1 < b.1 else a.2 ≤ b.2

def nodeStr (s : Net) (i : Node) : String :=
  let st := s.nodes i
  let seen := joinOr "," ((st.seen.mergeSort leSeen).map (fun k => s!"{k.1}:{k.2}"))
  let tab := joinOr "," ((canonEntries st).map entryStr)
  s!"n{i}={st.seq}/{seen}/{tab}"

def leRAd (a b : RAd) : Bool := if a.kind != b.kind then a.kind < b.kind else a.key ≤ b.key

def advStr (m : Adv) : String :=
  let rs := joinOr "+" ((m.routes.mergeSort leRAd).map (fun r => s!"{r.kind}.{r.key}.{r.metric}"))
  s!"{m.origin}:{m.seq}:{pathStr m.path}:{pathStr m.seenBy}:{rs}" ++ (if m.wd then ":w" else "")

def queueOf (s : Net) (a b : Node) : List Adv := (s.flight.filter (onLink a b)).map (·.adv)

def queueStr (s : Net) (a b : Node) : String :=
  s!"q{a}.{b}=" ++ joinOr "," ((queueOf s a b).map advStr)

def outQueues (s : Net) (a : Node) : List String := (peersOf s a).map (queueStr s a)

def line (res : String) (parts : List String) : String := " ".intercalate (("r=" ++ res) :: parts)

/-! ### parsing ops -/

def nat? (s : String) : Option Nat := s.toNat?

def parseLocs (tok : String) : Option (List RAd) :=
  if tok = "_" then some [] else
  (tok.splitOn "+").mapM (fun p => match p.splitOn "." with
    | [k, key, m] => match nat? k, nat? key, nat? m with
      | some k, some key, some m => some { kind := k, key := key, metric := m }
      | _, _, _ => none
    | _ => none)

structure Cfg where
  n : Nat
  /-- routing.max_hops per agent (0 = no limit); a single value in the `reset` line applies to all -/
  mh : List Nat
  locals : List (List RAd)

def Cfg.localsOf (c : Cfg) (x : Node) : List RAd := c.locals.getD x []

def parseReset (toks : List String) : Option Cfg :=
  match toks with
  | "reset" :: n :: mh :: rest =>
    match nat? n, (mh.splitOn ",").mapM nat?, rest.mapM parseLocs with
    | some n, some mh, some ls =>
      if n ≥ 1 ∧ n ≤ 300 ∧ ls.length = n ∧ (mh.length = 1 ∨ mh.length = n) then
        some { n := n, mh := if mh.length = 1 then List.replicate n (mh.headD 0) else mh, locals := ls }
      else none
    | _, _, _ => none
  | _ => none

def Cfg.mhOf (c : Cfg) (x : Node) : Nat := c.mh.getD x 0

def Cfg.initNet (c : Cfg) : Net := initH c.n c.mhOf c.localsOf

/-- `none` = not an op of the protocol at all; ill-formed operands become the answer the Go side
    gives for them. -/
inductive POp where
  | op (o : Op)
  | bad (answer : String)

def parseOp (toks : List String) : POp :=
  let n2 := fun (a b : String) (k : Nat → Nat → POp) (bad : String) =>
    match nat? a, nat? b with
    | some a, some b => k a b
    | _, _ => POp.bad bad
  match toks with
  | ["connect", a, b] => n2 a b (fun a b => .op (.connect a b)) "r=bad"
  | ["disconnect", a, b] => n2 a b (fun a b => .op (.disconnect a b)) "r=nolink"
  | ["replay", a, b] => n2 a b (fun a b => .op (.replay a b [])) "r=nolink"
  | ["announce", a] => match nat? a with
    | some a => .op (.announce a [])
    | none => .bad "r=bad"
  | ["withdraw", a] => match nat? a with
    | some a => .op (.withdraw a [])
    | none => .bad "r=bad"
  | ["deliver", a, b, i] => match nat? i with
    | some i => n2 a b (fun a b => .op (.deliver a b i)) "r=nolink"
    | none => .bad "r=nolink"
  | ["dup", a, b, i] => match nat? i with
    | some i => n2 a b (fun a b => .op (.dup a b i)) "r=nolink"
    | none => .bad "r=nolink"
  | ["drop", a, b, i] => match nat? i with
    | some i => n2 a b (fun a b => .op (.drop a b i)) "r=nolink"
    | none => .bad "r=nolink"
  | ["expire", a, o, sq] => match nat? a, nat? o, nat? sq with
    | some a, some o, some sq => .op (.expire a o sq)
    | _, _, _ => .bad "r=bad"
  | ["stale", a, age] => n2 a age (fun a age => .op (.stale a age)) "r=bad"
  | "dump" :: _ => .op .dump
  | _ => .bad "r=bad"

/-! ### one op on the model, with the output line -/

def resStr : Res → String
  | .new => "new"
  | .seen => "seen"
  | .drop => "drop"

/-- Executes `op` (clock tick included) and renders the answer exactly like the Go engine. -/
def exec (s : Net) (op : Op) : Net × String :=
  let s' := step s op
  let t := tick s
  match op with
  | .connect a b =>
    (s', if a < s.n ∧ b < s.n ∧ a ≠ b then "r=ok" else "r=bad")
  | .disconnect a b =>
    if a < s.n ∧ b < s.n ∧ linked s a b then (s', line "ok" [nodeStr s' a, nodeStr s' b])
    else (s', "r=nolink")
  | .replay a b hint =>
    if a < s.n ∧ b < s.n ∧ linked s a b then
      let eo := (effFrames (hopCap (s.maxHops a)) (s.nodes a) b hint).map (·.origin)
      (s', line ("ord:" ++ joinOr "," (eo.map toString)) [nodeStr s' a, queueStr s' a b])
    else (s', "r=nolink")
  | .announce a _ =>
    if a < s.n then (s', line "ok" (nodeStr s' a :: outQueues s' a)) else (s', "r=bad")
  | .withdraw a _ =>
    if a < s.n then (s', line "ok" (nodeStr s' a :: outQueues s' a)) else (s', "r=bad")
  | .deliver a b i =>
    if a < s.n ∧ b < s.n ∧ linked s a b then
      match pickFlight t a b i with
      | none => (s', "r=empty")
      | some (pos, f) =>
        let r := (process { t with flight := t.flight.eraseIdx pos } a b f.adv).2
        (s', line (resStr r) ([nodeStr s' b, queueStr s' a b] ++ outQueues s' b))
    else (s', "r=nolink")
  | .dup a b i =>
    if a < s.n ∧ b < s.n ∧ linked s a b then
      match pickFlight t a b i with
      | none => (s', "r=empty")
      | some (_, f) =>
        let r := (process t a b f.adv).2
        (s', line (resStr r) ([nodeStr s' b, queueStr s' a b] ++ outQueues s' b))
    else (s', "r=nolink")
  | .drop a b i =>
    if a < s.n ∧ b < s.n ∧ linked s a b then
      match pickFlight t a b i with
      | none => (s', "r=empty")
      | some _ => (s', line "ok" [queueStr s' a b])
    else (s', "r=nolink")
  | .expire a o sq =>
    if a < s.n then
      (s', line (if (s.nodes a).seen.contains (o, sq) then "removed" else "absent") [nodeStr s' a])
    else (s', "r=bad")
  | .stale a _ =>
    if a < s.n then
      let st := s.nodes a
      let st' := s'.nodes a
      let removed := (st.tab.length + st.agents.length) - (st'.tab.length + st'.agents.length)
      (s', line s!"removed:{removed}" [nodeStr s' a])
    else (s', "r=bad")
  | .dump =>
    let nodes := (List.range s.n).map (nodeStr s')
    let qs := ((List.range s.n).map (outQueues s')).flatten
    (s', line "dump" (nodes ++ qs))

def resetLine (s : Net) : String :=
  "r=reset " ++ " ".intercalate ((List.range s.n).map (nodeStr s))

/-- `r=ord:1,0,2` at the start of an implementation answer. -/
def ordOf (implOut : String) : Option (List Node) :=
  match tokens implOut with
  | r :: _ =>
    if r.startsWith "r=ord:" then
      let body := (r.drop 6).toString
      if body = "_" then some [] else (body.splitOn ",").mapM nat?
    else none
  | [] => none

/-! ### parsing implementation answers (spec mode) -/

def parsePath (s : String) : Option (List Nat) :=
  if s = "_" then some [] else (s.splitOn "-").mapM nat?

def parseEntry (s : String) : Option Entry :=
  match s.splitOn ":" with
  | [k, key, o, nh, m, sq, lu, p] =>
    match nat? k, nat? key, nat? o, nat? nh, nat? m, nat? sq, nat? lu, parsePath p with
    | some k, some key, some o, some nh, some m, some sq, some lu, some p =>
      some { kind := k, key := key, origin := o, nextHop := nh, metric := m, seq := sq, lu := lu, path := p }
    | _, _, _, _, _, _, _, _ => none
  | _ => none

def parseRAds (s : String) : Option (List RAd) :=
  if s = "_" then some [] else
  (s.splitOn "+").mapM (fun p => match p.splitOn "." with
    | [k, key, m] => match nat? k, nat? key, nat? m with
      | some k, some key, some m => some { kind := k, key := key, metric := m }
      | _, _, _ => none
    | _ => none)

def parseAdv (s : String) : Option Adv :=
  match s.splitOn ":" with
  | [o, sq, p, sb, rs] =>
    match nat? o, nat? sq, parsePath p, parsePath sb, parseRAds rs with
    | some o, some sq, some p, some sb, some rs => some { origin := o, seq := sq, path := p, seenBy := sb, routes := rs }
    | _, _, _, _, _ => none
  | [o, sq, p, sb, rs, "w"] =>
    match nat? o, nat? sq, parsePath p, parsePath sb, parseRAds rs with
    | some o, some sq, some p, some sb, some rs =>
      some { origin := o, seq := sq, path := p, seenBy := sb, routes := rs, wd := true }
    | _, _, _, _, _ => none
  | _ => none

def parseList {α : Type} (f : String → Option α) (s : String) : Option (List α) :=
  if s = "_" then some [] else (s.splitOn ",").mapM f

structure NodeView where
  id : Node
  seq : Nat
  seen : List (Node × Nat)
  tab : List Entry

structure QueueView where
  a : Node
  b : Node
  msgs : List Adv

structure View where
  res : String
  nodes : List NodeView
  queues : List QueueView
  ok : Bool   -- everything parsed

def parseSeenKey (s : String) : Option (Node × Nat) :=
  match s.splitOn ":" with
  | [o, q] => match nat? o, nat? q with
    | some o, some q => some (o, q)
    | _, _ => none
  | _ => none

def parseNodeTok (t : String) : Option NodeView :=
  match t.splitOn "=" with
  | [name, body] =>
    match nat? (name.drop 1).toString, body.splitOn "/" with
    | some id, [sq, seen, tab] =>
      match nat? sq, parseList parseSeenKey seen, parseList parseEntry tab with
      | some sq, some seen, some tab => some { id := id, seq := sq, seen := seen, tab := tab }
      | _, _, _ => none
    | _, _ => none
  | _ => none

def parseQueueTok (t : String) : Option QueueView :=
  match t.splitOn "=" with
  | [name, body] =>
    match ((name.drop 1).toString).splitOn "." with
    | [a, b] => match nat? a, nat? b, parseList parseAdv body with
      | some a, some b, some ms => some { a := a, b := b, msgs := ms }
      | _, _, _ => none
    | _ => none
  | _ => none

def parseView (implOut : String) : View :=
  match tokens implOut with
  | [] => { res := "", nodes := [], queues := [], ok := false }
  | r :: rest =>
    let res := if r.startsWith "r=" then (r.drop 2).toString else r
    rest.foldl (fun v t =>
      if t.startsWith "n" then
        match parseNodeTok t with
        | some nv => { v with nodes := v.nodes ++ [nv] }
        | none => { v with ok := false }
      else if t.startsWith "q" then
        match parseQueueTok t with
        | some qv => { v with queues := v.queues ++ [qv] }
        | none => { v with ok := false }
      else { v with ok := false }) { res := res, nodes := [], queues := [], ok := true }

/-! ### spec mode: executable statements on the implementation's answers -/

/-- What the spec remembers about the implementation's run (built only from its own answers). -/
structure Obs where
  cfg : Cfg
  links : List (Node × Node) := []
  clock : Nat := 0
  queues : List ((Node × Node) × List Adv) := []
  /-- (node, origin, seq) processed (result `new`) and still in that node's cache -/
  procCached : List (Node × Node × Nat) := []
  /-- processed earlier, key expired since -/
  procExpired : List (Node × Node × Nat) := []
  /-- keys marked seen at a node by the delivery of a genuine copy (new or drop) -/
  marked : List (Node × Node × Nat) := []
  /-- (origin, seq) issued by the origin itself (announce, or replay of its own routes) -/
  genuine : List (Node × Nat) := []
  /-- (origin, seq) issued by somebody else's SendFullTable for that origin -/
  relayed : List (Node × Nat) := []
  /-- `genuine` as it was before the op being checked -/
  genuinePrev : List (Node × Nat) := []
  /-- tick of the last `disconnect` (0 = the topology only grew so far) -/
  lastDisc : Nat := 0
  /-- tick at which (origin, seq) was issued by its origin -/
  issuedAt : List ((Node × Nat) × Nat) := []
  /-- relayed keys whose number did NOT come from the replayer's own counter -/
  forged : List (Node × Nat) := []
  /-- last printed sequence counter of every agent -/
  counters : List (Node × Nat) := []
  /-- (origin, lowest, highest sequence number) of the origin's latest announcement -/
  lastAnn : List (Node × Nat × Nat) := []

def Obs.queue (o : Obs) (a b : Node) : List Adv :=
  match o.queues.find? (fun q => q.1 == (a, b)) with
  | some q => q.2
  | none => []

def Obs.setQueue (o : Obs) (a b : Node) (ms : List Adv) : Obs :=
  { o with queues := ((a, b), ms) :: o.queues.filter (fun q => q.1 != (a, b)) }

def Obs.linked (o : Obs) (a b : Node) : Bool := o.links.contains (a, b)

def Obs.counter (o : Obs) (a : Node) : Nat :=
  match o.counters.find? (fun c => c.1 == a) with
  | some c => c.2
  | none => (o.cfg.localsOf a).length

/-- The links a route's path may use are known to be current: the topology never shrank, or the
    route's announcement was issued by its origin after the last disconnect (and its number was not
    also used by somebody's table replay, which re-advertises paths stored earlier). -/
def Obs.pathIsCurrent (o : Obs) (e : Entry) : Bool :=
  o.lastDisc == 0 ||
  (!(o.relayed.contains (e.origin, e.seq)) &&
    match o.issuedAt.find? (fun i => i.1 == (e.origin, e.seq)) with
    | some i => i.2 > o.lastDisc
    | none => false)

def hasDup : List Nat → Bool
  | [] => false
  | x :: t => t.contains x || hasDup t

def baseOf (c : Cfg) (e : Entry) : Option Nat :=
  if e.kind = 3 then (if e.key = e.origin then some 0 else none)
  else match (c.localsOf e.origin).find? (fun r => r.kind == e.kind && r.key == e.key) with
    | some r => some r.metric
    | none => none

/-- The frame `deliver a b i` / `dup a b i` addresses, according to the queues the implementation
    printed so far. -/
def Obs.delivered (o : Obs) (a b i : Nat) : Option Adv :=
  let q := o.queue a b
  if q.length = 0 then none else q[i % q.length]?

/-- Issued by its origin and flooded hop by hop (relayed replays start their seen-by list with the
    replayer, not with the origin). -/
def isGenuine (m : Adv) : Bool := m.seenBy.head? == some m.origin

inductive Prop5 where
  | c11 | c12 | c13 | c14 | c15
deriving DecidableEq

def firstFail (checks : List (Bool × String)) : Option String :=
  match checks.find? (fun c => !c.1) with
  | some c => some c.2
  | none => none

/-- Per-entry checks of one property on a node table printed by the implementation. -/
def entryChecks (p : Prop5) (o : Obs) (x : Node) (e : Entry) : List (Bool × String) :=
  let learned := e.path.length > 0
  match p with
  | .c11 =>
    [ (!(e.path.contains x), "self-in-path"),
      (!(hasDup e.path), "path-revisits-agent") ]
  | .c12 =>
    if !learned then [ (e.origin == x, "learned-route-without-path") ] else
    [ (e.path.head? == some e.nextHop, "path-head-not-next-hop"),
      (e.path.getLast? == some e.origin, "path-does-not-end-at-origin") ] ++
    (if o.pathIsCurrent e then
      [ (o.linked x e.nextHop, "next-hop-not-neighbour"),
        (chainOK o.linked x e.path, "path-not-chain-of-current-links"),
        (openRoute o.linked x e == some e.origin, "open-does-not-reach-origin") ]
     else [])
  | .c13 =>
    if !learned then [] else
    match baseOf o.cfg e with
    | none => [(false, "route-never-advertised-by-origin")]
    | some b =>
      [ (e.metric == (b + e.path.length) % 65536,
          if o.relayed.contains (e.origin, e.seq) then "metric-not-hops-via-relayed-replay" else "metric-not-hops") ]
  | .c14 => []
  | .c15 =>
    -- the recorded path is what the hop limit is measured on: a learned route must have one, and
    -- it must lead to the origin (otherwise the hop count was restarted somewhere)
    [ (learned || e.origin == x, "learned-route-without-path"),
      (!learned || e.path.getLast? == some e.origin, "hop-count-restarted") ] ++
    -- every table — CIDR, domain, forward AND agent presence — against the holder's own limit
    (if o.cfg.mhOf x = 0 then [] else [ (decide (e.path.length ≤ o.cfg.mhOf x), "stored-beyond-hop-limit") ])

def msgChecks (p : Prop5) (o : Obs) (sender : Node) (m : Adv) : List (Bool × String) :=
  match p with
  | .c11 => [ (!(hasDup m.seenBy), "seenby-duplicate") ]
  | .c15 =>
    -- a forwarded copy (seen-by longer than one) never carries a path longer than the limit
    -- (judged on the sending agent's own limit)
    if o.cfg.mhOf sender = 0 || m.wd then []
    else [ (decide (m.path.length ≤ o.cfg.mhOf sender), "sent-beyond-hop-limit") ]
  | _ => []

/-- `dump converged` (emitted by the generator at the end of a clean case: connected topology brought
    up before any delivery, no loss / expiry / stale cleanup / later replay, every agent announced,
    all queues drained): every agent holds every other agent's presence and every advertised route. -/
def convergeChecks (o : Obs) (v : View) : List (Bool × String) :=
  if o.cfg.mh.any (· != 0) then [] else
  if v.queues.any (fun q => !q.msgs.isEmpty) then [(false, "converged-dump-not-quiescent")] else
  (v.nodes.map (fun nx =>
    ((List.range o.cfg.n).filter (· != nx.id)).map (fun org =>
      ( nx.tab.any (fun e => e.kind == 3 && e.key == org && e.origin == org)
        && (o.cfg.localsOf org).all (fun r => nx.tab.any (fun e => e.kind == r.kind && e.key == r.key && e.origin == org)),
        "not-converged")))).flatten

/-- `dump converged` for C14: after every origin's last announcement has quiesced, every stored
    copy of one of its CIDR / domain / forward routes carries a sequence number of that announcement. -/
def renewedChecks (o : Obs) (v : View) : List (Bool × String) :=
  if v.queues.any (fun q => !q.msgs.isEmpty) then [] else
  (v.nodes.map (fun nx =>
    (nx.tab.filter (fun e => e.kind != 3 && e.origin != nx.id && e.path.length > 0)).map (fun e =>
      match o.lastAnn.find? (fun l => l.1 == e.origin) with
      | none => (true, "")
      | some l =>
        if e.seq > l.2.2 && !(o.genuine.contains (e.origin, e.seq)) then (false, "refresh-blocked-by-replayed-sequence")
        else (decide (l.2.1 ≤ e.seq), "stored-copy-not-renewed-at-quiescence")))).flatten

/-- Checks that need the op, the delivered frame and the history. -/
def opChecks (p : Prop5) (o : Obs) (toks : List String) (v : View) : List (Bool × String) :=
  match toks with
  | [kind, a, b, i] =>
    if kind = "deliver" ∨ kind = "dup" then
      match nat? a, nat? b, nat? i with
      | some a, some b, some i =>
        match o.delivered a b i with
        | none => []
        | some m =>
          let key := (b, m.origin, m.seq)
          match p with
          | .c11 =>
            if v.res = "new" then
              [ (!(o.procCached.contains key), "reprocessed-while-cached"),
                (!(o.procExpired.contains key), "reprocessed-after-expiry") ]
            else []
          | .c14 =>
            -- a copy of an announcement issued by its origin and flooded hop by hop: only the
            -- origin itself starts a seen-by list with its own id (relayed replays start with
            -- the replayer)
            if !(isGenuine m) || m.wd then [] else
            if v.res = "seen" then
              -- legitimately "already seen" only if this agent handled a genuine copy of this key before
              [ (o.marked.contains key,
                  if o.forged.contains (m.origin, m.seq) then "genuine-announcement-ignored-key-not-from-replayer-counter"
                  else "genuine-announcement-ignored-replay-key-collision") ]
            else if v.res = "new" then
              match v.nodes.find? (fun nv => nv.id == b) with
              | none => []
              | some nv =>
                m.routes.map (fun r =>
                  match nv.tab.find? (fun e => e.kind == r.kind && e.key == r.key && e.origin == m.origin
                      && (r.kind != 3 || e.nextHop == a)) with
                  | none => (false, "genuine-announcement-not-stored")
                  | some e =>
                    if e.seq < m.seq then (false, "newer-announcement-not-stored")
                    else
                    -- not refreshed although the stored sequence number was never issued by the origin
                    (e.seq ≤ m.seq || o.genuine.contains (m.origin, e.seq), "refresh-blocked-by-replayed-sequence"))
            else []
          | _ => []
      | _, _, _ => []
    else []
  | ["announce", a] =>
    match p, nat? a with
    | .c14, some a =>
      -- every announcement carries a sequence number above everything its origin issued before
      let news := (v.queues.map (fun q => q.msgs.getLast?.toList)).flatten
      news.filter (fun m => m.origin == a) |>.map (fun m =>
        (o.genuinePrev.all (fun g => g.1 != a || g.2 < m.seq), "announcement-reuses-sequence"))
    | _, _ => []
  | _ => []

/-- Update the observation with this op and the implementation's answer. -/
def Obs.update (o : Obs) (toks : List String) (v : View) : Obs :=
  let o := { o with clock := o.clock + 1 }
  -- delivered frame (before the queues are refreshed)
  let o := match toks with
    | [kind, a, b, i] =>
      if kind = "deliver" ∨ kind = "dup" then
        match nat? a, nat? b, nat? i with
        | some a, some b, some i =>
          match o.delivered a b i with
          | some m =>
            let key := (b, m.origin, m.seq)
            let o := if (v.res = "new" ∨ v.res = "drop") ∧ isGenuine m then { o with marked := key :: o.marked } else o
            if v.res = "new" then { o with procCached := key :: o.procCached } else o
          | none => o
        | _, _, _ => o
      else if kind = "expire" then
        match nat? a, nat? b, nat? i with
        | some a, some org, some sq =>
          if v.res = "removed" then
            let key := (a, org, sq)
            { o with procExpired := if o.procCached.contains key then key :: o.procExpired else o.procExpired,
                     procCached := o.procCached.filter (· != key),
                     marked := o.marked.filter (· != key) }
          else o
        | _, _, _ => o
      else o
    | ["connect", a, b] =>
      match nat? a, nat? b with
      | some a, some b => if v.res = "ok" then { o with links := (a, b) :: (b, a) :: o.links } else o
      | _, _ => o
    | ["disconnect", a, b] =>
      match nat? a, nat? b with
      | some a, some b =>
        if v.res = "ok" then
          { o with links := o.links.filter (fun l => l != (a, b) && l != (b, a)), lastDisc := o.clock,
                   queues := o.queues.filter (fun q => q.1 != (a, b) && q.1 != (b, a)) }
        else o
      | _, _ => o
    | _ => o
  -- sequences issued by this op
  let o := match toks with
    | ["withdraw", a] =>
      match nat? a with
      | some a =>
        let news := match v.queues.head? with
          | some q => q.msgs.drop (o.queue q.a q.b).length
          | none => []
        { o with genuine := (news.filter (fun m => m.origin == a && m.wd)).map (fun m => (m.origin, m.seq)) ++ o.genuine }
      | none => o
    | ["announce", a] =>
      match nat? a with
      | some a =>
        let news := match v.queues.head? with
          | some q => q.msgs.drop (o.queue q.a q.b).length
          | none => []
        let keys := (news.filter (fun m => m.origin == a && !m.wd)).map (fun m => (m.origin, m.seq))
        let seqs := keys.map (·.2)
        { o with genuine := keys ++ o.genuine, issuedAt := keys.map (fun k => (k, o.clock)) ++ o.issuedAt,
                 lastAnn := if seqs.isEmpty then o.lastAnn
                   else (a, seqs.foldl min (seqs.headD 0), seqs.foldl max 0) :: o.lastAnn.filter (fun l => l.1 != a) }
      | none => o
    | ["replay", a, b] =>
      match nat? a, nat? b with
      | some a, some b =>
        match v.queues.find? (fun q => q.a == a && q.b == b) with
        | some q =>
          let old := (o.queue a b).length
          let news := q.msgs.drop old
          let own := (news.filter (fun m => m.origin == a)).map (fun m => (m.origin, m.seq))
          let ctr := o.counter a
          { o with genuine := own ++ o.genuine,
                   issuedAt := own.map (fun k => (k, o.clock)) ++ o.issuedAt,
                   relayed := (news.filter (fun m => m.origin != a)).map (fun m => (m.origin, m.seq)) ++ o.relayed,
                   forged := (news.filter (fun m => m.origin != a && !(decide (ctr < m.seq) && decide (m.seq ≤ ctr + news.length)))).map
                     (fun m => (m.origin, m.seq)) ++ o.forged }
        | none => o
      | _, _ => o
    | _ => o
  let o := v.nodes.foldl (fun o nv => { o with counters := (nv.id, nv.seq) :: o.counters.filter (fun c => c.1 != nv.id) }) o
  v.queues.foldl (fun o q => o.setQueue q.a q.b q.msgs) o

def specLine (p : Prop5) (st : Option Obs) (input : String) : Option Obs × String :=
  match input.splitOn "\t" with
  | [opLine, impl] =>
    let toks := tokens opLine
    match toks with
    | "reset" :: _ =>
      match parseReset toks with
      | some c => (some { cfg := c }, "ok")
      | none => (none, "ok")
    | _ =>
      match st with
      | none => (none, "ok")
      | some o =>
        if impl.startsWith "panic" || impl.startsWith "crash" then (some o, "fail crashed") else
        if toks.head? == some "inject" then
          -- C15 on all four tables of the receiving agent: beyond its limit nothing is stored or sent on,
          -- at the limit nothing is sent on
          (some { o with clock := o.clock + 1 },
            match toks, tokens impl with
            | [_, limit, plen], [_, stored, fwd] =>
              match nat? limit, nat? plen with
              | some limit, some plen =>
                if limit = 0 then "ok"
                else if plen > limit && stored != "stored=0/0/0/0" then "fail stored-beyond-hop-limit"
                else if plen ≥ limit && fwd != "fwd=0" then "fail sent-beyond-hop-limit"
                else "ok"
              | _, _ => "ok"
            | _, _ => "ok") else
        if toks.head? == some "walk" || toks.head? == some "uwalk" then
          -- C12: a stream opened along a learned route (path no longer than the hop limit it was
          -- learned under) must arrive at the advertising agent's exit handling
          (some { o with clock := o.clock + 1 },
            match toks with
            | [_, _, _, pth] =>
              match parsePath pth with
              | some pp =>
                if tokens impl == ["r=walk", s!"reached:{pp.getLastD 0}"] || tokens impl == ["r=bad"] then "ok"
                else if (tokens impl).any (fun t => t.startsWith "refused:") then "fail open-along-learned-route-refused"
                else "fail open-along-learned-route-lost"
              | none => "ok"
            | _ => "ok") else
        if toks.head? == some "race" then
          (some { o with clock := o.clock + 1 },
            if (tokens impl == ["r=race", "accepted=1", "fwd=1"]) || tokens impl == ["r=bad"] then "ok"
            else "fail race-announcement-processed-or-forwarded-twice") else
        let v := parseView impl
        if !v.ok then (some o, "fail unparsable-answer") else
        let o1 := { o with clock := o.clock + 1 }
        -- history-dependent checks use the observation BEFORE this op (but the new clock and relayed set)
        let o' := o.update toks v
        let oc := { o1 with relayed := o'.relayed, genuine := o'.genuine, links := o'.links, genuinePrev := o.genuine,
                            lastDisc := o'.lastDisc, issuedAt := o'.issuedAt, forged := o'.forged }
        let checks :=
          (if p == .c12 && toks == ["dump", "converged"] then convergeChecks oc v else []) ++
          (if p == .c14 && toks == ["dump", "converged"] then renewedChecks { oc with lastAnn := o'.lastAnn } v else []) ++
          opChecks p oc toks v ++
          (v.nodes.map (fun nv => (nv.tab.map (entryChecks p oc nv.id)).flatten)).flatten ++
          (v.queues.map (fun q => (q.msgs.map (msgChecks p oc q.a)).flatten)).flatten
        match firstFail checks with
        | some tag => (some o', "fail " ++ tag)
        | none => (some o', "ok")
  | _ => (st, "bad-op")

/-- default / follow modes. -/
def stepLine (follow : Bool) (st : Option Net) (input : String) : Option Net × String :=
  let (opLine, impl) := if follow then
      match input.splitOn "\t" with
      | [o, i] => (o, i)
      | _ => (input, "")
    else (input, "")
  let toks := tokens opLine
  match toks with
  | "reset" :: _ =>
    match parseReset toks with
    | some c => let s := c.initNet; (some s, resetLine s)
    | none => (none, "r=bad")
  | _ =>
    match st with
    | none => (none, "r=noreset")
    | some s =>
      match toks with
      | [wk, mh, x, pth] =>
        if wk != "walk" && wk != "uwalk" then
          (match parseOp toks with
            | .bad ans => (some (step s .dump), ans)
            | .op o => let (s', out) := exec s o; (some s', out)) else
        -- stateless: the STREAM_OPEN walk (`openRoute`) along a recorded path whose consecutive agents
        -- are connected; a learned route is usable whatever the hop limit it was learned under
        (some (step s .dump), match nat? mh, nat? x, parsePath pth with
          | some _, some x, some p =>
            if p.isEmpty || p.length > 40 || p.any (· > 250) then "r=bad" else
            let seq := x :: p
            let lk := fun (a b : Node) => (seq.zip (seq.drop 1)).any (fun e => (e.1 == a && e.2 == b) || (e.1 == b && e.2 == a))
            let e : Entry := { kind := 0, key := 0, origin := p.getLastD 0, nextHop := p.headD 0, metric := 0, path := p, seq := 0, lu := 0 }
            match openRoute lk x e with
            | some o => s!"r=walk reached:{o}"
            | none => "r=walk lost"
          | _, _, _ => "r=bad")
      | ["inject", limit, plen] =>
        -- stateless: the model's `handle` on a fresh agent 0 (peers 1 and 2, max_hops = limit) for an
        -- advertisement of origin 50 with a path of `plen` agents and all four route families
        (some (step s .dump), match nat? limit, nat? plen with
          | some limit, some plen =>
            if limit > 255 || plen < 1 || plen > 250 then "r=bad" else
            let frm : Node := if plen = 1 then 50 else 1
            let path : List Node := if plen = 1 then [50] else 1 :: ((List.range (plen - 2)).map (· + 60)) ++ [50]
            let rs : List RAd := [⟨0, 1, plen - 1⟩, ⟨1, 2, plen - 1⟩, ⟨2, 1, plen - 1⟩, ⟨3, 50, plen - 1⟩]
            let m : Adv := { origin := 50, seq := 9, path := path, seenBy := path.reverse, routes := rs }
            let (st, outs, _) := handle limit [frm, 2] 0 frm 0 m {}
            let cnt := fun (k : Nat) => (st.tab.filter (fun e => e.kind == k)).length
            s!"r=inject stored={cnt 0}/{cnt 1}/{cnt 2}/{st.agents.length} fwd={(outs.filter (fun o => o.1 == 2)).length}"
          | _, _ => "r=bad")
      | ["race", k, rounds] =>
        -- stateless stress op: with an atomic test-and-set the answer is always 1 / 1
        (some (step s .dump), match nat? k, nat? rounds with
          | some k, some r => if k < 2 ∨ k > 16 ∨ r < 1 ∨ r > 5000 then "r=bad" else "r=race accepted=1 fwd=1"
          | _, _ => "r=bad")
      | _ =>
      match parseOp toks with
      | .bad ans => (some (step s .dump), ans)
      | .op (.replay a b _) =>
        -- the frames the implementation emitted: the new tail of its queue a → b
        let hint : List RFrame := if follow then
            match (parseView impl).queues.find? (fun q => q.a == a && q.b == b) with
            | some q => (q.msgs.drop (queueOf s a b).length).map (fun m =>
                { origin := m.origin, ptail := m.path.drop 1, routes := m.routes })
            | none => []
          else []
        let (s', out) := exec s (.replay a b hint)
        -- frames that are not an admissible outcome of SendFullTable are not followed
        let admissible := !follow || !(a < s.n ∧ b < s.n ∧ linked s a b) || hintOK (hopCap (s.maxHops a)) (s.nodes a) b hint
        (some s', if admissible then out else out ++ " inadmissible-frames")
      | .op (.withdraw a _) =>
        let hint : Option (List (List RAd)) := if follow then
            match (parseView impl).queues.head? with
            | some q => some ((q.msgs.drop (queueOf s q.a q.b).length).map (·.routes))
            | none => none
          else none
        let (s', out) := exec s (.withdraw a (hint.getD []))
        let admissible := match hint with
          | some h => !(a < s.n) || h.isEmpty || groupingOK (withdrawnRoutes (s.nodes a)) h
          | none => true
        (some s', if admissible then out else out ++ " inadmissible-grouping")
      | .op (.announce a _) =>
        let hint : Option (List (List RAd)) := if follow then
            match (parseView impl).queues.head? with
            | some q => some ((q.msgs.drop (queueOf s q.a q.b).length).map (·.routes))
            | none => none
          else none
        let (s', out) := exec s (.announce a (hint.getD []))
        let admissible := match hint with
          | some h => !(a < s.n) || groupingOK (announcedRoutes a (s.nodes a)) h
          | none => true
        (some s', if admissible then out else out ++ " inadmissible-grouping")
      | .op o => let (s', out) := exec s o; (some s', out)

def mainWith (p : Prop5) (args : List String) : IO Unit :=
  match args with
  | ["spec"] => runLines none (specLine p)
  | ["follow"] => runLines none (stepLine true)
  | _ => runLines none (stepLine false)

end MM.C11.Wire
