/-
  Model of how the agent turns its SOCKS5 authentication configuration into the handler's
  authenticator list, on top of the handler model of MM/Model/C23.lean:

    internal/agent/agent.go   buildSOCKS5Auth, buildSOCKS5CredentialStore
    internal/socks5/auth.go   CreateAuthenticators (AS FIXED by fixes/C21-auth-enabled-no-users.patch),
                              HashedCredentials.Valid, StaticCredentials.Valid
    internal/socks5/server.go NewServer (empty list ⇒ [NoAuth])
    internal/socks5/handler.go NewHandler (empty list ⇒ [NoAuth]), authenticate
    internal/socks5/ws_listener.go handleWebSocket (HTTP Basic gate in front of the same handler)

  bcrypt is an abstract predicate `bc hash password` (a parameter, never an axiom).
  A Go map filled by successive assignments is a list of pairs looked up last-write-wins.
-/
import MM.Model.C23

namespace MM.C21
open MM MM.C23

/-- `config.SOCKS5UserConfig`. Empty list = empty string. -/
structure User where
  name : Bytes
  password : Bytes
  hash : Bytes
  deriving DecidableEq, Repr

/-- `config.SOCKS5AuthConfig`. -/
structure Cfg where
  enabled : Bool
  users : List User

/-- `m[k]` for a map built by assigning the pairs in order. -/
def lookup (m : List (Bytes × Bytes)) (k : Bytes) : Option Bytes :=
  (m.reverse.find? (fun kv => kv.1 == k)).map (·.2)

/-- `HashedCredentials.Valid`. -/
def hashedValid (bc : Bytes → Bytes → Bool) (m : List (Bytes × Bytes)) (u p : Bytes) : Bool :=
  match lookup m u with
  | none => false
  | some h => bc h p

/-- `StaticCredentials.Valid` (`subtle.ConstantTimeCompare(a, b) == 1` iff `a = b`). -/
def staticValid (m : List (Bytes × Bytes)) (u p : Bytes) : Bool :=
  match lookup m u with
  | none => false
  | some s => s == p

/-- The loop of `buildSOCKS5Auth` / `buildSOCKS5CredentialStore` filling `hashedUsers`. -/
def hashedUsers (users : List User) : List (Bytes × Bytes) :=
  (users.filter (fun u => u.hash ≠ [])).map (fun u => (u.name, u.hash))

/-- … and `users` (plaintext; only entries without a hash and with a non-empty password). -/
def plainUsers (users : List User) : List (Bytes × Bytes) :=
  (users.filter (fun u => u.hash = [] ∧ u.password ≠ [])).map (fun u => (u.name, u.password))

/-- `socks5.CreateAuthenticators(AuthConfig{Enabled, Required, Users, HashedUsers})`, fixed code:
    with `Enabled` a username/password authenticator is ALWAYS installed (possibly over an empty
    store). -/
def createAuthenticators (bc : Bytes → Bytes → Bool) (enabled required : Bool)
    (users hashed : List (Bytes × Bytes)) : List Auth :=
  (if enabled then
      (if !hashed.isEmpty then [Auth.userPass (hashedValid bc hashed)]
       else [Auth.userPass (staticValid users)])
   else []) ++
  (if !required then [Auth.noAuth] else [])

/-- `Agent.buildSOCKS5Auth`. -/
def buildAuth (bc : Bytes → Bytes → Bool) (cfg : Cfg) : List Auth :=
  if !cfg.enabled then [Auth.noAuth]
  else createAuthenticators bc true true (plainUsers cfg.users) (hashedUsers cfg.users)

/-- `socks5.NewServer`: `if len(cfg.Authenticators) == 0 { … NoAuthAuthenticator }`, then
    `NewHandler(cfg.Authenticators, …)` (whose own default is `C23.newHandlerAuths`, applied by
    `C23.handle`). -/
def serverAuths (auths : List Auth) : List Auth := newHandlerAuths auths

/-- The environment of the handler the agent runs for configuration `cfg`. -/
def agentEnv (bc : Bytes → Bytes → Bool) (cfg : Cfg) (env : Env) : Env :=
  { env with auths := serverAuths (buildAuth bc cfg) }

/-- TCP listener: `Server.handleConn` → `handler.Handle(conn)`. -/
def serveTCP (bc : Bytes → Bytes → Bool) (cfg : Cfg) (env : Env) (inp : Bytes) : Result :=
  handle (agentEnv bc cfg env) inp

/-- `Agent.buildSOCKS5CredentialStore` (used only when auth is enabled). -/
def credStore (bc : Bytes → Bytes → Bool) (cfg : Cfg) : Bytes → Bytes → Bool :=
  if !(hashedUsers cfg.users).isEmpty then hashedValid bc (hashedUsers cfg.users)
  else staticValid (plainUsers cfg.users)

/-- The HTTP Basic gate of `handleWebSocket`: checked when a store is configured, and the agent
    configures one iff auth is enabled. `basic` = the request's Basic credentials, if any. -/
def wsGate (bc : Bytes → Bytes → Bool) (cfg : Cfg) (basic : Option (Bytes × Bytes)) : Bool :=
  if cfg.enabled then
    match basic with
    | none => false
    | some (u, p) => credStore bc cfg u p
  else true

/-- WebSocket listener: the gate, then THE SAME handler runs on the socket. -/
def serveWS (bc : Bytes → Bytes → Bool) (cfg : Cfg) (env : Env)
    (basic : Option (Bytes × Bytes)) (inp : Bytes) : Result :=
  if wsGate bc cfg basic then handle (agentEnv bc cfg env) inp else ⟨[], .none, none⟩

/-- A WebSocket listener started directly (`Server.StartWebSocket` / `NewWebSocketListener`) with an
    ARBITRARY HTTP-level credential store — none, the agent's, somebody else's: `store = none` means
    `WebSocketConfig.Credentials == nil` (no gate). The handler behind it is the same. -/
def httpGate (store : Option (Bytes → Bytes → Bool)) (basic : Option (Bytes × Bytes)) : Bool :=
  match store with
  | none => true
  | some v => match basic with
    | none => false
    | some (u, p) => v u p

def serveWSWith (bc : Bytes → Bytes → Bool) (cfg : Cfg) (env : Env)
    (store : Option (Bytes → Bytes → Bool)) (basic : Option (Bytes × Bytes)) (inp : Bytes) : Option Result :=
  if httpGate store basic then some (handle (agentEnv bc cfg env) inp) else none      -- `none` = HTTP 401

/-- What it means for password `pw` to match configured user `u` (the hash wins when present;
    an entry with neither hash nor password matches nothing). -/
def userValid (bc : Bytes → Bytes → Bool) (u : User) (pw : Bytes) : Prop :=
  if u.hash ≠ [] then bc u.hash pw = true else (u.password ≠ [] ∧ u.password = pw)

/-- The client stream carries a complete RFC 1929 request with these credentials right after its
    greeting. -/
def presented (inp name pw : Bytes) : Prop :=
  ∃ methods rest : Bytes,
    inp = encodeGreeting methods ++ ([0x01, UInt8.ofNat name.length] ++ name ++ [UInt8.ofNat pw.length] ++ pw ++ rest)
    ∧ methods.length < 256 ∧ 0 < name.length ∧ name.length < 256 ∧ pw.length < 256

/-! ### a concrete bcrypt, for the equality-level reading of "matching"

  bcrypt feeds Blowfish's key schedule with `password ++ [0]` repeated cyclically and uses 72 bytes
  of it.  `hashOf pw` stands for "a hash generated from `pw`" (ideal otherwise). -/

/-- The 72 key bytes `ExpandKey` uses. -/
def cyc72 (k : Bytes) : Bytes :=
  if k.isEmpty then [] else (List.range 72).map (fun i => k[i % k.length]!)

def hashOf (pw : Bytes) : Bytes := 1 :: pw

/-- `bcrypt.CompareHashAndPassword(h, p) == nil` for hashes made by `hashOf`; anything else (a junk
    hash string) never verifies. -/
def bcModel (h p : Bytes) : Bool :=
  match h with
  | 1 :: q => cyc72 (q ++ [0]) == cyc72 (p ++ [0])
  | _ => false

end MM.C21
