/-
  Shared byte-string library: `Bytes := List UInt8`, fixed-width little/big
  endian integer codecs with round-trip lemmas, hex rendering for the line
  protocol.  Core Lean only (the driver links against this).
-/
namespace MM

abbrev Bytes := List UInt8

/-- `k` little-endian bytes of `n` (value taken modulo `256^k`, as Go's `PutUintNN` does on the
    already-truncated unsigned value). -/
def leN : Nat → Nat → Bytes
  | 0, _ => []
  | k+1, n => UInt8.ofNat (n % 256) :: leN k (n / 256)

/-- Little-endian value of a byte string. -/
def unle : Bytes → Nat
  | [] => 0
  | b :: bs => b.toNat + 256 * unle bs

def beN (k n : Nat) : Bytes := (leN k n).reverse
def unbe (bs : Bytes) : Nat := unle bs.reverse

@[simp] theorem leN_length (k n : Nat) : (leN k n).length = k := by
  induction k generalizing n with
  | zero => rfl
  | succ k ih => simp [leN, ih]

@[simp] theorem beN_length (k n : Nat) : (beN k n).length = k := by simp [beN]

theorem UInt8.toNat_ofNat_mod (n : Nat) : (UInt8.ofNat (n % 256)).toNat = n % 256 := by
  simp [UInt8.toNat_ofNat']

theorem unle_leN (k n : Nat) : unle (leN k n) = n % 256 ^ k := by
  induction k generalizing n with
  | zero => simp [leN, unle, Nat.mod_one]
  | succ k ih =>
    simp only [leN, unle, ih, UInt8.toNat_ofNat_mod]
    rw [Nat.pow_succ, Nat.mul_comm (256 ^ k) 256, Nat.mod_mul]

theorem unle_leN_of_lt {k n : Nat} (h : n < 256 ^ k) : unle (leN k n) = n := by
  rw [unle_leN, Nat.mod_eq_of_lt h]

theorem unbe_beN (k n : Nat) : unbe (beN k n) = n % 256 ^ k := by
  simp [unbe, beN, unle_leN]

theorem unbe_beN_of_lt {k n : Nat} (h : n < 256 ^ k) : unbe (beN k n) = n := by
  rw [unbe_beN, Nat.mod_eq_of_lt h]

theorem unle_lt (bs : Bytes) : unle bs < 256 ^ bs.length := by
  induction bs with
  | nil => simp [unle]
  | cons b bs ih =>
    simp only [unle, List.length_cons, Nat.pow_succ]
    have := b.toNat_lt
    omega

theorem unbe_lt (bs : Bytes) : unbe bs < 256 ^ bs.length := by
  have := unle_lt bs.reverse
  simpa [unbe] using this

/-! ### hex rendering (line protocol) -/

def hexDigit (n : Nat) : Char :=
  if n < 10 then Char.ofNat (48 + n) else Char.ofNat (87 + n)

def hexOfBytes (bs : Bytes) : String :=
  String.ofList (bs.flatMap fun b => [hexDigit (b.toNat / 16), hexDigit (b.toNat % 16)])

def hexVal (c : Char) : Option Nat :=
  if '0' ≤ c ∧ c ≤ '9' then some (c.toNat - 48)
  else if 'a' ≤ c ∧ c ≤ 'f' then some (c.toNat - 87)
  else if 'A' ≤ c ∧ c ≤ 'F' then some (c.toNat - 55)
  else none

def bytesOfHexChars : List Char → Option Bytes
  | [] => some []
  | [_] => none
  | a :: b :: rest => do
    let x ← hexVal a
    let y ← hexVal b
    let r ← bytesOfHexChars rest
    pure (UInt8.ofNat (16 * x + y) :: r)

/-- `-` denotes the empty byte string on the wire (so every field is a non-empty token). -/
def bytesOfHex (s : String) : Option Bytes :=
  if s = "-" then some [] else bytesOfHexChars s.toList

def hexTok (bs : Bytes) : String := if bs.isEmpty then "-" else hexOfBytes bs

end MM
