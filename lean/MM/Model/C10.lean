/-
  Model of the CIDR-table part of `routing.Manager` (manager.go): local routes with the
  manager's own sequence counter, advertisements (metric + 1 in `uint16`), withdrawals,
  disconnects, cleanup.  Every manager method is a thin wrapper around one `Table` method of
  MM/Model/C08.lean; the domain / forward / agent wrappers (`ProcessDomainRouteAdvertise`, …)
  differ from the direct table calls only by that metric increment and are expressed through it.
-/
import MM.Model.C09

namespace MM.C10
open MM MM.C08

/-- `entry.Metric + 1` on a `uint16` -/
def advMetric (m : Nat) : Nat := (m + 1) % 65536

/-- `Manager`: own sequence counter (shared by local CIDR, domain and forward routes),
    `localRoutes` / `dynamicRoutes` (keyed by `network.String()` of the network as given — not
    canonicalised), `localDomains` (keyed by the pattern as given), `localForwards`, the CIDR
    table and its clock.  The domain / forward / agent tables are passed to the wrappers. -/
structure Mgr where
  seq : Nat := 0
  locals : List CKey := []
  dyn : List CKey := []
  ldoms : List Bytes := []
  lfwds : List Bytes := []
  st : State CKey IPNet := ⟨0, []⟩

/-- `AddLocalRoute(network, metric)` -/
def Mgr.addLocal (self : Nat) (m : Mgr) (n : IPNet) (metric : Nat) : Mgr × Bool :=
  let seq := m.seq + 1
  let key := eff n
  let locals := if m.locals.contains key then m.locals else m.locals ++ [key]
  let e : Entry IPNet := ⟨n, self, self, metric, seq, [], m.st.now⟩
  let r := addRoute cidrCfg self m.st.tab e
  ({ m with seq := seq, locals := locals, st := ⟨m.st.now, r.1⟩ }, r.2)

/-- `RemoveLocalRoute(network)` -/
def Mgr.removeLocal (self : Nat) (m : Mgr) (n : IPNet) : Mgr × Bool :=
  let key := eff n
  if !m.locals.contains key then (m, false)
  else
    let r := removeRoute m.st.tab (cidrKey n) self
    ({ m with locals := m.locals.filter (· != key), st := ⟨m.st.now, r.1⟩ }, r.2)

/-- `ProcessRouteAdvertise(fromPeer, origin, seq, [{network, metric}], path, nil)`; the answer is
    whether the (single) entry was accepted. -/
def Mgr.advertise (self : Nat) (m : Mgr) (fromPeer origin seq : Nat) (path : List Nat)
    (n : IPNet) (metric : Nat) : Mgr × Bool :=
  let e : Entry IPNet := ⟨n, fromPeer, origin, advMetric metric, seq, path, m.st.now⟩
  let r := addRoute cidrCfg self m.st.tab e
  ({ m with st := ⟨m.st.now, r.1⟩ }, r.2)

/-- `ProcessRouteWithdraw(origin, [{network}])` -/
def Mgr.withdraw (m : Mgr) (origin : Nat) (n : IPNet) : Mgr × Bool :=
  let r := removeRoute m.st.tab (cidrKey n) origin
  ({ m with st := ⟨m.st.now, r.1⟩ }, r.2)

/-- `HandlePeerDisconnect(peer)` -/
def Mgr.disconnect (m : Mgr) (peer : Nat) : Mgr :=
  { m with st := ⟨m.st.now, removeFromPeer m.st.tab peer⟩ }

/-- `CleanupStaleRoutes(maxAge)` -/
def Mgr.cleanup (self : Nat) (m : Mgr) (maxAge : Nat) : Mgr :=
  { m with st := ⟨m.st.now, cleanupStale self m.st.now maxAge m.st.tab⟩ }

/-- `AddDynamicRoute(network, metric)`: refused when the key is a config-only local route -/
def Mgr.addDynamic (self : Nat) (m : Mgr) (n : IPNet) (metric : Nat) : Mgr × Bool :=
  let key := eff n
  if m.locals.contains key && !m.dyn.contains key then (m, false)
  else
    let seq := m.seq + 1
    let e : Entry IPNet := ⟨n, self, self, metric, seq, [], m.st.now⟩
    let r := addRoute cidrCfg self m.st.tab e
    ({ m with seq := seq,
              locals := if m.locals.contains key then m.locals else m.locals ++ [key],
              dyn := if m.dyn.contains key then m.dyn else m.dyn ++ [key],
              st := ⟨m.st.now, r.1⟩ }, true)

/-- `RemoveDynamicRoute(network)`: only routes added through `AddDynamicRoute` -/
def Mgr.removeDynamic (self : Nat) (m : Mgr) (n : IPNet) : Mgr × Bool :=
  let key := eff n
  if !m.dyn.contains key then (m, false)
  else
    let r := removeRoute m.st.tab (cidrKey n) self
    ({ m with locals := m.locals.filter (· != key), dyn := m.dyn.filter (· != key),
              st := ⟨m.st.now, r.1⟩ }, true)

/-- `isValidDomainChar` (any byte ≥ 0x80 belongs to a non-ASCII or ill-formed rune: invalid) -/
def validDomainChar (b : UInt8) : Bool :=
  (97 ≤ b.toNat && b.toNat ≤ 122) || (65 ≤ b.toNat && b.toNat ≤ 90) ||
  (48 ≤ b.toNat && b.toNat ≤ 57) || b == 45 || b == 46

/-- `strings.Contains(s, "..")` -/
def hasDotDot : Bytes → Bool
  | 46 :: 46 :: _ => true
  | _ :: rest => hasDotDot rest
  | [] => false

/-- `ValidateDomainPattern(pattern) == nil` -/
def validPattern (S : MM.C09.Str) (pattern : Bytes) : Bool :=
  if pattern.isEmpty then false
  else
    let (w, base) := MM.C09.parsePattern S pattern
    let domain := if w then base else pattern
    !domain.isEmpty && domain.head? != some 46 && domain.getLast? != some 46 &&
    !hasDotDot domain && domain.all validDomainChar && domain.contains 46

/-- `AddLocalDomainRoute(pattern, metric)` on the manager's domain table -/
def Mgr.addLocalDomain (S : MM.C09.Str) (self : Nat) (m : Mgr) (d : State MM.C09.DKey MM.C09.DomPay)
    (pattern : Bytes) (metric : Nat) : Mgr × State MM.C09.DKey MM.C09.DomPay × Bool :=
  if !validPattern S pattern then (m, d, false)
  else
    let seq := m.seq + 1
    let e : Entry MM.C09.DomPay := ⟨MM.C09.payOfPattern S pattern, self, self, metric, seq, [], d.now⟩
    let r := addRoute (MM.C09.domCfg S) self d.tab e
    ({ m with seq := seq, ldoms := if m.ldoms.contains pattern then m.ldoms else m.ldoms ++ [pattern] },
     ⟨d.now, r.1⟩, r.2)

/-- `RemoveLocalDomainRoute(pattern)` -/
def Mgr.removeLocalDomain (S : MM.C09.Str) (self : Nat) (m : Mgr)
    (d : State MM.C09.DKey MM.C09.DomPay) (pattern : Bytes) :
    Mgr × State MM.C09.DKey MM.C09.DomPay × Bool :=
  if pattern.isEmpty || !m.ldoms.contains pattern then (m, d, false)
  else
    let r := MM.C09.domRemove S d.tab pattern self
    ({ m with ldoms := m.ldoms.filter (· != pattern) }, ⟨d.now, r.1⟩, r.2)

/-- `AddLocalForwardRoute(key, target, metric)` -/
def Mgr.addLocalForward (self : Nat) (m : Mgr) (f : State Bytes MM.C09.FwdPay)
    (key target : Bytes) (metric : Nat) : Mgr × State Bytes MM.C09.FwdPay × Bool :=
  if key.isEmpty || target.isEmpty then (m, f, false)
  else
    let seq := m.seq + 1
    let e : Entry MM.C09.FwdPay := ⟨⟨key, target⟩, self, self, metric, seq, [], f.now⟩
    let r := addRoute MM.C09.fwdCfg self f.tab e
    ({ m with seq := seq, lfwds := if m.lfwds.contains key then m.lfwds else m.lfwds ++ [key] },
     ⟨f.now, r.1⟩, r.2)

/-- `RemoveLocalForwardRoute(key)` -/
def Mgr.removeLocalForward (self : Nat) (m : Mgr) (f : State Bytes MM.C09.FwdPay) (key : Bytes) :
    Mgr × State Bytes MM.C09.FwdPay × Bool :=
  if key.isEmpty || !m.lfwds.contains key then (m, f, false)
  else
    let r := MM.C09.fwdRemove f.tab key self
    ({ m with lfwds := m.lfwds.filter (· != key) }, ⟨f.now, r.1⟩, r.2)

def Mgr.tick (m : Mgr) (n : Nat) : Mgr := { m with st := ⟨m.st.now + n, m.st.tab⟩ }

end MM.C10
