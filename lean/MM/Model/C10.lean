/-
  Model of the CIDR-table part of `routing.Manager` (manager.go): local routes with the
  manager's own sequence counter, advertisements (metric + 1 in `uint16`), withdrawals,
  disconnects, cleanup.  Every manager method is a thin wrapper around one `Table` method of
  MM/Model/C08.lean; the domain / forward / agent wrappers (`ProcessDomainRouteAdvertise`, …)
  differ from the direct table calls only by that metric increment and are expressed through it.
-/
import MM.Model.C09

namespace MM.C10
open MM MM.C08

/-- `entry.Metric + 1` on a `uint16` -/
def advMetric (m : Nat) : Nat := (m + 1) % 65536

/-- `Manager`: own sequence counter, `localRoutes` (keyed by `network.String()` of the network
    as given — not canonicalised), the CIDR table and its clock. -/
structure Mgr where
  seq : Nat := 0
  locals : List CKey := []
  st : State CKey IPNet := ⟨0, []⟩

/-- `AddLocalRoute(network, metric)` -/
def Mgr.addLocal (self : Nat) (m : Mgr) (n : IPNet) (metric : Nat) : Mgr × Bool :=
  let seq := m.seq + 1
  let key := eff n
  let locals := if m.locals.contains key then m.locals else m.locals ++ [key]
  let e : Entry IPNet := ⟨n, self, self, metric, seq, [], m.st.now⟩
  let r := addRoute cidrCfg self m.st.tab e
  ({ seq := seq, locals := locals, st := ⟨m.st.now, r.1⟩ }, r.2)

/-- `RemoveLocalRoute(network)` -/
def Mgr.removeLocal (self : Nat) (m : Mgr) (n : IPNet) : Mgr × Bool :=
  let key := eff n
  if !m.locals.contains key then (m, false)
  else
    let r := removeRoute m.st.tab (cidrKey n) self
    ({ m with locals := m.locals.filter (· != key), st := ⟨m.st.now, r.1⟩ }, r.2)

/-- `ProcessRouteAdvertise(fromPeer, origin, seq, [{network, metric}], path, nil)`; the answer is
    whether the (single) entry was accepted. -/
def Mgr.advertise (self : Nat) (m : Mgr) (fromPeer origin seq : Nat) (path : List Nat)
    (n : IPNet) (metric : Nat) : Mgr × Bool :=
  let e : Entry IPNet := ⟨n, fromPeer, origin, advMetric metric, seq, path, m.st.now⟩
  let r := addRoute cidrCfg self m.st.tab e
  ({ m with st := ⟨m.st.now, r.1⟩ }, r.2)

/-- `ProcessRouteWithdraw(origin, [{network}])` -/
def Mgr.withdraw (m : Mgr) (origin : Nat) (n : IPNet) : Mgr × Bool :=
  let r := removeRoute m.st.tab (cidrKey n) origin
  ({ m with st := ⟨m.st.now, r.1⟩ }, r.2)

/-- `HandlePeerDisconnect(peer)` -/
def Mgr.disconnect (m : Mgr) (peer : Nat) : Mgr :=
  { m with st := ⟨m.st.now, removeFromPeer m.st.tab peer⟩ }

/-- `CleanupStaleRoutes(maxAge)` -/
def Mgr.cleanup (self : Nat) (m : Mgr) (maxAge : Nat) : Mgr :=
  { m with st := ⟨m.st.now, cleanupStale self m.st.now maxAge m.st.tab⟩ }

def Mgr.tick (m : Mgr) (n : Nat) : Mgr := { m with st := ⟨m.st.now + n, m.st.tab⟩ }

end MM.C10
