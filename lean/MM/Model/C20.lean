/-
  Model of the port-forward open path.

  /repo/internal/forward/handler.go
      NewHandler:        targets := map[string]string{}; for _, ep := range cfg.Endpoints { targets[ep.Key] = ep.Target }
      HandleStreamOpen:  not running -> error (nothing sent, no dial)
                         MaxConnections > 0 && connCount >= MaxConnections -> OPEN_ERR ErrConnectionLimit, no dial
                         target, ok := targets[key]; !ok -> OPEN_ERR ErrForwardNotFound, no dial
                         else (async) dial "tcp" target; ok -> connCount++ and OPEN_ACK; failure -> OPEN_ERR mapDialError
  /repo/internal/agent/agent.go : handleStreamOpen
      exit node (RemainingPath empty or == [self]) and AddressType == domain:
        dest := string(addr[1:]);  file:upload / file:download / shell:stream / shell:tty are matched exactly first;
        strings.HasPrefix(dest, "forward:") -> forwardHandler.HandleStreamOpen(key = TrimPrefix(dest, "forward:"))
      otherwise: exit handler (TCP) or relay to the next hop.

  Keys are Go strings compared byte for byte (map lookup): the model uses `Bytes` equality.
-/
import MM.Model.Bytes
import MM.Gen.C20

namespace MM.C20
open MM

structure Endpoint (τ : Type) where
  key : Bytes
  target : τ

/-- `targets[key]` after NewHandler's loop: the LAST endpoint with that key wins. -/
def lookup {τ : Type} : List (Endpoint τ) → Bytes → Option τ
  | [], _ => none
  | ep :: rest, k =>
    match lookup rest k with
    | some t => some t
    | none => if ep.key = k then some ep.target else none

/-- What HandleStreamOpen decides (before any network activity). -/
inductive Decision (τ : Type) where
  | notRunning                -- error returned, nothing sent, no dial
  | refuse (code : Nat)       -- STREAM_OPEN_ERR with this code, no dial
  | dial (target : τ)         -- the one and only dial of this request
  deriving DecidableEq, Repr

def errForwardNotFound : Nat := Gen.C20.errForwardNotFound
def errConnectionLimit : Nat := Gen.C20.errConnectionLimit

def handleOpen {τ : Type} (running : Bool) (maxConn : Int) (connCount : Int)
    (eps : List (Endpoint τ)) (key : Bytes) : Decision τ :=
  if !running then .notRunning
  else if maxConn > 0 ∧ connCount ≥ maxConn then .refuse errConnectionLimit
  else match lookup eps key with
    | none => .refuse errForwardNotFound
    | some t => .dial t

/-! ### Agent-level dispatch of a STREAM_OPEN -/

def forwardPrefix : Bytes := Gen.C20.forwardPrefix

inductive Dispatch where
  | reserved (name : Bytes)   -- file transfer / shell stream names (exact match)
  | forward (key : Bytes)     -- handed to the forward handler with this key
  | exitTCP                   -- ordinary exit traffic
  | relay                     -- not the exit node: forwarded to the next hop
  deriving DecidableEq, Repr

/-- `addressToString(AddrTypeDomain, addr)`: skip the length byte. -/
def domainString (addr : Bytes) : Bytes := addr.drop 1

def isExit (self : Nat) (path : List Nat) : Bool := path.isEmpty || path == [self]

def dispatch (self : Nat) (addrType : Nat) (addr : Bytes) (path : List Nat) : Dispatch :=
  if isExit self path then
    if addrType = Gen.C20.addrTypeDomain then
      let dest := domainString addr
      if dest ∈ Gen.C20.reserved then .reserved dest
      else if forwardPrefix.isPrefixOf dest then .forward (dest.drop forwardPrefix.length)
      else .exitTCP
    else .exitTCP
  else .relay

/-! ### Ingress: how Agent.DialForward writes the address, and what the wire keeps of it

      forwardAddr := protocol.ForwardStreamPrefix + key
      addrBytes[0] = byte(len(forwardAddr)); copy(addrBytes[1:], forwardAddr)

  `byte(len)` truncates modulo 256, and DecodeStreamOpen believes the length byte: it keeps the
  length byte and that many bytes. -/

def ingressAddr (key : Bytes) : Bytes :=
  UInt8.ofNat ((forwardPrefix.length + key.length) % 256) :: (forwardPrefix ++ key)

def wireAddr : Bytes → Bytes
  | [] => []
  | n :: rest => n :: rest.take n.toNat

end MM.C20
