/-
  C18 — model of `stream.Stream` / `stream.Manager.HandleStreamData` (internal/stream/manager.go)
  as a labelled transition system whose atomic steps are exactly the lock-protected regions,
  channel operations and `select` statements of the Go code.

  Threads:
    * the frame handler (frames of one peer are dispatched sequentially): for every frame the list
      of its sub-steps (`program`) is executed in code order, other threads may run in between;
    * one reader looping over `Stream.Read` (first non-blocking select, blocking select, inner drain);
    * the local side: `CloseWrite`, `Close` at any time once the stream is open.

  `ff = false` is the order of the repaired code (payload queued, then FIN signalled);
  `ff = true` is the order of the pinned code (FIN signalled, then payload queued) and is kept only
  to exhibit the defect (`C18_finfirst_loses_data`).

  Chunks are abstract (`α`); an empty payload is `none` (`len(data) == 0` in Go).
-/
namespace MM.C18

/-- `cap(readBuffer)` — tied to the source by MM/Gen/C18.lean. -/
def cap : Nat := 64

inductive St | opening | open_ | hcl | hcr | closed
  deriving DecidableEq, Repr, Inhabited

structure Stream (α : Type) where
  state : St := .open_
  localFin : Bool := false    -- localFinWrite
  remoteFin : Bool := false   -- remoteFinWrite
  finCh : Bool := false       -- remoteFinCh has been closed
  once : Bool := false        -- closeOnce has been entered
  closed : Bool := false      -- `closed` channel has been closed
  buf : List α := []          -- readBuffer (FIFO)
  deriving Repr

namespace Stream
variable {α : Type}

/-- `CloseWrite` (one critical section). -/
def closeWrite (s : Stream α) : Stream α :=
  if s.localFin then s else
    match s.state with
    | .open_ => { s with localFin := true, state := .hcl }
    | .hcr => { s with localFin := true, state := .closed }
    | _ => { s with localFin := true }

/-- `HandleRemoteFinWrite`, third critical section (state update). -/
def finState (s : Stream α) : Stream α :=
  match s.state with
  | .open_ => { s with state := .hcr }
  | .hcl => { s with state := .closed }
  | _ => s

/-- `Close`, inside `closeOnce`: `SetState(StateClosed)`. -/
def closeBegin (s : Stream α) : Stream α :=
  if s.once then s else { s with once := true, state := .closed }

def canWrite (s : Stream α) : Bool := s.state == .open_ || s.state == .hcr
def canRead (s : Stream α) : Bool := s.state == .open_ || s.state == .hcl

end Stream

inductive Frame (α : Type)
  | data (fin : Bool) (p : Option α)
  | close
  | reset
  deriving Repr

/-- Sub-steps of handling one frame. -/
inductive Micro (α : Type)
  | pushChk (p : α)   -- first select of PushData: `<-closed` ready → io.EOF
  | pushEnq (p : α)   -- second select of PushData
  | finMark           -- HandleRemoteFinWrite: first critical section
  | finSignal         -- close(remoteFinCh)
  | finState          -- HandleRemoteFinWrite: state update
  | unreg             -- RemoveStream / HandleStreamReset: delete(m.streams, id)
  | closeB            -- stream.Close()
  deriving Repr

def Micro.isFin {α} : Micro α → Bool
  | .finMark | .finSignal | .finState => true
  | _ => false

def pushPart {α} : Option α → List (Micro α)
  | none => []
  | some p => [.pushChk p, .pushEnq p]

def finPart {α} (fin : Bool) : List (Micro α) :=
  if fin then [.finMark, .finSignal, .finState] else []

/-- Code order of `HandleStreamData` / `HandleStreamClose` / `HandleStreamReset`. -/
def program {α} (ff : Bool) : Frame α → List (Micro α)
  | .data fin p => if ff then finPart fin ++ pushPart p else pushPart p ++ finPart fin
  | .close => [.unreg, .closeB]
  | .reset => [.unreg, .closeB]

inductive RPc | idle | sel | drain
  deriving DecidableEq, Repr

structure Sys (α : Type) where
  s : Stream α := {}
  reg : Bool := true             -- stream is in Manager.streams
  frames : List (Frame α) := []  -- frames still to arrive
  todo : List (Micro α) := []    -- rest of the frame being handled
  rpc : RPc := .idle
  -- ghost (history) variables
  pushed : List α := []          -- chunks accepted by PushData
  delivered : List α := []       -- chunks returned by Read
  arrived : List α := []         -- non-empty payloads of data frames that reached the stream
  arrivedAtFin : Option (List α) := none  -- `arrived` when the first FIN frame reached the stream (its payload included)
  dropped : Bool := false        -- some PushData returned io.EOF
  eof : Option (List α × Bool) := none    -- first EOF returned by Read: (delivered so far, `closed` at that time)
  deriving Repr

inductive Label
  | hNext | hStep | hAbort
  | rStart | rSelData | rSelFin | rSelClosed | rDrain
  | ack | lCloseWrite | lClose | closeEnd
  deriving DecidableEq, Repr

variable {α : Type}

def deliver (x : Sys α) (c : α) (b : List α) : Sys α :=
  { x with s := { x.s with buf := b }, delivered := x.delivered ++ [c], rpc := .idle }

/-- Next frame is taken off the wire (only when the previous one is fully handled). -/
def stepNext (ff : Bool) (x : Sys α) : Option (Sys α) :=
  match x.todo, x.frames with
  | [], f :: fs =>
    if x.reg then
      match f with
      | .data fin p =>
        let arr := match p with | none => x.arrived | some c => x.arrived ++ [c]
        some { x with frames := fs, todo := program ff f, arrived := arr,
                      arrivedAtFin := if fin && x.arrivedAtFin.isNone then some arr else x.arrivedAtFin }
      | _ => some { x with frames := fs, todo := program ff f }
    else some { x with frames := fs }   -- "unknown stream" / nothing to remove
  | _, _ => none

/-- One sub-step of the current frame. -/
def stepMicro (x : Sys α) : Option (Sys α) :=
  match x.todo with
  | [] => none
  | .pushChk _ :: t =>
    if x.s.closed then some { x with todo := [], dropped := true } else some { x with todo := t }
  | .pushEnq p :: t =>
    if x.s.buf.length < cap then
      some { x with s := { x.s with buf := x.s.buf ++ [p] }, pushed := x.pushed ++ [p], todo := t }
    else none
  | .finMark :: t =>
    if x.s.remoteFin then some { x with todo := t.drop 2 }
    else some { x with s := { x.s with remoteFin := true }, todo := t }
  | .finSignal :: t => some { x with s := { x.s with finCh := true }, todo := t }
  | .finState :: t => some { x with s := x.s.finState, todo := t }
  | .unreg :: t => some { x with reg := false, todo := t }
  | .closeB :: t => some { x with s := x.s.closeBegin, todo := t }

/-- Second select of PushData chooses `<-closed`. -/
def stepAbort (x : Sys α) : Option (Sys α) :=
  match x.todo with
  | .pushEnq _ :: _ => if x.s.closed then some { x with todo := [], dropped := true } else none
  | _ => none

def step (ff : Bool) (x : Sys α) : Label → Option (Sys α)
  | .hNext => stepNext ff x
  | .hStep => stepMicro x
  | .hAbort => stepAbort x
  | .rStart =>
    if x.rpc = .idle then
      match x.s.buf with
      | c :: b => some (deliver x c b)
      | [] => some { x with rpc := .sel }
    else none
  | .rSelData =>
    if x.rpc = .sel then
      match x.s.buf with
      | c :: b => some (deliver x c b)
      | [] => none
    else none
  | .rSelFin => if x.rpc = .sel ∧ x.s.finCh = true then some { x with rpc := .drain } else none
  | .rSelClosed => if x.rpc = .sel ∧ x.s.closed = true then some { x with rpc := .drain } else none
  | .rDrain =>
    if x.rpc = .drain then
      match x.s.buf with
      | c :: b => some (deliver x c b)
      | [] => some { x with rpc := .idle,
                            eof := match x.eof with | some e => some e | none => some (x.delivered, x.s.closed) }
    else none
  | .ack =>
    if x.s.state = .opening then some { x with s := { x.s with state := .open_ }, reg := true } else none
  | .lCloseWrite => if x.s.state = .opening then none else some { x with s := x.s.closeWrite }
  | .lClose => if x.s.state = .opening then none else some { x with s := x.s.closeBegin }
  | .closeEnd =>
    if x.s.once = true ∧ x.s.closed = false then some { x with s := { x.s with closed := true } } else none

/-- Initial states: a stream just accepted (`AcceptStream`: open and registered) or just created by
    `OpenStream` (opening, not yet registered), with any list of frames still to arrive. -/
def init (accepted : Bool) (frames : List (Frame α)) : Sys α :=
  if accepted then { frames := frames }
  else { s := { state := .opening }, reg := false, frames := frames }

inductive Reachable (ff : Bool) : Sys α → Prop
  | init (accepted : Bool) (frames : List (Frame α)) : Reachable ff (init accepted frames)
  | step {x y : Sys α} (l : Label) : Reachable ff x → step ff x l = some y → Reachable ff y

/-- Run a schedule (used by the engine and by concrete witnesses). -/
def run (ff : Bool) : Sys α → List Label → Option (Sys α)
  | x, [] => some x
  | x, l :: ls => match step ff x l with
    | some y => run ff y ls
    | none => none

theorem run_reachable {ff : Bool} {x y : Sys α} (ls : List Label)
    (hx : Reachable ff x) (h : run ff x ls = some y) : Reachable ff y := by
  induction ls generalizing x with
  | nil => simp [run] at h; exact h ▸ hx
  | cons l ls ih =>
    simp only [run] at h
    split at h
    · next z hz => exact ih (Reachable.step l hx hz) h
    · cases h

/-- Payloads still to be queued by the current frame. -/
def pendOf : List (Micro α) → List α
  | [] => []
  | .pushEnq p :: t => p :: pendOf t
  | _ :: t => pendOf t

/-- Documented edges of the stream state machine (Architecture.md section 7.1) plus "stay". -/
def edge : St → St → Bool
  | a, b => a == b ||
    match a, b with
    | .opening, .open_ => true
    | .open_, .hcl => true
    | .open_, .hcr => true
    | .hcl, .closed => true
    | .hcr, .closed => true
    | _, .closed => true      -- Close / STREAM_CLOSE / STREAM_RESET from any state
    | _, _ => false

/-! ### the manager: streams keyed by stream id -/

/-- `Manager.streams` with everything the harness tracks per stream. -/
abbrev Mgr (α : Type) := List (Nat × Sys α)

def Mgr.get (m : Mgr α) (id : Nat) : Option (Sys α) := m.lookup id

/-- Replace / insert the record of stream `id`. -/
def Mgr.set (m : Mgr α) (id : Nat) (x : Sys α) : Mgr α :=
  (id, x) :: m.filter (fun e => e.1 != id)

/-- Apply an operation addressed to stream `id` (no-op when the id is unknown). -/
def Mgr.upd (m : Mgr α) (id : Nat) (f : Sys α → Sys α) : Mgr α :=
  match m.get id with
  | some x => m.set id (f x)
  | none => m

end MM.C18
