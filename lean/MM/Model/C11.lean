/-
  Flood — executable network model of route flooding (properties C11–C15).

  Source modelled, statement by statement (tree = /repo with fixes/C13-forward-metric.patch,
  fixes/C15-max-hops.patch and fixes/C15-wire-count-replay.patch applied):
    internal/flood/flood.go      HandleRouteAdvertise, HandleRouteWithdraw, floodAdvertisementEncrypted,
                                 floodWithdrawal, floodFrame, AnnounceLocalRoutes, WithdrawLocalRoutes,
                                 SendFullTable, cleanupSeenCache
    internal/routing/manager.go  AddLocal*Route, Process*RouteAdvertise, ProcessRouteWithdraw,
                                 CleanupStale*Routes
    internal/routing/{table,domain,forward,agent}.go   AddRoute (update rule, loop check)

  Nodes are small naturals.  Links are symmetric.  Every node has a seen cache (set of
  (origin, sequence) keys), the CIDR/domain/forward tables (one list, one entry per
  (kind, key, origin)), the agent-presence table (one entry per (agent, origin, next hop), kept in
  the table's own per-agent list order because SendFullTable's path choice depends on it), its own
  sequence counter and its static local routes.  In-flight advertisements live in one list tagged
  with their directed link, in emission order; any of them may be delivered next (bag semantics),
  delivered twice (`dup`) or lost (`drop`).

  Abstractions (stated in props/C11.py): time is a logical clock (one tick per op); seen-cache
  expiry is an explicit op that may remove any key at any moment; u64 sequence numbers are `Nat`;
  metrics are u16 and wrap like the code.  The one-byte wire counts are modelled by the guards the
  code has (no forward / no replay beyond 255 agents; at most 255 routes per advertisement or
  withdrawal, `splitRoutes`), and `C15_no_wrap` proves they never wrap.  Where Go map iteration
  decides (origin order and `x[0]` path choice of SendFullTable, grouping of more than 255 routes)
  the ops carry a `hint`: the outcome the implementation chose, used when admissible.
-/
namespace MM.C11

abbrev Node := Nat

/-- A route inside an advertisement. kind: 0 CIDR, 1 domain, 2 forward, 3 agent presence. -/
structure RAd where
  kind : Nat
  key : Nat
  metric : Nat
deriving DecidableEq, Repr, Inhabited

structure Adv where
  origin : Node
  seq : Nat
  routes : List RAd
  path : List Node
  seenBy : List Node
  /-- `true` for a ROUTE_WITHDRAW frame (it shares the seen cache, the loop test and floodFrame with
      advertisements); its `routes` are the withdrawn CIDR routes, its `path` is empty. -/
  wd : Bool := false
deriving DecidableEq, Repr, Inhabited

structure Entry where
  kind : Nat
  key : Nat
  origin : Node
  nextHop : Node
  metric : Nat
  path : List Node
  seq : Nat
  lu : Nat
deriving DecidableEq, Repr, Inhabited

structure NodeSt where
  seq : Nat := 0
  seen : List (Node × Nat) := []
  tab : List Entry := []
  agents : List Entry := []
  locals : List RAd := []
deriving Inhabited

/-- A frame in flight on the directed link `src → dst`. -/
structure Flight where
  src : Node
  dst : Node
  adv : Adv
deriving DecidableEq, Inhabited

structure Net where
  n : Nat
  /-- every agent has its own routing.max_hops (0 = no limit) -/
  maxHops : Node → Nat
  nodes : Node → NodeSt
  links : List (Node × Node)
  flight : List Flight
  clock : Nat

/-- u16 increment as the code does it (`entry.Metric + 1`, `r.Metric++`). -/
def inc16 (m : Nat) : Nat := (m + 1) % 65536

/-! ### routing tables -/

/-- `route.Sequence > r.Sequence || (route.Sequence == r.Sequence && route.Metric < r.Metric)` -/
def newer (e old : Entry) : Bool :=
  decide (e.seq > old.seq) || (decide (e.seq = old.seq) && decide (e.metric < old.metric))

def sameKey (e o : Entry) : Bool :=
  decide (o.kind = e.kind) && decide (o.key = e.key) && decide (o.origin = e.origin)

/-- Table.AddRoute / DomainTable.AddRoute / ForwardTable.AddRoute after the loop check. -/
def addTab (e : Entry) : List Entry → List Entry
  | [] => [e]
  | o :: t =>
    if sameKey e o then (if newer e o then e :: t else o :: t)
    else o :: addTab e t

def sameAgentKey (e o : Entry) : Bool :=
  decide (o.origin = e.origin) && decide (o.nextHop = e.nextHop)

/-- AgentTable.AddRoute on the list of one agent id, before sorting. -/
def addAgentKey (e : Entry) : List Entry → List Entry
  | [] => [e]
  | o :: t =>
    if sameAgentKey e o then (if newer e o then e :: t else o :: t)
    else o :: addAgentKey e t

/-- One step of Go's insertion sort (`sort.Slice` on ≤ 12 elements): `x` moves left past every
    trailing element with a strictly larger metric. `revPre` is the sorted prefix, reversed. -/
def insRev (x : Entry) : List Entry → List Entry
  | [] => [x]
  | y :: t => if x.metric < y.metric then y :: insRev x t else x :: y :: t

def sortIns (l : List Entry) : List Entry :=
  (l.foldl (fun revPre x => insRev x revPre) []).reverse

/-- AgentTable.AddRoute after the loop check: update the per-agent list, re-sort it. -/
def addAgent (e : Entry) (ag : List Entry) : List Entry :=
  ag.filter (fun o => o.key != e.key) ++ sortIns (addAgentKey e (ag.filter (fun o => o.key == e.key)))

/-- The table entry built from advertised route `r` of advertisement `a` received from `frm`. -/
def mkEntry (r : RAd) (a : Adv) (frm clock : Nat) : Entry :=
  { kind := r.kind, key := r.key, origin := a.origin, nextHop := frm,
    metric := inc16 r.metric, path := a.path, seq := a.seq, lu := clock }

/-- Process{,Domain,Forward,Agent}RouteAdvertise for one advertised route. -/
def storeRoute (self frm : Node) (a : Adv) (clock : Nat) (st : NodeSt) (r : RAd) : NodeSt :=
  if self ∈ a.path then st
  else if r.kind = 3 then { st with agents := addAgent (mkEntry r a frm clock) st.agents }
  else { st with tab := addTab (mkEntry r a frm clock) st.tab }

/-- Every stored route of a node (all four tables). -/
def NodeSt.entries (st : NodeSt) : List Entry := st.tab ++ st.agents

/-! ### HandleRouteAdvertise -/

inductive Res where
  | new | seen | drop
deriving DecidableEq, Repr

/-- What `floodAdvertisementEncrypted` sends on: metric + 1 (C13 repair), self prepended to the
    path, self appended to seen-by. `floodWithdrawal` only appends self to seen-by. -/
def fwdAdv (self : Node) (a : Adv) : Adv :=
  if a.wd then { a with seenBy := a.seenBy ++ [self] }
  else
    { a with routes := a.routes.map (fun r => { r with metric := inc16 r.metric }),
             path := self :: a.path,
             seenBy := a.seenBy ++ [self] }

/-- `ProcessRouteWithdraw`: the CIDR routes of that origin named in the withdrawal. -/
def withdrawn (a : Adv) (e : Entry) : Bool :=
  e.kind == 0 && e.origin == a.origin && a.routes.any (fun r => r.kind == 0 && r.key == e.key)

/-- The 1-byte count of a path / seen-by list on the wire. -/
def maxWireAgents : Nat := 255

/-- SendFullTable does not replay a route whose path would exceed the hop limit (or the wire count). -/
def hopCap (mh : Nat) : Nat := if mh > 0 ∧ mh < maxWireAgents then mh else maxWireAgents

def hopsOf (a : Adv) : Nat := if a.path.length = 0 then a.seenBy.length else a.path.length

def fwdTargets (peers : List Node) (frm : Node) (seenBy : List Node) : List Node :=
  peers.filter (fun p => p != frm && !(seenBy.contains p))

/-- Returns the new node state, the frames it sends (destination, advertisement) and the outcome. -/
def handle (mh : Nat) (peers : List Node) (self frm : Node) (clock : Nat) (a : Adv) (st : NodeSt) :
    NodeSt × List (Node × Adv) × Res :=
  if (a.origin, a.seq) ∈ st.seen then (st, [], .seen)
  else
    let st1 := { st with seen := (a.origin, a.seq) :: st.seen }
    if self ∈ a.seenBy then (st1, [], .drop)
    else if a.wd then
      -- HandleRouteWithdraw: same cache test-and-set and loop test, then remove and flood on
      ({ st1 with tab := st1.tab.filter (fun e => !(withdrawn a e)) },
       (fwdTargets peers frm (fwdAdv self a).seenBy).map (fun p => (p, fwdAdv self a)), .new)
    else if mh > 0 ∧ hopsOf a > mh then (st1, [], .drop)
    else
      let st2 := a.routes.foldl (storeRoute self frm a clock) st1
      if mh > 0 ∧ hopsOf a ≥ mh then (st2, [], .new)
      -- floodAdvertisementEncrypted: a list that does not fit the 1-byte wire count is not sent on
      else if a.seenBy.length + 1 > maxWireAgents ∨ a.path.length + 1 > maxWireAgents then (st2, [], .new)
      else
        let f := fwdAdv self a
        (st2, (fwdTargets peers frm f.seenBy).map (fun p => (p, f)), .new)

/-! ### splitting a route set into advertisements (`splitRoutes`, at most 255 routes each)

  The byte budget of `splitRoutes` (MaxPayloadSize − headroom − header) is never binding for the
  route encodings used here (≤ 24 bytes per route, 255 routes ≤ 6.2 kB); only the 1-byte route
  count is modelled. -/

def maxRoutesPerAdv : Nat := 255

def splitAux : Nat → List RAd → List (List RAd)
  | 0, rs => [rs]
  | f + 1, rs => if rs.length ≤ maxRoutesPerAdv then [rs] else rs.take maxRoutesPerAdv :: splitAux f (rs.drop maxRoutesPerAdv)

/-- Consecutive groups of at most 255 routes; at least one (possibly empty) group. -/
def splitRoutes (rs : List RAd) : List (List RAd) := splitAux rs.length rs

/-! ### AnnounceLocalRoutes

  The local routes come out of Go maps, so WHICH routes share an advertisement is not determined
  when there are more than 255 of them.  `hint` is the grouping the implementation chose (follow
  mode); it is used when it is an admissible grouping of the announced route set, otherwise the
  canonical split is used. -/

def announcedRoutes (self : Node) (st : NodeSt) : List RAd := st.locals ++ [{ kind := 3, key := self, metric := 0 }]

def groupOK (all g : List RAd) : Bool := g.all (fun r => all.contains r) && decide (g.length ≤ maxRoutesPerAdv)

def groupingOK (all : List RAd) (hint : List (List RAd)) : Bool :=
  hint.all (groupOK all) &&
  (hint.map List.length == (splitRoutes all).map List.length) &&
  all.all (fun r => hint.flatten.contains r)

def effGroups (all : List RAd) (hint : List (List RAd)) : List (List RAd) :=
  if groupingOK all hint then hint else splitRoutes all

def announceAdvsAux (self : Node) : List (List RAd) → Nat → List Adv
  | [], _ => []
  | g :: t, seq =>
    { origin := self, seq := seq + 1, routes := g, path := [self], seenBy := [self] } :: announceAdvsAux self t (seq + 1)

/-- One advertisement per group, each with its own sequence number. -/
def announceAdvs (self : Node) (st : NodeSt) (hint : List (List RAd)) : List Adv :=
  announceAdvsAux self (effGroups (announcedRoutes self st) hint) st.seq

/-! ### WithdrawLocalRoutes (split like an announcement: at most 255 routes per ROUTE_WITHDRAW) -/

def withdrawnRoutes (st : NodeSt) : List RAd := st.locals.filter (fun r => r.kind == 0)

def withdrawAdvsAux (self : Node) : List (List RAd) → Nat → List Adv
  | [], _ => []
  | g :: t, seq =>
    { origin := self, seq := seq + 1, routes := g, path := [], seenBy := [self], wd := true } :: withdrawAdvsAux self t (seq + 1)

def withdrawAdvs (self : Node) (st : NodeSt) (hint : List (List RAd)) : List Adv :=
  withdrawAdvsAux self (effGroups (withdrawnRoutes st) hint) st.seq

/-! ### SendFullTable -/

def toRAd (e : Entry) : RAd := { kind := e.kind, key := e.key, metric := e.metric }

def dedup : List Node → List Node
  | [] => []
  | x :: t => if x ∈ t then dedup t else x :: dedup t

/-- Origins that have at least one route not learned from `peer`. -/
def replayOrigins (st : NodeSt) (peer : Node) : List Node :=
  dedup (((st.tab ++ st.agents).filter (fun e => e.nextHop != peer)).map (·.origin))

/-- Path of the first route of the group if it has one (`len(x[0].Path) > 0`). -/
def firstPath (l : List Entry) : Option (List Node) :=
  match l with
  | [] => none
  | e :: _ => if e.path.length > 0 then some e.path else none

def pickTab (st : NodeSt) (peer o k : Nat) : List Entry :=
  st.tab.filter (fun e => e.kind == k && e.origin == o && e.nextHop != peer)

def pickAgents (st : NodeSt) (peer o : Nat) : List Entry :=
  st.agents.filter (fun e => e.origin == o && e.nextHop != peer)

/-- Every stored route of origin `o` that SendFullTable(peer) re-advertises, in the order it builds
    the route list: CIDR, presence, forward, domain. -/
def originEntries (st : NodeSt) (peer o : Nat) : List Entry :=
  pickTab st peer o 0 ++ pickAgents st peer o ++ pickTab st peer o 2 ++ pickTab st peer o 1

def baseRoutes (st : NodeSt) (peer o : Nat) : List RAd := (originEntries st peer o).map toRAd

/-- The path tail SendFullTable uses when every per-kind list is visited in model order
    (`x[0]` = first element). -/
def canonTail (st : NodeSt) (peer o : Nat) : List Node :=
  match firstPath (pickTab st peer o 0) with
  | some p => p
  | none => match firstPath (pickAgents st peer o) with
    | some p => p
    | none => match firstPath (pickTab st peer o 2) with
      | some p => p
      | none => match firstPath (pickTab st peer o 1) with
        | some p => p
        | none => []

/-- The per-kind route lists of the three origin-keyed tables come out of Go maps: `x[0]` may be
    ANY element (their stored paths differ once an origin announces in several groups); the
    presence list is a slice, its head is fixed. -/
def anyTail (l : List Entry) (next : List (List Node)) : List (List Node) :=
  (l.filter (fun e => e.path != [])).map (·.path) ++ (if l.isEmpty || l.any (fun e => e.path == []) then next else [])

def headTail (l : List Entry) (next : List (List Node)) : List (List Node) :=
  match l with
  | [] => next
  | e :: _ => if e.path != [] then [e.path] else next

def exactTails (st : NodeSt) (peer o : Nat) : List (List Node) :=
  anyTail (pickTab st peer o 0) (headTail (pickAgents st peer o) (anyTail (pickTab st peer o 2) (anyTail (pickTab st peer o 1) [[]])))

/-- One advertisement SendFullTable emits, before it gets its sequence number. -/
structure RFrame where
  origin : Node
  ptail : List Node
  routes : List RAd
deriving DecidableEq, Repr

/-- What the proofs need to know about an emitted frame: it is about an origin that has routes to
    replay, it carries only stored routes of that origin, its path tail is the stored path of one
    of them — or empty, which requires an entry without path (a local route) unless nothing is
    carried at all. -/
def frameOK (cap : Nat) (st : NodeSt) (peer : Node) (fr : RFrame) : Bool :=
  decide (fr.ptail.length + 1 ≤ cap) &&
  (replayOrigins st peer).contains fr.origin &&
  fr.routes.all (fun r => (baseRoutes st peer fr.origin).contains r) &&
  decide (fr.routes.length ≤ maxRoutesPerAdv) &&
  (if fr.ptail == [] then (originEntries st peer fr.origin).any (fun e => e.path == []) || (baseRoutes st peer fr.origin).isEmpty
   else (originEntries st peer fr.origin).any (fun e => e.path == fr.ptail))

def canonFrames (st : NodeSt) (peer : Node) : List RFrame :=
  (replayOrigins st peer).flatMap (fun o =>
    (splitRoutes (baseRoutes st peer o)).map (fun g => { origin := o, ptail := canonTail st peer o, routes := g }))

/-- Origins in order of first appearance. -/
def originRuns : List RFrame → List Node
  | [] => []
  | fr :: t => match originRuns t with
    | [] => [fr.origin]
    | o :: rest => if o = fr.origin then o :: rest else fr.origin :: o :: rest

def isPermOf (ord os : List Node) : Bool :=
  decide (ord.length = os.length) && os.all (fun o => ord.contains o) && ord.all (fun o => os.contains o)

/-- `hint` = the frames the implementation emitted (follow mode). Admissible: every frame is OK;
    the origins come in runs, at most one run per origin, in any order (Go map iteration); an origin
    may be missing only if an `x[0]` choice gives a path beyond the cap (`continue`); the runs' route
    groups are an admissible grouping of that origin's stored routes; every frame of a run carries
    the same path tail, one that the `x[0]` choices can produce. -/
def hintOK (cap : Nat) (st : NodeSt) (peer : Node) (hint : List RFrame) : Bool :=
  hint.all (frameOK cap st peer) &&
  decide ((originRuns hint).length = (dedup (originRuns hint)).length) &&
  (replayOrigins st peer).all (fun o =>
    let frs := hint.filter (fun fr => fr.origin == o)
    match frs with
    | [] => (exactTails st peer o).any (fun t => decide (t.length + 1 > cap))   -- skipped: path too long
    | fr :: t =>
      groupingOK (baseRoutes st peer o) (frs.map (·.routes)) &&
      t.all (fun g => g.ptail == fr.ptail) && (exactTails st peer o).contains fr.ptail)

def effFrames (cap : Nat) (st : NodeSt) (peer : Node) (hint : List RFrame) : List RFrame :=
  if hintOK cap st peer hint then hint else (canonFrames st peer).filter (frameOK cap st peer)

def replayAdvsAux (self : Node) : List RFrame → Nat → List Adv
  | [], _ => []
  | fr :: t, seq =>
    { origin := fr.origin, seq := seq + 1, routes := fr.routes, path := self :: fr.ptail, seenBy := [self] }
      :: replayAdvsAux self t (seq + 1)

def replayAdvs (cap : Nat) (self peer : Node) (st : NodeSt) (hint : List RFrame) : List Adv :=
  replayAdvsAux self (effFrames cap st peer hint) st.seq

/-! ### the labelled transition system -/

inductive Op where
  | connect (a b : Node)
  | disconnect (a b : Node)
  | replay (a b : Node) (hint : List RFrame)
  | announce (a : Node) (hint : List (List RAd))
  | withdraw (a : Node) (hint : List (List RAd))
  | deliver (a b : Node) (i : Nat)
  | dup (a b : Node) (i : Nat)
  | drop (a b : Node) (i : Nat)
  | expire (a : Node) (o : Node) (s : Nat)
  | stale (a : Node) (age : Nat)
  | dump
deriving DecidableEq, Repr

def linked (s : Net) (a b : Node) : Bool := s.links.contains (a, b)

def peersOf (s : Net) (a : Node) : List Node := (List.range s.n).filter (fun b => linked s a b)

def setNode (s : Net) (a : Node) (st : NodeSt) : Net :=
  { s with nodes := fun x => if x = a then st else s.nodes x }

def onLink (a b : Node) (f : Flight) : Bool := f.src == a && f.dst == b

/-- Position in `flight` of the `i`-th frame on link `a → b`. -/
def nthOnLink (a b : Node) : List Flight → Nat → Nat → Option Nat
  | [], _, _ => none
  | f :: t, i, pos =>
    if onLink a b f then (match i with
      | 0 => some pos
      | i + 1 => nthOnLink a b t i (pos + 1))
    else nthOnLink a b t i (pos + 1)

def countOnLink (a b : Node) (fl : List Flight) : Nat := (fl.filter (onLink a b)).length

/-- The frame addressed by `deliver a b i`: index modulo the queue length. -/
def pickFlight (s : Net) (a b : Node) (i : Nat) : Option (Nat × Flight) :=
  let c := countOnLink a b s.flight
  if c = 0 then none else
  match nthOnLink a b s.flight (i % c) 0 with
  | none => none
  | some pos => match s.flight[pos]? with
    | none => none
    | some f => some (pos, f)

def staleKeep (self : Node) (clock age : Nat) (e : Entry) : Bool :=
  e.origin == self || decide (e.lu + age ≥ clock)

/-- Effect of `b` handling advertisement `m` received from `a`. -/
def process (s : Net) (a b : Node) (m : Adv) : Net × Res :=
  let (st', outs, r) := handle (s.maxHops b) (peersOf s b) b a s.clock m (s.nodes b)
  ({ setNode s b st' with flight := s.flight ++ outs.map (fun (p, f) => { src := b, dst := p, adv := f }) }, r)

def tick (s : Net) : Net := { s with clock := s.clock + 1 }

/-- `Manager.HandlePeerDisconnect{,Domain,Forward,Agent}`: forget every route learned from `p`. -/
def NodeSt.dropPeer (st : NodeSt) (p : Node) : NodeSt :=
  { st with tab := st.tab.filter (fun e => e.nextHop != p),
            agents := st.agents.filter (fun e => e.nextHop != p) }

/-- One op. The clock advances first (every op is one logical tick). -/
def stepCore (s : Net) : Op → Net
  | .connect a b =>
    if a < s.n ∧ b < s.n ∧ a ≠ b then
      { s with links := (if linked s a b then [] else [(a, b)]) ++ (if linked s b a then [] else [(b, a)]) ++ s.links }
    else s
  | .disconnect a b =>
    -- the connection a — b is gone: frames queued on it are lost and both ends run
    -- Agent.handlePeerDisconnect (RemoveRoutesFromPeer on all four tables)
    if a < s.n ∧ b < s.n ∧ linked s a b then
      let sa := s.nodes a
      let sb := s.nodes b
      let s1 := setNode s a (sa.dropPeer b)
      let s2 := setNode s1 b (sb.dropPeer a)
      { s2 with links := s.links.filter (fun l => l != (a, b) && l != (b, a)),
                flight := s.flight.filter (fun f => !(onLink a b f) && !(onLink b a f)) }
    else s
  | .replay a b ord =>
    if a < s.n ∧ b < s.n ∧ linked s a b then
      let st := s.nodes a
      let advs := replayAdvs (hopCap (s.maxHops a)) a b st ord
      { setNode s a { st with seq := st.seq + advs.length } with
        flight := s.flight ++ advs.map (fun m => { src := a, dst := b, adv := m }) }
    else s
  | .announce a hint =>
    if a < s.n then
      let st := s.nodes a
      let advs := announceAdvs a st hint
      -- each advertisement is sent to every peer before the next one is built
      { setNode s a { st with seq := st.seq + advs.length } with
        flight := s.flight ++ advs.flatMap (fun m => (peersOf s a).map (fun p => { src := a, dst := p, adv := m })) }
    else s
  | .withdraw a hint =>
    -- WithdrawLocalRoutes returns early (no sequence number used) without local CIDR routes
    if a < s.n ∧ (s.nodes a).locals.any (fun r => r.kind == 0) then
      let st := s.nodes a
      let advs := withdrawAdvs a st hint
      { setNode s a { st with seq := st.seq + advs.length } with
        flight := s.flight ++ advs.flatMap (fun m => (peersOf s a).map (fun p => { src := a, dst := p, adv := m })) }
    else s
  | .deliver a b i =>
    if a < s.n ∧ b < s.n ∧ linked s a b then
      match pickFlight s a b i with
      | none => s
      | some (pos, f) => (process { s with flight := s.flight.eraseIdx pos } a b f.adv).1
    else s
  | .dup a b i =>
    if a < s.n ∧ b < s.n ∧ linked s a b then
      match pickFlight s a b i with
      | none => s
      | some (_, f) => (process s a b f.adv).1
    else s
  | .drop a b i =>
    if a < s.n ∧ b < s.n ∧ linked s a b then
      match pickFlight s a b i with
      | none => s
      | some (pos, _) => { s with flight := s.flight.eraseIdx pos }
    else s
  | .expire a o sq =>
    if a < s.n then
      let st := s.nodes a
      setNode s a { st with seen := st.seen.filter (fun k => k != (o, sq)) }
    else s
  | .stale a age =>
    if a < s.n then
      let st := s.nodes a
      setNode s a { st with tab := st.tab.filter (staleKeep a s.clock age),
                            agents := st.agents.filter (staleKeep a s.clock age) }
    else s
  | .dump => s

def step (s : Net) (op : Op) : Net := stepCore (tick s) op

def run (s : Net) (ops : List Op) : Net := ops.foldl step s

/-! ### initial state -/

/-- Manager.AddLocal{,Domain,Forward}Route: bump the counter, store the route with ourselves as
    origin and next hop, empty path, configured metric. -/
def addLocal (self : Node) (st : NodeSt) (r : RAd) : NodeSt :=
  let e : Entry := { kind := r.kind, key := r.key, origin := self, nextHop := self, metric := r.metric,
                     path := [], seq := st.seq + 1, lu := 0 }
  { st with seq := st.seq + 1, tab := addTab e st.tab, locals := st.locals ++ [r] }

def initNode (self : Node) (locals : List RAd) : NodeSt := locals.foldl (addLocal self) {}

/-- Initial state with a hop limit per agent. -/
def initH (n : Nat) (maxHops : Node → Nat) (locals : Node → List RAd) : Net :=
  { n := n, maxHops := maxHops, nodes := fun x => initNode x (locals x), links := [], flight := [], clock := 0 }

/-- Initial state with one hop limit for the whole mesh. -/
def init (n maxHops : Nat) (locals : Node → List RAd) : Net := initH n (fun _ => maxHops) locals

/-! ### following a recorded path (Agent.handleStreamOpen) -/

/-- `cur` holds a STREAM_OPEN with remaining path `rp`: it is the exit when the path is empty or
    names only itself, otherwise it forwards to `rp[0]` (which must be a connected peer) with the
    rest. Returns the agent whose exit handler receives the stream. -/
def openWalk (lk : Node → Node → Bool) : Node → List Node → Option Node
  | cur, [] => some cur
  | cur, y :: rest =>
    if rest = [] ∧ y = cur then some cur
    else if lk cur y then openWalk lk y rest else none

/-- Consecutive agents are linked: `cur — p[0] — p[1] — …`. -/
def chainOK (lk : Node → Node → Bool) : Node → List Node → Bool
  | _, [] => true
  | cur, y :: rest => lk cur y && chainOK lk y rest

/-- The ingress: send to `route.NextHop` with `route.Path[1:]`. -/
def openRoute (lk : Node → Node → Bool) (x : Node) (e : Entry) : Option Node :=
  if lk x e.nextHop then openWalk lk e.nextHop e.path.tail else none

end MM.C11
