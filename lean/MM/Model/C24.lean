/-
  Model of /repo/internal/health/server.go: requireAuth / extractBearerToken / the mux built by
  NewServer, plus the part of net/http.ServeMux (Go 1.22+ routing) that the registered pattern
  forms exercise: method-less, host-less patterns made of literal segments, either exact
  ("/agents") or subtree ("/agents/", "/").

  A request path is the *escaped* path as sent, abstracted to a list of path characters that are
  either literal or percent-encoded (`PC.lit c` / `PC.enc c` for "%XX").  `r.URL.Path` is the list of
  values; ServeMux works on the escaped path: `cleanPath` and the split into segments see only
  literal '/' and '.', each segment is unescaped before it is compared with a pattern literal.

  The exempt set and the registration table are regenerated from the source (go/ast) into
  MM/Gen/C24.lean on every run.  bcrypt + the SHA-256 cache are one abstract predicate `valid`.

  net/http is MODELLED here, not verified: the correspondence run (real health.Server handler
  under httptest, `Request.Pattern` as the witness of which registration served the request) is
  what validates `cleanPath`, `matchSegs` and the redirect rules.
-/
import MM.Gen.C24

namespace MM.C24

inductive PC where
  | lit (c : Char)
  | enc (c : Char)
  deriving DecidableEq, Repr

def PC.val : PC → Char
  | .lit c => c
  | .enc c => c

abbrev Raw := List PC

def slash : PC := .lit '/'
def dot : Raw := [.lit '.']
def dotdot : Raw := [.lit '.', .lit '.']

/-- `r.URL.Path`. -/
def decoded (p : Raw) : List Char := p.map PC.val

/-- Split at every occurrence of `sep` ("a/b" ↦ [a, b]; "a/" ↦ [a, []]; "" ↦ [[]]). -/
def splitOn {α : Type} [DecidableEq α] (sep : α) : List α → List (List α)
  | [] => [[]]
  | c :: cs =>
    if c = sep then [] :: splitOn sep cs
    else match splitOn sep cs with
      | s :: ss => (c :: s) :: ss
      | [] => [[c]]

/-- `path.Clean` on a rooted path, on its segments; `stack` is reversed. -/
def cleanSegs (stack : List Raw) : List Raw → List Raw
  | [] => stack.reverse
  | s :: rest =>
    if s = [] ∨ s = dot then cleanSegs stack rest
    else if s = dotdot then cleanSegs (stack.drop 1) rest
    else cleanSegs (s :: stack) rest

def joinSegs (segs : List Raw) : Raw :=
  if segs = [] then [slash] else segs.flatMap (fun s => slash :: s)

/-- net/http `cleanPath` applied to the escaped path. -/
def cleanPath (p : Raw) : Raw :=
  if p = [] then [slash] else
  let p' := if p.head? = some slash then p else slash :: p
  let np := joinSegs (cleanSegs [] (splitOn slash p'))
  if p'.getLast? = some slash ∧ np ≠ [slash] then np ++ [slash] else np

/-- Segments as the routing tree sees them (`firstSegment`: drop the leading byte, split at '/',
    unescape each); the flag says the path ends in '/'. -/
def segsOf (mp : Raw) : List (List Char) × Bool :=
  let parts := splitOn slash (mp.drop 1)
  match parts.getLast? with
  | some [] => (parts.dropLast.map decoded, true)
  | _ => (parts.map decoded, false)

structure Route where
  pat : List Char
  grp : Nat          -- 0 unconditional, 1 EnableRemoteAPI, 2 EnableDashboard, 3 EnablePprof
  whenOn : Bool      -- registered when the group flag is on (true) / off (false)
  disabled : Bool    -- handler is disabledHandler(...)
  handler : String
  deriving DecidableEq, Repr

def Route.parts (r : Route) : List (List Char) := splitOn '/' (r.pat.drop 1)
/-- pattern ends in '/': anonymous multi wildcard. -/
def Route.subtree (r : Route) : Bool := r.parts.getLast? == some []
def Route.segs (r : Route) : List (List Char) := if r.subtree then r.parts.dropLast else r.parts

def routes : List Route := Gen.C24.routes.map (fun t => ⟨t.1, t.2.1, t.2.2.1, t.2.2.2.1, t.2.2.2.2⟩)
def exempt : List (List Char) := Gen.C24.exempt

structure Flags where
  remote : Bool
  dashboard : Bool
  pprof : Bool
  deriving Repr

def Flags.on (f : Flags) : Nat → Bool
  | 0 => true
  | 1 => f.remote
  | 2 => f.dashboard
  | 3 => f.pprof
  | _ => false

/-- `http:` section of the configuration as far as endpoint gating goes (config.go HTTPConfig):
    `minimal`, and the three optional group flags (`none` = not set). -/
structure HTTPCfg where
  minimal : Bool
  pprof : Option Bool
  dashboard : Option Bool
  remoteAPI : Option Bool
  deriving Repr

/-- Documented precedence ("Minimal mode … When true, overrides all other endpoint flags to false";
    "All default to true"): PprofEnabled / DashboardEnabled / RemoteAPIEnabled, which agent.go copies
    into health.ServerConfig. -/
def groupEnabled (minimal : Bool) (flag : Option Bool) : Bool :=
  if minimal then false else flag.getD true

def flagsOfConfig (h : HTTPCfg) : Flags :=
  { remote := groupEnabled h.minimal h.remoteAPI, dashboard := groupEnabled h.minimal h.dashboard,
    pprof := groupEnabled h.minimal h.pprof }

/-- The registrations NewServer performs under these flags. -/
def active (f : Flags) : List Route := routes.filter (fun r => f.on r.grp == r.whenOn)

/-- Does pattern `r` match a path with these segments? -/
def patMatches (r : Route) (segs : List (List Char)) (tr : Bool) : Bool :=
  if r.subtree then r.segs.isPrefixOf segs && (tr || decide (r.segs.length < segs.length))
  else !tr && r.segs == segs

def longest : List Route → Option Route
  | [] => none
  | r :: rs =>
    match longest rs with
    | none => some r
    | some b => if b.segs.length > r.segs.length then some b else some r

/-- Routing-tree lookup for literal patterns: an exact pattern wins, else the longest subtree. -/
def matchSegs (act : List Route) (segs : List (List Char)) (tr : Bool) : Option Route :=
  match act.find? (fun r => !r.subtree && patMatches r segs tr) with
  | some r => some r
  | none => longest (act.filter (fun r => r.subtree && patMatches r segs tr))

/-- net/http `exactMatch`. -/
def exactMatch (n : Option Route) (segs : List (List Char)) (tr : Bool) : Bool :=
  match n with
  | none => false
  | some r => !r.subtree || (tr && r.segs.length == segs.length)

inductive MuxRes where
  | redirect
  | notFound
  | route (r : Route)
  deriving Repr

/-- `findHandler` after the path has been cleaned and split: trailing-slash redirect, clean-path
    redirect (`changed`), else the matched registration. -/
def decideSegs (act : List Route) (connect changed : Bool) (segs : List (List Char)) (tr : Bool) : MuxRes :=
  let n := matchSegs act segs tr
  if !exactMatch n segs tr && !tr && exactMatch (matchSegs act segs true) segs true then .redirect
  else if !connect && changed then .redirect
  else match n with
    | none => .notFound
    | some r => .route r

/-- The path ServeMux matches on: cleaned, except for CONNECT. -/
def mpath (connect : Bool) (p : Raw) : Raw := if connect then p else cleanPath p

def muxRoute (act : List Route) (connect : Bool) (p : Raw) : MuxRes :=
  let mp := mpath connect p
  decideSegs act connect (decide (mp ≠ p)) (segsOf mp).1 (segsOf mp).2

inductive Status where
  | s401 | s301 | s404 | handler
  deriving DecidableEq, Repr

structure Outcome where
  status : Status
  route : Option Route       -- the registration whose handler ran (Request.Pattern)
  mayCall : Bool             -- a real handler ran: providers may have been called
  deriving DecidableEq, Repr

structure Req where
  connect : Bool             -- method == CONNECT (the only way the method matters for routing)
  path : Raw
  authHeader : List Char     -- r.Header.Get("Authorization"), [] when absent
  queryToken : List Char     -- r.URL.Query().Get("token"), [] when absent
  deriving Repr

def bearerPrefix : List Char := ['B', 'e', 'a', 'r', 'e', 'r', ' ']

/-- `extractBearerToken`. -/
def extractToken (r : Req) : List Char :=
  if bearerPrefix.isPrefixOf r.authHeader then r.authHeader.drop 7 else r.queryToken

/-! ### the token check

bcrypt keys its cipher with the first 72 bytes of the NUL-terminated password repeated cyclically
(golang.org/x/crypto/bcrypt: `append(key, 0)`, Blowfish `ExpandKey` cycles the key over 18 words);
`CompareHashAndPassword` does not reject long input.  The stand-in below is an ideal hash of that
key: two passwords compare equal iff their 72-byte keys are equal. -/

def NUL : Char := Char.ofNat 0

def bcryptKey (p : List Char) : List Char :=
  (List.range 72).map (fun i => (p ++ [NUL]).getD (i % (p.length + 1)) NUL)

def bcryptAccepts (token p : List Char) : Bool := bcryptKey p == bcryptKey token

/-- `validateToken` (cache aside): strings longer than 72 bytes or with a NUL byte are refused
    before hashing, the rest is bcrypt. -/
def validateToken (token p : List Char) : Bool :=
  decide (p.length ≤ 72) && !p.contains NUL && bcryptAccepts token p

/-- The mux and what the reached handler does as far as the property is concerned. -/
def serveMux (f : Flags) (r : Req) : Outcome :=
  match muxRoute (active f) r.connect r.path with
  | .redirect => ⟨.s301, none, false⟩
  | .notFound => ⟨.s404, none, false⟩
  | .route rt =>
    if rt.disabled then ⟨.s404, some rt, false⟩
    else if rt.handler == "s.handleSplash" && decoded r.path != ['/'] then ⟨.s404, some rt, false⟩
    else ⟨.handler, some rt, true⟩

/-- `Server.Handler()`: the mux, wrapped by `requireAuth` when a token hash is configured. -/
def serve (valid : List Char → Bool) (tokenConfigured : Bool) (f : Flags) (r : Req) : Outcome :=
  if !tokenConfigured then serveMux f r
  else if decoded r.path ∈ exempt then serveMux f r
  else
    let t := extractToken r
    if t = [] ∨ valid t = false then ⟨.s401, none, false⟩ else serveMux f r

end MM.C24
