/-
  Model of route announcement framing in /repo/internal/flood/flood.go (C06):
  `AnnounceLocalRoutes`, `SendFullTable` (per-origin replay), `floodAdvertisementEncrypted`
  (forwarding) on the sending side, and on the receiving neighbour `DecodeRouteAdvertise` +
  the classification switch of `HandleRouteAdvertise`.

  Modelled: the code WITH fixes/C06-advertise-chunking.patch applied: a route list is split by
  `splitRoutes` into groups of at most 255 routes and at most `advertiseBudget` encoded bytes,
  one ROUTE_ADVERTISE (own sequence number) per group.  `unsplit` is the pinned behaviour (one
  advertisement whatever the size), kept to state what was wrong with it.

  Wire codecs are the C05 ones (MM/Model/C05.lean).  Core Lean only.
-/
import MM.Model.C05

namespace MM.C06
open MM MM.C05

/-- `protocol.Route` = the value type of `advRouteC`: (((family, prefixLength), prefix), metric) -/
abbrev PRoute := ((Nat × Nat) × Bytes) × Nat

/-- What an agent originates / what a neighbour's routing manager is handed. -/
inductive Entry where
  | cidr (fam plen : Nat) (ip : Bytes) (metric : Nat)      -- fam 1 = IPv4 (4 bytes), 2 = IPv6 (16)
  | domain (pattern : Bytes) (wildcard : Bool) (metric : Nat)
  | forward (key target : Bytes) (metric : Nat)
  | agent (id : Bytes) (metric : Nat)
  deriving DecidableEq, Repr

/-- `EncodeDomainPrefix` / `EncodeForwardKey…`: 1-byte length (wrapping) + bytes. -/
def lenPrefixed (s : Bytes) : Bytes := UInt8.ofNat s.length :: s

/-- the `protocol.Route` built by `AnnounceLocalRoutes` / `SendFullTable` for an entry -/
def toRoute : Entry → PRoute
  | .cidr fam plen ip m => (((fam, plen), ip), m)
  | .domain p w m => (((3, if w then 1 else 0), lenPrefixed p), m)
  | .forward k t m => (((4, 0), lenPrefixed k ++ lenPrefixed t), m)
  | .agent id m => (((5, 0), id), m)

/-- `DecodeDomainPrefix` / `DecodeForwardKey`: "" when the prefix is malformed. -/
def decodeLenPrefixed : Bytes → Bytes
  | [] => []
  | n :: r => if r.length < n.toNat then [] else r.take n.toNat

/-- `DecodeForwardKeyAndTarget`. -/
def decodeKeyTarget (p : Bytes) : Bytes × Bytes :=
  match p with
  | [] => ([], [])
  | n :: r =>
    if r.length < n.toNat then ([], [])
    else (r.take n.toNat, decodeLenPrefixed (r.drop n.toNat))

def zeroID : Bytes := List.replicate 16 0

/-- `copy(ip, prefix)` into a fresh `n`-byte slice -/
def fitTo (n : Nat) (p : Bytes) : Bytes := (p ++ List.replicate n 0).take n

/-- The switch in `HandleRouteAdvertise`: what is passed on to the routing manager (wire metric;
    the manager stores metric + 1). `none` = the route is ignored. -/
def classify (r : PRoute) : Option Entry :=
  let fam := r.1.1.1
  let plen := r.1.1.2
  let pfx := r.1.2
  let m := r.2
  if fam = 3 then
    let p := decodeLenPrefixed pfx
    if p.isEmpty then none else some (.domain p (plen == 1) m)
  else if fam = 4 then
    let kt := decodeKeyTarget pfx
    if kt.1.isEmpty then none else some (.forward kt.1 kt.2 m)
  else if fam = 5 then
    let id := if pfx.length < 16 then zeroID else pfx.take 16
    if id == zeroID then none else some (.agent id m)
  else if pfx.isEmpty then none          -- protocolRouteToIPNet
  else if fam = 1 then some (.cidr 1 plen (fitTo 4 pfx) m)
  else if fam = 2 then some (.cidr 2 plen (fitTo 16 pfx) m)
  else none

/-- an originated entry whose fields fit the wire format -/
def entryWF : Entry → Bool
  | .cidr fam plen ip m =>
    ((fam == 1 && ip.length == 4 && decide (plen ≤ 32)) || (fam == 2 && ip.length == 16 && decide (plen ≤ 128)))
      && decide (m < 65536)
  | .domain p w m => decide (0 < p.length) && decide (p.length < 256) && decide (m < 65536) && (w || true)
  | .forward k t m => decide (0 < k.length) && decide (k.length < 256) && decide (t.length < 256) && decide (m < 65536)
  | .agent id m => id.length == 16 && id != zeroID && decide (m < 65536)

/-! ### sender -/

def routeSize (r : PRoute) : Nat := 4 + r.1.2.length

/-- `splitRoutes(routes, budget)`: the Go loop with `cur` = routes[start:i] (reversed) and
    `size` their encoded size. -/
def splitLoop (budget : Nat) : List PRoute → List PRoute → Nat → List (List PRoute)
  | [], cur, _ => [cur.reverse]
  | r :: rs, cur, size =>
    if !cur.isEmpty && (cur.length ≥ 255 || size + routeSize r > budget) then
      cur.reverse :: splitLoop budget rs [r] (routeSize r)
    else splitLoop budget rs (r :: cur) (size + routeSize r)

def splitRoutes (budget : Nat) (routes : List PRoute) : List (List PRoute) :=
  splitLoop budget routes [] 0

def headroom : Nat := 1024

/-- the non-route fields of the advertisements of one group -/
structure Base where
  origin : Bytes
  name : Bytes
  path : List Bytes        -- plaintext path (EncPath = {false, EncodePath(path)})
  seenBy : List Bytes
  deriving Repr

def Base.adv (b : Base) (seq : Nat) (routes : List PRoute) : RouteAdv :=
  (b.origin, b.name, seq, routes, (false, ids.enc b.path), b.seenBy)

/-- `advertiseBudget` (Go `int`; a negative budget behaves like 0: one route per group). -/
def advertiseBudget (b : Base) : Nat :=
  maxPayload - headroom - (routeAdvertiseC.enc (b.adv 0 [])).length

/-- payloads of the frames sent for one route list: group `i` gets sequence `seq0 + 1 + i` -/
def advertise (b : Base) (seq0 : Nat) (routes : List PRoute) : List Bytes :=
  let rec go (seq : Nat) : List (List PRoute) → List Bytes
    | [] => []
    | g :: gs => routeAdvertiseC.enc (b.adv seq g) :: go (seq + 1) gs
  go (seq0 + 1) (splitRoutes (advertiseBudget b) routes)

/-- pinned behaviour: one advertisement carrying every route -/
def unsplit (b : Base) (seq0 : Nat) (routes : List PRoute) : List Bytes :=
  [routeAdvertiseC.enc (b.adv (seq0 + 1) routes)]

/-- `AnnounceLocalRoutes`: CIDR, domain, forward routes then the agent presence route. -/
def localRoutes (self : Bytes) (entries : List Entry) : List PRoute :=
  entries.map toRoute ++ [toRoute (.agent self 0)]

def announceBase (self name : Bytes) : Base := { origin := self, name, path := [self], seenBy := [self] }

def announceLocal (self name : Bytes) (seq0 : Nat) (entries : List Entry) : List Bytes :=
  advertise (announceBase self name) seq0 (localRoutes self entries)

/-- `SendFullTable` for one origin group: the stored routes of `origin`, path = self :: stored path -/
def replayBase (self origin name : Bytes) (storedPath : List Bytes) : Base :=
  { origin, name, path := self :: storedPath, seenBy := [self] }

/-- `floodAdvertisementEncrypted`: the received advertisement with our id prepended to a
    plaintext path and appended to the seen-by list; routes as received. -/
def forwardAdv (self : Bytes) (a : RouteAdv) : Bytes :=
  let (origin, name, seq, routes, encPath, seenBy) := a
  let fwdPath : Bool × Bytes :=
    if encPath.1 then encPath
    else
      let existing := match ids.dec encPath.2 with
        | some (p, _) => p
        | none => []
      (false, ids.enc (self :: existing))
  routeAdvertiseC.enc (origin, name, seq, routes, fwdPath, seenBy ++ [self])

/-! ### transport and receiver -/

/-- `SendToPeer` → `Frame.Encode`: a payload over MaxPayloadSize is refused (the caller logs at
    debug level and carries on), otherwise the neighbour gets exactly the payload. -/
def deliver (payload : Bytes) : Option Bytes :=
  if payload.length > maxPayload then none else some payload

/-- neighbour: `DecodeRouteAdvertise` then the classification switch; `none` = decode error -/
def learn (payload : Bytes) : Option (List Entry) :=
  match decodeRouteAdvertise payload with
  | none => none
  | some a => some (a.2.2.2.1.filterMap classify)

/-- everything a neighbour learns from a list of sent payloads; `none` if any frame was dropped
    or failed to decode -/
def learnAll : List Bytes → Option (List Entry)
  | [] => some []
  | p :: ps =>
    match deliver p with
    | none => none
    | some q =>
      match learn q, learnAll ps with
      | some es, some rest => some (es ++ rest)
      | _, _ => none

/-- the non-route fields fit the wire format: 16-byte origin, display name ≤ 255 bytes, path and
    seen-by lists of at most 255 16-byte ids -/
def baseWF (b : Base) : Bool :=
  b.origin.length == 16 && decide (b.name.length < 256) && ids.wf b.path && ids.wf b.seenBy

def fixedLen (b : Base) : Nat := (routeAdvertiseC.enc (b.adv 0 [])).length

/-! ### withdrawals (`WithdrawLocalRoutes`, with fixes/C06-withdraw-chunking.patch) -/

/-- `len(base.Encode())` of the route-less ROUTE_WITHDRAW -/
def withdrawFixed (self : Bytes) : Nat := (routeWithdrawC.enc (self, 0, [], [self])).length

def withdrawBudget (self : Bytes) : Nat := maxPayload - headroom - withdrawFixed self

/-- payloads of the ROUTE_WITHDRAW frames for the local (CIDR) routes: one per group, group `i`
    with sequence `seq0 + 1 + i` -/
def withdrawLocal (self : Bytes) (seq0 : Nat) (cidrs : List Entry) : List Bytes :=
  let rec go (sq : Nat) : List (List PRoute) → List Bytes
    | [] => []
    | g :: gs => routeWithdrawC.enc (self, sq, g, [self]) :: go (sq + 1) gs
  go (seq0 + 1) (splitRoutes (withdrawBudget self) (cidrs.map toRoute))

/-- pinned behaviour: one ROUTE_WITHDRAW carrying every route -/
def withdrawUnsplit (self : Bytes) (seq0 : Nat) (cidrs : List Entry) : List Bytes :=
  [routeWithdrawC.enc (self, seq0 + 1, cidrs.map toRoute, [self])]

/-- `protocolRouteToIPNet` in `HandleRouteWithdraw`: the networks handed to `ProcessRouteWithdraw` -/
def toIPNet (r : PRoute) : Option Entry :=
  if r.1.2.isEmpty then none
  else if r.1.1.1 = 1 then some (.cidr 1 r.1.1.2 (fitTo 4 r.1.2) r.2)
  else if r.1.1.1 = 2 then some (.cidr 2 r.1.1.2 (fitTo 16 r.1.2) r.2)
  else none

def learnWithdraw (payload : Bytes) : Option (List Entry) :=
  match decodeRouteWithdraw payload with
  | none => none
  | some w => some (w.2.2.1.filterMap toIPNet)

/-- every network a neighbour removes, given the sent payloads; `none` if a frame was dropped or
    did not decode -/
def withdrawAll : List Bytes → Option (List Entry)
  | [] => some []
  | p :: ps =>
    match deliver p with
    | none => none
    | some q =>
      match learnWithdraw q, withdrawAll ps with
      | some es, some rest => some (es ++ rest)
      | _, _ => none

def isCidr : Entry → Bool
  | .cidr _ _ _ _ => true
  | _ => false

end MM.C06
