/-
  Model of the wire codecs in /repo/internal/protocol/frame.go (C05; reused by C06).

  Every payload kind is a `Codec` built from the combinators of MM/Model/C05Comb.lean in the
  order in which the Go `Encode`/`Decode…` functions write/read the fields; the top-level
  decoder of a kind is `decodeTop <minimum length pre-check> <codec>` (trailing bytes are
  ignored, as in Go).  Message values are nested tuples; field order is documented at each
  codec.  Numeric fields are `Nat` (well-formed iff below `256^k`), byte strings and Go strings
  are `Bytes`, agent ids are 16-byte `Bytes`.

  Two decoders are not plain compositions and are written out statement by statement:
  `DecodeNodeInfo` (optional tail read under `r.remaining() > 0` with the sticky error ignored at
  the end) and `DecodeQueuedState` (length-prefixed blobs with skip-on-malformed, then the
  sleep/wake commands located by offset arithmetic).

  Modelled: the code WITH fixes/C05-*.patch applied (QueuedState offset 97+16n; pre-allocation
  capped by the remaining bytes; Stream/UDPOpenAck minimum length 43).
-/
import MM.Model.C05Comb

namespace MM.C05
open MM

def maxPayload : Nat := 16384
def headerSize : Nat := 14

abbrev u8 := be 1
abbrev u16 := be 2
abbrev u32 := be 4
abbrev u64 := be 8
abbrev id16 := bytesN 16
abbrev key32 := bytesN 32
abbrev str := lp 1
/-- `writeAgentIDs` / `readAgentIDs`. -/
abbrev ids := listN 1 id16

/-! Go `unsafe.Sizeof` of the slice element types whose `make` takes its length from the wire
    (tied to the compiled package by `sizes_tie` in Props/C05.lean). -/
def sizeofRoute : Nat := 40
def sizeofPeerInfo : Nat := 48
def sizeofListenerInfo : Nat := 32
def sizeofString : Nat := 16
def sizeofRouteAdvertise : Nat := 120
def sizeofRouteWithdraw : Nat := 72
def sizeofNodeInfoAdvertise : Nat := 288

/-! ### frame header -/

/-- (type, flags, streamID, payload) -/
abbrev Frame := Nat × Nat × Nat × Bytes

inductive FrameErr where
  | tooLarge   -- ErrFrameTooLarge
  | invalid    -- ErrInvalidFrame
  deriving DecidableEq, Repr

/-- header fields in wire order: type(1) flags(1) length(4) streamID(8) -/
def headerC := seq u8 (seq u8 (seq u32 u64))

/-- `Frame.Encode`. -/
def encodeFrame (f : Frame) : Except FrameErr Bytes :=
  if f.2.2.2.length > maxPayload then .error .tooLarge
  else .ok (headerC.enc (f.1, f.2.1, f.2.2.2.length, f.2.2.1) ++ f.2.2.2)

/-- `DecodeHeader`: (type, flags, length, streamID). -/
def decodeHeader (buf : Bytes) : Except FrameErr (Nat × Nat × Nat × Nat) :=
  if buf.length < headerSize then .error .invalid
  else match headerC.dec buf with
    | none => .error .invalid
    | some (h, _) => if h.2.2.1 > maxPayload then .error .tooLarge else .ok h

/-- `Decode`. -/
def decodeFrame (buf : Bytes) : Except FrameErr Frame :=
  match decodeHeader buf with
  | .error e => .error e
  | .ok (t, fl, len, sid) =>
    if buf.length < headerSize + len then .error .invalid
    else .ok (t, fl, sid, (buf.drop headerSize).take len)

/-! ### addresses -/

/-- `addressLength` + the peeked domain length (StreamOpen, UDPOpen, UDPDatagram):
    IPv4 = 1, domain = 3, IPv6 = 4, anything else is an error. -/
def addrStrict (t : Nat) : Codec Bytes :=
  if t = 1 then bytesN 4 else if t = 4 then bytesN 16 else if t = 3 then peek1 else failC

/-- Bound address of StreamOpenAck / UDPOpenAck: IPv4, IPv6, anything else = no bytes. -/
def addrLoose (t : Nat) : Codec Bytes :=
  if t = 1 then bytesN 4 else if t = 4 then bytesN 16 else bytesN 0

/-! ### simple kinds -/

/-- (version, agentID, timestamp, displayName, capabilities) -/
def peerHelloC := seq u16 (seq id16 (seq u64 (seq str (listN 1 str))))

/-- ((requestID, (addrType, address)), port, ttl, remainingPath, ephemeralKey) — also UDPOpen -/
def streamOpenC := seq (seq u64 (dep u8 addrStrict)) (seq u16 (seq u8 (seq ids key32)))

/-- ((requestID, (boundAddrType, boundAddr)), boundPort, ephemeralKey) — also UDPOpenAck -/
def streamOpenAckC := seq (seq u64 (dep u8 addrLoose)) (seq u16 key32)

/-- (requestID, errorCode, message); the encoder clips the message to 255 bytes.
    Also UDPOpenErr, ICMPOpenErr. -/
def streamOpenErrC :=
  preEnc (seq u64 (seq u16 str)) (fun m => (m.1, m.2.1, m.2.2.take 255))

def streamResetC := u16
def keepaliveC := u64

/-- Route prefix layout in ROUTE_ADVERTISE by address family. -/
def advPrefix (fam : Nat) : Codec Bytes :=
  if fam = 3 then peek1 else if fam = 4 then fwdPrefix else if fam = 1 then bytesN 4 else bytesN 16

/-- (((family, prefixLength), prefix), metric) -/
def advRouteC := seq (dep (seq u8 u8) (fun p => advPrefix p.1)) u16

/-- `DecodePath` succeeds on the plaintext path blob. -/
def pathOK (d : Bytes) : Bool := (ids.dec d).isSome

/-- `EncryptedData` wrapper holding a route path: (encrypted, data); a plaintext path must parse. -/
def encPathC := refine (seq bool (lp 2)) (fun e => e.1 || pathOK e.2)
  (fun e => if e.1 then 0 else ids.alloc e.2)   -- `DecodePath` on a plaintext path

/-- (origin, displayName, sequence, routes, encPath, seenBy) -/
def routeAdvertiseC := seq id16 (seq str (seq u64 (seq (listN 1 advRouteC sizeofRoute) (seq encPathC ids))))

/-- `prefixLength(family, 0)` as used by RouteWithdraw. -/
def wdPrefixLen (fam : Nat) : Nat :=
  if fam = 1 then 4 else if fam = 3 then 1 else 16

def wdRouteC := seq (dep (seq u8 u8) (fun p => bytesN (wdPrefixLen p.1))) u16

/-- (origin, sequence, routes, seenBy) -/
def routeWithdrawC := seq id16 (seq u64 (seq (listN 1 wdRouteC sizeofRoute) ids))

/-- (requestID, controlType, targetAgent, path, data) -/
def controlRequestC := seq u64 (seq u8 (seq id16 (seq ids (lp 4))))

/-- (requestID, controlType, success, data); the encoder clips data to MaxPayloadSize-12. -/
def controlResponseC :=
  preEnc (seq u64 (seq u8 (seq bool (lp 2))))
    (fun m => (m.1, m.2.1, m.2.2.1, m.2.2.2.take (maxPayload - 12)))

/-- ((addrType, address), port, data) -/
def udpDatagramC := seq (dep u8 addrStrict) (seq u16 (lp 2))

def closeC := u8   -- UDPClose, ICMPClose

/-- (requestID, destIP, ttl, remainingPath, ephemeralKey) -/
def icmpOpenC := seq u64 (seq str (seq u8 (seq ids key32)))
/-- (requestID, ephemeralKey) -/
def icmpOpenAckC := seq u64 key32
/-- (identifier, sequence, isReply, srcIP, data) -/
def icmpEchoC := seq u16 (seq u16 (seq bool (seq str (lp 2))))

/-- (origin, commandID, timestamp, signature, seenBy) — SleepCommand and WakeCommand -/
def sleepC := seq id16 (seq u64 (seq u64 (seq (bytesN 64) ids)))
abbrev Cmd := Bytes × Nat × Nat × Bytes × List Bytes
def cmdMinLen : Nat := 97
def decodeCmd (bs : Bytes) : Option Cmd := decodeTop cmdMinLen sleepC bs

/-! ### NodeInfo -/

/-- (peerID, transport, rttMs (as uint64), isDialer) -/
def peerC := seq id16 (seq str (seq u64 bool))
abbrev Peer := Bytes × Bytes × Nat × Bool

structure NodeInfo where
  name : Bytes
  host : Bytes
  os : Bytes
  arch : Bytes
  ver : Bytes
  start : Nat                      -- uint64(StartTime)
  ips : List Bytes
  peers : List Peer
  pub : Bytes
  udp : Bool
  fls : List (Bytes × Bytes)       -- forward listeners (key, address)
  shells : List Bytes
  ft : Bool
  sh : Bool
  icmp : Bool
  deriving DecidableEq, Repr

def maxPeers : Nat := 50
def maxFls : Nat := 20
def maxShells : Nat := 10

/-- strict head of NodeInfo: 5 strings, start time, ip list -/
def niHeadC := seq str (seq str (seq str (seq str (seq str (seq u64 (listN 1 str))))))
def flC := seq str str

/-- `EncodeNodeInfo` (peers, listeners and shells clipped to their maxima). -/
def encodeNodeInfo (n : NodeInfo) : Bytes :=
  let peers := n.peers.take maxPeers
  let fls := n.fls.take maxFls
  let shells := n.shells.take maxShells
  niHeadC.enc (n.name, n.host, n.os, n.arch, n.ver, n.start, n.ips)
    ++ beN 1 peers.length ++ encAll peerC peers
    ++ key32.enc n.pub ++ bool.enc n.udp
    ++ beN 1 fls.length ++ encAll flC fls
    ++ beN 1 shells.length ++ encAll str shells
    ++ bool.enc n.ft ++ bool.enc n.sh ++ bool.enc n.icmp

/-- forward-listener loop of the optional tail: returns (listeners, rest, sticky error set). -/
def flLoop : Nat → Bytes → List (Bytes × Bytes) × Bytes × Bool
  | 0, bs => ([], bs, false)
  | n+1, bs =>
    if bs.isEmpty then ([], bs, false)                 -- `i < count && r.remaining() > 0`
    else match str.dec bs with
      | none => ([], bs, true)                         -- key truncated: error is set, loop left
      | some (key, r) =>
        if r.isEmpty then ([], r, false)               -- `if r.remaining() < 1 { break }`
        else match str.dec r with
          | none => ([], r, true)
          | some (addr, r') =>
            let (l, r'', f) := flLoop n r'
            ((key, addr) :: l, r'', f)

def shLoop : Nat → Bytes → List Bytes × Bytes × Bool
  | 0, bs => ([], bs, false)
  | n+1, bs =>
    if bs.isEmpty then ([], bs, false)
    else match str.dec bs with
      | none => ([], bs, true)
      | some (s, r) =>
        let (l, r', f) := shLoop n r
        (s :: l, r', f)

/-- one optional trailing bool: `if r.remaining() > 0 { x = r.readBool() }` -/
def optBool : Bytes → Bool × Bytes
  | [] => (false, [])
  | x :: r => (x != 0, r)

/-- `DecodeNodeInfo`.  The head (strings, start time, IP list), the peer list and the public
    key are strict; everything after the key is optional and a read error there is swallowed
    (the function returns `info, nil` without looking at `r.err`). -/
def decodeNodeInfo (buf : Bytes) : Option NodeInfo :=
  if buf.length < 5 + 32 then none else
  match niHeadC.dec buf with
  | none => none
  | some ((name, host, os, arch, ver, start, ips), r0) =>
    match u8.dec r0 with
    | none => none
    | some (pc, r1) =>
      match repDec peerC (min pc maxPeers) r1 with
      | none => none
      | some (peers, r2) =>
        match key32.dec r2 with
        | none => none
        | some (pub, r3) =>
          let (udp, r4) := optBool r3
          let base : NodeInfo := { name, host, os, arch, ver, start, ips, peers, pub, udp,
                                   fls := [], shells := [], ft := false, sh := false, icmp := false }
          match r4 with
          | [] => some base
          | lc :: r5 =>
            let (fls, r6, failed) := flLoop (min lc.toNat maxFls) r5
            if failed then some { base with fls := fls } else
            match r6 with
            | [] => some { base with fls := fls }
            | sc :: r7 =>
              let (shells, r8, failed2) := shLoop (min sc.toNat maxShells) r7
              if failed2 then some { base with fls := fls, shells := shells } else
              let (ft, r9) := optBool r8
              let (sh, r10) := optBool r9
              let (icmp, _) := optBool r10
              some { base with fls := fls, shells := shells, ft := ft, sh := sh, icmp := icmp }

/-- allocation trace of `DecodeNodeInfo` (upper bound): the strict head, `make([]PeerConnectionInfo,
    0, min(count, 50))` and the peers, then for the optional tail the two capped `make`s and at
    most the remaining bytes for its strings. -/
def nodeInfoAlloc (buf : Bytes) : Nat :=
  if buf.length < 5 + 32 then 0 else
  niHeadC.alloc buf +
  match niHeadC.dec buf with
  | none => 0
  | some (_, r0) =>
    match u8.dec r0 with
    | none => 0
    | some (pc, r1) =>
      sizeofPeerInfo * min pc maxPeers + repAlloc peerC (min pc maxPeers) r1 +
      match repDec peerC (min pc maxPeers) r1 with
      | none => 0
      | some (_, r2) =>
        match key32.dec r2 with
        | none => 0
        | some (_, r3) => sizeofListenerInfo * maxFls + sizeofString * maxShells + r3.length

def nodeInfoWF (n : NodeInfo) : Bool :=
  niHeadC.wf (n.name, n.host, n.os, n.arch, n.ver, n.start, n.ips)
    && decide (n.peers.length ≤ maxPeers) && n.peers.all peerC.wf
    && key32.wf n.pub
    && decide (n.fls.length ≤ maxFls) && n.fls.all flC.wf
    && decide (n.shells.length ≤ maxShells) && n.shells.all str.wf

def nodeInfoOK (d : Bytes) : Bool := (decodeNodeInfo d).isSome

/-- (origin, sequence, (encrypted, data), seenBy); plaintext NodeInfo must parse. -/
def encInfoC := refine (seq bool (lp 2)) (fun e => e.1 || nodeInfoOK e.2)
  (fun e => if e.1 then 0 else nodeInfoAlloc e.2)   -- `DecodeNodeInfo` on plaintext info
def nodeInfoAdvertiseC := seq id16 (seq u64 (seq encInfoC ids))

/-! ### QueuedState -/

abbrev RouteAdv := Bytes × Bytes × Nat × List (((Nat × Nat) × Bytes) × Nat) × (Bool × Bytes) × List Bytes
abbrev RouteWd := Bytes × Nat × List (((Nat × Nat) × Bytes) × Nat) × List Bytes
abbrev NodeAdv := Bytes × Nat × (Bool × Bytes) × List Bytes

def decodeRouteAdvertise (bs : Bytes) : Option RouteAdv := decodeTop 28 routeAdvertiseC bs
def decodeRouteWithdraw (bs : Bytes) : Option RouteWd := decodeTop 26 routeWithdrawC bs
def decodeNodeInfoAdvertise (bs : Bytes) : Option NodeAdv := decodeTop 28 nodeInfoAdvertiseC bs

structure QueuedState where
  routes : List RouteAdv
  withdraws : List RouteWd
  nodeInfos : List NodeAdv
  sleep : Option Cmd
  wake : Option Cmd
  deriving BEq, Repr

/-- `count` entries, each `len(2) + blob`; a blob that does not decode is skipped, a
    truncated entry is an error. -/
def blobList (dec : Bytes → Option α) : Nat → Bytes → Option (List α × Bytes)
  | 0, bs => some ([], bs)
  | n+1, bs =>
    match (lp 2).dec bs with
    | none => none
    | some (blob, r) =>
      match blobList dec n r with
      | none => none
      | some (l, r') => some ((match dec blob with | some a => a :: l | none => l), r')

def encBlobs (enc : α → Bytes) (l : List α) : Bytes :=
  beN 2 l.length ++ (l.map fun a => (lp 2).enc (enc a)).flatten

def encOptCmd : Option Cmd → Bytes
  | none => [0]
  | some c => 1 :: sleepC.enc c

def encodeQueuedState (q : QueuedState) : Bytes :=
  encBlobs routeAdvertiseC.enc q.routes ++ encBlobs routeWithdrawC.enc q.withdraws
    ++ encBlobs nodeInfoAdvertiseC.enc q.nodeInfos ++ encOptCmd q.sleep ++ encOptCmd q.wake

/-- `DecodeQueuedState`, parameterised by the number of fixed bytes the decoder skips past a
    decoded sleep command (`skip + 16·|SeenBy|`).  The pinned code used 33 (the size before the
    64-byte signature was added); fixes/C05-queuedstate-offset.patch makes it 97. -/
def decodeQueuedStateWith (skip : Nat) (buf : Bytes) : Option QueuedState :=
  if buf.length < 8 then none else
  match u16.dec buf with
  | none => none
  | some (rc, r0) =>
  match blobList decodeRouteAdvertise rc r0 with
  | none => none
  | some (routes, r1) =>
  match u16.dec r1 with
  | none => none
  | some (wc, r2) =>
  match blobList decodeRouteWithdraw wc r2 with
  | none => none
  | some (withdraws, r3) =>
  match u16.dec r3 with
  | none => none
  | some (nc, r4) =>
  match blobList decodeNodeInfoAdvertise nc r4 with
  | none => none
  | some (nodeInfos, r5) =>
  match r5 with
  | [] => none                                 -- sleep-present flag missing
  | sf :: r6 =>
    let (sleep, r7) : Option Cmd × Bytes :=
      if sf != 0 then
        match decodeCmd r6 with
        | some c => (some c, r6.drop (skip + 16 * c.2.2.2.2.length))
        | none => (none, r6)
      else (none, r6)
    match r7 with
    | [] => none                               -- wake-present flag missing
    | wf :: r8 =>
      let wake := if wf != 0 then decodeCmd r8 else none
      some { routes, withdraws, nodeInfos, sleep, wake }

def decodeQueuedState (buf : Bytes) : Option QueuedState := decodeQueuedStateWith 97 buf

def queuedStateWF (q : QueuedState) : Bool :=
  decide (q.routes.length < 65536)
    && q.routes.all (fun r => routeAdvertiseC.wf r && decide ((routeAdvertiseC.enc r).length < 65536))
    && decide (q.withdraws.length < 65536)
    && q.withdraws.all (fun r => routeWithdrawC.wf r && decide ((routeWithdrawC.enc r).length < 65536))
    && decide (q.nodeInfos.length < 65536)
    && q.nodeInfos.all (fun r => nodeInfoAdvertiseC.wf r && decide ((nodeInfoAdvertiseC.enc r).length < 65536))
    && (match q.sleep with | some c => sleepC.wf c | none => true)
    && (match q.wake with | some c => sleepC.wf c | none => true)

/-- allocation of one blob list: each entry's `readBytes(length)` plus what its nested decoder
    allocates (entries are processed up to the first truncated one) -/
def blobAlloc (topAlloc : Bytes → Nat) : Nat → Bytes → Nat
  | 0, _ => 0
  | n+1, bs =>
    match (lp 2).dec bs with
    | none => 0
    | some (blob, r) => blob.length + topAlloc blob + blobAlloc topAlloc n r

def routeAdvertiseAlloc (bs : Bytes) : Nat := decodeTopAlloc 28 routeAdvertiseC bs
def routeWithdrawAlloc (bs : Bytes) : Nat := decodeTopAlloc 26 routeWithdrawC bs
def nodeInfoAdvertiseAlloc (bs : Bytes) : Nat := decodeTopAlloc 28 nodeInfoAdvertiseC bs
def cmdAlloc (bs : Bytes) : Nat := decodeTopAlloc cmdMinLen sleepC bs

/-- allocation trace of the fixed `DecodeQueuedState`: the three capped reservations (elements ×
    element size), the blob lists, and the two command decoders on what follows. -/
def queuedAlloc (buf : Bytes) : Nat :=
  if buf.length < 8 then 0 else
  match u16.dec buf with
  | none => 0
  | some (rc, r0) =>
    sizeofRouteAdvertise * min rc (r0.length / 2) + blobAlloc routeAdvertiseAlloc rc r0 +
    match blobList decodeRouteAdvertise rc r0 with
    | none => 0
    | some (_, r1) =>
      match u16.dec r1 with
      | none => 0
      | some (wc, r2) =>
        sizeofRouteWithdraw * min wc (r2.length / 2) + blobAlloc routeWithdrawAlloc wc r2 +
        match blobList decodeRouteWithdraw wc r2 with
        | none => 0
        | some (_, r3) =>
          match u16.dec r3 with
          | none => 0
          | some (nc, r4) =>
            sizeofNodeInfoAdvertise * min nc (r4.length / 2) + blobAlloc nodeInfoAdvertiseAlloc nc r4 +
            match blobList decodeNodeInfoAdvertise nc r4 with
            | none => 0
            | some (_, r5) =>
              -- sleep command decoded from everything after its flag (`cmdAlloc`); the wake command
              -- from a suffix of it: at most the remaining bytes plus one `make([]AgentID, ≤255)`
              match r5 with
              | [] => 0
              | _ :: r6 => cmdAlloc r6 + (16 * 255 + r6.length)

/-- Number of slice elements `DecodeQueuedState` reserves up front (`make(_, 0, n)` ×3) for a
    given input: each count is capped by the bytes that remain (an entry needs ≥ 2 bytes). -/
def queuedPrealloc (buf : Bytes) : Nat :=
  let cap (count : Nat) (rest : Bytes) := min count (rest.length / 2)
  match u16.dec buf with
  | none => 0
  | some (rc, r0) =>
    cap rc r0 +
    match blobList decodeRouteAdvertise rc r0 with
    | none => 0
    | some (_, r1) =>
      match u16.dec r1 with
      | none => 0
      | some (wc, r2) =>
        cap wc r2 +
        match blobList decodeRouteWithdraw wc r2 with
        | none => 0
        | some (_, r3) =>
          match u16.dec r3 with
          | none => 0
          | some (nc, r4) => cap nc r4


/-! ### top-level decoders (minimum-length pre-check of each `Decode…` function) -/

def decodePeerHello := decodeTop 28 peerHelloC
def decodeStreamOpen := decodeTop 45 streamOpenC          -- also DecodeUDPOpen
def decodeStreamOpenAck := decodeTop 43 streamOpenAckC    -- also DecodeUDPOpenAck (pinned code: 44)
def decodeStreamOpenErr := decodeTop 11 streamOpenErrC    -- also UDPOpenErr, ICMPOpenErr
def decodeStreamReset := decodeTop 2 streamResetC
def decodeKeepalive := decodeTop 8 keepaliveC
def decodeClose := decodeTop 1 closeC                     -- UDPClose, ICMPClose
def decodeEncryptedData := decodeTop 3 (seq bool (lp 2))
def decodePath := decodeTop 1 ids
def decodeControlRequest := decodeTop 30 controlRequestC
def decodeControlResponse := decodeTop 12 controlResponseC
def decodeUDPDatagram := decodeTop 6 udpDatagramC
def decodeICMPOpen := decodeTop 43 icmpOpenC
def decodeICMPOpenAck := decodeTop 40 icmpOpenAckC
def decodeICMPEcho := decodeTop 8 icmpEchoC

end MM.C05
