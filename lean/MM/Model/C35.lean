/-
  Model of /repo/internal/config/config.go : redact / Config.Redacted / Config.String
  (the code AFTER fixes/C35-redact-before-roundtrip.patch: secrets are blanked on a copy first,
  the YAML marshal→unmarshal deep copy is applied to the already redacted value, and when that
  round trip fails the redacted copy itself is returned).

  A configuration is abstracted to its string-typed leaves: a location is a schema path (yaml
  names, `[]` for "some list entry") plus the concrete list indices; `Cfg = Loc → Bytes` with
  the empty string for absent/unset leaves.  Non-string leaves (numbers, booleans, durations)
  carry no secret and are not touched by Redacted(); they are not represented.

  The schema (`Gen.C35.leaves`), the set of paths Redacted() blanks (`Gen.C35.redactedPaths`,
  extracted behaviourally: marker in every leaf, two entries per list) and the placeholder are
  regenerated from the compiled package on every run.
-/
import MM.Model.Bytes
import MM.Gen.C35

namespace MM.C35
open MM

abbrev Path := List String

structure Loc where
  path : Path
  idx : List Nat
  deriving DecidableEq, Repr

abbrev Cfg := Loc → Bytes

def placeholder : Bytes := Gen.C35.placeholder

/-- `redact(&s)`: non-empty strings become the placeholder, empty ones stay empty. -/
def redact (s : Bytes) : Bytes := if s ≠ [] then placeholder else s

/-- The sequence of `redact(&…)` calls of Redacted(), as a map over leaves: `red` is the set of
    paths the calls reach (every list entry of such a path is visited by the `for i := range`
    loops). -/
def redactAll (red : List Path) (c : Cfg) : Cfg :=
  fun l => if l.path ∈ red then redact (c l) else c l

/-- `Redacted()`; `rt` is the YAML marshal→unmarshal deep copy (may fail = `none`, and is NOT
    assumed faithful). -/
def redacted (red : List Path) (rt : Cfg → Option Cfg) (c : Cfg) : Cfg :=
  let r := redactAll red c
  match rt r with
  | some deep => deep
  | none => r

/-- `String()`: render the redacted copy. -/
def render {Text : Type} (marshal : Cfg → Text) (red : List Path) (rt : Cfg → Option Cfg) (c : Cfg) : Text :=
  marshal (redacted red rt c)

/-! ### Which leaves the property calls secret

  "TLS private keys, proxy passwords, SOCKS5 passwords and password hashes, the agent private
   key, shell and file-transfer password hashes, and the management and signing private keys."
  Classified by the leaf's yaml name or Go field name (either suffices), TLS keys additionally by
  their parent being a TLS section. -/

def lastTwo (p : List String) : Option String × Option String :=
  match p.reverse with
  | [] => (none, none)
  | [a] => (none, some a)
  | a :: b :: _ => (some b, some a)

def isSecretLeaf (l : Gen.C35.Leaf) : Bool :=
  let (yparent, yname) := lastTwo (l.yaml.filter (· ≠ "[]"))
  let (gparent, gname) := lastTwo (l.go.filter (· ≠ "[]"))
  let named := fun (n : Option String) (xs : List String) => match n with | some s => xs.contains s | none => false
  named yname ["password", "password_hash", "private_key", "signing_private_key"]
  || named gname ["Password", "PasswordHash", "PrivateKey", "SigningPrivateKey"]
  || ((named yparent ["tls"] || named gparent ["TLS"]) &&
      (named yname ["key", "key_pem"] || named gname ["Key", "KeyPEM"]))

def secretPaths : List Path := (Gen.C35.leaves.filter isSecretLeaf).map (·.yaml)

def redactedPaths : List Path := Gen.C35.redactedPaths

/-- Leaves whose NAME looks secret (regenerated fact `looksSecret`: yaml name or Go field name
    matches `(?i)key|password|secret|private|token|hash|credential|passphrase`) but which
    Redacted() deliberately leaves readable.  Reviewed list — extend it only with a reason. -/
def notSecretAllowList : List Path := [
  ["agent", "public_key"],                  -- a PUBLIC key
  ["management", "public_key"],             -- a PUBLIC key
  ["management", "signing_public_key"],     -- a PUBLIC key
  ["forward", "endpoints", "[]", "key"],    -- routing key = the NAME of a port forward, advertised to the mesh
  ["forward", "listeners", "[]", "key"],    -- routing key = the NAME of a port forward
  ["http", "token_hash"]                    -- bcrypt hash of the HTTP API bearer token: NOT among the secrets the property
                                            -- names (those are password hashes of SOCKS5/shell/file transfer); observation
                                            -- reported to the lead: it is printed by String()
]

/-! ### "never changes the original": a memory model with aliasing

  A Go `Config` value holds its scalar/struct fields by value and its lists by reference (slice
  header → backing array).  `cp := *c` copies the fields and the slice HEADERS, so the copy shares
  the backing arrays until a list is cloned.  Redacted() then writes `redact(&…)` into fields of
  the copy and into ELEMENTS of the lists it ranges over.  The model keeps exactly that: a store
  of backing arrays, configuration values that point into it, and the three lists whose elements
  are written (peers, listeners, socks5.auth.users). -/

/-- fields of one list element / of the top-level struct, by yaml path -/
abbrev Fields := Path → Bytes

structure Store where
  arrays : Nat → List Fields      -- backing arrays by address
  next : Nat                      -- addresses `< next` are allocated

structure CfgVal where
  top : Fields                    -- leaves outside the three lists (held by value)
  lists : Nat → Nat               -- slice headers (list number → address of the backing array)

/-- `append([]T(nil), xs...)`: allocate a fresh array holding a copy. -/
def Store.clone (m : Store) (a : Nat) : Store × Nat :=
  ({ arrays := fun x => if x = m.next then m.arrays a else m.arrays x, next := m.next + 1 }, m.next)

/-- `for i := range xs { redact(&xs[i].f) … }` on the array at `a`. -/
def Store.redactArray (m : Store) (red : List Path) (a : Nat) : Store :=
  { m with arrays := fun x => if x = a then (m.arrays a).map (fun e p => if p ∈ red then redact (e p) else e p)
                              else m.arrays x }

/-- One list: clone it first (or not — `detach = false` is the aliasing bug), then redact in place. -/
def stepList (red : List Path) (detach : Bool) (st : Store × CfgVal) (i : Nat) : Store × CfgVal :=
  let (m, cp) := st
  let (m1, a) := if detach then m.clone (cp.lists i) else (m, cp.lists i)
  let cp1 : CfgVal := { cp with lists := fun j => if j = i then a else cp.lists j }
  (m1.redactArray red a, cp1)

/-- Redacted() up to (not including) the final YAML deep copy, which only reads: `n` lists have
    elements written. -/
def redactedMem (red : List Path) (detach : Nat → Bool) (n : Nat) (m : Store) (c : CfgVal) : Store × CfgVal :=
  let cp : CfgVal := { c with top := fun p => if p ∈ red then redact (c.top p) else c.top p }   -- cp := *c; redact(&cp.X)
  (List.range n).foldl (fun st i => stepList red (detach i) st i) (m, cp)

end MM.C35
