/-
  Model of /repo/internal/config/config.go : redact / Config.Redacted / Config.String
  (the code AFTER fixes/C35-redact-before-roundtrip.patch: secrets are blanked on a copy first,
  the YAML marshal→unmarshal deep copy is applied to the already redacted value, and when that
  round trip fails the redacted copy itself is returned).

  A configuration is abstracted to its string-typed leaves: a location is a schema path (yaml
  names, `[]` for "some list entry") plus the concrete list indices; `Cfg = Loc → Bytes` with
  the empty string for absent/unset leaves.  Non-string leaves (numbers, booleans, durations)
  carry no secret and are not touched by Redacted(); they are not represented.

  The schema (`Gen.C35.leaves`), the set of paths Redacted() blanks (`Gen.C35.redactedPaths`,
  extracted behaviourally: marker in every leaf, two entries per list) and the placeholder are
  regenerated from the compiled package on every run.
-/
import MM.Model.Bytes
import MM.Gen.C35

namespace MM.C35
open MM

abbrev Path := List String

structure Loc where
  path : Path
  idx : List Nat
  deriving DecidableEq, Repr

abbrev Cfg := Loc → Bytes

def placeholder : Bytes := Gen.C35.placeholder

/-- `redact(&s)`: non-empty strings become the placeholder, empty ones stay empty. -/
def redact (s : Bytes) : Bytes := if s ≠ [] then placeholder else s

/-- The sequence of `redact(&…)` calls of Redacted(), as a map over leaves: `red` is the set of
    paths the calls reach (every list entry of such a path is visited by the `for i := range`
    loops). -/
def redactAll (red : List Path) (c : Cfg) : Cfg :=
  fun l => if l.path ∈ red then redact (c l) else c l

/-- `Redacted()`; `rt` is the YAML marshal→unmarshal deep copy (may fail = `none`, and is NOT
    assumed faithful). -/
def redacted (red : List Path) (rt : Cfg → Option Cfg) (c : Cfg) : Cfg :=
  let r := redactAll red c
  match rt r with
  | some deep => deep
  | none => r

/-- `String()`: render the redacted copy. -/
def render {Text : Type} (marshal : Cfg → Text) (red : List Path) (rt : Cfg → Option Cfg) (c : Cfg) : Text :=
  marshal (redacted red rt c)

/-! ### Which leaves the property calls secret

  "TLS private keys, proxy passwords, SOCKS5 passwords and password hashes, the agent private
   key, shell and file-transfer password hashes, and the management and signing private keys."
  Classified by the leaf's yaml name or Go field name (either suffices), TLS keys additionally by
  their parent being a TLS section. -/

def lastTwo (p : List String) : Option String × Option String :=
  match p.reverse with
  | [] => (none, none)
  | [a] => (none, some a)
  | a :: b :: _ => (some b, some a)

def isSecretLeaf (l : Gen.C35.Leaf) : Bool :=
  let (yparent, yname) := lastTwo (l.yaml.filter (· ≠ "[]"))
  let (gparent, gname) := lastTwo (l.go.filter (· ≠ "[]"))
  let named := fun (n : Option String) (xs : List String) => match n with | some s => xs.contains s | none => false
  named yname ["password", "password_hash", "private_key", "signing_private_key"]
  || named gname ["Password", "PasswordHash", "PrivateKey", "SigningPrivateKey"]
  || ((named yparent ["tls"] || named gparent ["TLS"]) &&
      (named yname ["key", "key_pem"] || named gname ["Key", "KeyPEM"]))

def secretPaths : List Path := (Gen.C35.leaves.filter isSecretLeaf).map (·.yaml)

def redactedPaths : List Path := Gen.C35.redactedPaths

end MM.C35
