/-
  C01 — model of `internal/crypto/crypto.go` `SessionKey.Encrypt` / `SessionKey.Decrypt`
  (the code AFTER fixes/C01-session-replay-window.patch), statement by statement, plus the
  two-endpoint trace semantics the property quantifies over.

  Cryptography is modelled, not verified: ChaCha20-Poly1305 is an *ideal AEAD*.  A packet body is
  either `sealed pfx ctr msg` (the output of `aead.Seal` under the session key with nonce
  `pfx ‖ ctr` over plaintext `msg`) or `junk` (anything else).  `aead.Open` succeeds exactly when
  the body was sealed under the nonce found in the packet header.  The adversary may deliver ANY
  header and length together with `junk` or with a body that some `Encrypt` call produced earlier
  (INT-CTXT: it cannot make a new sealed body) — `admissible` below.

  Core Lean only (linked into the driver).
-/
namespace MM.C01

/-- 2^64: counters are Go `uint64`. -/
def W : Nat := 18446744073709551616
/-- `math.MaxUint64` -/
def maxCtr : Nat := 18446744073709551615
/-- `NonceSize + TagSize` -/
def overhead : Nat := 28

/-- `SessionKey` without the key bytes (both ends hold the same key). -/
structure Sess where
  isInit : Bool
  send : Nat
  recv : Nat
  deriving Repr, DecidableEq

inductive Body where
  | sealed (pfx ctr msg : Nat)
  | junk
  deriving Repr, DecidableEq

/-- A frame as it arrives at `Decrypt`: 4-byte direction prefix, 8-byte counter (both read from the
    first 12 bytes), the rest, and the total length. -/
structure Packet where
  pfx : Nat
  ctr : Nat
  body : Body
  len : Nat
  deriving Repr, DecidableEq

/-- `buildSendNonce`: first nonce byte 0x80 for the responder, zero for the initiator. -/
def sendPfx (isInit : Bool) : Nat := if isInit then 0 else 0x80000000
/-- `buildRecvNonce`: the opposite direction. -/
def recvPfx (isInit : Bool) : Nat := if isInit then 0x80000000 else 0

/-- `Encrypt` on a plaintext of `plen` bytes carrying message identity `m`. -/
def encrypt (s : Sess) (m plen : Nat) : Sess × Option Packet :=
  if s.send = maxCtr then (s, none)                       -- "nonce space exhausted"
  else
    let pfx := sendPfx s.isInit                            -- nonce := s.buildSendNonce()
    let ctr := s.send
    ({ s with send := (s.send + 1) % W },                 -- s.sendNonce++
      some { pfx := pfx, ctr := ctr, body := .sealed pfx ctr m, len := overhead + plen })

/-- Ideal `aead.Open(nil, nonce, ciphertext[NonceSize:], nil)`. -/
def aeadOpen (p : Packet) : Option Nat :=
  match p.body with
  | .sealed q c m => if q = p.pfx ∧ c = p.ctr then some m else none
  | .junk => none

inductive Res where
  | acc (ctr msg : Nat)
  | rejShort | rejDir | rejOld | rejExhausted | rejAuth
  deriving Repr, DecidableEq

def Res.isAcc : Res → Bool
  | .acc _ _ => true
  | _ => false

/-- `Decrypt`, fixed code. -/
def decrypt (s : Sess) (p : Packet) : Sess × Res :=
  if p.len < overhead then (s, .rejShort)                  -- len(ciphertext) < EncryptionOverhead
  else if p.pfx ≠ recvPfx s.isInit then (s, .rejDir)      -- direction prefix check
  else if p.ctr < s.recv then (s, .rejOld)                 -- nonceValue < expectedValue
  else if p.ctr = maxCtr then (s, .rejExhausted)           -- nonceValue == math.MaxUint64
  else match aeadOpen p with
    | none => (s, .rejAuth)                                -- aead.Open failed
    | some m => ({ s with recv := (p.ctr + 1) % W }, .acc p.ctr m)   -- s.recvNonce = nonceValue + 1

/-- `Decrypt` as it was on the pinned tree (before the fix): no prefix check, `recvNonce` moved
    BEFORE authentication, `nonceValue + 1` wraps. Kept to state what the fix repaired. -/
def decryptV0 (s : Sess) (p : Packet) : Sess × Res :=
  if p.len < overhead then (s, .rejShort)
  else if p.ctr < s.recv then (s, .rejOld)
  else
    let s' := if p.ctr ≥ s.recv then { s with recv := (p.ctr + 1) % W } else s
    match aeadOpen p with
    | none => (s', .rejAuth)
    | some m => (s', .acc p.ctr m)

/-! ### two endpoints, arbitrary adversarial delivery -/

inductive Op where
  | encI (m plen : Nat)
  | encR (m plen : Nat)
  | delI (p : Packet)
  | delR (p : Packet)
  deriving Repr, DecidableEq

/-- The two sessions plus ghost logs (newest first): what each end sealed, what each accepted. -/
structure St where
  i : Sess
  r : Sess
  sentI : List (Nat × Nat)   -- (counter, message) sealed by the initiator
  sentR : List (Nat × Nat)
  accI : List (Nat × Nat)    -- (counter, message) accepted by the initiator
  accR : List (Nat × Nat)
  deriving Repr

def init : St := { i := ⟨true, 0, 0⟩, r := ⟨false, 0, 0⟩, sentI := [], sentR := [], accI := [], accR := [] }

/-- What the network has seen sealed so far: the only authentic bodies an adversary can replay. -/
def St.sealedBodies (st : St) : List Body :=
  st.sentI.map (fun cm => Body.sealed (sendPfx true) cm.1 cm.2) ++
  st.sentR.map (fun cm => Body.sealed (sendPfx false) cm.1 cm.2)

/-- A packet the adversary can put on the wire in state `st`: any header that fits the wire
    format, any length, and a body that is junk or was sealed earlier by one of the two ends. -/
def admissiblePkt (st : St) (p : Packet) : Bool :=
  decide (p.ctr < W) && decide (p.pfx < 4294967296) &&
  (p.body == .junk || st.sealedBodies.contains p.body)

def admissible (st : St) : Op → Bool
  | .encI _ _ => true
  | .encR _ _ => true
  | .delI p => admissiblePkt st p
  | .delR p => admissiblePkt st p

def step (st : St) : Op → St × Option Res
  | .encI m plen =>
    match encrypt st.i m plen with
    | (s', some p) => ({ st with i := s', sentI := (p.ctr, m) :: st.sentI }, none)
    | (s', none) => ({ st with i := s' }, none)
  | .encR m plen =>
    match encrypt st.r m plen with
    | (s', some p) => ({ st with r := s', sentR := (p.ctr, m) :: st.sentR }, none)
    | (s', none) => ({ st with r := s' }, none)
  | .delI p =>
    match decrypt st.i p with
    | (s', .acc c m) => ({ st with i := s', accI := (c, m) :: st.accI }, some (.acc c m))
    | (s', r) => ({ st with i := s' }, some r)
  | .delR p =>
    match decrypt st.r p with
    | (s', .acc c m) => ({ st with r := s', accR := (c, m) :: st.accR }, some (.acc c m))
    | (s', r) => ({ st with r := s' }, some r)

/-- Run a trace; `none` when some delivery would need a forged sealed body. -/
def exec (st : St) : List Op → Option St
  | [] => some st
  | op :: rest => if admissible st op then exec (step st op).1 rest else none

end MM.C01
