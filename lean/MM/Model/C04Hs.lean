/-
  Handler-level cases (`hs …` ops of harness/main/c04_handlers.go), shared by engines c03 and c04:
  a small LTS of which streams have a completed handshake, what each op must answer, and the
  executable statement on the implementation's answers:
    * after an acknowledged open the two ends hold the same key (the echo comes back) — C03;
    * nothing a handler writes contains the payload or fails to authenticate under the tunnel key — C04.
  Core Lean only.
-/
namespace MM.C04Hs

structure St where
  kind : String := ""
  faulty : Bool := false
  live : List (Nat × Bool) := []     -- stream id, (shell) command already run on this handshake
  seen : List Nat := []              -- stream ids that had an open in this case
  tainted : List Nat := []           -- tcp/fwd stream ids that were RE-USED (see `reuseRacy`)
  deriving Repr

/-- The exit and forward handlers tear a connection down BY STREAM ID from the old connection's read
    loop (`defer h.closeConnection(ac.StreamID, …)`), asynchronously.  When a stream id is used again
    (duplicate open, or re-open after close) that late teardown may remove the NEW connection, so
    whether such a stream still echoes is a race in the code under test, not a key question: liveness
    of a re-used tcp/fwd stream id is not predicted (`anyof`), its SAFETY part stays strict.  An
    ingress never re-uses a stream id (C38); the udp handler's read loop does not remove by id, so udp
    stays strict. -/
def reuseRacy (kind : String) : Bool := kind == "tcp" || kind == "fwd"

def St.find (s : St) (sid : Nat) : Option Bool := (s.live.find? (·.1 == sid)).map (·.2)
def St.set (s : St) (sid : Nat) (used : Bool) : St :=
  { s with live := (sid, used) :: s.live.filter (·.1 != sid) }
def St.del (s : St) (sid : Nat) : St := { s with live := s.live.filter (·.1 != sid) }

def kinds : List String := ["tcp", "fwd", "udp", "shell", "file", "fileup"]

/-- shell and file streams carry ONE command / transfer per handshake -/
def singleUse (kind : String) : Bool := kind == "shell" || kind == "file" || kind == "fileup"

/-- Model answer of one `hs` op (tokens after splitting the line). -/
def step (s : St) : List String → St × String
  | ["hs", "icmpkx", req, _] =>
    -- both ICMP call sites derive the same key (C03_agree), twice on one session; the echo payload makes
    -- the round trip and never shows in a ciphertext
    if req.toNat?.isSome then (s, "icmpkx agree 1 1 1 rt 1 leak 0") else (s, "bad-op")
  | ["hs", "new", kind, k] =>
    if kinds.contains kind then ({ kind := kind, faulty := k != "0", live := [] }, "ok") else (s, "bad-op")
  | ["hs", "open", sid, _, mode] =>
    if s.kind = "" ∨ (mode ≠ "fresh" ∧ mode ≠ "same" ∧ mode ≠ "hibit") then (s, "bad-op") else
    match sid.toNat? with
    | some sid =>
      let s1 := if reuseRacy s.kind && s.seen.contains sid then { s with tainted := sid :: s.tainted } else s
      let s2 := { s1 with seen := sid :: s1.seen }
      match s2.find sid with
      | some _ => (s2.set sid false, "anyof ack | refused")   -- repeated open for a live stream
      | none => (s2.set sid false, "ack")
    | none => (s, "bad-op")
  | ["hs", "ping", sid, _] =>
    if s.kind = "" then (s, "bad-op") else
    match sid.toNat? with
    | some sid =>
      if s.faulty || s.tainted.contains sid then (s, "anyof pong 0 0 | nopong 0 0")
      else match s.find sid with
        | some used =>
          if singleUse s.kind && used then (s, "nopong 0 0") else (s.set sid true, "pong 0 0")
        | none => (s, "nopong 0 0")
    | none => (s, "bad-op")
  | ["hs", "close", sid] =>
    if s.kind = "" then (s, "bad-op") else
    match sid.toNat? with
    | some sid => (s.del sid, "ok")
    | none => (s, "bad-op")
  | ["hs", "oversize", sid, _] =>
    -- too large to relay (or just small enough): whatever is answered, data or control, shows no payload byte
    if s.kind = "" ∨ sid.toNat?.isNone then (s, "bad-op") else (s, "sent 0 0")
  | ["hs", "pingclose", sid, _, mode, k] =>
    -- a write fails / is held, the peer's close arrives, the writer recovers: whatever the handler still
    -- writes is sealed under a key the stream's ends held — never plaintext, never the all-zero key
    if s.kind = "" ∨ (mode ≠ "fail" ∧ mode ≠ "stall") ∨ k.toNat?.isNone then (s, "bad-op") else
    match sid.toNat? with
    | some sid => (s.del sid, "closed 0 0 0")
    | none => (s, "bad-op")
  | _ => (s, "bad-op")

/-- Spec state: per stream, whether the LAST open was acknowledged (and the shell command not yet run). -/
structure Spec where
  kind : String := ""
  faulty : Bool := false
  acked : List (Nat × Bool) := []
  seen : List Nat := []
  tainted : List Nat := []

def spec (s : Spec) (op out : List String) : Spec × String :=
  match op, out with
  | ["hs", "icmpkx", _, _], ["icmpkx", "agree", a1, a2, a3, "rt", rt, "leak", l] =>
    if a1 ≠ "1" ∨ a2 ≠ "1" ∨ a3 ≠ "1" ∨ rt ≠ "1" then (s, "fail tunnel-ends-disagree icmp call sites")
    else if l ≠ "0" then (s, "fail plaintext-written-by-handler icmp")
    else (s, "ok")
  | ["hs", "icmpkx", _, _], _ => (s, "fail tunnel-ends-disagree icmp key exchange failed")
  | ["hs", "new", kind, k], _ => ({ kind := kind, faulty := k != "0", acked := [] }, "ok")
  | ["hs", "open", sid, _, _], [r] =>
    match sid.toNat? with
    | some sid =>
      let s := if reuseRacy s.kind && s.seen.contains sid then { s with tainted := sid :: s.tainted } else s
      let s := { s with seen := sid :: s.seen }
      if r = "ack" then ({ s with acked := (sid, false) :: s.acked.filter (·.1 != sid) }, "ok")
      else (s, "ok")   -- refused / noack: the previous handshake (if any) stays in force
    | none => (s, "ok")
  | ["hs", "close", sid], _ =>
    match sid.toNat? with
    | some sid => ({ s with acked := s.acked.filter (·.1 != sid) }, "ok")
    | none => (s, "ok")
  | ["hs", "oversize", _, _], ["sent", leak, unauth] =>
    if leak ≠ "0" then (s, "fail plaintext-written-by-handler in a control or data frame")
    else if unauth ≠ "0" then (s, "fail frame-not-under-tunnel-key")
    else (s, "ok")
  | ["hs", "pingclose", sid, _, _, _], ["closed", leak, unauth, zk] =>
    let s' := match sid.toNat? with
      | some sid => { s with acked := s.acked.filter (·.1 != sid) }
      | none => s
    if leak ≠ "0" then (s', "fail plaintext-written-by-handler after a close")
    else if zk ≠ "0" then (s', "fail frame-sealed-under-all-zero-key after a close")
    else if unauth ≠ "0" then (s', "fail frame-not-under-tunnel-key after a close")
    else (s', "ok")
  | ["hs", "ping", sid, _], [r, leak, unauth] =>
    match sid.toNat? with
    | some sid =>
      let cur := (s.acked.find? (·.1 == sid)).map (·.2)
      let s' := if r = "pong" then { s with acked := s.acked.map fun x => if x.1 == sid then (x.1, true) else x } else s
      if leak ≠ "0" then (s', "fail plaintext-written-by-handler")
      else if unauth ≠ "0" then (s', "fail frame-not-under-tunnel-key")
      else if r = "pong" then (s', "ok")
      else match cur with
        | some used =>
          if s.faulty || s.tainted.contains sid || (singleUse s.kind && used) then (s', "ok")
          else (s', "fail tunnel-ends-disagree after an acknowledged open")
        | none => (s', "ok")
    | none => (s, "ok")
  | _, _ => (s, "ok")

end MM.C04Hs
