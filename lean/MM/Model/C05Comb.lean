/-
  Codec combinator library for the wire codecs of /repo/internal/protocol/frame.go (C05, C06).

  A `Codec α` packages, for one wire field or a composition of fields,
    * `enc`    – the bytes the Go `bufferWriter` produces,
    * `dec`    – the Go `bufferReader` as a parser: `none` = the sticky error was set,
                 `some (a, rest)` = value and the unread suffix,
    * `wf`     – executable "the value fits its wire field" predicate,
    * `toks` / `ofToks` – the canonical token rendering used by the line protocol
                 (numbers decimal, byte strings hex with `-` for empty, lists as count + items).
  Round-trip facts about the combinators are proved once in MM/Lemmas/C05Comb.lean
  (`Codec.Sound`, `Codec.DecWF`) and every message kind is a composition.
  Core Lean only.
-/
import MM.Model.Bytes

namespace MM.C05
open MM

structure Codec (α : Type) where
  enc : α → Bytes
  dec : Bytes → Option (α × Bytes)
  wf : α → Bool
  toks : α → List String
  ofToks : List String → Option (α × List String)
  /-- bytes of heap the Go decoder requests through `make`/`readBytes`/string conversions whose
      size is taken from the wire (a count or a length), while parsing this input — whether or
      not parsing succeeds.  An upper-bound trace: fixed-size copies are counted too. -/
  alloc : Bytes → Nat := fun _ => 0

/-- Encoding followed by any suffix parses back to the value and leaves the suffix. -/
def Codec.Sound (c : Codec α) : Prop :=
  ∀ a rest, c.wf a = true → c.dec (c.enc a ++ rest) = some (a, rest)

/-- Whatever the parser accepts is a well-formed value. -/
def Codec.DecWF (c : Codec α) : Prop :=
  ∀ bs a rest, c.dec bs = some (a, rest) → c.wf a = true

/-- The parser never invents input: the unread rest is no longer than the input. -/
def Codec.Shrinks (c : Codec α) : Prop :=
  ∀ bs a rest, c.dec bs = some (a, rest) → rest.length ≤ bs.length

/-! ### primitives -/

/-- `k`-byte big-endian unsigned integer (`writeUint8/16/32/64`, `readUint8/16/32/64`).
    Encoding truncates modulo `256^k` exactly as Go's `uintN(x)` conversion does. -/
def be (k : Nat) : Codec Nat where
  enc n := beN k n
  dec bs := if k ≤ bs.length then some (unbe (bs.take k), bs.drop k) else none
  wf n := decide (n < 256 ^ k)
  toks n := [toString n]
  ofToks
    | t :: r => t.toNat?.map (·, r)
    | [] => none

/-- `writeBool` / `readBool` (`!= 0`). -/
def bool : Codec Bool where
  enc b := [if b then 1 else 0]
  dec
    | x :: r => some (x != 0, r)
    | [] => none
  wf _ := true
  toks b := [if b then "1" else "0"]
  ofToks
    | t :: r => some (t == "1", r)
    | [] => none

/-- Exactly `n` raw bytes (`writeBytes` of a fixed-size field, `readBytes(n)`, `readAgentID`,
    `readEphemeralKey`). -/
def bytesN (n : Nat) : Codec Bytes where
  enc b := b
  dec bs := if n ≤ bs.length then some (bs.take n, bs.drop n) else none
  wf b := b.length == n
  toks b := [hexTok b]
  ofToks
    | t :: r => (bytesOfHex t).map (·, r)
    | [] => none
  alloc bs := if n ≤ bs.length then n else 0

/-- Byte string with a `k`-byte big-endian length prefix (`writeString` for k = 1;
    `writeUint16(len) + writeBytes` for k = 2; …).  The length prefix wraps like Go's
    `uintN(len(s))`. -/
def lp (k : Nat) : Codec Bytes where
  enc s := beN k s.length ++ s
  dec bs :=
    if k ≤ bs.length then
      let n := unbe (bs.take k)
      let r := bs.drop k
      if n ≤ r.length then some (r.take n, r.drop n) else none
    else none
  wf s := decide (s.length < 256 ^ k)
  toks b := [hexTok b]
  ofToks
    | t :: r => (bytesOfHex t).map (·, r)
    | [] => none
  alloc bs :=
    if k ≤ bs.length then
      let n := unbe (bs.take k)
      if n ≤ (bs.drop k).length then n else 0
    else 0

/-- A field that *includes* its own one-byte length prefix (SOCKS-style domain address,
    domain route prefix): the decoder peeks the first byte `b` and takes `1 + b` bytes. -/
def peek1 : Codec Bytes where
  enc a := a
  dec
    | [] => none
    | b :: r => if b.toNat ≤ r.length then some (b :: r.take b.toNat, r.drop b.toNat) else none
  wf
    | [] => false
    | b :: t => b.toNat == t.length
  toks b := [hexTok b]
  ofToks
    | t :: r => (bytesOfHex t).map (·, r)
    | [] => none
  alloc
    | [] => 0
    | b :: r => if b.toNat ≤ r.length then 1 + b.toNat else 0

/-- Forward-route prefix `[keyLen][key][targetLen][target]`, peeked the way
    `DecodeRouteAdvertise` does (`AddrFamilyForward`). -/
def fwdPrefix : Codec Bytes where
  enc a := a
  dec
    | [] => none
    | k :: r =>
      match r.drop k.toNat with
      | [] => none
      | t :: r2 =>
        if t.toNat ≤ r2.length then
          some (k :: (r.take k.toNat ++ t :: r2.take t.toNat), r2.drop t.toNat)
        else none
  wf
    | [] => false
    | k :: r =>
      match r.drop k.toNat with
      | [] => false
      | t :: r2 => t.toNat == r2.length
  toks b := [hexTok b]
  ofToks
    | t :: r => (bytesOfHex t).map (·, r)
    | [] => none
  alloc
    | [] => 0
    | k :: r =>
      match r.drop k.toNat with
      | [] => 0
      | t :: r2 => if t.toNat ≤ r2.length then 1 + k.toNat + 1 + t.toNat else 0

/-- A codec that never parses and has no well-formed values (unknown address type). -/
def failC : Codec Bytes where
  enc a := a
  dec _ := none
  wf _ := false
  toks b := [hexTok b]
  ofToks
    | t :: r => (bytesOfHex t).map (·, r)
    | [] => none

/-! ### combinators -/

def seq (a : Codec α) (b : Codec β) : Codec (α × β) where
  enc p := a.enc p.1 ++ b.enc p.2
  dec bs :=
    match a.dec bs with
    | none => none
    | some (x, r) =>
      match b.dec r with
      | none => none
      | some (y, r') => some ((x, y), r')
  wf p := a.wf p.1 && b.wf p.2
  toks p := a.toks p.1 ++ b.toks p.2
  ofToks ts :=
    match a.ofToks ts with
    | none => none
    | some (x, r) =>
      match b.ofToks r with
      | none => none
      | some (y, r') => some ((x, y), r')
  alloc bs := a.alloc bs + (match a.dec bs with
    | some (_, r) => b.alloc r
    | none => 0)

/-- Second field's layout depends on the first (address type → address layout). -/
def dep (a : Codec τ) (f : τ → Codec β) : Codec (τ × β) where
  enc p := a.enc p.1 ++ (f p.1).enc p.2
  dec bs :=
    match a.dec bs with
    | none => none
    | some (x, r) =>
      match (f x).dec r with
      | none => none
      | some (y, r') => some ((x, y), r')
  wf p := a.wf p.1 && (f p.1).wf p.2
  toks p := a.toks p.1 ++ (f p.1).toks p.2
  ofToks ts :=
    match a.ofToks ts with
    | none => none
    | some (x, r) =>
      match (f x).ofToks r with
      | none => none
      | some (y, r') => some ((x, y), r')
  alloc bs := a.alloc bs + (match a.dec bs with
    | some (x, r) => (f x).alloc r
    | none => 0)

/-- Exactly `n` items, one after the other (the loop `for i := 0; i < n && r.err == nil`). -/
def repDec (c : Codec α) : Nat → Bytes → Option (List α × Bytes)
  | 0, bs => some ([], bs)
  | n+1, bs =>
    match c.dec bs with
    | none => none
    | some (x, r) =>
      match repDec c n r with
      | none => none
      | some (xs, r') => some (x :: xs, r')

def repToks (c : Codec α) : Nat → List String → Option (List α × List String)
  | 0, ts => some ([], ts)
  | n+1, ts =>
    match c.ofToks ts with
    | none => none
    | some (x, r) =>
      match repToks c n r with
      | none => none
      | some (xs, r') => some (x :: xs, r')

def encAll (c : Codec α) (l : List α) : Bytes := (l.map c.enc).flatten

/-- allocation of the item loop: every item started, up to the first that fails -/
def repAlloc (c : Codec α) : Nat → Bytes → Nat
  | 0, _ => 0
  | n+1, bs => c.alloc bs + (match c.dec bs with
    | some (_, r) => repAlloc c n r
    | none => 0)

/-- List with a `k`-byte count prefix (`writeAgentIDs`, route lists, capability lists). The
    count wraps modulo `256^k` on encoding, as `uint8(len(x))` does. -/
def listN (k : Nat) (c : Codec α) (esz : Nat := 16) : Codec (List α) where
  enc l := beN k l.length ++ encAll c l
  dec bs :=
    if k ≤ bs.length then repDec c (unbe (bs.take k)) (bs.drop k) else none
  wf l := decide (l.length < 256 ^ k) && l.all c.wf
  toks l := toString l.length :: (l.map c.toks).flatten
  ofToks
    | t :: r => match t.toNat? with
      | some n => repToks c n r
      | none => none
    | [] => none
  -- `make([]T, count)` with `esz = sizeof(T)` BEFORE the items are read, then the items
  alloc bs :=
    if k ≤ bs.length then esz * unbe (bs.take k) + repAlloc c (unbe (bs.take k)) (bs.drop k) else 0

/-- Accept only values satisfying `p` (a nested decode that must succeed, e.g. the plaintext
    path inside `EncryptedData`). -/
def refine (c : Codec α) (p : α → Bool) (nested : α → Nat := fun _ => 0) : Codec α where
  enc := c.enc
  dec bs :=
    match c.dec bs with
    | none => none
    | some (x, r) => if p x then some (x, r) else none
  wf a := c.wf a && p a
  toks := c.toks
  ofToks := c.ofToks
  -- `nested x`: what the nested decode that computes `p x` allocates
  alloc bs := c.alloc bs + (match c.dec bs with
    | some (x, _) => nested x
    | none => 0)

/-- Encoder-side normalisation (`if len(msg) > 255 { msg = msg[:255] }`). -/
def preEnc (c : Codec α) (norm : α → α) : Codec α where
  enc a := c.enc (norm a)
  dec := c.dec
  wf a := c.wf a && (c.enc (norm a) == c.enc a)
  toks := c.toks
  ofToks := c.ofToks
  alloc := c.alloc

/-- Top-level message decoder: minimum-length pre-check, parse, ignore trailing bytes. -/
def decodeTop (minLen : Nat) (c : Codec α) (bs : Bytes) : Option α :=
  if bs.length < minLen then none else (c.dec bs).map (·.1)

/-- allocation of a top-level decoder: nothing is read below the minimum length -/
def decodeTopAlloc (minLen : Nat) (c : Codec α) (bs : Bytes) : Nat :=
  if bs.length < minLen then 0 else c.alloc bs

end MM.C05
