/-
  C29 model: histories of the flooder's sleep/wake command machinery (MM/Model/C28.lean:
  `handle` = HandleSleepCommand/HandleWakeCommand (verify, then test-and-set of the seen cache),
  `expire` = TTL pass of cleanupSleepCmdCache) under an explicit clock.

  Events of a history:
    deliver k from c   a SLEEP_COMMAND / WAKE_COMMAND delivery at the current instant
    advance d          the clock moves forward by d ns (d : Nat, so time is monotone)
    cleanup victims    one run of cleanupSleepCmdCache(now, max(SeenCacheTTL, 2*window)): TTL expiry, then, if the
                       cache is still larger than MaxSeenCacheSize, `excess` entries are deleted.
                       Go deletes whichever entries map iteration yields first; the history names
                       them (`victims`, keys).  A choice that is not a legal one (wrong number, not
                       in the cache, repeated) is replaced by "the first `excess` entries", which is
                       itself a legal behaviour — so every run of the model is a run of the code.
-/
import MM.Model.C28

namespace MM.C29
open MM.C28

inductive Ev where
  | deliver (k : Kind) (from_ : Nat) (c : Cmd)
  | advance (d : Nat)
  | cleanup (victims : List (Nat × Nat))
  | peer (p : Nat)
  deriving Repr

structure HState where
  f : FState
  now : Int
  deriving Repr

/-- Same signed command: identical origin, identifier, timestamp and signature (SeenBy changes
    while a command propagates and is not part of its identity). -/
def sameCmd (a b : Cmd) : Bool :=
  a.origin == b.origin && a.id == b.id && a.ts == b.ts && a.sig == b.sig

def inVictims (vs : List (Nat × Nat)) (e : Seen) : Bool := vs.any fun v => v.1 == e.origin && v.2 == e.id

/-- Is `vs` a choice the size-eviction loop can make on cache `l` with `excess` to remove? -/
def legalVictims (l : List Seen) (excess : Nat) (vs : List (Nat × Nat)) : Bool :=
  vs.length == excess && vs.Nodup && vs.all fun v => hasKey l v.1 v.2

/-- `cleanupSleepCmdCache(now, sleepCmdCacheTTL())`. -/
def cleanupWith (ttl : Int) (cfg : FCfg) (l : List Seen) (now : Int) (vs : List (Nat × Nat)) : List Seen :=
  let l1 := expire l now ttl
  let excess := l1.length - cfg.maxSize
  if excess = 0 then l1
  else if legalVictims l1 excess vs then l1.filter fun e => !inVictims vs e
  else l1.drop excess

def cleanup (cfg : FCfg) := cleanupWith (sleepTtl cfg) cfg

/-- One event.  Returns the new state, the command accepted by this event (if any), and frames sent. -/
def stepEv (V : Verifier) (cfg : FCfg) (s : HState) : Ev → HState × Option Cmd × List (Nat × Kind × Cmd)
  | .deliver k from_ c =>
    let (f', acc, sends) := handle V cfg s.f s.now k from_ c
    ({ s with f := f' }, if acc then some c else none, sends.map fun (p, c) => (p, k, c))
  | .advance d => ({ s with now := s.now + d }, none, [])
  | .cleanup vs => ({ s with f := { s.f with seen := cleanup cfg s.f.seen s.now vs } }, none, [])
  | .peer p =>
    let (f', sends) := onPeerConnected V cfg s.f s.now p
    ({ s with f := f' }, none, sends.map fun (q, c) => (q, Kind.wake, c))

/-- Number of times the signed command `target` is accepted along a history. -/
def accepts (V : Verifier) (cfg : FCfg) (target : Cmd) : HState → List Ev → Nat
  | _, [] => 0
  | s, e :: es =>
    let (s', acc, _) := stepEv V cfg s e
    (match acc with
      | some c => if sameCmd c target then 1 else 0
      | none => 0) + accepts V cfg target s' es

/-! The code before fixes/C29-verify-before-mark.patch and fixes/C29-sleep-cache-ttl.patch
    (seen cache marked before verification; cache TTL = SeenCacheTTL): regression witnesses only. -/

def stepEvPinned (V : Verifier) (cfg : FCfg) (s : HState) : Ev → HState × Option Cmd
  | .deliver k from_ c =>
    let (f', acc, _) := handleMarkFirst V cfg s.f s.now k from_ c
    ({ s with f := f' }, if acc then some c else none)
  | .advance d => ({ s with now := s.now + d }, none)
  | .cleanup vs => ({ s with f := { s.f with seen := cleanupWith cfg.ttl cfg s.f.seen s.now vs } }, none)
  | .peer _ => (s, none)

def acceptsPinned (V : Verifier) (cfg : FCfg) (target : Cmd) : HState → List Ev → Nat
  | _, [] => 0
  | s, e :: es =>
    let (s', acc) := stepEvPinned V cfg s e
    (match acc with
      | some c => if sameCmd c target then 1 else 0
      | none => 0) + acceptsPinned V cfg target s' es

def HState.init (now : Int) : HState := { f := FState.empty, now }

end MM.C29
