/-
  Model of the stream data paths of /repo (C07: frames within the payload limit, exact
  re-assembly).

  Every data path has the same shape:

      loop:  take at most `bufSize` stream bytes        (conn.Read(buf) / b[offset:end])
             prepend `hdr` bytes                         (shell: 1-byte message type)
             seal the message with the session key      (SessionKey.Encrypt: +overhead bytes)
             hand the ciphertext to the peer
               rechunk = false: as ONE frame             (meshConn.Write, forwardShellClientData)
               rechunk = true : through Agent.WriteStreamData, which slices the ciphertext
                                every `rechunkAt` bytes into consecutive frames
             every frame passes Frame.Encode, which refuses payloads over `maxPayload`
             (the sender then stops: meshConn.Write returns the error, readLoop returns,
              forwardShellClientData closes the session)

  and the far end opens every frame ON ITS OWN (meshConn.Read, exit/forward HandleStreamData,
  handleShellClientData, shell.Handler.HandleStreamData, receiveEncryptedStreamData), strips the
  header and appends the rest to the stream.

  The AEAD is ideal: a ciphertext is `overhead` bytes longer than its plaintext and opens iff it
  is presented whole; a proper slice of a ciphertext never opens.

  The numbers (maxPayload, overhead, rechunkAt, per-path bufSize/hdr) are not written here: they
  are regenerated on every run into MM/Gen/C07.lean (measured on the compiled code) and
  MM/Gen/C07Ast.lean (evaluated from the source expressions).  Core Lean only.
-/
import MM.Model.Bytes
import MM.Gen.C07
import MM.Gen.C07Ast

namespace MM.C07
open MM

/-! ### the chunk loop -/

/-- `for offset := 0; offset < len(b); { end := min(offset+n, len(b)); emit b[offset:end]; offset = end }`
    (for `n = 0` the Go loop would never advance; the model emits nothing). -/
def chunks {α : Type} (n : Nat) (b : List α) : List (List α) :=
  if h : n = 0 ∨ b = [] then [] else b.take n :: chunks n (b.drop n)
termination_by b.length
decreasing_by
  have hn : 0 < n := Nat.pos_of_ne_zero (fun e => h (Or.inl e))
  have hb : 0 < b.length := List.length_pos_iff.mpr (fun e => h (Or.inr e))
  simp only [List.length_drop]; omega

/-- The same loop on lengths only. -/
def chunkLens (n len : Nat) : List Nat :=
  if h : n = 0 ∨ len = 0 then [] else min n len :: chunkLens n (len - min n len)
termination_by len
decreasing_by
  have hn : 0 < n := Nat.pos_of_ne_zero (fun e => h (Or.inl e))
  have hl : 0 < len := Nat.pos_of_ne_zero (fun e => h (Or.inr e))
  omega

/-! ### configuration, paths, frames -/

structure Cfg where
  /-- `protocol.MaxPayloadSize`: `Frame.Encode` refuses anything larger. -/
  maxPayload : Nat
  /-- `crypto.EncryptionOverhead`: `len(Encrypt(p)) = len(p) + overhead`. -/
  overhead : Nat
  /-- slice size of `Agent.WriteStreamData`. -/
  rechunkAt : Nat
  deriving Repr, DecidableEq

structure Path where
  /-- most stream bytes that go into one sealed message -/
  bufSize : Nat
  /-- bytes prepended to the stream bytes before sealing -/
  hdr : Nat
  /-- ciphertext goes through `Agent.WriteStreamData` (true) or out as one frame (false) -/
  rechunk : Bool
  deriving Repr, DecidableEq

/-- One output of `SessionKey.Encrypt`: the `seq`-th message of the stream, with this plaintext. -/
structure Sealed where
  seq : Nat
  plain : Bytes
  deriving Repr, DecidableEq

def Sealed.length (c : Cfg) (s : Sealed) : Nat := s.plain.length + c.overhead

/-- A frame payload: bytes `[off, off+len)` of ciphertext `ct`. -/
structure Frame where
  ct : Sealed
  off : Nat
  len : Nat
  deriving Repr, DecidableEq

/-- The largest ciphertext the path delivers as ONE frame. -/
def frameCap (c : Cfg) (p : Path) : Nat :=
  if p.rechunk then min c.rechunkAt c.maxPayload else c.maxPayload

/-- Ideal AEAD: only a whole ciphertext opens. -/
def openF (c : Cfg) (f : Frame) : Option Bytes :=
  if f.off = 0 ∧ f.len = f.ct.length c then some f.ct.plain else none

/-- consecutive slices of `s` with the given lengths, starting at `off` -/
def mkFrames (s : Sealed) : Nat → List Nat → List Frame
  | _, [] => []
  | off, l :: ls => ⟨s, off, l⟩ :: mkFrames s (off + l) ls

/-- what the sender hands to the frame writer for one sealed message -/
def framesOf (c : Cfg) (p : Path) (s : Sealed) : List Frame :=
  if p.rechunk then mkFrames s 0 (chunkLens c.rechunkAt (s.length c)) else [⟨s, 0, s.length c⟩]

/-- `Frame.Encode` gate: frames are written in order until one is refused; `true` = none refused. -/
def gate (m : Nat) : List Frame → List Frame × Bool
  | [] => ([], true)
  | f :: fs => if f.len ≤ m then ((gate m fs).1.cons f, (gate m fs).2) else ([], false)

/-- the bytes prepended to every message of the path (their value is immaterial here) -/
def hdrOf (p : Path) : Bytes := List.replicate p.hdr 1

/-- The sender, given the pieces the source delivered (each piece becomes one sealed message);
    it stops at the first frame `Frame.Encode` refuses. -/
def sendPieces (c : Cfg) (p : Path) : Nat → List Bytes → List Frame
  | _, [] => []
  | seq, x :: xs =>
    let g := gate c.maxPayload (framesOf c p ⟨seq, hdrOf p ++ x⟩)
    if g.2 then g.1 ++ sendPieces c p (seq + 1) xs else g.1

/-- The sender when the source never runs dry: every read fills the buffer. -/
def send (c : Cfg) (p : Path) (b : Bytes) : List Frame :=
  sendPieces c p 0 (chunks p.bufSize b)

/-- The far end: open each frame on its own, strip the header, append. `none`: some frame
    did not open (the receivers then drop the stream / close the session). -/
def receive (c : Cfg) (p : Path) : List Frame → Option Bytes
  | [] => some []
  | f :: fs =>
    match openF c f with
    | none => none
    | some m => (receive c p fs).map (m.drop p.hdr ++ ·)

/-! ### the same on lengths only (what the engine runs; tied to the above by `C07_model_lens`) -/

/-- (payload length, opens?) of the frames of one message whose ciphertext has length `L` -/
def framesLF (c : Cfg) (p : Path) (L : Nat) : List (Nat × Bool) :=
  if p.rechunk then
    match chunkLens c.rechunkAt L with
    | [] => []
    | l :: ls => (l, decide (l = L)) :: ls.map (·, false)
  else [(L, true)]

def gateLF (m : Nat) : List (Nat × Bool) → List (Nat × Bool) × Bool
  | [] => ([], true)
  | f :: fs => if f.1 ≤ m then ((gateLF m fs).1.cons f, (gateLF m fs).2) else ([], false)

def sendLF (c : Cfg) (p : Path) : List Nat → List (Nat × Bool)
  | [] => []
  | x :: xs =>
    let g := gateLF c.maxPayload (framesLF c p (p.hdr + x + c.overhead))
    if g.2 then g.1 ++ sendLF c p xs else g.1

/-! ### the configuration and paths of the tree under examination (regenerated numbers) -/

def cfg : Cfg := ⟨Gen.C07.maxPayload, Gen.C07.overhead, Gen.C07.rechunk⟩

/-- SOCKS5 / forward-listener side: `meshConn.Write` -/
def tcp : Path := ⟨Gen.C07.tcpBuf, 0, false⟩
/-- exit return path: `exit.Handler.readLoop` -/
def exit : Path := ⟨Gen.C07.exitBuf, 0, true⟩
/-- port-forward return path: `forward.Handler.readLoop` -/
def fwd : Path := ⟨Gen.C07.fwdBuf, 0, true⟩
/-- shell stdout / stderr: `shell.Handler.pumpOutput` -/
def shout : Path := ⟨Gen.C07.shoutBuf, Gen.C07.shellHdr, true⟩
def sherr : Path := ⟨Gen.C07.sherrBuf, Gen.C07.shellHdr, true⟩
/-- interactive shell: `shell.Handler.pumpPTYOutput` -/
def shpty : Path := ⟨Gen.C07.shptyBuf, Gen.C07.shellHdr, true⟩
/-- shell stdin: the ingress agent cuts every STDIN message into pieces of at most `shinBuf` bytes
    (`shell.SplitStdin`) and seals each into one frame (`Agent.forwardShellClientData`) -/
def shin : Path := ⟨Gen.C07.shinBuf, Gen.C07.shellHdr, false⟩
/-- upload: `Agent.streamFileContent` -/
def fup : Path := ⟨Gen.C07.fupBuf, 0, true⟩
/-- download: `Agent.sendFileDownload` -/
def fdown : Path := ⟨Gen.C07.fdownBuf, 0, true⟩

def pathOfName : String → Option Path
  | "tcp" => some tcp | "exit" => some exit | "fwd" => some fwd
  | "shout" => some shout | "sherr" => some sherr | "shpty" => some shpty
  | "shin" => some shin | "fup" => some fup | "fdown" => some fdown
  | _ => none

end MM.C07
