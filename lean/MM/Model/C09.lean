/-
  Model of the domain, forward-key and agent-presence tables of /repo/internal/routing
  (domain.go, forward.go, agent.go) as instances of the generic keyed table of
  MM/Model/C08.lean.

  Names are byte strings.  Case folding is ASCII (`strings.ToLower` restricted to bytes
  below 0x80 — what domain names consist of; the generator stays inside that alphabet,
  Go's Unicode folding outside it is not modelled).
-/
import MM.Model.C08

namespace MM.C09
open MM MM.C08

/-! ## strings -/

def dot : UInt8 := 46

/-- `unicode.ToLower` on an ASCII byte -/
def lowerB (b : UInt8) : UInt8 := if 65 ≤ b.toNat ∧ b.toNat ≤ 90 then b + 32 else b

/-- `strings.ToLower` -/
def lower (s : Bytes) : Bytes := s.map lowerB

/-- ASCII white space as `strings.TrimSpace` sees it -/
def isSpace (b : UInt8) : Bool := b == 32 || (9 ≤ b.toNat && b.toNat ≤ 13)

/-- `strings.TrimSpace` -/
def trimSpace (s : Bytes) : Bytes :=
  ((s.dropWhile isSpace).reverse.dropWhile isSpace).reverse

/-- `idx := strings.Index(s, ".")` as the pair `(s[:idx], s[idx+1:])` -/
def splitDot : Bytes → Option (Bytes × Bytes)
  | [] => none
  | c :: cs =>
    if c = dot then some ([], cs)
    else match splitDot cs with
      | some (l, r) => some (c :: l, r)
      | none => none

/-! ## domain table (`routing.DomainTable`) -/

/-- `Pattern`, `IsWildcard`, `BaseDomain` of a `DomainRoute`, as the caller supplies them. -/
structure DomPay where
  pattern : Bytes
  isWild : Bool
  base : Bytes
deriving DecidableEq, Repr, Inhabited

/-- which map (`true` = `wildcardBase`, `false` = `exactRoutes`) and the lower-cased key -/
abbrev DKey := Bool × Bytes

/-- `routeMapAndKey(pattern, isWildcard, baseDomain)` -/
def domKey (p : DomPay) : DKey :=
  if p.isWild then (true, lower p.base) else (false, lower p.pattern)

def domCfg : Cfg DKey DomPay where
  valid := fun p => !p.pattern.isEmpty
  store := id
  keyOf := domKey
  byHop := false

abbrev DTable := KTable DKey DomPay

/-- `ParseDomainPattern(pattern)` -/
def parsePattern (pattern : Bytes) : Bool × Bytes :=
  let p := trimSpace pattern
  match p with
  | 42 :: 46 :: rest => (true, rest)      -- strings.HasPrefix(p, "*.")
  | _ => (false, p)

/-- the payload `Manager.ProcessDomainRouteAdvertise` / `AddLocalDomainRoute` build from a pattern -/
def payOfPattern (pattern : Bytes) : DomPay :=
  let (w, b) := parsePattern pattern
  ⟨pattern, w, b⟩

/-- key used by `RemoveRoute(pattern, origin)` / `HasRoute` -/
def domRemoveKey (pattern : Bytes) : DKey := domKey (payOfPattern pattern)

/-- `DomainTable.RemoveRoute` (an empty pattern is refused) -/
def domRemove (t : DTable) (pattern : Bytes) (o : Nat) : DTable × Bool :=
  if pattern.isEmpty then (t, false) else removeRoute t (domRemoveKey pattern) o

/-- `DomainTable.lookupUnlocked(domain)` -/
def domLookup (t : DTable) (domain : Bytes) : Option (Entry DomPay) :=
  let d := lower domain
  match (get t (false, d)).head? with
  | some r => some r                                      -- 1. exact match first
  | none =>
    match splitDot d with                                 -- 2. single-level wildcard
    | some (l, b) =>
      if l ≠ [] ∧ b ≠ [] then (get t (true, b)).head?     -- idx > 0 && idx < len(domain)-1
      else none
    | none => none

/-- executable form of "this stored route applies to this name" (`Matches` in Props/C09.lean) -/
def matchesB (p : DomPay) (d : Bytes) : Bool :=
  if p.isWild then
    match splitDot (lower d) with
    | some (l, b) => !l.isEmpty && !b.isEmpty && b == lower p.base
    | none => false
  else lower p.pattern == lower d

/-! ## forward-key table (`routing.ForwardTable`) -/

structure FwdPay where
  key : Bytes
  target : Bytes
deriving DecidableEq, Repr, Inhabited

def fwdCfg : Cfg Bytes FwdPay where
  valid := fun p => !p.key.isEmpty
  store := id
  keyOf := (·.key)
  byHop := false

abbrev FTable := KTable Bytes FwdPay

/-- `ForwardTable.RemoveRoute` (an empty key is refused) -/
def fwdRemove (t : FTable) (key : Bytes) (o : Nat) : FTable × Bool :=
  if key.isEmpty then (t, false) else removeRoute t key o

/-- `ForwardTable.Lookup(key)` -/
def fwdLookup (t : FTable) (key : Bytes) : Option (Entry FwdPay) := best t key

/-! ## agent-presence table (`routing.AgentTable`) -/

/-- payload = the target `AgentID`; slot = (origin, next hop) -/
def agCfg : Cfg Nat Nat where
  valid := fun _ => true
  store := id
  keyOf := id
  byHop := true

abbrev ATable := KTable Nat Nat

/-- `AgentTable.Lookup(agentID)` -/
def agLookup (t : ATable) (a : Nat) : Option (Entry Nat) := best t a

end MM.C09
