/-
  Model of the domain, forward-key and agent-presence tables of /repo/internal/routing
  (domain.go, forward.go, agent.go) as instances of the generic keyed table of
  MM/Model/C08.lean.

  Names are byte strings.  The domain table relies on two standard-library functions,
  `strings.ToLower` and `strings.TrimSpace`; the model and every theorem are parametric in them
  (`Str`), so "case-insensitively" means "equal after `strings.ToLower`", whatever that function
  does to non-ASCII or ill-formed input.  `asciiStr` is their behaviour on ASCII, implemented
  here; for other input the line-protocol oracle is told Go's own results (`oracle` op).
-/
import MM.Model.C08

namespace MM.C09
open MM MM.C08

/-! ## strings -/

def dot : UInt8 := 46

/-- `unicode.ToLower` on an ASCII byte -/
def lowerB (b : UInt8) : UInt8 := if 65 ≤ b.toNat ∧ b.toNat ≤ 90 then b + 32 else b

/-- `strings.ToLower` -/
def lower (s : Bytes) : Bytes := s.map lowerB

/-- ASCII white space as `strings.TrimSpace` sees it -/
def isSpace (b : UInt8) : Bool := b == 32 || (9 ≤ b.toNat && b.toNat ≤ 13)

/-- `strings.TrimSpace` -/
def trimSpace (s : Bytes) : Bytes :=
  ((s.dropWhile isSpace).reverse.dropWhile isSpace).reverse

/-- `idx := strings.Index(s, ".")` as the pair `(s[:idx], s[idx+1:])` -/
def splitDot : Bytes → Option (Bytes × Bytes)
  | [] => none
  | c :: cs =>
    if c = dot then some ([], cs)
    else match splitDot cs with
      | some (l, r) => some (c :: l, r)
      | none => none

/-- `strings.ToLower` and `strings.TrimSpace` as the domain table uses them. -/
structure Str where
  fold : Bytes → Bytes
  trim : Bytes → Bytes

/-- their behaviour on ASCII strings -/
def asciiStr : Str := ⟨lower, trimSpace⟩

/-! ## domain table (`routing.DomainTable`) -/

/-- `Pattern`, `IsWildcard`, `BaseDomain` of a `DomainRoute`, as the caller supplies them. -/
structure DomPay where
  pattern : Bytes
  isWild : Bool
  base : Bytes
deriving DecidableEq, Repr, Inhabited

/-- which map (`true` = `wildcardBase`, `false` = `exactRoutes`) and the lower-cased key -/
abbrev DKey := Bool × Bytes

/-- `routeMapAndKey(pattern, isWildcard, baseDomain)` -/
def domKey (S : Str) (p : DomPay) : DKey :=
  if p.isWild then (true, S.fold p.base) else (false, S.fold p.pattern)

def domCfg (S : Str) : Cfg DKey DomPay where
  valid := fun p => !p.pattern.isEmpty
  store := id
  keyOf := domKey S
  byHop := false

abbrev DTable := KTable DKey DomPay

/-- `ParseDomainPattern(pattern)` -/
def parsePattern (S : Str) (pattern : Bytes) : Bool × Bytes :=
  let p := S.trim pattern
  match p with
  | 42 :: 46 :: rest => (true, rest)      -- strings.HasPrefix(p, "*.")
  | _ => (false, p)

/-- the payload `Manager.ProcessDomainRouteAdvertise` / `AddLocalDomainRoute` build from a pattern -/
def payOfPattern (S : Str) (pattern : Bytes) : DomPay :=
  let (w, b) := parsePattern S pattern
  ⟨pattern, w, b⟩

/-- key used by `RemoveRoute(pattern, origin)` / `HasRoute` -/
def domRemoveKey (S : Str) (pattern : Bytes) : DKey := domKey S (payOfPattern S pattern)

/-- `DomainTable.RemoveRoute` (an empty pattern is refused) -/
def domRemove (S : Str) (t : DTable) (pattern : Bytes) (o : Nat) : DTable × Bool :=
  if pattern.isEmpty then (t, false) else removeRoute t (domRemoveKey S pattern) o

/-- `DomainTable.lookupUnlocked(domain)` -/
def domLookup (S : Str) (t : DTable) (domain : Bytes) : Option (Entry DomPay) :=
  let d := S.fold domain
  match (get t (false, d)).head? with
  | some r => some r                                      -- 1. exact match first
  | none =>
    match splitDot d with                                 -- 2. single-level wildcard
    | some (l, b) =>
      if l ≠ [] ∧ b ≠ [] then (get t (true, b)).head?     -- idx > 0 && idx < len(domain)-1
      else none
    | none => none

/-- executable form of "this stored route applies to this name" (`Matches` in Props/C09.lean) -/
def matchesB (S : Str) (p : DomPay) (d : Bytes) : Bool :=
  if p.isWild then
    match splitDot (S.fold d) with
    | some (l, b) => !l.isEmpty && !b.isEmpty && b == S.fold p.base
    | none => false
  else S.fold p.pattern == S.fold d

/-! ## forward-key table (`routing.ForwardTable`) -/

structure FwdPay where
  key : Bytes
  target : Bytes
deriving DecidableEq, Repr, Inhabited

def fwdCfg : Cfg Bytes FwdPay where
  valid := fun p => !p.key.isEmpty
  store := id
  keyOf := (·.key)
  byHop := false

abbrev FTable := KTable Bytes FwdPay

/-- `ForwardTable.RemoveRoute` (an empty key is refused) -/
def fwdRemove (t : FTable) (key : Bytes) (o : Nat) : FTable × Bool :=
  if key.isEmpty then (t, false) else removeRoute t key o

/-- `ForwardTable.Lookup(key)` -/
def fwdLookup (t : FTable) (key : Bytes) : Option (Entry FwdPay) := best t key

/-! ## agent-presence table (`routing.AgentTable`) -/

/-- payload = the target `AgentID`; slot = (origin, next hop) -/
def agCfg : Cfg Nat Nat where
  valid := fun _ => true
  store := id
  keyOf := id
  byHop := true

abbrev ATable := KTable Nat Nat

/-- `AgentTable.Lookup(agentID)` -/
def agLookup (t : ATable) (a : Nat) : Option (Entry Nat) := best t a

end MM.C09
