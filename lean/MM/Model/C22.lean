/-
  Model of the ownership logic of a SOCKS5 UDP association:

    internal/socks5/udp.go     ReadLoop (AS FIXED by fixes/C22-udp-owner-control-ip.patch),
                               WriteToClient, controlClientIP
    internal/socks5/handler.go handleUDPAssociate (which client address counts as "declared")

  A datagram arriving at the relay socket is `(src, validHeader)`.  The association knows
    * `ctrlIP`   — the peer IP of the TCP control connection, when the connection exposes one
                   (a plain TCP connection does; SOCKS5 tunnelled over WebSocket does not),
    * `expected` — the client address declared in the UDP ASSOCIATE request, unless it was
                   0.0.0.0 / :: / a domain,
    * `actual`   — the source of the first ACCEPTED datagram; replies go there.
-/
import MM.Model.C23

namespace MM.C22
open MM

structure Addr where
  ip : Bytes
  port : Nat
  deriving DecidableEq, Repr

/-- `net.IP.Equal`: an IPv4 address and its IPv4-mapped IPv6 form are equal. -/
def ipEqual (a b : Bytes) : Bool := (C23.to4 a).getD a == (C23.to4 b).getD b

structure St where
  ctrlIP : Option Bytes
  expected : Option Addr
  actual : Option Addr
  deriving Repr

/-- `handleUDPAssociate`: the declared address is used only when it is an IP and not unspecified. -/
def declared (destIP : Option Bytes) (port : Nat) : Option Addr :=
  match destIP with
  | some ip => if C23.isUnspecified ip then none else some ⟨ip, port⟩
  | none => none

def initSt (ctrlIP : Option Bytes) (destIP : Option Bytes) (port : Nat) : St :=
  ⟨ctrlIP, declared destIP port, none⟩

/-- The two source checks of `ReadLoop` (fixed code). -/
def accepts (st : St) (src : Addr) : Bool :=
  (match st.ctrlIP with
   | some o => o.length == 0 || ipEqual src.ip o          -- `owner != nil && !Equal → continue`
   | none => true) &&
  (match st.expected with
   | some e => e.ip.length == 0 || C23.isUnspecified e.ip || ipEqual src.ip e.ip
   | none => true)

/-- One iteration of `ReadLoop` on a datagram from `src`; `valid` = `ParseUDPHeader` succeeds.
    Returns the new state and whether `RelayUDPDatagram` is called. -/
def recv (st : St) (src : Addr) (valid : Bool) : St × Bool :=
  if accepts st src then
    let st' := match st.actual with
      | none => { st with actual := some src }
      | some _ => st
    (st', valid)
  else (st, false)

/-- `WriteToClient`: where a reply is sent (`none` = "no client address" error). -/
def replyDest (st : St) : Option Addr := st.actual

/-- Who owns the association: the host at the other end of the control connection; when the
    connection does not tell, the host the client declared over that connection. -/
def owner (st : St) : Option Bytes :=
  match st.ctrlIP with
  | some o => if o.length == 0 then (st.expected.map (·.ip)) else some o
  | none => st.expected.map (·.ip)

def run (st : St) (dgs : List (Addr × Bool)) : St := dgs.foldl (fun s d => (recv s d.1 d.2).1) st

end MM.C22
