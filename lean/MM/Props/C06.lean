/-
  C06 — Route announcements arrive intact for any local route set.

  "Whatever CIDR, domain and port-forward routes an agent originates, its neighbours decode
   exactly that set of routes from its announcement.  The same holds for every route group it
   forwards or replays to a new peer.  A route set that cannot fit in one announcement is never
   silently truncated or wrapped into a different set."

  Model: MM/Model/C06.lean over the C05 codecs; tied to /repo/internal/flood/flood.go and the
  neighbour's real decode + HandleRouteAdvertise by T-diff (engine c06).
  The pinned code sent ONE advertisement per route list (`unsplit`): refuted below
  (`C06_single_advertisement_refuted`).  With fixes/C06-advertise-chunking.patch the sender
  splits (`advertise`), and the full statement holds for origination and replay
  (`C06_announce_intact`, `C06_replay_intact`); forwarding keeps the received list and is intact
  whenever the forwarded payload still fits a frame (`C06_forward_intact`).
-/
import MM.Lemmas.C06
import MM.Gen.C06

namespace MM.C06
open MM MM.C05

/-- The limits of the model are the ones in the source (regenerated on every run by
    tools/c06_extract.go, which also checks the shape of `advertiseBudget`, of the `splitRoutes`
    test and that both senders go through `splitRoutes`). -/
theorem C06_constants_tie :
    Gen.C06.maxRoutesPerAdvertise = 255 ∧ Gen.C06.advertiseHeadroom = headroom ∧
    Gen.C06.budgetIsPayloadMinusHeadroomMinusFixed = true ∧
    Gen.C06.splitClosesGroupOnCountOrSize = true ∧ Gen.C06.announceAndFullTableSplit = true ∧
    Gen.C06.withdrawSplits = true := by
  decide

/-- **Full statement for one route list** (origination and replay): every frame is delivered and
    decodes, and the neighbour is handed exactly the originated entries, in order — for ANY number
    of entries. -/
theorem C06_advertise_intact (b : Base) (hb : baseWF b = true) (seq0 : Nat) (es : List Entry)
    (hes : es.all entryWF = true) (hseq : seq0 + es.length + 2 ≤ 2 ^ 64) :
    learnAll (advertise b seq0 (es.map toRoute)) = some es := by
  have hmp : maxPayload = 16384 := rfl
  have hsize : ∀ r ∈ es.map toRoute, routeSize r ≤ 516 := by
    intro r hr
    obtain ⟨e, he, rfl⟩ := List.mem_map.mp hr
    exact toRoute_size e (List.all_eq_true.mp hes e he)
  have hwf : ∀ r ∈ es.map toRoute, advRouteC.wf r = true := by
    intro r hr
    obtain ⟨e, he, rfl⟩ := List.mem_map.mp hr
    exact toRoute_wf e (List.all_eq_true.mp hes e he)
  have hfix := fixedLen_le b hb
  have hgroups := splitRoutes_groups (advertiseBudget b) 516 (es.map toRoute) hsize
  have hbud : fixedLen b + max (advertiseBudget b) 516 ≤ maxPayload := by
    have : advertiseBudget b = maxPayload - headroom - fixedLen b := rfl
    have hh : headroom = 1024 := rfl
    rw [this, Nat.max_def]
    split <;> omega
  -- number of groups ≤ number of routes + 1
  have hcount : (splitRoutes (advertiseBudget b) (es.map toRoute)).length ≤ es.length + 1 := by
    have : ∀ (rs cur : List PRoute) (size : Nat),
        (splitLoop (advertiseBudget b) rs cur size).length ≤ rs.length + 1 := by
      intro rs
      induction rs with
      | nil => intro cur size; simp [splitLoop]
      | cons r rs ih =>
        intro cur size
        unfold splitLoop
        split
        · have := ih [r] (routeSize r); simp; omega
        · have := ih (r :: cur) (size + routeSize r); simp; omega
    have := this (es.map toRoute) [] 0
    simpa [splitRoutes] using this
  unfold advertise
  rw [learnAll_go b hb _ (seq0 + 1) (by omega)]
  · rw [splitRoutes_flatten, filterMap_classify_toRoute es hes]
  · intro g hg
    have := hgroups g hg
    refine ⟨this.1, ?_, by omega⟩
    exact List.all_eq_true.mpr fun r hr => hwf r (splitRoutes_mem _ _ g hg r hr)

/-- `AnnounceLocalRoutes`: the neighbour learns every originated route and the agent presence
    route, whatever their number. -/
theorem C06_announce_intact (self name : Bytes) (seq0 : Nat) (es : List Entry)
    (hself : entryWF (.agent self 0) = true) (hname : name.length < 256)
    (hes : es.all entryWF = true) (hseq : seq0 + es.length + 3 ≤ 2 ^ 64) :
    learnAll (announceLocal self name seq0 es) = some (es ++ [Entry.agent self 0]) := by
  have hl : self.length = 16 := by
    simp only [entryWF, Bool.and_eq_true, beq_iff_eq] at hself
    exact hself.1.1
  have hb : baseWF (announceBase self name) = true := by
    simp [baseWF, announceBase, listN, bytesN, hl, hname]
  have : localRoutes self es = (es ++ [Entry.agent self 0]).map toRoute := by simp [localRoutes]
  unfold announceLocal
  rw [this]
  exact C06_advertise_intact _ hb seq0 _ (by simp [hes, hself]) (by simp; omega)

/-- `SendFullTable`, one origin group: the new peer learns every stored route of that origin. -/
theorem C06_replay_intact (self origin name : Bytes) (storedPath : List Bytes) (seq0 : Nat)
    (es : List Entry)
    (hb : baseWF (replayBase self origin name storedPath) = true)
    (hes : es.all entryWF = true) (hseq : seq0 + es.length + 2 ≤ 2 ^ 64) :
    learnAll (advertise (replayBase self origin name storedPath) seq0 (es.map toRoute)) = some es :=
  C06_advertise_intact _ hb seq0 es hes hseq

/-- Every frame the fixed sender emits fits: at most 255 routes and at most
    MaxPayloadSize − headroom bytes unless a single route is larger than the budget. -/
theorem C06_groups_fit (b : Base) (hb : baseWF b = true) (es : List Entry)
    (hes : es.all entryWF = true) :
    ∀ g ∈ splitRoutes (advertiseBudget b) (es.map toRoute),
      g.length ≤ 255 ∧ fixedLen b + sizeOf g ≤ maxPayload - headroom := by
  intro g hg
  have hsize : ∀ r ∈ es.map toRoute, routeSize r ≤ 516 := by
    intro r hr
    obtain ⟨e, he, rfl⟩ := List.mem_map.mp hr
    exact toRoute_size e (List.all_eq_true.mp hes e he)
  have := splitRoutes_groups (advertiseBudget b) 516 (es.map toRoute) hsize g hg
  have hfix := fixedLen_le b hb
  have hbd : advertiseBudget b = maxPayload - headroom - fixedLen b := rfl
  have hmp : maxPayload = 16384 := rfl
  have hh : headroom = 1024 := rfl
  refine ⟨this.1, ?_⟩
  have h2 := this.2
  rw [Nat.max_def] at h2
  split at h2 <;> omega

/-! ### the pinned behaviour (one advertisement per route list) is refuted -/

/-- No single ROUTE_ADVERTISE can carry 256 or more routes: whatever decodes has fewer. -/
theorem single_advertisement_lt_256 (payload : Bytes) (a : RouteAdv)
    (h : decodeRouteAdvertise payload = some a) : a.2.2.2.1.length < 256 := by
  have hw := decodeTop_wf routeAdvertise_decwf 28 payload a h
  simp only [routeAdvertiseC, C05.seq, Bool.and_eq_true] at hw
  have := hw.2.2.2.1
  simp only [listN, Bool.and_eq_true, decide_eq_true_eq] at this
  simpa using this.1

def C06_statement_unsplit : Prop :=
  ∀ (b : Base) (seq0 : Nat) (es : List Entry), baseWF b = true → es.all entryWF = true →
    seq0 + es.length + 2 ≤ 2 ^ 64 →
    learnAll (unsplit b seq0 (es.map toRoute)) = some es

/-- 256 distinct /32 routes -/
def witnessEntries : List Entry :=
  (List.range 256).map fun i => Entry.cidr 1 32 [10, 0, UInt8.ofNat (i / 256), UInt8.ofNat (i % 256)] 0

def witnessBase : Base :=
  { origin := List.replicate 16 1, name := [], path := [List.replicate 16 1], seenBy := [List.replicate 16 1] }

/-- The pinned sender (one advertisement whatever the size) cannot deliver 256 routes: the
    neighbour decodes fewer than 256 or nothing. -/
theorem C06_single_advertisement_refuted : ¬ C06_statement_unsplit := by
  intro h
  have hwf : witnessEntries.all entryWF = true := by
    simp [witnessEntries, entryWF]
  have hb : baseWF witnessBase = true := by decide
  have := h witnessBase 0 witnessEntries hb hwf (by simp [witnessEntries])
  simp only [unsplit, learnAll] at this
  split at this
  · cases this
  · next q hq =>
    split at this
    · next es' rest hl hr =>
      injection this with this
      -- es' comes from a decoded advertisement: fewer than 256 routes
      unfold learn at hl
      split at hl
      · cases hl
      · next a ha =>
        injection hl with hl
        have hlt := single_advertisement_lt_256 q a ha
        have hlen : es'.length ≤ a.2.2.2.1.length := by
          rw [← hl]; exact List.length_filterMap_le _ _
        have h256 : witnessEntries.length = 256 := by simp [witnessEntries]
        injection hr with hr
        subst hr
        rw [← this] at h256
        simp at h256
        omega
    · cases this

/-! ### withdrawals -/

/-- `WithdrawLocalRoutes` (fixed): for ANY number of local CIDR routes every ROUTE_WITHDRAW frame
    is deliverable and decodable and the neighbour is told to remove exactly the withdrawn
    networks, in order. -/
theorem C06_withdraw_intact (self : Bytes) (hself : self.length = 16) (seq0 : Nat) (es : List Entry)
    (hes : es.all entryWF = true) (hc : es.all isCidr = true)
    (hseq : seq0 + es.length + 2 ≤ 2 ^ 64) :
    withdrawAll (withdrawLocal self seq0 es) = some es := by
  have hmp : maxPayload = 16384 := rfl
  have hh : headroom = 1024 := rfl
  have hfix := withdrawFixed_eq self hself
  have hsize : ∀ r ∈ es.map toRoute, routeSize r ≤ 516 := by
    intro r hr
    obtain ⟨e, he, rfl⟩ := List.mem_map.mp hr
    exact toRoute_size e (List.all_eq_true.mp hes e he)
  have hwf : ∀ r ∈ es.map toRoute, wdRouteC.wf r = true := by
    intro r hr
    obtain ⟨e, he, rfl⟩ := List.mem_map.mp hr
    exact toRoute_wdwf e (List.all_eq_true.mp hes e he) (List.all_eq_true.mp hc e he)
  have hgroups := splitRoutes_groups (withdrawBudget self) 516 (es.map toRoute) hsize
  have hbud : withdrawFixed self + max (withdrawBudget self) 516 ≤ maxPayload := by
    have : withdrawBudget self = maxPayload - headroom - withdrawFixed self := rfl
    rw [this, Nat.max_def]
    split <;> omega
  have hcount := splitRoutes_length_le (withdrawBudget self) (es.map toRoute)
  unfold withdrawLocal
  rw [withdrawAll_go self hself _ (seq0 + 1) (by simp at hcount; omega)]
  · rw [splitRoutes_flatten, filterMap_toIPNet_toRoute es hes hc]
  · intro g hg
    have := hgroups g hg
    refine ⟨this.1, ?_, by omega⟩
    exact List.all_eq_true.mpr fun r hr => hwf r (splitRoutes_mem _ _ g hg r hr)

/-- No single ROUTE_WITHDRAW can name 256 or more routes. -/
theorem single_withdraw_lt_256 (payload : Bytes) (w : RouteWd)
    (h : decodeRouteWithdraw payload = some w) : w.2.2.1.length < 256 := by
  have hw := decodeTop_wf routeWithdraw_decwf 26 payload w h
  simp only [routeWithdrawC, C05.seq, Bool.and_eq_true] at hw
  have := hw.2.2.1
  simp only [listN, Bool.and_eq_true, decide_eq_true_eq] at this
  simpa using this.1

def C06_withdraw_statement_unsplit : Prop :=
  ∀ (self : Bytes) (seq0 : Nat) (es : List Entry), self.length = 16 → es.all entryWF = true →
    es.all isCidr = true → seq0 + es.length + 2 ≤ 2 ^ 64 →
    withdrawAll (withdrawUnsplit self seq0 es) = some es

/-- The pinned `WithdrawLocalRoutes` (one message whatever the size) cannot withdraw 256 routes. -/
theorem C06_single_withdraw_refuted : ¬ C06_withdraw_statement_unsplit := by
  intro h
  have hwf : witnessEntries.all entryWF = true := by simp [witnessEntries, entryWF]
  have hc : witnessEntries.all isCidr = true := by simp [witnessEntries, isCidr]
  have := h (List.replicate 16 1) 0 witnessEntries (by simp) hwf hc (by simp [witnessEntries])
  simp only [withdrawUnsplit, withdrawAll] at this
  split at this
  · cases this
  · next q hq =>
    split at this
    · next es' rest hl hr =>
      injection this with this
      unfold learnWithdraw at hl
      split at hl
      · cases hl
      · next w hw =>
        injection hl with hl
        have hlt := single_withdraw_lt_256 q w hw
        have hlen : es'.length ≤ w.2.2.1.length := by
          rw [← hl]; exact List.length_filterMap_le _ _
        have h256 : witnessEntries.length = 256 := by simp [witnessEntries]
        injection hr with hr
        subst hr
        rw [← this] at h256
        simp at h256
        omega
    · cases this

/-! ### forwarding -/

/-- `floodAdvertisementEncrypted`: the next neighbour is handed the same routes as long as the
    forwarded payload (path and seen-by list each one id longer) still fits a frame and the two
    lists stay within their 1-byte counts. -/
theorem C06_forward_intact (self : Bytes) (a : RouteAdv) (hself : self.length = 16)
    (hwf : routeAdvertiseC.wf a = true) (hplain : a.2.2.2.2.1.1 = false)
    (path : List Bytes) (rest : Bytes) (hpath : ids.dec a.2.2.2.2.1.2 = some (path, rest))
    (hpl : path.length < 255) (hsl : a.2.2.2.2.2.length < 255)
    (hfit : (forwardAdv self a).length ≤ maxPayload) :
    (deliver (forwardAdv self a)).bind learn = some (a.2.2.2.1.filterMap classify) := by
  obtain ⟨origin, name, sq, routes, ⟨enc, data⟩, seenBy⟩ := a
  simp only at hplain hpath hsl
  subst hplain
  have hw : (id16.wf origin && (str.wf name && (u64.wf sq && ((listN 1 advRouteC).wf routes &&
      (encPathC.wf (false, data) && ids.wf seenBy))))) = true := hwf
  simp only [Bool.and_eq_true] at hw
  obtain ⟨ho, hn, hs, hr, _, hsb⟩ := hw
  have hpw : ids.wf path = true := (by codec_decwf : ids.DecWF) _ _ _ hpath
  have hpw' := ids_wf_split _ hpw
  have hsb' := ids_wf_split _ hsb
  have hselfwf : id16.wf self = true := by simp [bytesN, hself]
  have hnewpath : ids.wf (self :: path) = true := by
    simp [listN, hselfwf, hpw'.2]; omega
  have hlen := encAll_ids_length _ (ids_wf_split _ hnewpath).2
  have hfwd : forwardAdv self (origin, name, sq, routes, (false, data), seenBy) =
      routeAdvertiseC.enc (origin, name, sq, routes, (false, ids.enc (self :: path)), seenBy ++ [self]) := by
    simp [forwardAdv, hpath]
  have hwf2 : routeAdvertiseC.wf (origin, name, sq, routes, (false, ids.enc (self :: path)), seenBy ++ [self]) = true := by
    have hpok : pathOK (ids.enc (self :: path)) = true := by
      have := ids_sound (self :: path) [] hnewpath
      rw [List.append_nil] at this
      simp [pathOK, this]
    have hlp : (lp 2).wf (ids.enc (self :: path)) = true := by
      simp [lp, listN] at hlen ⊢
      omega
    have hsb2 : ids.wf (seenBy ++ [self]) = true := by
      simp [listN, hsb'.2, hselfwf]; omega
    simp only [routeAdvertiseC, C05.seq, Bool.and_eq_true]
    exact ⟨ho, hn, hs, hr, by simp [encPathC, refine, C05.seq, C05.bool, hlp, hpok], hsb2⟩
  rw [hfwd] at hfit ⊢
  unfold deliver
  rw [if_neg (by omega)]
  simp only [Option.bind_some, learn]
  rw [routeAdvertise_roundtrip _ hwf2]

/-! vacuity -/

example : baseWF witnessBase = true := by decide
example : (witnessEntries.take 3).all entryWF = true := by decide
example : entryWF (.domain [97, 46, 98] false 1) = true ∧ entryWF (.forward [107] [116] 2) = true ∧
    entryWF (.agent (List.replicate 16 1) 0) = true := by decide

end MM.C06
