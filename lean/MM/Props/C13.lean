import MM.Lemmas.C11

/-
  C13 — a learned route's metric equals its hop count.

  Model = MM/Model/C11.lean (the tree with fixes/C13-forward-metric.patch: a forwarded
  advertisement carries metric + 1).  Metrics are u16; the invariant is stated modulo 65536 and
  the plain equality follows when `base + hops < 65536` (`C13_exact`).

  * `C13_statement` (full strength, every history) is REFUTED on the repaired tree as well:
    SendFullTable sends one path per origin together with all stored routes of that origin, so a
    route that was learned over a different path keeps its own metric (`C13_refuted`; open finding
    C13-replay-mixed-paths, replayed on the real code by the check).
  * `C13_partial_coherent`: the statement holds in every history in which each replayed
    advertisement is itself coherent (metric + 1 = base + advertised path length).
  * `C13_partial`: in particular it holds in every history without third-party replays
    (`benignRun`, decidable): SendFullTable only ever sends the replayer's own routes.
-/
namespace MM.C13
open MM.C11

/-- `b` is the metric origin `o` configured for route `(kind, key)`; the presence route has base 0. -/
def IsBase (L : Node → List RAd) (o kind key b : Nat) : Prop :=
  (kind = 3 ∧ key = o ∧ b = 0) ∨ (⟨kind, key, b⟩ : RAd) ∈ L o

/-- An advertisement whose receiver will record `metric = base + hops`. -/
def AdvOK (L : Node → List RAd) (m : Adv) : Prop :=
  m.origin ∈ m.path ∧
  ∀ r, r ∈ m.routes → ∃ b, IsBase L m.origin r.kind r.key b ∧ inc16 r.metric = (b + m.path.length) % 65536

def EntryOK (L : Node → List RAd) (x : Node) (e : Entry) : Prop :=
  (e.path = [] → IsLocalEntry x (L x) e) ∧
  (e.path ≠ [] → e.origin ≠ x ∧
    ∃ b, IsBase L e.origin e.kind e.key b ∧ e.metric = (b + e.path.length) % 65536)

structure Inv (L : Node → List RAd) (s : Net) : Prop where
  locals : ∀ x, (s.nodes x).locals = L x
  flight : ∀ f, f ∈ s.flight → f.adv.wd = false → AdvOK L f.adv
  entries : ∀ x e, e ∈ (s.nodes x).entries → EntryOK L x e

theorem inv_init (n mh : Nat) (L : Node → List RAd) : Inv L (init n mh L) where
  locals := fun x => initNode_locals x (L x)
  flight := by intro f hf; simp [init, initH] at hf
  entries := by
    intro x e he
    have hl := initNode_entries x (L x) e he
    exact ⟨fun _ => hl, fun hne => absurd hl.1 hne⟩

theorem inc16_step {x b l : Nat} (h : x = (b + l) % 65536) : inc16 x = (b + (l + 1)) % 65536 := by
  subst h; unfold inc16; omega

/-- The invariant is preserved by every op whose replayed advertisements (if any) are coherent. -/
theorem inv_step {L : Node → List RAd} {s : Net} {op : Op} (hI : Inv L s)
    (hrep : ∀ a b ord, op = .replay a b ord →
      ∀ m, m ∈ replayAdvs (hopCap (s.maxHops a)) a b (s.nodes a) ord → AdvOK L m) :
    Inv L (step s op) where
  locals := fun x => (locals_step s op x).trans (hI.locals x)
  flight := by
    intro f hf
    cases flight_step hf with
    | old h => exact hI.flight f h
    | wdr hint hop ha hcidr hd hadv =>
      intro hw; rw [(mem_withdrawAdvs hadv).wd] at hw; cases hw
    | ann hint hop ha hd hadv =>
      intro _
      have h := mem_announceAdvs hadv
      refine ⟨by rw [h.origin, h.path]; exact List.mem_cons_self, ?_⟩
      intro r hr
      have hr' := h.routes r hr
      simp only [announcedRoutes, List.mem_append, List.mem_singleton, tick_nodes] at hr'
      rw [h.origin, h.path]
      rcases hr' with hr' | hr'
      · refine ⟨r.metric, Or.inr ?_, by simp [inc16]⟩
        rw [← hI.locals]; exact hr'
      · subst hr'
        exact ⟨0, Or.inl ⟨rfl, rfl, rfl⟩, by simp [inc16]⟩
    | fwd a m hm hl ha hb hd hne hns hself hseen hsb hlim hwire hadv =>
      intro hw
      have hw' : m.wd = false := by rw [hadv, fwdAdv_wd] at hw; exact hw
      rw [hadv]
      obtain ⟨ho, hr⟩ := hI.flight _ hm hw'
      refine ⟨by rw [fwdAdv_origin, fwdAdv_path hw']; exact List.mem_cons_of_mem _ ho, ?_⟩
      intro r' hr'
      rw [fwdAdv_routes hw'] at hr'
      simp only [List.mem_map] at hr'
      rcases hr' with ⟨r, hrm, rfl⟩
      obtain ⟨b, hb1, hb2⟩ := hr r hrm
      refine ⟨b, by rw [fwdAdv_origin]; exact hb1, ?_⟩
      rw [fwdAdv_path hw']
      simpa using inc16_step hb2
    | rep ord hop ha hb hl hadv =>
      intro _
      exact hrep _ _ _ hop _ hadv
  entries := by
    intro x e he
    rcases entries_step he with h | ⟨a, m, hm, hl, ha, hx, hwd, hacc, hp, r, hr, rfl⟩
    · exact hI.entries x e h
    · obtain ⟨ho, hrs⟩ := hI.flight _ hm hwd
      have hne : m.path ≠ [] := by intro h0; rw [h0] at ho; cases ho
      refine ⟨fun h0 => absurd h0 hne, fun _ => ⟨?_, ?_⟩⟩
      · intro heq
        simp only [mkEntry] at heq
        exact hp (heq ▸ ho)
      · obtain ⟨b, hb1, hb2⟩ := hrs r hr
        exact ⟨b, hb1, hb2⟩

/-- Advertisements that carry only the replayer's own local routes are coherent. -/
theorem benign_advOK {L : Node → List RAd} {s : Net} {a b : Node} {ord : List RFrame} {m : Adv}
    (hI : Inv L s) (hb : benignOp s (.replay a b ord) = true)
    (hm : m ∈ replayAdvs (hopCap (s.maxHops a)) a b (s.nodes a) ord) : AdvOK L m := by
  obtain ⟨ho, hp⟩ := benign_replay hb hm
  refine ⟨by rw [ho, hp]; exact List.mem_cons_self, ?_⟩
  intro r hr
  obtain ⟨e, he, heo, _, rfl⟩ := (mem_replayAdvs hm).routes r hr
  rw [ho] at heo
  obtain ⟨h1, h2⟩ := hI.entries a e he
  have hpe : e.path = [] := by
    apply Classical.byContradiction
    intro hne
    exact (h2 hne).1 heo
  obtain ⟨_, _, _, hmem⟩ := h1 hpe
  refine ⟨e.metric, Or.inr (by rw [ho]; exact hmem), ?_⟩
  rw [hp]
  simp [toRAd, inc16]

/-- Every replayed advertisement of the history is coherent. -/
def CoherentRun (L : Node → List RAd) (s : Net) : List Op → Prop
  | [] => True
  | op :: t =>
    (∀ a b ord, op = .replay a b ord →
      ∀ m, m ∈ replayAdvs (hopCap (s.maxHops a)) a b (s.nodes a) ord → AdvOK L m) ∧
    CoherentRun L (step s op) t

theorem inv_run_coherent {L : Node → List RAd} (s : Net) (ops : List Op) (hI : Inv L s)
    (hc : CoherentRun L s ops) : Inv L (run s ops) := by
  induction ops generalizing s with
  | nil => exact hI
  | cons op t ih => exact ih (step s op) (inv_step hI hc.1) hc.2

theorem inv_run_benign {L : Node → List RAd} (s : Net) (ops : List Op) (hI : Inv L s)
    (hb : benignRun s ops = true) : Inv L (run s ops) :=
  run_induction_benign (P := Inv L) s ops hI hb (fun s op hI hb =>
    inv_step hI (fun a b ord hop m hm => benign_advOK hI (hop ▸ hb) hm))

/-- The property at full strength: in EVERY history, every learned route's metric is its origin's
    base metric plus the length of its recorded path (u16 arithmetic). -/
def C13_statement : Prop :=
  ∀ (n mh : Nat) (L : Node → List RAd) (ops : List Op) (x : Node) (e : Entry),
    e ∈ ((run (init n mh L) ops).nodes x).entries → e.path ≠ [] →
    ∃ b, IsBase L e.origin e.kind e.key b ∧ e.metric = (b + e.path.length) % 65536

theorem C13_partial_coherent (n mh : Nat) (L : Node → List RAd) (ops : List Op)
    (hc : CoherentRun L (init n mh L) ops) (x : Node) (e : Entry)
    (he : e ∈ ((run (init n mh L) ops).nodes x).entries) (hp : e.path ≠ []) :
    ∃ b, IsBase L e.origin e.kind e.key b ∧ e.metric = (b + e.path.length) % 65536 :=
  (((inv_run_coherent _ ops (inv_init n mh L) hc).entries x e he).2 hp).2

/-- Holds in every history without third-party replays (CIDR, domain, forward and presence
    routes alike; any topology, any delivery order, duplicates, loss, cache expiry, stale cleanup). -/
theorem C13_partial (n mh : Nat) (L : Node → List RAd) (ops : List Op)
    (hb : benignRun (init n mh L) ops = true) (x : Node) (e : Entry)
    (he : e ∈ ((run (init n mh L) ops).nodes x).entries) (hp : e.path ≠ []) :
    ∃ b, IsBase L e.origin e.kind e.key b ∧ e.metric = (b + e.path.length) % 65536 :=
  (((inv_run_benign _ ops (inv_init n mh L) hb).entries x e he).2 hp).2

/-! ### refutation of the full statement (open finding C13-replay-mixed-paths)

  Six agents: 0 (exit for 10.1.0.0/16) — 1 — 4 and 0 — 3 — 2 — 4; later 4 — 5.  Agent 4 hears
  announcement 2 of agent 0 over the short side (presence route via 1: metric 2, path 1-0) and
  announcement 3 over the long side first (CIDR route replaced: metric 3, path 2-3-0).  When 5
  connects, SendFullTable(5) at agent 4 sends ONE advertisement for origin 0 with the CIDR route's
  path 4-2-3-0 and both presence routes; agent 5 records the presence route with metric 2+1 = 3
  and a 4-hop path. -/

def witnessLocals : Node → List RAd := fun x => if x = 0 then [⟨0, 1, 0⟩] else []

def witnessOps : List Op := [
  .connect 0 1, .connect 1 4, .connect 0 3, .connect 3 2, .connect 2 4,
  .announce 0 [], .deliver 0 1 0, .deliver 1 4 0,
  .announce 0 [], .deliver 0 3 1, .deliver 3 2 0, .deliver 2 4 0,
  .connect 4 5, .replay 4 5 [], .deliver 4 5 0]

def witnessEntry : Entry :=
  { kind := 3, key := 0, origin := 0, nextHop := 4, metric := 3, path := [4, 2, 3, 0], seq := 1, lu := 15 }

theorem witness_stored :
    witnessEntry ∈ ((run (init 6 0 witnessLocals) witnessOps).nodes 5).entries := by decide

theorem C13_refuted : ¬ C13_statement := by
  intro h
  obtain ⟨b, hb, hm⟩ := h 6 0 witnessLocals witnessOps 5 witnessEntry witness_stored (by decide)
  rcases hb with ⟨_, _, hb0⟩ | hb
  · subst hb0; revert hm; decide
  · simp [witnessLocals, witnessEntry] at hb

/-- The excluded region is real: the witness history contains a third-party replay. -/
example : benignRun (init 6 0 witnessLocals) witnessOps = false := by decide

/-- Vacuity check for `C13_partial`: a chain 0 - 1 - 2 - 3 (local exchange on every new link, then
    an announcement flooded hop by hop) is a benign history, and agent 3 ends up with the CIDR route
    of agent 0 at metric 5 + 3 over the 3-hop path 2-1-0. -/
def chainOps : List Op := [
  .connect 0 1, .replay 0 1 [], .replay 1 0 [], .connect 1 2, .connect 2 3,
  .announce 0 [], .deliver 0 1 1, .deliver 1 2 0, .deliver 2 3 0]

example : benignRun (init 4 0 (fun x => if x = 0 then [⟨0, 1, 5⟩] else [])) chainOps = true := by decide

example : (⟨0, 1, 0, 2, 8, [2, 1, 0], 3, 9⟩ : Entry) ∈
    ((run (init 4 0 (fun x => if x = 0 then [⟨0, 1, 5⟩] else [])) chainOps).nodes 3).entries := by decide

/-- Without u16 wrap-around the metric IS base + hops. -/
theorem C13_exact {b len metric : Nat} (h : metric = (b + len) % 65536) (hlt : b + len < 65536) :
    metric = b + len := by omega

/-- Hence, among two routes with the same base metric (equally specific routes advertised with the
    same configured metric), the one with the shorter recorded path has the smaller metric: the
    nearer exit is preferred by the lowest-metric rule of the tables (C08). -/
theorem C13_prefers_nearer {b m1 m2 l1 l2 : Nat} (h1 : m1 = (b + l1) % 65536) (h2 : m2 = (b + l2) % 65536)
    (hlt : b + l2 < 65536) (hl : l1 < l2) : m1 < m2 := by omega

end MM.C13
