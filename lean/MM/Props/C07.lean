/-
  C07 — Frames never exceed the payload limit and stream bytes are re-assembled exactly.

  "Every frame an agent writes to a peer carries at most 16,384 payload bytes.  Any application
   write of any size to a tunnel arrives at the far end as the same bytes in the same order,
   however it was split into frames."

  Model: MM/Model/C07.lean (chunk loop, ideal AEAD, WriteStreamData re-slicing, Frame.Encode
  gate, per-frame opening at the far end).  The numbers come from MM/Gen/C07.lean (measured on
  the compiled code by the harness) and MM/Gen/C07Ast.lean (evaluated from the source
  expressions); both are regenerated on every run.  Only property theorems live here.
-/
import MM.Lemmas.C07

namespace MM.C07
open MM

/-! ## the chunk loop -/

/-- Chunking loses, duplicates and reorders nothing. -/
theorem C07_chunks_concat {α : Type} {n : Nat} (hn : 0 < n) (b : List α) :
    (chunks n b).flatten = b := chunks_flatten hn b

/-- No chunk is longer than the step (and none is empty). -/
theorem C07_chunk_le {α : Type} (n : Nat) (b : List α) :
    ∀ c ∈ chunks n b, c.length ≤ n := fun c hc => (chunks_mem b c hc).1

example : chunks 3 [1, 2, 3, 4, 5, 6, 7] = [[1, 2, 3], [4, 5, 6], [7]] := by
  simp [chunks_cons, chunks_nil]
example : chunkLens 16384 16413 = [16384, 29] := by
  rw [chunkLens_cons (by omega) (by omega)]
  simp only [show min 16384 16413 = 16384 by omega, show 16413 - 16384 = 29 by omega]
  rw [chunkLens_single (by omega) (by omega)]

/-! ## frame bound -/

/-- Every frame any path writes to the peer carries at most `maxPayload` bytes — for ANY
    configuration and ANY sequence of pieces (no hypothesis): `Frame.Encode` is on the way of
    every frame. -/
theorem C07_frame_le (c : Cfg) (p : Path) (pieces : List Bytes) (seq : Nat) :
    ∀ f ∈ sendPieces c p seq pieces, f.len ≤ c.maxPayload := by
  induction pieces generalizing seq with
  | nil => intro f hf; simp [sendPieces] at hf
  | cons x xs ih =>
    intro f hf
    simp only [sendPieces] at hf
    split at hf
    · rw [List.mem_append] at hf
      cases hf with
      | inl h => exact gate_mem _ _ f h
      | inr h => exact ih (seq + 1) f h
    · exact gate_mem _ _ f hf

/-- … and without relying on the gate: on a path that fits (`bufSize + hdr + overhead ≤
    frameCap`) the gate never fires, i.e. no write is ever refused and every frame is a whole
    ciphertext. -/
theorem C07_no_refusal (c : Cfg) (p : Path) (x : Bytes) (seq : Nat)
    (hx : x.length ≤ p.bufSize) (hfit : p.bufSize + p.hdr + c.overhead ≤ frameCap c p) :
    gate c.maxPayload (framesOf c p ⟨seq, hdrOf p ++ x⟩) = (framesOf c p ⟨seq, hdrOf p ++ x⟩, true) := by
  apply gate_all
  intro f hf
  have hL : Sealed.length c ⟨seq, hdrOf p ++ x⟩ = p.hdr + x.length + c.overhead := by
    simp [Sealed.length, hdrOf_length]
  unfold framesOf at hf
  unfold frameCap at hfit
  cases hr : p.rechunk with
  | false =>
    rw [hr] at hf hfit
    simp only [Bool.false_eq_true, if_false, List.mem_cons, List.not_mem_nil, or_false] at hf hfit
    subst hf
    simp only [hL]; omega
  | true =>
    rw [hr] at hf hfit
    simp only [if_true] at hf hfit
    have h1 := mkFrames_len _ _ _ f hf
    have h2 := chunkLens_mem _ _ _ h1
    rw [hL] at h2
    omega

/-! ## re-assembly -/

/-- MAIN THEOREM.  On a path whose largest message fits one frame, whatever pieces the source
    delivers (any number, any sizes up to the buffer, including empty reads), the far end
    re-assembles exactly the bytes that were written, in order. -/
theorem C07_reassemble_pieces (c : Cfg) (p : Path) (pieces : List Bytes) (seq : Nat)
    (hfit : p.bufSize + p.hdr + c.overhead ≤ frameCap c p)
    (hp : ∀ x ∈ pieces, x.length ≤ p.bufSize) :
    receive c p (sendPieces c p seq pieces) = some pieces.flatten := by
  induction pieces generalizing seq with
  | nil => rfl
  | cons x xs ih =>
    have hx : x.length ≤ p.bufSize := hp x (by simp)
    have ih' := ih (seq + 1) (fun y hy => hp y (List.mem_cons_of_mem _ hy))
    simp only [sendPieces]
    rw [C07_no_refusal c p x seq hx hfit]
    simp only [if_true]
    have hL : Sealed.length c ⟨seq, hdrOf p ++ x⟩ = p.hdr + x.length + c.overhead := by
      simp [Sealed.length, hdrOf_length]
    -- the message is exactly one whole frame, or nothing at all when it is empty
    have hone : framesOf c p ⟨seq, hdrOf p ++ x⟩ = [⟨⟨seq, hdrOf p ++ x⟩, 0, p.hdr + x.length + c.overhead⟩]
        ∨ (framesOf c p ⟨seq, hdrOf p ++ x⟩ = [] ∧ x = []) := by
      unfold framesOf
      unfold frameCap at hfit
      cases hr : p.rechunk with
      | false => left; simp [hL]
      | true =>
        rw [hr] at hfit
        simp only [if_true] at hfit ⊢
        rw [hL]
        by_cases h0 : p.hdr + x.length + c.overhead = 0
        · right
          rw [h0, chunkLens_zero_len]
          exact ⟨rfl, List.eq_nil_of_length_eq_zero (by omega)⟩
        · left
          rw [chunkLens_single (by omega) (by omega)]
          simp [mkFrames]
    cases hone with
    | inl h =>
      rw [h]
      simp only [List.cons_append, List.nil_append, receive, openF, Sealed.length]
      have : (hdrOf p ++ x).length + c.overhead = p.hdr + x.length + c.overhead := by
        simp [hdrOf_length]
      simp only [this, and_self, if_true, ih', Option.map_some, List.flatten_cons]
      rw [List.drop_left' (hdrOf_length p)]
    | inr h =>
      rw [h.1, h.2]
      simpa using ih'

/-- The statement of the property for one path: every write of every size arrives intact, and no
    frame exceeds the limit. -/
def C07_holds (c : Cfg) (p : Path) : Prop :=
  ∀ b : Bytes, receive c p (send c p b) = some b ∧ ∀ f ∈ send c p b, f.len ≤ c.maxPayload

/-- `C07_reassemble`: premise `bufSize + hdr + overhead ≤ maxPayload` (here with the re-slicing
    step taken into account: `frameCap = min rechunkAt maxPayload` on the WriteStreamData paths)
    ⟹ `receive (send b) = b` for every `b`. -/
theorem C07_reassemble (c : Cfg) (p : Path) (hbuf : 0 < p.bufSize)
    (hfit : p.bufSize + p.hdr + c.overhead ≤ frameCap c p) : C07_holds c p := by
  intro b
  refine ⟨?_, C07_frame_le c p _ 0⟩
  unfold send
  rw [C07_reassemble_pieces c p _ 0 hfit (fun x hx => (chunks_mem b x hx).1), chunks_flatten hbuf]

/-- The premise is also NECESSARY on the re-slicing paths: if the largest message does not fit
    one slice, a write that fills the buffer is not re-assembled (this is the defect the shell
    output paths had with a 16 384-byte buffer: 16384 + 1 + 28 = 16413 > 16384). -/
theorem C07_premise_necessary (c : Cfg) (p : Path) (hr : p.rechunk = true) (hbuf : 0 < p.bufSize)
    (hbig : c.rechunkAt < p.bufSize + p.hdr + c.overhead) :
    ∃ b : Bytes, b.length = p.bufSize ∧ receive c p (send c p b) ≠ some b := by
  refine ⟨List.replicate p.bufSize 0, by simp, ?_⟩
  have hne : (List.replicate p.bufSize (0 : UInt8)) ≠ [] := by
    intro h; have := congrArg List.length h; simp at this; omega
  have hch : chunks p.bufSize (List.replicate p.bufSize (0 : UInt8)) = [List.replicate p.bufSize 0] := by
    rw [chunks_cons hbuf hne]
    have h1 : (List.replicate p.bufSize (0 : UInt8)).take p.bufSize = List.replicate p.bufSize 0 :=
      List.take_of_length_le (by simp)
    have h2 : (List.replicate p.bufSize (0 : UInt8)).drop p.bufSize = [] :=
      List.drop_of_length_le (by simp)
    rw [h1, h2, chunks_nil]
  unfold send
  rw [hch]
  simp only [sendPieces, framesOf, hr, if_true]
  have hL : Sealed.length c ⟨0, hdrOf p ++ List.replicate p.bufSize 0⟩ = p.hdr + p.bufSize + c.overhead := by
    simp [Sealed.length, hdrOf_length]
  rw [hL]
  by_cases h0 : c.rechunkAt = 0
  · rw [h0, chunkLens_zero]
    simp only [mkFrames, gate, if_true, List.nil_append, receive]
    intro h; injection h with h; exact hne h.symm
  · rw [chunkLens_cons (by omega) (by omega)]
    have hmin : min c.rechunkAt (p.hdr + p.bufSize + c.overhead) = c.rechunkAt := by omega
    rw [hmin]
    simp only [mkFrames, gate]
    by_cases hg : c.rechunkAt ≤ c.maxPayload
    · simp only [hg, if_true]
      split
      · simp only [List.cons_append, receive, openF, hL]
        rw [if_neg (by intro h; omega)]
        simp
      · simp only [receive, openF, hL]
        rw [if_neg (by intro h; omega)]
        simp
    · simp only [hg, if_false]
      intro h; injection h with h; exact hne h.symm

/-! ## the engine's arithmetic is the model -/

/-- The (length, opens?) list the engine computes from piece lengths is exactly that of the
    frames of the byte-level model. -/
theorem C07_model_lens (c : Cfg) (p : Path) (pieces : List Bytes) (seq : Nat) :
    (sendPieces c p seq pieces).map (lf c) = sendLF c p (pieces.map List.length) := by
  induction pieces generalizing seq with
  | nil => rfl
  | cons x xs ih =>
    simp only [sendPieces, sendLF, List.map_cons]
    have hL : Sealed.length c ⟨seq, hdrOf p ++ x⟩ = p.hdr + x.length + c.overhead := by
      simp [Sealed.length, hdrOf_length]
    have hg := gate_map c c.maxPayload (framesOf c p ⟨seq, hdrOf p ++ x⟩)
    rw [framesOf_lf, hL] at hg
    have h1 := congrArg Prod.fst hg
    have h2 := congrArg Prod.snd hg
    simp only at h1 h2
    rw [← h2]
    split
    · rw [List.map_append, h1, ih]
    · rw [h1]

/-- … and the piece lengths of the greedy source are `chunkLens`. -/
theorem C07_send_lens (c : Cfg) (p : Path) (b : Bytes) :
    (send c p b).map (lf c) = sendLF c p (chunkLens p.bufSize b.length) := by
  unfold send
  rw [C07_model_lens, chunks_lens]

/-! ## the tree under examination: premises decided on the regenerated numbers -/

/-- **Atomic step of the shell senders** (tie, regenerated by tools/c07_extract.go on every run).
    Several goroutines write on one shell stream (stdout pump, stderr pump, exit/ack replies); every
    sealed message takes the next nonce and the receiver rejects a frame overtaken by a later one, so
    "re-assembled exactly" needs seal-and-send of one message to be ONE critical section of
    `ss.writeMu` in `writeEncrypted`: one acquisition, the single `Encrypt` and the single
    `WriteStreamData` both under it.  (`sendPieces` models seal+send of a piece as one step.) -/
theorem C07_shell_seal_send_atomic :
    Gen.C07Ast.shellSealAndSendAtomic = true ∧ Gen.C07Ast.shellWriteLocks = 1 ∧
    Gen.C07Ast.shellSealCalls = 1 ∧ Gen.C07Ast.shellSealUnderLock = 1 ∧
    Gen.C07Ast.shellSendCalls = 1 ∧ Gen.C07Ast.shellSendUnderLock = 1 := by
  decide

/-- The two independent extractions (measured on the compiled code / evaluated from the source
    text) agree (the WriteStreamData slice size only up to the frame limit: a larger slice is
    refused by `Frame.Encode` before it can be observed). -/
theorem C07_gen_agree :
    Gen.C07.tcpBuf = Gen.C07Ast.tcpBuf ∧
    min Gen.C07.rechunk Gen.C07.maxPayload = min Gen.C07Ast.rechunk Gen.C07.maxPayload ∧
    Gen.C07.exitBuf = Gen.C07Ast.exitBuf ∧ Gen.C07.fwdBuf = Gen.C07Ast.fwdBuf ∧
    Gen.C07.shoutBuf = Gen.C07Ast.shoutBuf ∧ Gen.C07.sherrBuf = Gen.C07Ast.shoutBuf ∧
    Gen.C07.shptyBuf = Gen.C07Ast.shptyBuf ∧ Gen.C07.fupBuf = Gen.C07Ast.fupBuf ∧
    Gen.C07.fdownBuf = Gen.C07Ast.fdownBuf ∧
    Gen.C07.shinBuf + Gen.C07.shellHdr = Gen.C07Ast.shinMsgMax ∧
    cfg.maxPayload = 16384 ∧
    Gen.C07.overhead = Gen.C07.nonceSize + Gen.C07.tagSize ∧ Gen.C07.sealGrowth = Gen.C07.overhead := by
  decide

theorem C07_tcp : C07_holds cfg tcp := C07_reassemble cfg tcp (by decide) (by decide)
theorem C07_exit : C07_holds cfg exit := C07_reassemble cfg exit (by decide) (by decide)
theorem C07_fwd : C07_holds cfg fwd := C07_reassemble cfg fwd (by decide) (by decide)
theorem C07_shout : C07_holds cfg shout := C07_reassemble cfg shout (by decide) (by decide)
theorem C07_sherr : C07_holds cfg sherr := C07_reassemble cfg sherr (by decide) (by decide)
theorem C07_shpty : C07_holds cfg shpty := C07_reassemble cfg shpty (by decide) (by decide)
theorem C07_shin : C07_holds cfg shin := C07_reassemble cfg shin (by decide) (by decide)
theorem C07_fup : C07_holds cfg fup := C07_reassemble cfg fup (by decide) (by decide)
theorem C07_fdown : C07_holds cfg fdown := C07_reassemble cfg fdown (by decide) (by decide)

/-- C07 for the tree under examination: on every data path every write of every size arrives
    intact and no frame exceeds `maxPayload`. -/
theorem C07_all : ∀ p ∈ [tcp, exit, fwd, shout, sherr, shpty, shin, fup, fdown], C07_holds cfg p := by
  intro p hp
  simp only [List.mem_cons, List.not_mem_nil, or_false] at hp
  rcases hp with h | h | h | h | h | h | h | h | h <;> subst h
  · exact C07_tcp
  · exact C07_exit
  · exact C07_fwd
  · exact C07_shout
  · exact C07_sherr
  · exact C07_shpty
  · exact C07_shin
  · exact C07_fup
  · exact C07_fdown

/-- A path fed by an application that writes in pieces of its own, each write being chunked
    separately (`meshConn.Write` under io.Copy's 32 KiB buffer; one STDIN WebSocket message of
    any size under `shell.SplitStdin`): the stream is still re-assembled exactly. -/
theorem C07_reassemble_writes (c : Cfg) (p : Path) (hbuf : 0 < p.bufSize)
    (hfit : p.bufSize + p.hdr + c.overhead ≤ frameCap c p) (writes : List Bytes) :
    receive c p (sendPieces c p 0 (writes.flatMap (chunks p.bufSize))) = some writes.flatten := by
  rw [C07_reassemble_pieces c p _ 0 hfit
    (fun x hx => by
      rcases List.mem_flatMap.mp hx with ⟨w, _, hw⟩
      exact (chunks_mem w x hw).1)]
  congr 1
  induction writes with
  | nil => rfl
  | cons w ws ih =>
    rw [List.flatMap_cons, List.flatten_append, ih, List.flatten_cons, chunks_flatten hbuf]

theorem C07_tcp_writes (writes : List Bytes) :
    receive cfg tcp (sendPieces cfg tcp 0 (writes.flatMap (chunks tcp.bufSize))) = some writes.flatten :=
  C07_reassemble_writes cfg tcp (by decide) (by decide) writes

theorem C07_shin_messages (msgs : List Bytes) :
    receive cfg shin (sendPieces cfg shin 0 (msgs.flatMap (chunks shin.bufSize))) = some msgs.flatten :=
  C07_reassemble_writes cfg shin (by decide) (by decide) msgs

example : ([[1, 2], [], [3]] : List Bytes).flatten = [1, 2, 3] := rfl

/-! ## hypotheses are satisfiable; the defect that was repaired -/

/-- the premise of `C07_reassemble` holds for a concrete non-trivial path … -/
example : (0 : Nat) < shout.bufSize ∧ shout.bufSize + shout.hdr + cfg.overhead ≤ frameCap cfg shout := by decide
/-- … and `C07_holds` is not vacuous: a 3-byte write on the shell path is one 32-byte frame. -/
example : (send ⟨16384, 28, 16384⟩ ⟨16355, 1, true⟩ [7, 8, 9]).map (lf ⟨16384, 28, 16384⟩) = [(32, true)] := by
  rw [C07_send_lens]
  simp only [List.length_cons, List.length_nil]
  rw [chunkLens_single (by omega) (by omega)]
  simp only [sendLF, framesLF, if_true]
  rw [chunkLens_single (by omega) (by omega)]
  simp [gateLF]

/-- Shell stdin before the repair (no `SplitStdin`): a STDIN message larger than one frame was
    handed to `Frame.Encode` whole, refused, and the session closed; nothing of it arrived. -/
theorem C07_old_shell_stdin_refuted (n : Nat) (hn : 16355 < n) :
    receive ⟨16384, 28, 16384⟩ ⟨n, 1, false⟩ (sendPieces ⟨16384, 28, 16384⟩ ⟨n, 1, false⟩ 0 [List.replicate n 0])
      ≠ some (List.replicate n 0) := by
  have hne : (List.replicate n (0 : UInt8)) ≠ [] := by
    intro h; have := congrArg List.length h; simp at this; omega
  have hlen : (hdrOf ⟨n, 1, false⟩ ++ List.replicate n (0 : UInt8)).length + 28 = n + 29 := by
    simp [hdrOf]
  have hg : gate 16384 [(⟨⟨0, hdrOf ⟨n, 1, false⟩ ++ List.replicate n 0⟩, 0, n + 29⟩ : Frame)] = ([], false) := by
    simp only [gate]; rw [if_neg (by omega)]
  simp only [sendPieces, framesOf, Bool.false_eq_true, if_false, Sealed.length, hlen, hg, receive]
  intro h; injection h with h; exact hne h.symm

/-- The shell output paths before the repair (`buf := make([]byte, 16*1024)`): a read that fills
    the buffer is sealed into a 16 413-byte ciphertext, sliced 16384 + 29, and cannot be opened. -/
theorem C07_old_shell_buffer_refuted :
    ¬ C07_holds ⟨16384, 28, 16384⟩ ⟨16384, 1, true⟩ := by
  intro h
  obtain ⟨b, _, hb⟩ := C07_premise_necessary ⟨16384, 28, 16384⟩ ⟨16384, 1, true⟩ rfl (by decide) (by decide)
  exact hb (h b).1

end MM.C07
