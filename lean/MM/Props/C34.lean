import MM.Lemmas.C34

/-!
  C34 — persistent agent state survives a crash at any point.

  `Reachable d s`: `s` is a data-directory state that process kills can produce, starting from
  an empty directory, at ANY point (call boundary or inside a `WriteFile`) of ANY sequence of
  agent starts (identity + keypair creation/recovery), sleep-state saves and explicit-id
  stores, each possibly killed and followed by further ones.  `derive` (public key of a
  private key) is an arbitrary function.

  The theorems are about the code after fixes/C34-keypair-rederive-pub.patch and
  fixes/C34-sleep-state-atomic.patch; `C34_old_*` keep the machine-checked witnesses of the
  two defects of the code before them.
-/
namespace MM.C34

inductive Reachable (d : Nat → Nat) : FS → Prop where
  | empty : Reachable d {}
  | crash (s s' : FS) (a : Action) : Reachable d s → s' ∈ crashStates s (actionOps d s a) → Reachable d s'

theorem reachable_good (d : Nat → Nat) (s : FS) (h : Reachable d s) : good d s = true := by
  induction h with
  | empty => rfl
  | crash s s' a _ hs' ih => exact good_preserved d s ih a s' hs'

/-- The run that is not killed is one of the crash states (so `Reachable` also contains every
    state after completed actions). -/
theorem applyAll_mem_crashStates (ops : List Op) : ∀ s, applyAll s ops ∈ crashStates s ops := by
  induction ops with
  | nil => intro s; simp [applyAll, crashStates]
  | cons op r ih => intro s; simp [applyAll, crashStates, ih]

/-- **The next start succeeds from every crash state.** -/
theorem C34_start_succeeds (d : Nat → Nat) (s : FS) (h : Reachable d s) (fi fk : Nat) :
    ∃ r, (start d s fi fk).1 = some r :=
  good_start d s (reachable_good d s h) fi fk

/-- Local form: whatever the process was doing in a good state when it was killed. -/
theorem C34_start_succeeds_after_crash (d : Nat → Nat) (s : FS) (hg : good d s = true) (a : Action)
    (s' : FS) (hs' : s' ∈ crashStates s (actionOps d s a)) (fi fk : Nat) :
    ∃ r, (start d s' fi fk).1 = some r :=
  good_start d s' (good_preserved d s hg a s' hs') fi fk

/-- **The identity is consistent**: the public key a start returns is the one derived from the
    private key it returns (in every state, reachable or not), and once the start has run to
    completion the directory holds exactly that identity. -/
theorem C34_identity_consistent (d : Nat → Nat) (s : FS) (fi fk : Nat) (r : Started)
    (h : (start d s fi fk).1 = some r) : r.pub = d r.priv :=
  start_pub d s fi fk r h

theorem C34_identity_stored (d : Nat → Nat) (s : FS) (hg : good d s = true) (fi fk : Nat) (r : Started)
    (h : (start d s fi fk).1 = some r) :
    let t := applyAll s (start d s fi fk).2
    t.id = some (.whole r.id) ∧ t.key = some (.whole r.priv) ∧ t.pub = some (.whole (d r.priv)) := by
  obtain ⟨dir, id, idT, key, keyT, pub, pubT, sl, slT⟩ := s
  rcases id with _ | (_|_|_) <;> rcases key with _ | (_|_|_) <;> rcases pub with _ | (_|_|_) <;>
    simp_all [good, start, startId, startKey, parseHex, applyAll, apply, FS.get, FS.set, storeIdOps, storeKeyOps] <;>
    subst h <;> simp

/-- **A private key that reached its final name is never replaced**: in every state a kill can
    leave — during a start, a save, an id store — the file still holds it and the next start
    loads it. -/
theorem C34_never_replaced (d : Nat → Nat) (s : FS) (hg : good d s = true) (k : Nat)
    (hk : s.key = some (.whole k)) (a : Action) (s' : FS)
    (hs' : s' ∈ crashStates s (actionOps d s a)) (fi fk : Nat) :
    s'.key = some (.whole k) ∧ ∃ r, (start d s' fi fk).1 = some r ∧ r.priv = k := by
  obtain ⟨t, ht, e⟩ := crash_obs _ s s' (actionOps_tmpOnly d s a) hs'
  have hkt := key_prefix d s hg k hk a t ht
  have hks' : s'.key = some (.whole k) := by
    have := congrArg Obs.key e
    simpa [FS.obs, hkt] using this
  refine ⟨hks', ?_⟩
  have hg' := good_preserved d s hg a s' hs'
  obtain ⟨r, hr⟩ := good_start d s' hg' fi fk
  refine ⟨r, hr, ?_⟩
  obtain ⟨dir, id, idT, key, keyT, pub, pubT, sl, slT⟩ := s'
  simp only at hks'
  subst hks'
  rcases id with _ | (_|_|_) <;> rcases pub with _ | (_|_|_) <;>
    simp_all [good, start, startId, startKey, parseHex] <;> subst hr <;> rfl

/-- Same for the agent id (a start with an explicit id in the configuration stores that id on
    purpose, hence the exclusion). -/
theorem C34_id_never_replaced (d : Nat → Nat) (s : FS) (hg : good d s = true) (v : Nat)
    (hv : s.id = some (.whole v)) (a : Action) (ha : ∀ v', a ≠ .storeId v') (s' : FS)
    (hs' : s' ∈ crashStates s (actionOps d s a)) (fi fk : Nat) :
    s'.id = some (.whole v) ∧ ∃ r, (start d s' fi fk).1 = some r ∧ r.id = v := by
  obtain ⟨t, ht, e⟩ := crash_obs _ s s' (actionOps_tmpOnly d s a) hs'
  have hvt := id_prefix d s hg v hv a ha t ht
  have hvs' : s'.id = some (.whole v) := by
    have := congrArg Obs.id e
    simpa [FS.obs, hvt] using this
  refine ⟨hvs', ?_⟩
  have hg' := good_preserved d s hg a s' hs'
  obtain ⟨r, hr⟩ := good_start d s' hg' fi fk
  refine ⟨r, hr, ?_⟩
  obtain ⟨dir, id, idT, key, keyT, pub, pubT, sl, slT⟩ := s'
  simp only at hvs'
  subst hvs'
  rcases key with _ | (_|_|_) <;> rcases pub with _ | (_|_|_) <;>
    simp_all [good, start, startId, startKey, parseHex] <;> subst hr <;> rfl

/-- **Sleep state is the before- or the after-value** of an interrupted save ... -/
theorem C34_sleep_before_or_after (s : FS) (w : Nat) (s' : FS)
    (hs' : s' ∈ crashStates s (persistOps s w)) :
    loadSleep s' = loadSleep s ∨ loadSleep s' = some w := by
  obtain ⟨t, ht, e⟩ := crash_obs _ s s' (persistOps_tmpOnly s w) hs'
  rw [loadSleep_congr e]
  exact sleep_prefix_persist s w t ht

/-- ... and is untouched by a kill during anything else. -/
theorem C34_sleep_untouched (d : Nat → Nat) (s : FS) (hg : good d s = true) (a : Action)
    (ha : ∀ w, a ≠ .persist w) (s' : FS) (hs' : s' ∈ crashStates s (actionOps d s a)) :
    loadSleep s' = loadSleep s := by
  obtain ⟨t, ht, e⟩ := crash_obs _ s s' (actionOps_tmpOnly d s a) hs'
  rw [loadSleep_congr e]
  exact sleep_prefix_other d s hg a ha t ht

/-- A completed save is loaded back. -/
theorem C34_sleep_saved (s : FS) (hd : s.dir = true) (w : Nat) :
    loadSleep (applyAll s (persistOps s w)) = some w := by
  obtain ⟨dir, id, idT, key, keyT, pub, pubT, sl, slT⟩ := s
  simp only at hd
  subst hd
  simp [persistOps, applyAll, apply, FS.get, FS.set, loadSleep, parseSleep]

/-! ### Non-vacuity: the hypotheses are met by interesting states -/

/-- Killed between the two renames of `Keypair.Store` during the very first start: the private
    key is there, the public key is not.  Reachable; the next start keeps key 7. -/
example : Reachable (fun n => n + 100) { dir := true, id := some (.whole 1), key := some (.whole 7) } :=
  .crash {} _ (.start 1 7) .empty (by decide)

example : (start (fun n => n + 100) { dir := true, id := some (.whole 1), key := some (.whole 7) } 2 8).1
    = some ⟨1, 7, 107, none⟩ := by decide

/-- Killed inside the write of the temp file of a sleep-state save. -/
example : ({ dir := true, sl := some (.whole 5), slT := some (.cut 9 3) } : FS) ∈
    crashStates { dir := true, sl := some (.whole 5) } (persistOps { dir := true, sl := some (.whole 5) } 9) := by
  decide

/-! ### Witnesses of the two defects of the code before the fixes -/

/-- Before the fix, the state "private key stored, public key not yet" — which a kill between
    the two renames of `Keypair.Store` leaves — made the next start generate a NEW key pair:
    stored private key 7 is replaced by 8. -/
theorem C34_old_key_replaced :
    let d := fun n => n + 100
    let s1 : FS := { dir := true, id := some (.whole 1), key := some (.whole 7) }
    s1 ∈ crashStates {} (startOld d {} 1 7).2 ∧
    (startOld d s1 2 8).1 = some ⟨1, 8, 108, none⟩ ∧
    (applyAll s1 (startOld d s1 2 8).2).key = some (.whole 8) := by
  decide

/-- Before the fix, a kill between the truncate and the write of the in-place `WriteFile` left
    an empty state file: the agent had saved 5, was saving 9, and loads neither. -/
theorem C34_old_sleep_torn :
    let s : FS := { dir := true, sl := some (.whole 5) }
    let s' : FS := { dir := true, sl := some (.cut 9 0) }
    s' ∈ crashStates s (persistOpsOld s 9) ∧ loadSleep s' ≠ loadSleep s ∧ loadSleep s' ≠ some 9 := by
  decide

end MM.C34
