import MM.Lemmas.C11

/-
  C12 — flooding converges to valid forwarding paths.

  Model = MM/Model/C11.lean (links are only ever added: "stable topology").  Proved for every
  topology, every schedule and every history, third-party replays included:

  * `C12_path_is_chain`       every learned route's next hop is a current neighbour and the head of
                              its recorded path; consecutive agents of the path are linked; the path
                              ends at the origin.
  * `C12_open_reaches_origin` the STREAM_OPEN walk of `Agent.handleStreamOpen` along such a path
                              (structural recursion on the path) ends at the advertising agent.
  * `C12_holds`               both, for every stored route of every reachable state.

  Convergence ("every agent learns every route") needs reliable delivery as a fairness hypothesis
  and fresh sequence numbers (see C14): it is proved in MM/Props/C12Conv.lean (`C12_converges`,
  `C12_converges_run`) and exercised on the real code by the clean cases of engine c12, which end
  with `dump converged` (executable statement: `convergeChecks`).
-/
namespace MM.C12
open MM.C11

/-! ### following a chain -/

theorem chainOK_mono {lk lk' : Node → Node → Bool} (h : ∀ a b, lk a b = true → lk' a b = true) :
    ∀ (cur : Node) (p : List Node), chainOK lk cur p = true → chainOK lk' cur p = true := by
  intro cur p
  induction p generalizing cur with
  | nil => intro _; rfl
  | cons y rest ih =>
    simp only [chainOK, Bool.and_eq_true]
    intro hc
    exact ⟨h _ _ hc.1, ih y hc.2⟩

/-- The walk of `handleStreamOpen` along a chain of links ends at the last agent of the path. -/
theorem openWalk_chain (lk : Node → Node → Bool) :
    ∀ (p : List Node) (cur o : Node), chainOK lk cur p = true → (cur :: p).getLast? = some o →
      openWalk lk cur p = some o := by
  intro p
  induction p with
  | nil =>
    intro cur o _ hl
    simp only [List.getLast?_singleton, Option.some.injEq] at hl
    simp [openWalk, hl]
  | cons y rest ih =>
    intro cur o hc hl
    simp only [chainOK, Bool.and_eq_true] at hc
    rw [List.getLast?_cons_cons] at hl
    unfold openWalk
    by_cases hx : rest = [] ∧ y = cur
    · rw [if_pos hx]
      obtain ⟨h1, h2⟩ := hx
      subst h1
      simp only [List.getLast?_singleton, Option.some.injEq] at hl
      rw [← hl, h2]
    · rw [if_neg hx, if_pos hc.1]
      exact ih y o hc.2 hl

/-- What C12 asks of a learned route `e` stored at `x`. -/
def EntryOK (s : Net) (x : Node) (e : Entry) : Prop :=
  e.path.head? = some e.nextHop ∧ chainOK (linked s) x e.path = true ∧ e.path.getLast? = some e.origin

theorem C12_open_reaches_origin (s : Net) (x : Node) (e : Entry) (h : EntryOK s x e) :
    openRoute (linked s) x e = some e.origin := by
  obtain ⟨hh, hc, hl⟩ := h
  cases hp : e.path with
  | nil => rw [hp] at hh; cases hh
  | cons nh tail =>
    rw [hp] at hh hc hl
    simp only [List.head?_cons, Option.some.injEq] at hh
    simp only [chainOK, Bool.and_eq_true] at hc
    unfold openRoute
    rw [hp, ← hh, if_pos hc.1]
    exact openWalk_chain _ tail nh e.origin hc.2 hl

/-! ### the invariant -/

def FrameOK (s : Net) (f : Flight) : Prop :=
  ∃ rest, f.adv.path = f.src :: rest ∧ chainOK (linked s) f.src rest = true ∧
    (f.src :: rest).getLast? = some f.adv.origin

structure Inv (s : Net) : Prop where
  sym : ∀ a b, linked s a b = true → linked s b a = true
  flight : ∀ f, f ∈ s.flight → linked s f.src f.dst = true ∧
    (f.adv.wd = false → f.adv.routes ≠ [] → FrameOK s f)
  entries : ∀ x e, e ∈ (s.nodes x).entries →
    (e.origin ≠ x → e.path ≠ []) ∧ (e.path ≠ [] → EntryOK s x e)

theorem inv_init (n mh : Nat) (L : Node → List RAd) : Inv (init n mh L) where
  sym := by intro a b h; simp [linked, init] at h
  flight := by intro f hf; simp [init] at hf
  entries := by
    intro x e he
    have hl := initNode_entries x (L x) e he
    exact ⟨fun h => absurd hl.2.1 h, fun h => absurd hl.1 h⟩

theorem sym_step {s : Net} {op : Op} (h : ∀ a b, linked s a b = true → linked s b a = true) :
    ∀ a b, linked (step s op) a b = true → linked (step s op) b a = true := by
  intro a b hab
  by_cases hc : ∃ c d, op = .connect c d
  · obtain ⟨c, d, rfl⟩ := hc
    simp only [step, stepCore] at hab ⊢
    split at hab
    · rename_i hcd
      rw [if_pos hcd]
      simp only [linked, List.contains_eq_mem, List.mem_append, decide_eq_true_eq, tick_links] at hab ⊢ h
      have hs : ∀ u v, (u, v) ∈ s.links → (v, u) ∈ s.links := fun u v huv => by
        have := h u v (by simpa [linked] using huv)
        simpa [linked] using this
      rcases hab with (hab | hab) | hab
      · split at hab
        · cases hab
        · simp only [List.mem_singleton, Prod.mk.injEq] at hab
          obtain ⟨rfl, rfl⟩ := hab
          by_cases hba : (b, a) ∈ s.links
          · exact Or.inr hba
          · exact Or.inl (Or.inr (by simp [hba]))
      · split at hab
        · cases hab
        · simp only [List.mem_singleton, Prod.mk.injEq] at hab
          obtain ⟨rfl, rfl⟩ := hab
          by_cases hba : (b, a) ∈ s.links
          · exact Or.inr hba
          · exact Or.inl (Or.inl (by simp [hba]))
      · exact Or.inr (hs a b hab)
    · rename_i hcd
      rw [if_neg hcd]
      exact h a b hab
  · have hne : ∀ c d, op ≠ .connect c d := fun c d h' => hc ⟨c, d, h'⟩
    have hl : (step s op).links = s.links := links_stepCore_eq (tick s) op hne
    simp only [linked, hl] at hab ⊢
    exact h a b hab

theorem frameOK_mono {s : Net} {op : Op} {f : Flight} (h : FrameOK s f) : FrameOK (step s op) f := by
  obtain ⟨rest, h1, h2, h3⟩ := h
  exact ⟨rest, h1, chainOK_mono (fun a b => linked_step) _ _ h2, h3⟩

theorem inv_step {s : Net} {op : Op} (hI : Inv s) : Inv (step s op) where
  sym := sym_step hI.sym
  flight := by
    intro f hf
    cases flight_step hf with
    | old h =>
      exact ⟨linked_step (hI.flight f h).1, fun hw hr => frameOK_mono ((hI.flight f h).2 hw hr)⟩
    | ann hop ha hd hadv =>
      refine ⟨linked_step (mem_peersOf hd).1, fun _ _ => ⟨[], ?_, rfl, ?_⟩⟩
      · rw [hadv]; rfl
      · rw [hadv]; rfl
    | wdr hop ha hcidr hd hadv =>
      refine ⟨linked_step (mem_peersOf hd).1, fun hw => ?_⟩
      rw [hadv] at hw; simp [withdrawAdv] at hw
    | fwd a m hm hl ha hb hd hne hns hself hseen hsb hlim hadv =>
      refine ⟨linked_step (mem_peersOf hd).1, fun hw hr => ?_⟩
      have hw' : m.wd = false := by rw [hadv, fwdAdv_wd] at hw; exact hw
      have hr' : m.routes ≠ [] := by
        intro h0; apply hr; rw [hadv, fwdAdv_routes hw']; simp [h0]
      obtain ⟨rest, h1, h2, h3⟩ := (hI.flight _ hm).2 hw' hr'
      simp only at h1 h2 h3
      refine ⟨a :: rest, by rw [hadv, fwdAdv_path hw', h1], ?_, ?_⟩
      · simp only [chainOK, Bool.and_eq_true]
        exact ⟨linked_step (hI.sym _ _ hl), chainOK_mono (fun a b => linked_step) _ _ h2⟩
      · rw [List.getLast?_cons_cons, hadv, fwdAdv_origin]; exact h3
    | rep ord hop ha hb hl hadv =>
      refine ⟨linked_step hl, fun _ hr => ?_⟩
      obtain ⟨o, sq, _, _, hm⟩ := mem_replayAdvs hadv
      rcases replayGroup_cases f.src f.dst ((tick s).nodes f.src) o sq with
        ⟨e, he, heo, _, hne, hp⟩ | ⟨hp, hnil⟩
      · obtain ⟨_, hc, hlast⟩ := (hI.entries _ e he).2 hne
        refine ⟨e.path, by rw [hm]; exact hp, chainOK_mono (fun a b => linked_step) _ _ hc, ?_⟩
        rw [hm]
        cases hpe : e.path with
        | nil => exact absurd hpe hne
        | cons y t =>
          rw [List.getLast?_cons_cons, ← hpe, hlast, heo]; rfl
      · have ho : o = f.src := by
          apply Classical.byContradiction
          intro hne
          apply hr
          rw [hm]
          apply hnil
          intro e he heo
          exact (hI.entries _ e he).1 (by rw [heo]; exact hne)
        exact ⟨[], by rw [hm]; exact hp, rfl, by rw [hm, ← ho]; rfl⟩
  entries := by
    intro x e he
    rcases entries_step he with h | ⟨a, m, hm, hl, _, _, hwd, _, _, r, hr, rfl⟩
    · obtain ⟨h1, h2⟩ := hI.entries x e h
      refine ⟨h1, fun hne => ?_⟩
      obtain ⟨g1, g2, g3⟩ := h2 hne
      exact ⟨g1, chainOK_mono (fun a b => linked_step) _ _ g2, g3⟩
    · have hr' : m.routes ≠ [] := by intro h0; rw [h0] at hr; cases hr
      obtain ⟨rest, h1, h2, h3⟩ := (hI.flight _ hm).2 hwd hr'
      simp only at h1 h2 h3
      have hpath : (mkEntry r m a (tick s).clock).path = a :: rest := h1
      refine ⟨fun _ => by rw [hpath]; simp, fun _ => ⟨?_, ?_, ?_⟩⟩
      · rw [hpath]; rfl
      · rw [hpath]
        simp only [chainOK, Bool.and_eq_true]
        exact ⟨linked_step (hI.sym _ _ hl), chainOK_mono (fun a b => linked_step) _ _ h2⟩
      · rw [hpath]; exact h3

/-- C12 (paths): in every reachable state every learned route's next hop is a current neighbour
    and the head of its path, the path is a chain of actual links ending at the origin, and a stream
    opened along it reaches the advertising agent. -/
def C12_statement : Prop :=
  ∀ (n mh : Nat) (L : Node → List RAd) (ops : List Op) (x : Node) (e : Entry),
    e ∈ ((run (init n mh L) ops).nodes x).entries → e.path ≠ [] →
    linked (run (init n mh L) ops) x e.nextHop = true ∧
    EntryOK (run (init n mh L) ops) x e ∧
    openRoute (linked (run (init n mh L) ops)) x e = some e.origin

theorem C12_path_is_chain (n mh : Nat) (L : Node → List RAd) (ops : List Op) (x : Node) (e : Entry)
    (he : e ∈ ((run (init n mh L) ops).nodes x).entries) (hp : e.path ≠ []) :
    EntryOK (run (init n mh L) ops) x e :=
  ((run_induction (P := Inv) _ ops (inv_init n mh L) (fun _ _ h => inv_step h)).entries x e he).2 hp

theorem C12_holds : C12_statement := by
  intro n mh L ops x e he hp
  have hok := C12_path_is_chain n mh L ops x e he hp
  refine ⟨?_, hok, C12_open_reaches_origin _ x e hok⟩
  obtain ⟨hh, hc, _⟩ := hok
  cases hpe : e.path with
  | nil => exact absurd hpe hp
  | cons y t =>
    rw [hpe] at hh hc
    simp only [List.head?_cons, Option.some.injEq] at hh
    simp only [chainOK, Bool.and_eq_true] at hc
    rw [← hh]; exact hc.1

/-- Non-vacuity: after a flood over the chain 0-1-2-3 agent 3 holds the route of agent 0 with path
    2-1-0, and the open walk from 3 arrives at agent 0. The ring history of C11 (third-party replay,
    path 0-2-1-0-3 that revisits agent 0) is covered too: the walk still ends at the origin. -/
def exitAt0 : Node → List RAd := fun x => if x = 0 then [⟨0, 1, 0⟩] else []

def chainOps : List Op := [
  .connect 0 1, .connect 1 2, .connect 2 3, .announce 0, .deliver 0 1 0, .deliver 1 2 0, .deliver 2 3 0]

example : (((run (init 4 0 exitAt0) chainOps).nodes 3).entries.map
    (fun e => (e.path, openRoute (linked (run (init 4 0 exitAt0) chainOps)) 3 e))) =
    [([2, 1, 0], some 0), ([2, 1, 0], some 0)] := by decide

end MM.C12
