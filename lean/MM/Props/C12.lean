import MM.Lemmas.C11

/-
  C12 — flooding converges to valid forwarding paths.

  Model = MM/Model/C11.lean (links are only ever added: "stable topology").  Proved for every
  topology, every schedule and every history, third-party replays included:

  * `C12_path_is_chain`       every learned route's next hop is a current neighbour and the head of
                              its recorded path; consecutive agents of the path are linked; the path
                              ends at the origin.
  * `C12_open_reaches_origin` the STREAM_OPEN walk of `Agent.handleStreamOpen` along such a path
                              (structural recursion on the path) ends at the advertising agent.
  * `C12_holds`               both, for every stored route of every reachable state.

  Convergence ("every agent learns every route") needs reliable delivery as a fairness hypothesis
  and fresh sequence numbers (see C14): it is proved in MM/Props/C12Conv.lean (`C12_converges`,
  `C12_converges_run`) and exercised on the real code by the clean cases of engine c12, which end
  with `dump converged` (executable statement: `convergeChecks`).
-/
namespace MM.C12
open MM.C11

/-! ### following a chain -/

theorem chainOK_mono {lk lk' : Node → Node → Bool} (h : ∀ a b, lk a b = true → lk' a b = true) :
    ∀ (cur : Node) (p : List Node), chainOK lk cur p = true → chainOK lk' cur p = true := by
  intro cur p
  induction p generalizing cur with
  | nil => intro _; rfl
  | cons y rest ih =>
    simp only [chainOK, Bool.and_eq_true]
    intro hc
    exact ⟨h _ _ hc.1, ih y hc.2⟩

/-- The walk of `handleStreamOpen` along a chain of links ends at the last agent of the path. -/
theorem openWalk_chain (lk : Node → Node → Bool) :
    ∀ (p : List Node) (cur o : Node), chainOK lk cur p = true → (cur :: p).getLast? = some o →
      openWalk lk cur p = some o := by
  intro p
  induction p with
  | nil =>
    intro cur o _ hl
    simp only [List.getLast?_singleton, Option.some.injEq] at hl
    simp [openWalk, hl]
  | cons y rest ih =>
    intro cur o hc hl
    simp only [chainOK, Bool.and_eq_true] at hc
    rw [List.getLast?_cons_cons] at hl
    unfold openWalk
    by_cases hx : rest = [] ∧ y = cur
    · rw [if_pos hx]
      obtain ⟨h1, h2⟩ := hx
      subst h1
      simp only [List.getLast?_singleton, Option.some.injEq] at hl
      rw [← hl, h2]
    · rw [if_neg hx, if_pos hc.1]
      exact ih y o hc.2 hl

/-- What C12 asks of a learned route `e` stored at `x`. -/
def EntryOK (s : Net) (x : Node) (e : Entry) : Prop :=
  e.path.head? = some e.nextHop ∧ chainOK (linked s) x e.path = true ∧ e.path.getLast? = some e.origin

theorem C12_open_reaches_origin (s : Net) (x : Node) (e : Entry) (h : EntryOK s x e) :
    openRoute (linked s) x e = some e.origin := by
  obtain ⟨hh, hc, hl⟩ := h
  cases hp : e.path with
  | nil => rw [hp] at hh; cases hh
  | cons nh tail =>
    rw [hp] at hh hc hl
    simp only [List.head?_cons, Option.some.injEq] at hh
    simp only [chainOK, Bool.and_eq_true] at hc
    unfold openRoute
    rw [hp, ← hh, if_pos hc.1]
    exact openWalk_chain _ tail nh e.origin hc.2 hl

/-! ### the invariant -/

def FrameOK (s : Net) (f : Flight) : Prop :=
  ∃ rest, f.adv.path = f.src :: rest ∧ chainOK (linked s) f.src rest = true ∧
    (f.src :: rest).getLast? = some f.adv.origin

structure Inv (s : Net) : Prop where
  sym : ∀ a b, linked s a b = true → linked s b a = true
  flight : ∀ f, f ∈ s.flight → linked s f.src f.dst = true ∧
    (f.adv.wd = false → f.adv.routes ≠ [] → FrameOK s f)
  entries : ∀ x e, e ∈ (s.nodes x).entries →
    (e.origin ≠ x → e.path ≠ []) ∧ (e.path ≠ [] → EntryOK s x e)

theorem inv_init (n mh : Nat) (L : Node → List RAd) : Inv (init n mh L) where
  sym := by intro a b h; simp [linked, init, initH] at h
  flight := by intro f hf; simp [init, initH] at hf
  entries := by
    intro x e he
    have hl := initNode_entries x (L x) e he
    exact ⟨fun h => absurd hl.2.1 h, fun h => absurd hl.1 h⟩

theorem sym_step {s : Net} {op : Op} (hnd : ∀ c d, op ≠ .disconnect c d)
    (h : ∀ a b, linked s a b = true → linked s b a = true) :
    ∀ a b, linked (step s op) a b = true → linked (step s op) b a = true := by
  intro a b hab
  by_cases hc : ∃ c d, op = .connect c d
  · obtain ⟨c, d, rfl⟩ := hc
    simp only [step, stepCore] at hab ⊢
    split at hab
    · rename_i hcd
      rw [if_pos hcd]
      simp only [linked, List.contains_eq_mem, List.mem_append, decide_eq_true_eq, tick_links] at hab ⊢ h
      have hs : ∀ u v, (u, v) ∈ s.links → (v, u) ∈ s.links := fun u v huv => by
        have := h u v (by simpa [linked] using huv)
        simpa [linked] using this
      rcases hab with (hab | hab) | hab
      · split at hab
        · cases hab
        · simp only [List.mem_singleton, Prod.mk.injEq] at hab
          obtain ⟨rfl, rfl⟩ := hab
          by_cases hba : (b, a) ∈ s.links
          · exact Or.inr hba
          · exact Or.inl (Or.inr (by simp [hba]))
      · split at hab
        · cases hab
        · simp only [List.mem_singleton, Prod.mk.injEq] at hab
          obtain ⟨rfl, rfl⟩ := hab
          by_cases hba : (b, a) ∈ s.links
          · exact Or.inr hba
          · exact Or.inl (Or.inl (by simp [hba]))
      · exact Or.inr (hs a b hab)
    · rename_i hcd
      rw [if_neg hcd]
      exact h a b hab
  · have hne : ∀ c d, op ≠ .connect c d := fun c d h' => hc ⟨c, d, h'⟩
    have hl : (step s op).links = s.links := links_stepCore_eq (tick s) op hne hnd
    simp only [linked, hl] at hab ⊢
    exact h a b hab

theorem frameOK_mono {s : Net} {op : Op} {f : Flight} (hnd : ∀ c d, op ≠ .disconnect c d)
    (h : FrameOK s f) : FrameOK (step s op) f := by
  obtain ⟨rest, h1, h2, h3⟩ := h
  exact ⟨rest, h1, chainOK_mono (fun a b => linked_step hnd) _ _ h2, h3⟩

/-- Stable topology: the invariant is kept by every op except the loss of a connection. -/
theorem inv_step {s : Net} {op : Op} (hnd : ∀ c d, op ≠ .disconnect c d) (hI : Inv s) : Inv (step s op) where
  sym := sym_step hnd hI.sym
  flight := by
    intro f hf
    cases flight_step hf with
    | old h =>
      exact ⟨linked_step hnd (hI.flight f h).1, fun hw hr => frameOK_mono hnd ((hI.flight f h).2 hw hr)⟩
    | ann hint hop ha hd hadv =>
      have h := mem_announceAdvs hadv
      exact ⟨linked_step hnd (mem_peersOf hd).1, fun _ _ => ⟨[], h.path, rfl, by rw [h.origin]; rfl⟩⟩
    | wdr hint hop ha hcidr hd hadv =>
      refine ⟨linked_step hnd (mem_peersOf hd).1, fun hw => ?_⟩
      rw [(mem_withdrawAdvs hadv).wd] at hw; cases hw
    | fwd a m hm hl ha hb hd hne hns hself hseen hsb hlim hwire hadv =>
      refine ⟨linked_step hnd (mem_peersOf hd).1, fun hw hr => ?_⟩
      have hw' : m.wd = false := by rw [hadv, fwdAdv_wd] at hw; exact hw
      have hr' : m.routes ≠ [] := by
        intro h0; apply hr; rw [hadv, fwdAdv_routes hw']; simp [h0]
      obtain ⟨rest, h1, h2, h3⟩ := (hI.flight _ hm).2 hw' hr'
      simp only at h1 h2 h3
      refine ⟨a :: rest, by rw [hadv, fwdAdv_path hw', h1], ?_, ?_⟩
      · simp only [chainOK, Bool.and_eq_true]
        exact ⟨linked_step hnd (hI.sym _ _ hl), chainOK_mono (fun a b => linked_step hnd) _ _ h2⟩
      · rw [List.getLast?_cons_cons, hadv, fwdAdv_origin]; exact h3
    | rep ord hop ha hb hl hadv =>
      refine ⟨linked_step hnd hl, fun _ hr => ?_⟩
      obtain ⟨p, hp, hcase⟩ := (mem_replayAdvs hadv).path
      rcases hcase with ⟨hp0, hnil⟩ | ⟨hpne, e, he, heo, _, hpe⟩
      · subst hp0
        have ho : f.adv.origin = f.src := by
          apply Classical.byContradiction
          intro hne
          apply hr
          apply hnil
          intro e he heo
          exact (hI.entries _ e he).1 (by rw [heo]; exact hne)
        exact ⟨[], hp, rfl, by rw [ho]; rfl⟩
      · have hne : e.path ≠ [] := by rw [hpe]; exact hpne
        obtain ⟨_, hc, hlast⟩ := (hI.entries _ e he).2 hne
        refine ⟨p, hp, ?_, ?_⟩
        · rw [← hpe]; exact chainOK_mono (fun a b => linked_step hnd) _ _ hc
        · cases hpp : p with
          | nil => exact absurd hpp hpne
          | cons y t =>
            rw [List.getLast?_cons_cons, ← hpp, ← hpe, hlast, heo]
  entries := by
    intro x e he
    rcases entries_step he with h | ⟨a, m, hm, hl, _, _, hwd, _, _, r, hr, rfl⟩
    · obtain ⟨h1, h2⟩ := hI.entries x e h
      refine ⟨h1, fun hne => ?_⟩
      obtain ⟨g1, g2, g3⟩ := h2 hne
      exact ⟨g1, chainOK_mono (fun a b => linked_step hnd) _ _ g2, g3⟩
    · have hr' : m.routes ≠ [] := by intro h0; rw [h0] at hr; cases hr
      obtain ⟨rest, h1, h2, h3⟩ := (hI.flight _ hm).2 hwd hr'
      simp only at h1 h2 h3
      have hpath : (mkEntry r m a (tick s).clock).path = a :: rest := h1
      refine ⟨fun _ => by rw [hpath]; simp, fun _ => ⟨?_, ?_, ?_⟩⟩
      · rw [hpath]; rfl
      · rw [hpath]
        simp only [chainOK, Bool.and_eq_true]
        exact ⟨linked_step hnd (hI.sym _ _ hl), chainOK_mono (fun a b => linked_step hnd) _ _ h2⟩
      · rw [hpath]; exact h3

/-- "Stable topology": no connection is lost during the history (links may still come up). When a
    connection IS lost, recorded paths through it stay until the origin's next announcement or the
    stale-route cleanup replaces them; that transient is outside the property's quantifier and is
    exercised by the differential run (engine c12, `disconnect` ops and the reroute cases). -/
def stableTopology (ops : List Op) : Prop := ∀ op, op ∈ ops → ∀ c d, op ≠ .disconnect c d

/-- C12 (paths): in every reachable state every learned route's next hop is a current neighbour
    and the head of its path, the path is a chain of actual links ending at the origin, and a stream
    opened along it reaches the advertising agent. -/
def C12_statement : Prop :=
  ∀ (n mh : Nat) (L : Node → List RAd) (ops : List Op), stableTopology ops →
    ∀ (x : Node) (e : Entry),
    e ∈ ((run (init n mh L) ops).nodes x).entries → e.path ≠ [] →
    linked (run (init n mh L) ops) x e.nextHop = true ∧
    EntryOK (run (init n mh L) ops) x e ∧
    openRoute (linked (run (init n mh L) ops)) x e = some e.origin

theorem C12_path_is_chain (n mh : Nat) (L : Node → List RAd) (ops : List Op)
    (hst : stableTopology ops) (x : Node) (e : Entry)
    (he : e ∈ ((run (init n mh L) ops).nodes x).entries) (hp : e.path ≠ []) :
    EntryOK (run (init n mh L) ops) x e :=
  ((run_induction_mem (P := Inv) _ ops (inv_init n mh L)
    (fun _ op hop h => inv_step (hst op hop) h)).entries x e he).2 hp

theorem C12_holds : C12_statement := by
  intro n mh L ops hst x e he hp
  have hok := C12_path_is_chain n mh L ops hst x e he hp
  refine ⟨?_, hok, C12_open_reaches_origin _ x e hok⟩
  obtain ⟨hh, hc, _⟩ := hok
  cases hpe : e.path with
  | nil => exact absurd hpe hp
  | cons y t =>
    rw [hpe] at hh hc
    simp only [List.head?_cons, Option.some.injEq] at hh
    simp only [chainOK, Bool.and_eq_true] at hc
    rw [← hh]; exact hc.1

/-- Non-vacuity: after a flood over the chain 0-1-2-3 agent 3 holds the route of agent 0 with path
    2-1-0, and the open walk from 3 arrives at agent 0. The ring history of C11 (third-party replay,
    path 0-2-1-0-3 that revisits agent 0) is covered too: the walk still ends at the origin. -/
def exitAt0 : Node → List RAd := fun x => if x = 0 then [⟨0, 1, 0⟩] else []

def chainOps : List Op := [
  .connect 0 1, .connect 1 2, .connect 2 3, .announce 0 [], .deliver 0 1 0, .deliver 1 2 0, .deliver 2 3 0]

example : (((run (init 4 0 exitAt0) chainOps).nodes 3).entries.map
    (fun e => (e.path, openRoute (linked (run (init 4 0 exitAt0) chainOps)) 3 e))) =
    [([2, 1, 0], some 0), ([2, 1, 0], some 0)] := by decide

end MM.C12
