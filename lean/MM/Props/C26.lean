/-
  C26 — File transfer and browsing stay inside the allowed paths.

  "Every file or directory that file transfer or remote browsing reads, writes, creates, lists,
   chmods or deletes lies inside the configured allowed paths, after symbolic links are resolved.
   With no allowed paths configured, nothing is touched."

  Model: MM/Model/C26.lean (validatePath and its helpers byte for byte, filepath.Clean / Match, and
  the filesystem calls of each operation on the filesystem model of MM/Model/C27.lean).

  The pinned code VIOLATES the statement (open finding C26-symlinked-path-component in
  known/C26.json): the path is validated lexically, the kernel resolves symbolic links.  Hence:
    * `C26_statement` is the full statement, `C26_refuted` its refutation from a concrete witness
      (a symbolic link as a PARENT component of a download);
    * what does hold: `C26_empty_allows_nothing` / `C26_empty_touches_nothing`, `C26_lexical`,
      `C26_prefix_componentwise`, `C26_glob_ancestor` (every accepted path is lexically inside an
      allowed pattern) and `C26_partial` (no symbolic link on the requested path ⇒ the operation
      touches exactly the validated path).
-/
import MM.Lemmas.C26

namespace MM.C26
open MM MM.C27

/-- With no allowed paths configured nothing passes validation. -/
theorem C26_empty_allows_nothing (nfc : Bytes → Bytes) (c : Cfg) (path : Bytes) (h : c.allowed = []) :
    validatePath nfc c path ≠ .ok := by
  unfold validatePath
  split
  · simp
  · dsimp only
    split
    · simp
    · split
      · simp
      · simp [h]

/-- A request either fails before anything is done, or passed validation and is dispatched. -/
theorem runOp_cases (x : Ctx) (nfc : Bytes → Bytes) (fu : Nat) (c : Cfg) (fs : FS) (op : Op) (path : Bytes) :
    (∃ e, runOp x nfc fu c fs op path = failR fs e) ∨
    (validatePath nfc c path = .ok ∧ runOp x nfc fu c fs op path = dispatch x nfc fu c fs op path) := by
  unfold runOp
  split
  · exact Or.inl ⟨_, rfl⟩
  · split
    · exact Or.inl ⟨_, rfl⟩
    · split
      · exact Or.inl ⟨_, rfl⟩
      · cases hv : validatePath nfc c path with
        | ok => exact Or.inr ⟨rfl, rfl⟩
        | dangerous => exact Or.inl ⟨_, rfl⟩
        | notAbs => exact Or.inl ⟨_, rfl⟩
        | traversal => exact Or.inl ⟨_, rfl⟩
        | emptyList => exact Or.inl ⟨_, rfl⟩
        | notAllowed => exact Or.inl ⟨_, rfl⟩

/-- … and therefore no operation touches anything or changes the filesystem. -/
theorem C26_empty_touches_nothing (x : Ctx) (nfc : Bytes → Bytes) (fu : Nat) (c : Cfg) (fs : FS) (op : Op)
    (path : Bytes) (h : c.allowed = []) :
    (runOp x nfc fu c fs op path).touched = [] ∧ (runOp x nfc fu c fs op path).fs = fs := by
  rcases runOp_cases x nfc fu c fs op path with ⟨e, he⟩ | ⟨hv, _⟩
  · rw [he]; exact ⟨rfl, rfl⟩
  · exact absurd hv (C26_empty_allows_nothing nfc c path h)

/-- What an accepted path satisfies, lexically. -/
theorem C26_lexical (nfc : Bytes → Bytes) (c : Cfg) (path : Bytes) (h : validatePath nfc c path = .ok) :
    dangerous path = false ∧ isAbs (normalize nfc path) = true ∧
    hasInfix [DOT, DOT] (normalize nfc path) = false ∧ c.allowed ≠ [] ∧
    ∃ pat ∈ c.allowed, pat = [0x2a] ∨ pathAllowed nfc (normalize nfc path) pat = true := by
  unfold validatePath at h
  split at h
  · cases h
  · rename_i hd
    dsimp only at h
    split at h
    · cases h
    · rename_i ha
      split at h
      · cases h
      · rename_i ht
        split at h
        · cases h
        · rename_i hl
          split at h
          · rename_i hany
            refine ⟨by simpa using hd, by simpa using ha, by simpa using ht, ?_, ?_⟩
            · intro he; apply hl; simp [he]
            · obtain ⟨pat, hm, hp⟩ := List.any_eq_true.mp hany
              refine ⟨pat, hm, ?_⟩
              rcases Bool.or_eq_true _ _ |>.mp hp with h1 | h1
              · exact Or.inl (by simpa using h1)
              · exact Or.inr h1
          · cases h

/-- Prefix-form patterns (a plain directory, or `dir/**`) are matched component-wise. -/
theorem C26_prefix_componentwise (nfc : Bytes → Bytes) (path pre : Bytes)
    (h : underPrefix nfc path pre = true) (hns : hasSuffix [SL] (normalize nfc pre) = false) :
    splitOn SL (normalize nfc pre) <+: splitOn SL (normalize nfc path) :=
  underPrefix_componentwise nfc path pre h hns

/-- A glob pattern accepts a path only if the path or one of its ancestors matches the glob. -/
theorem C26_glob_ancestor (nfc : Bytes → Bytes) (path pat : Bytes)
    (hg : globChars (normalize nfc pat) = true)
    (hs : hasSuffix [SL, 0x2a, 0x2a] (normalize nfc pat) = false)
    (h : pathAllowed nfc path pat = true) :
    ∃ k, matchOK (normalize nfc pat) (ancestor k path) = true := by
  unfold pathAllowed at h
  simp only [hs, Bool.false_eq_true, if_false, hg, if_true, Bool.or_eq_true] at h
  rcases h with h | h
  · exact ⟨0, h⟩
  · exact parentWalk_spec _ _ _ h

/-! ### the statement, its refutation -/

/-- physical path `q` is inside the configured allowed paths -/
def physAllowed (c : Cfg) (q : Path) : Prop := validatePath (fun b => b) c (strOfPath q) = .ok

def C26_statement : Prop :=
  ∀ (x : Ctx) (nfc : Bytes → Bytes) (fu : Nat) (c : Cfg) (fs : FS) (op : Op) (path : Bytes),
    ∀ q ∈ (runOp x nfc fu c fs op path).touched, physAllowed c q

/-- names: d = 356, l = 364, s = 371, k = 363 (`encName` of one-letter names) -/
def wFS : FS :=
  { ents := [([356], .dir), ([356, 364], .sym ⟨false, [0, 371]⟩), ([371], .dir), ([371, 363], .file 1)],
    data := [(1, 7)], next := 2 }
/-- allowed_paths = ["/d"] -/
def wCfg : Cfg := { enabled := true, allowed := [[0x2f, 0x64]] }
/-- "/d/l/k": lexically below /d; l -> ../s, so the kernel opens /s/k -/
def wPath : Bytes := [0x2f, 0x64, 0x2f, 0x6c, 0x2f, 0x6b]
/-- no password, no declared size; content sizes irrelevant (no size limit configured) -/
def wCtx : Ctx := { pwOK := fun _ _ => false, password := [], declSize := -1, sizeOf := fun _ => 0, trunc := fun c _ => c }

set_option maxRecDepth 20000 in
theorem C26_refuted : ¬ C26_statement := by
  intro h
  have h1 := h wCtx (fun b => b) 40 wCfg wFS .download wPath [371, 363] (by decide)
  revert h1
  unfold physAllowed
  decide

/-! ### what holds when no symbolic link lies on the requested path -/

/-- `q` is the requested path itself, or another name (hard link) of the same file -/
def touchedOK (fs : FS) (p q : Path) : Prop :=
  q = p ∨ ∃ i, fs.lookup p = some (.file i) ∧ (q, Kind.file i) ∈ fs.ents

theorem aliases_ok {fs : FS} {p q : Path} (h : q ∈ aliases fs p) : touchedOK fs p q := by
  unfold aliases at h
  split at h
  · rename_i i hl
    right
    refine ⟨i, hl, ?_⟩
    obtain ⟨e, he, hq⟩ := List.mem_map.mp h
    have hf := List.mem_filter.mp he
    have h2 : e.2 = .file i := by simpa using hf.2
    have : e = (q, Kind.file i) := by cases e; simp at hq h2; simp [hq, h2]
    rw [← this]; exact hf.1
  · left; simpa using h

/-- For a request whose path is already clean, has no ".." and no trailing slash, and none of
    whose components is a symbolic link, download / list / stat / chmod / non-recursive delete touch
    only the requested (validated) path, or hard links of it. -/
theorem C26_partial (x : Ctx) (nfc : Bytes → Bytes) (fu : Nat) (c : Cfg) (fs : FS) (op : Op) (path : Bytes)
    (hop : op = .download ∨ op = .list ∨ op = .stat ∨ op = .chmod ∨ op = .delete false)
    (hclean : clean path = path) (htr : trailingDir path = false)
    (hdd : NoDD (compsOf path)) (hclr : Clear fs (compsOf path) (compsOf path).length) :
    ∀ q ∈ (runOp x nfc fu c fs op path).touched, touchedOK fs (compsOf path) q := by
  have hcl1 : Clear fs (compsOf path) ((compsOf path).length - 1) := hclr.le (by omega)
  have hst : ∀ {q k}, stat fs fu (compsOf path) = .found q k → q = compsOf path :=
    fun h => (stat_found hdd hclr h).1
  have hls : ∀ {q k}, lstat fs fu (compsOf path) = .found q k → q = compsOf path :=
    fun h => (lstat_found hdd hcl1 h).1
  intro q hq
  rcases runOp_cases x nfc fu c fs op path with ⟨e, he⟩ | ⟨_, hd⟩
  · rw [he] at hq; simp [failR] at hq
  · rw [hd] at hq
    rcases hop with rfl | rfl | rfl | rfl | rfl
    · -- download
      obtain ⟨k, hs⟩ := opDownload_touched hq
      rw [hclean] at hs
      exact Or.inl (hst hs)
    · -- list
      obtain ⟨k, hs⟩ := opList_touched hq
      rw [hclean] at hs
      exact Or.inl (hst hs)
    · -- stat
      rcases opStat_touched hq with ⟨k, hs⟩ | ⟨k, hs⟩
      · rw [hclean] at hs; exact Or.inl (hst hs)
      · rw [hclean] at hs; exact Or.inl (hls hs)
    · -- chmod
      obtain ⟨q0, k, hs, hal⟩ := opChmod_touched hq
      rw [hclean] at hs
      rw [hst hs] at hal
      exact aliases_ok hal
    · -- delete, not recursive
      cases hl : lstat fs fu (compsOf (clean path)) with
      | found q0 k =>
        have hl' := hl
        rw [hclean] at hl'
        have hk : ∀ t, k ≠ .sym t := by
          intro t hk
          subst hk
          have hne : compsOf path ≠ [] := by
            intro he
            have := (lstat_found hdd hcl1 hl').2.2 he
            cases this
          have hlk := (lstat_found hdd hcl1 hl').2.1 hne
          have hpos := List.length_pos_iff.mpr hne
          have := hclr ((compsOf path).length - 1) (by omega) t
          have hlen : (compsOf path).length - 1 + 1 = (compsOf path).length := by omega
          rw [hlen, List.take_length] at this
          exact this hlk
        exact Or.inl ((opDelete_touched hl hk hq).trans (hls hl'))
      | missing par n => exact (opDelete_notfound (fun q0 k h => by rw [hl] at h; cases h) hq).elim
      | err => exact (opDelete_notfound (fun q0 k h => by rw [hl] at h; cases h) hq).elim

/-- the filesystem is a tree (the invariant of MM/Lemmas/C27.lean with the root as "destination") -/
abbrev Tree (fs : FS) : Prop := Inv [] fs

theorem rootRel (P : Path) : P <+: [] ∨ Under [] P := by
  by_cases h : P = []
  · left; rw [h]; exact List.prefix_refl _
  · right; exact ⟨List.nil_prefix, h⟩

/-- Upload of a file, same hypotheses (and the filesystem is a tree): what changes is the requested
    path itself (or hard links of it), plus parent directories of it that did not exist yet —
    prefixes of the requested path.  NOTE: those created ancestors need not lie inside the allowed
    paths themselves when the allowed path is deeper than the existing tree. -/
theorem C26_partial_upload (x : Ctx) (nfc : Bytes → Bytes) (fu : Nat) (c : Cfg) (fs : FS) (content : Nat)
    (path : Bytes) (hT : Tree fs) (hclean : clean path = path)
    (hdd : NoDD (compsOf path)) (hclr : Clear fs (compsOf path) (compsOf path).length) :
    ∀ q ∈ (runOp x nfc fu c fs (.upload content) path).touched,
      q <+: compsOf path ∨
      touchedOK (mkdirAll fs fu (compsOf path).dropLast).1 (compsOf path) q := by
  intro q hq
  rcases runOp_cases x nfc fu c fs (.upload content) path with ⟨e, he⟩ | ⟨_, hd⟩
  · rw [he] at hq; simp [failR] at hq
  · rw [hd] at hq
    unfold dispatch at hq
    have hcl1 : Clear fs (compsOf path) ((compsOf path).length - 1) := hclr.le (by omega)
    have hddP := nodd_dropLast hdd
    have hcP := clear_dropLast' hcl1
    have ⟨_, hN⟩ := safe_mkdirAll (fu := fu) hT hddP hcP (rootRel _)
    have hfr := mkdirAll_frame (fu := fu) hT hddP hcP (rootRel _)
    have hclr1 := hclr.mono hN
    rcases opUpload_touched hq with h | ⟨q0, i, hs, hal⟩ | ⟨par, n, hs, hqe⟩
    · rw [hclean] at h
      left
      apply Classical.byContradiction
      intro hnp
      have hnp' : ¬ q <+: (compsOf path).dropLast := fun hp => hnp (hp.trans (List.dropLast_prefix _))
      exact changedKeys_mem h (hfr q hnp')
    · rw [hclean] at hs hal
      have := (stat_found hdd hclr1 hs).1
      rw [this] at hal
      exact Or.inr (aliases_ok hal)
    · rw [hclean] at hs
      have := (stat_missing hdd hclr1 hs).1
      left; rw [hqe, this]; exact List.prefix_refl _

/-- Recursive delete, same hypotheses: everything that disappears lies at or below the requested path. -/
theorem C26_partial_delete_recursive (x : Ctx) (nfc : Bytes → Bytes) (fu : Nat) (c : Cfg) (fs : FS)
    (path : Bytes) (hclean : clean path = path)
    (hdd : NoDD (compsOf path)) (hclr : Clear fs (compsOf path) (compsOf path).length) :
    ∀ q ∈ (runOp x nfc fu c fs (.delete true) path).touched, compsOf path <+: q := by
  intro q hq
  have hcl1 : Clear fs (compsOf path) ((compsOf path).length - 1) := hclr.le (by omega)
  rcases runOp_cases x nfc fu c fs (.delete true) path with ⟨e, he⟩ | ⟨_, hd⟩
  · rw [he] at hq; simp [failR] at hq
  · rw [hd] at hq
    unfold dispatch at hq
    cases hl : lstat fs fu (compsOf (clean path)) with
    | found q0 k =>
      have hl' := hl
      rw [hclean] at hl'
      have ⟨h1, h2, h3⟩ := lstat_found hdd hcl1 hl'
      have hk : ∀ t, k ≠ .sym t := by
        intro t hk
        subst hk
        have hne : compsOf path ≠ [] := by intro he; cases h3 he
        have hpos := List.length_pos_iff.mpr hne
        have := hclr ((compsOf path).length - 1) (by omega) t
        have hlen : (compsOf path).length - 1 + 1 = (compsOf path).length := by omega
        rw [hlen, List.take_length] at this
        exact this (h2 hne)
      rw [← h1]
      exact opDeleteRec_touched hl hk hq
    | missing par n =>
      unfold opDelete at hq; dsimp only at hq; rw [hl] at hq; simp [failR] at hq
    | err =>
      unfold opDelete at hq; dsimp only at hq; rw [hl] at hq; simp [failR] at hq

/-- With a password configured, a request that does not present it touches nothing. -/
theorem C26_password_required (x : Ctx) (nfc : Bytes → Bytes) (fu : Nat) (c : Cfg) (fs : FS) (op : Op)
    (path : Bytes) (hh : c.hash ≠ []) (hpw : x.password = [] ∨ x.pwOK c.hash x.password = false) :
    (runOp x nfc fu c fs op path).touched = [] ∧ (runOp x nfc fu c fs op path).fs = fs := by
  unfold runOp
  split
  · exact ⟨rfl, rfl⟩
  · have : authenticate x c ≠ none := by
      unfold authenticate
      rw [if_neg hh]
      rcases hpw with h | h
      · simp [h]
      · split
        · simp
        · simp [h]
    cases ha : authenticate x c with
    | none => exact absurd ha this
    | some e => exact ⟨rfl, rfl⟩

/-! ### non-vacuity -/

example : Tree wFS := invB_sound (by decide)

/-- "/d" itself: allowed, no symbolic link on it; listing it touches exactly /d. -/
example : (runOp wCtx (fun b => b) 40 wCfg wFS .list [0x2f, 0x64]).touched = [[356]] := by decide
example : validatePath (fun b => b) wCfg [0x2f, 0x64, 0x2f, 0x6c, 0x2f, 0x6b] = .ok := by decide
example : validatePath (fun b => b) wCfg [0x2f, 0x64, 0x64] = .notAllowed := by decide   -- "/dd" is not under "/d"
example : validatePath (fun b => b) wCfg [0x2f, 0x73, 0x2f, 0x6b] = .notAllowed := by decide   -- "/s/k"

end MM.C26
