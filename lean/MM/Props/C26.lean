/-
  C26 — File transfer and browsing stay inside the allowed paths.
-/
import MM.Lemmas.C26

namespace MM.C26
open MM MM.C27

/-- With no allowed paths configured nothing passes validation. -/
theorem C26_empty_allows_nothing (nfc : Bytes → Bytes) (c : Cfg) (path : Bytes) (h : c.allowed = []) :
    validatePath nfc c path ≠ .ok := by
  unfold validatePath
  split
  · simp
  · dsimp only
    split
    · simp
    · split
      · simp
      · simp [h]

end MM.C26
