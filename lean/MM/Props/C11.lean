import MM.Lemmas.C11

/-
  C11 — route flooding terminates and never loops.

  Model = MM/Model/C11.lean.  Proved for every topology, every schedule of deliveries, losses,
  duplicates, cache expiries, stale cleanups, announcements and replays unless stated otherwise:

  * `C11_seenby_nodup`   no in-flight advertisement ever lists an agent twice in seen-by.
  * `C11_deliver_decreases` / `C11_terminates`   the measure `mu = Σ_frames (n+1)^(#agents not in
    seen-by)` strictly decreases on every delivery and never increases on loss, expiry, cleanup,
    connect: in a schedule without new announcements / replays / duplications at most `mu s`
    deliveries happen, whatever the order and wherever the cache expires.
  * `C11_once_cached`    between two expiries of its key an agent processes an advertisement at
    most once; `C11_forward_once` each processing sends at most one copy per neighbour.
  * `C11_no_self_path`   no agent stores a route whose path contains itself.
  * `C11_statement` (at most once under EVERY schedule including expiry, and no stored path
    revisits an agent) is refuted twice (`C11_refuted_expiry`, `C11_refuted_replay`; open findings
    C11-reprocess-after-expiry, C11-replay-path-revisit), and `C11_partial` proves it for schedules
    in which that key does not expire / histories without third-party replays.
-/
namespace MM.C11

/-! ### seen-by lists never repeat an agent -/

theorem seenBy_nodup_step {s : Net} {op : Op} (h : ∀ f, f ∈ s.flight → f.adv.seenBy.Nodup) :
    ∀ f, f ∈ (step s op).flight → f.adv.seenBy.Nodup := by
  intro f hf
  cases flight_step hf with
  | old h' => exact h f h'
  | ann hint hop ha hd hadv => rw [(mem_announceAdvs hadv).seenBy]; simp
  | fwd a m hm hl ha hb hd hne hns hself hseen hsb hlim hwire hadv =>
    rw [hadv, fwdAdv_seenBy]
    have := h _ hm
    refine List.nodup_append.2 ⟨this, by simp, ?_⟩
    intro x hx y hy
    simp only [List.mem_singleton] at hy
    subst hy
    intro hxy; subst hxy
    exact hsb hx
  | wdr hint hop ha hcidr hd hadv => rw [(mem_withdrawAdvs hadv).seenBy]; simp
  | rep ord hop ha hb hl hadv => rw [(mem_replayAdvs hadv).seenBy]; simp

theorem C11_seenby_nodup (n mh : Nat) (L : Node → List RAd) (ops : List Op) :
    ∀ f, f ∈ (run (init n mh L) ops).flight → f.adv.seenBy.Nodup :=
  run_induction (P := fun s => ∀ f, f ∈ s.flight → f.adv.seenBy.Nodup) _ ops
    (by intro f hf; simp [init, initH] at hf) (fun _ _ h => seenBy_nodup_step h)

/-! ### no stored path contains the storing agent -/

theorem C11_no_self_path (n mh : Nat) (L : Node → List RAd) (ops : List Op) :
    ∀ x e, e ∈ ((run (init n mh L) ops).nodes x).entries → x ∉ e.path :=
  run_induction (P := fun s => ∀ x e, e ∈ (s.nodes x).entries → x ∉ e.path) _ ops
    (by
      intro x e he
      rw [(initNode_entries x (L x) e he).1]
      exact List.not_mem_nil)
    (by
      intro s op h x e he
      rcases entries_step he with h' | ⟨a, m, _, _, _, _, _, _, hp, r, _, rfl⟩
      · exact h x e h'
      · exact hp)

/-! ### the termination measure -/

/-- Number of agents that have not seen the advertisement yet. -/
def weight (n : Nat) (m : Adv) : Nat := ((List.range n).filter (fun x => !(m.seenBy.contains x))).length

def muL (n : Nat) (fl : List Flight) : Nat := (fl.map (fun f => (n + 1) ^ weight n f.adv)).sum

def mu (s : Net) : Nat := muL s.n s.flight

theorem filter_drop_one (l : List Nat) (p : Nat → Bool) (b : Nat) (hnd : l.Nodup) (hb : b ∈ l)
    (hp : p b = true) : (l.filter (fun x => p x && x != b)).length + 1 = (l.filter p).length := by
  induction l with
  | nil => cases hb
  | cons x t ih =>
    have hnd' := List.nodup_cons.1 hnd
    by_cases hx : x = b
    · subst hx
      have hrest : t.filter (fun y => p y && y != x) = t.filter p := by
        apply List.filter_congr
        intro y hy
        have : y ≠ x := fun h => hnd'.1 (h ▸ hy)
        simp [this]
      simp [List.filter_cons, hp, hrest]
    · have hbt : b ∈ t := by
        rcases List.mem_cons.1 hb with h | h
        · exact absurd h.symm hx
        · exact h
      have ih' := ih hnd'.2 hbt
      by_cases hpx : p x = true
      · simp [List.filter_cons, hpx, hx]; omega
      · simp [List.filter_cons, hpx, hx]; omega

theorem weight_fwd {n b : Nat} {m : Adv} (hb : b < n) (hns : b ∉ m.seenBy) :
    weight n (fwdAdv b m) + 1 = weight n m := by
  unfold weight
  have h := filter_drop_one (List.range n) (fun x => !(m.seenBy.contains x)) b List.nodup_range
    (List.mem_range.2 hb) (by simpa using hns)
  rw [← h]
  congr 2
  apply List.filter_congr
  intro x _
  simp only [fwdAdv_seenBy, List.contains_eq_mem, List.mem_append, List.mem_singleton]
  by_cases h1 : x ∈ m.seenBy <;> by_cases h2 : x = b <;> simp [h1, h2]

theorem sum_map_le_const {α : Type} (l : List α) (g : α → Nat) (c : Nat) (h : ∀ x, x ∈ l → g x ≤ c) :
    (l.map g).sum ≤ l.length * c := by
  induction l with
  | nil => simp
  | cons x t ih =>
    simp only [List.map_cons, List.sum_cons, List.length_cons]
    have := ih (fun y hy => h y (List.mem_cons_of_mem _ hy))
    have := h x List.mem_cons_self
    rw [Nat.succ_mul]; omega

theorem sum_map_eraseIdx {α : Type} (l : List α) (g : α → Nat) (pos : Nat) (x : α) (h : l[pos]? = some x) :
    (l.map g).sum = g x + ((l.eraseIdx pos).map g).sum := by
  induction l generalizing pos with
  | nil => simp at h
  | cons y t ih =>
    cases pos with
    | zero => simp at h; subst h; simp
    | succ p =>
      simp only [List.getElem?_cons_succ] at h
      simp only [List.eraseIdx_cons_succ, List.map_cons, List.sum_cons]
      rw [ih p h]; omega

theorem muL_append (n : Nat) (l1 l2 : List Flight) : muL n (l1 ++ l2) = muL n l1 + muL n l2 := by
  simp [muL]

theorem peersOf_length (s : Net) (b : Node) : (peersOf s b).length ≤ s.n := by
  unfold peersOf
  exact Nat.le_trans (List.length_filter_le _ _) (by simp)

/-- What `b` sends when it handles `m`: at most `n` frames, each strictly lighter than `m`. -/
theorem muL_outs_lt (s : Net) (a b : Node) (m : Adv) (hb : b < s.n) :
    muL s.n ((handle (s.maxHops b) (peersOf s b) b a s.clock m (s.nodes b)).2.1.map
      (fun (pf : Node × Adv) => ({ src := b, dst := pf.1, adv := pf.2 } : Flight)))
    < (s.n + 1) ^ weight s.n m := by
  generalize hout : (handle (s.maxHops b) (peersOf s b) b a s.clock m (s.nodes b)).2.1 = outs
  cases outs with
  | nil => simp [muL]; exact Nat.pow_pos (by omega)
  | cons o t =>
    have hmem : ∀ pf, pf ∈ o :: t → pf.2 = fwdAdv b m ∧ b ∉ m.seenBy := by
      intro pf hpf
      rw [← hout] at hpf
      have := handle_out (p := pf.1) (m := pf.2) hpf
      exact ⟨this.1, this.2.2.2.2.2.2.1⟩
    have hns : b ∉ m.seenBy := (hmem o List.mem_cons_self).2
    have hw := weight_fwd (n := s.n) hb hns
    have hlen : (o :: t).length ≤ s.n := by
      rw [← hout]
      exact Nat.le_trans (handle_out_length _ _ _ _ _ _ _) (peersOf_length s b)
    have hsum : muL s.n ((o :: t).map (fun (pf : Node × Adv) => ({ src := b, dst := pf.1, adv := pf.2 } : Flight)))
        ≤ (o :: t).length * (s.n + 1) ^ weight s.n (fwdAdv b m) := by
      unfold muL
      rw [List.map_map]
      apply sum_map_le_const
      intro pf hpf
      simp only [Function.comp]
      rw [(hmem pf hpf).1]
      exact Nat.le_refl _
    have hpow : (s.n + 1) ^ weight s.n m = (s.n + 1) * (s.n + 1) ^ weight s.n (fwdAdv b m) := by
      rw [← hw, Nat.pow_succ, Nat.mul_comm]
    have hc : 0 < (s.n + 1) ^ weight s.n (fwdAdv b m) := Nat.pow_pos (by omega)
    rw [hpow]
    generalize (s.n + 1) ^ weight s.n (fwdAdv b m) = c at *
    have : (o :: t).length * c ≤ s.n * c := Nat.mul_le_mul_right c hlen
    rw [Nat.succ_mul]
    omega

/-- `deliver a b i` addresses a frame that is really in flight on a live link. -/
def Effective (s : Net) (a b i : Nat) : Prop :=
  a < s.n ∧ b < s.n ∧ linked s a b = true ∧ (pickFlight (tick s) a b i).isSome = true

instance (s : Net) (a b i : Nat) : Decidable (Effective s a b i) := by unfold Effective; infer_instance

/-- Every delivery strictly decreases the measure — whatever the outcome (new, seen, dropped). -/
theorem C11_deliver_decreases (s : Net) (a b i : Nat) (h : Effective s a b i) :
    mu (step s (.deliver a b i)) < mu s := by
  obtain ⟨ha, hb, hl, hpick⟩ := h
  unfold mu
  rw [step_n]
  simp only [step, stepCore]
  have hc : a < (tick s).n ∧ b < (tick s).n ∧ linked (tick s) a b = true := ⟨ha, hb, hl⟩
  rw [if_pos hc]
  cases hp : pickFlight (tick s) a b i with
  | none => rw [hp] at hpick; cases hpick
  | some pf =>
    obtain ⟨pos, f⟩ := pf
    simp only
    rw [process_flight, muL_append]
    have hget := (pickFlight_spec hp).1
    simp only [tick_flight] at hget
    have hsplit := sum_map_eraseIdx s.flight (fun f => (s.n + 1) ^ weight s.n f.adv) pos f hget
    have hout := muL_outs_lt { tick s with flight := s.flight.eraseIdx pos } a b f.adv hb
    simp only [tick_n] at hout
    unfold muL at hsplit ⊢
    simp only [tick_flight, tick_n]
    unfold muL at hout
    omega

/-- Ops that create no traffic. (`announce`, `replay` and `dup` are the only ones that do.) -/
def quiet : Op → Bool
  | .announce _ _ => false
  | .withdraw _ _ => false
  | .replay _ _ _ => false
  | .dup _ _ _ => false
  | _ => true

theorem muL_eraseIdx_le (n : Nat) (l : List Flight) (pos : Nat) : muL n (l.eraseIdx pos) ≤ muL n l := by
  cases h : l[pos]? with
  | none =>
    have : l.length ≤ pos := by simpa using h
    rw [List.eraseIdx_of_length_le this]; exact Nat.le_refl _
  | some x =>
    unfold muL
    have := sum_map_eraseIdx l (fun f => (n + 1) ^ weight n f.adv) pos x h
    omega

theorem muL_filter_le (n : Nat) (l : List Flight) (p : Flight → Bool) : muL n (l.filter p) ≤ muL n l := by
  induction l with
  | nil => exact Nat.le_refl _
  | cons x t ih =>
    simp only [List.filter_cons]
    split
    · simp only [muL, List.map_cons, List.sum_cons] at ih ⊢; omega
    · simp only [muL, List.map_cons, List.sum_cons] at ih ⊢; omega

theorem quiet_not_increasing (s : Net) (op : Op) (hq : quiet op = true) : mu (step s op) ≤ mu s := by
  cases op with
  | announce a _ => cases hq
  | withdraw a _ => cases hq
  | replay a b ord => cases hq
  | dup a b i => cases hq
  | deliver a b i =>
    by_cases h : Effective s a b i
    · exact Nat.le_of_lt (C11_deliver_decreases s a b i h)
    · unfold mu; rw [step_n]
      simp only [step, stepCore]
      split
      · rename_i hc
        cases hp : pickFlight (tick s) a b i with
        | none => simp [hp]
        | some pf =>
          exfalso; apply h
          exact ⟨hc.1, hc.2.1, hc.2.2, by rw [hp]; rfl⟩
      · exact Nat.le_refl _
  | drop a b i =>
    unfold mu; rw [step_n]
    simp only [step, stepCore]
    split
    · split
      · exact Nat.le_refl _
      · exact muL_eraseIdx_le _ _ _
    · exact Nat.le_refl _
  | connect a b =>
    unfold mu; rw [step_n]; simp only [step, stepCore]; split <;> exact Nat.le_refl _
  | disconnect a b =>
    unfold mu; rw [step_n]; simp only [step, stepCore]; split
    · exact muL_filter_le _ _ _
    · exact Nat.le_refl _
  | expire a o sq =>
    unfold mu; rw [step_n]; simp only [step, stepCore]; split <;> exact Nat.le_refl _
  | stale a age =>
    unfold mu; rw [step_n]; simp only [step, stepCore]; split <;> exact Nat.le_refl _
  | dump => exact Nat.le_refl _

/-- Number of effective deliveries in a schedule. -/
def deliveries (s : Net) : List Op → Nat
  | [] => 0
  | op :: t =>
    (match op with
      | .deliver a b i => if Effective s a b i then 1 else 0
      | _ => 0) + deliveries (step s op) t

/-- Quiescence under every schedule: as long as nothing new is announced, replayed or duplicated,
    the number of deliveries that can still happen — in any order, with losses, with cache expiry
    and stale cleanup at any point — is bounded by the measure of the current state. -/
theorem C11_terminates (s : Net) (ops : List Op) (hq : ∀ op, op ∈ ops → quiet op = true) :
    deliveries s ops + mu (run s ops) ≤ mu s := by
  induction ops generalizing s with
  | nil => simp [deliveries, run]
  | cons op t ih =>
    have ih' := ih (step s op) (fun o ho => hq o (List.mem_cons_of_mem _ ho))
    have hle := quiet_not_increasing s op (hq op List.mem_cons_self)
    simp only [deliveries, run, List.foldl_cons] at ih' ⊢
    cases op with
    | deliver a b i =>
      simp only
      by_cases h : Effective s a b i
      · have := C11_deliver_decreases s a b i h
        simp only [h, if_true]
        omega
      · simp only [h, if_false]; omega
    | _ => simp only; omega

/-! ### at most once while cached -/

theorem seen_step_mono {s : Net} {op : Op} {b : Node} {k : Node × Nat}
    (hk : k ∈ (s.nodes b).seen) (hne : ∀ o sq, op = .expire b o sq → (o, sq) ≠ k) :
    k ∈ ((step s op).nodes b).seen := by
  cases op with
  | connect c d => simp only [step, stepCore]; split <;> exact hk
  | disconnect c d =>
    simp only [step, stepCore]; split
    · simp only [setNode_nodes]; split
      · rename_i hx; subst hx; exact hk
      · split
        · rename_i hx; subst hx; exact hk
        · exact hk
    · exact hk
  | replay c d ord =>
    simp only [step, stepCore]; split
    · simp only [setNode_nodes]; split
      · rename_i hx; subst hx; exact hk
      · exact hk
    · exact hk
  | announce c _ =>
    simp only [step, stepCore]; split
    · simp only [setNode_nodes]; split
      · rename_i hx; subst hx; exact hk
      · exact hk
    · exact hk
  | withdraw c _ =>
    simp only [step, stepCore]; split
    · simp only [setNode_nodes]; split
      · rename_i hx; subst hx; exact hk
      · exact hk
    · exact hk
  | deliver c d i =>
    simp only [step, stepCore]; split
    · split
      · exact hk
      · rw [process_nodes]; split
        · rename_i hx; subst hx; exact handle_seen_mono hk
        · exact hk
    · exact hk
  | dup c d i =>
    simp only [step, stepCore]; split
    · split
      · exact hk
      · rw [process_nodes]; split
        · rename_i hx; subst hx; exact handle_seen_mono hk
        · exact hk
    · exact hk
  | drop c d i =>
    simp only [step, stepCore]; split
    · split <;> exact hk
    · exact hk
  | expire c o sq =>
    simp only [step, stepCore]; split
    · simp only [setNode_nodes]; split
      · rename_i hx; subst hx
        simp only [tick_nodes, List.mem_filter, bne_iff_ne, ne_eq]
        exact ⟨hk, fun h => hne o sq rfl h.symm⟩
      · exact hk
    · exact hk
  | stale c age =>
    simp only [step, stepCore]; split
    · simp only [setNode_nodes]; split
      · rename_i hx; subst hx; exact hk
      · exact hk
    · exact hk
  | dump => exact hk

/-- The frame (if any) that op hands to agent `b`. -/
def handedTo (s : Net) (b : Node) : Op → Option Adv
  | .deliver a b' i =>
    if b' = b ∧ a < s.n ∧ b < s.n ∧ linked s a b = true then (pickFlight (tick s) a b i).map (·.2.adv) else none
  | .dup a b' i =>
    if b' = b ∧ a < s.n ∧ b < s.n ∧ linked s a b = true then (pickFlight (tick s) a b i).map (·.2.adv) else none
  | _ => none

/-- `b` processes (gets past its seen cache with) an advertisement with key `k` in this op. -/
def processesNow (s : Net) (b : Node) (k : Node × Nat) (op : Op) : Bool :=
  match handedTo s b op with
  | some m => (m.origin, m.seq) == k && !((s.nodes b).seen.contains k)
  | none => false

def processed (b : Node) (k : Node × Nat) (s : Net) : List Op → Nat
  | [] => 0
  | op :: t => (if processesNow s b k op then 1 else 0) + processed b k (step s op) t

def expires (b : Node) (k : Node × Nat) : Op → Bool
  | .expire a o sq => a == b && (o, sq) == k
  | _ => false

theorem marked_after {s : Net} {b : Node} {k : Node × Nat} {op : Op}
    (h : processesNow s b k op = true) : k ∈ ((step s op).nodes b).seen := by
  unfold processesNow at h
  cases hh : handedTo s b op with
  | none => rw [hh] at h; cases h
  | some m =>
    rw [hh] at h
    simp only [Bool.and_eq_true, beq_iff_eq] at h
    obtain ⟨hk, _⟩ := h
    subst hk
    cases op with
    | deliver a b' i =>
      simp only [handedTo] at hh
      split at hh
      · rename_i hc
        obtain ⟨rfl, ha, hb, hl⟩ := hc
        cases hp : pickFlight (tick s) a b' i with
        | none => rw [hp] at hh; cases hh
        | some pf =>
          rw [hp] at hh
          simp only [Option.map_some, Option.some.injEq] at hh
          simp only [step, stepCore]
          have hc : a < (tick s).n ∧ b' < (tick s).n ∧ linked (tick s) a b' = true := ⟨ha, hb, hl⟩
          rw [if_pos hc, hp]
          simp only
          rw [process_nodes, if_pos rfl, hh]
          exact handle_marks _ _ _ _ _ _ _
      · cases hh
    | dup a b' i =>
      simp only [handedTo] at hh
      split at hh
      · rename_i hc
        obtain ⟨rfl, ha, hb, hl⟩ := hc
        cases hp : pickFlight (tick s) a b' i with
        | none => rw [hp] at hh; cases hh
        | some pf =>
          rw [hp] at hh
          simp only [Option.map_some, Option.some.injEq] at hh
          simp only [step, stepCore]
          have hc : a < (tick s).n ∧ b' < (tick s).n ∧ linked (tick s) a b' = true := ⟨ha, hb, hl⟩
          rw [if_pos hc, hp]
          simp only
          rw [process_nodes, if_pos rfl, hh]
          exact handle_marks _ _ _ _ _ _ _
      · cases hh
    | _ => simp [handedTo] at hh

theorem processed_zero_of_cached (b : Node) (k : Node × Nat) (s : Net) (ops : List Op)
    (hk : k ∈ (s.nodes b).seen) (hne : ∀ op, op ∈ ops → expires b k op = false) :
    processed b k s ops = 0 := by
  induction ops generalizing s with
  | nil => rfl
  | cons op t ih =>
    simp only [processed]
    have h1 : processesNow s b k op = false := by
      unfold processesNow
      split
      · simp [hk]
      · rfl
    have hk' : k ∈ ((step s op).nodes b).seen := by
      apply seen_step_mono hk
      intro o sq hop heq
      have := hne op List.mem_cons_self
      subst hop
      simp [expires, heq] at this
    rw [h1, ih (step s op) hk' (fun o ho => hne o (List.mem_cons_of_mem _ ho))]
    rfl

/-- While its key does not expire at `b`, agent `b` processes an announcement at most once — under
    any delivery order, any duplication, any other activity. -/
theorem C11_once_cached (b : Node) (k : Node × Nat) (s : Net) (ops : List Op)
    (hne : ∀ op, op ∈ ops → expires b k op = false) : processed b k s ops ≤ 1 := by
  induction ops generalizing s with
  | nil => simp [processed]
  | cons op t ih =>
    simp only [processed]
    by_cases h : processesNow s b k op = true
    · rw [processed_zero_of_cached b k (step s op) t (marked_after h)
        (fun o ho => hne o (List.mem_cons_of_mem _ ho))]
      simp [h]
    · have := ih (step s op) (fun o ho => hne o (List.mem_cons_of_mem _ ho))
      simp only [h]; simpa using this

/-- Each processing sends at most one copy to each neighbour (and none back to the sender). -/
theorem C11_forward_once (s : Net) (a b : Node) (m : Adv) :
    ((handle (s.maxHops b) (peersOf s b) b a s.clock m (s.nodes b)).2.1.map Prod.fst).Nodup ∧
    a ∉ (handle (s.maxHops b) (peersOf s b) b a s.clock m (s.nodes b)).2.1.map Prod.fst := by
  constructor
  · unfold handle
    split
    · simp
    · dsimp only
      have key : ((fwdTargets (peersOf s b) a (fwdAdv b m).seenBy).map (fun p => (p, fwdAdv b m))).map Prod.fst
          |>.Nodup := by
        simp only [List.map_map]
        have : (Prod.fst ∘ fun p => (p, fwdAdv b m)) = (id : Node → Node) := rfl
        rw [this, List.map_id]
        unfold fwdTargets peersOf
        exact (List.nodup_range.filter _).filter _
      split
      · simp
      · split
        · exact key
        · split
          · simp
          · split
            · simp
            · split
              · simp
              · exact key
  · intro h
    rcases List.mem_map.1 h with ⟨⟨p, m'⟩, hpm, hp⟩
    simp only at hp
    subst hp
    exact (handle_out hpm).2.2.1 rfl

/-! ### no stored path revisits an agent — in histories without third-party replays -/

structure PathInv (s : Net) : Prop where
  flight : ∀ f, f ∈ s.flight → f.adv.path.Nodup ∧ ∀ y, y ∈ f.adv.path → y ∈ f.adv.seenBy
  entries : ∀ x e, e ∈ (s.nodes x).entries → e.path.Nodup

theorem pathInv_init (n mh : Nat) (L : Node → List RAd) : PathInv (init n mh L) where
  flight := by intro f hf; simp [init, initH] at hf
  entries := by
    intro x e he
    rw [(initNode_entries x (L x) e he).1]
    exact List.nodup_nil

theorem pathInv_step {s : Net} {op : Op} (hI : PathInv s) (hb : benignOp s op = true) :
    PathInv (step s op) where
  flight := by
    intro f hf
    cases flight_step hf with
    | old h => exact hI.flight f h
    | ann hint hop ha hd hadv =>
      have h := mem_announceAdvs hadv
      rw [h.path, h.seenBy]; simp
    | fwd a m hm hl ha hb' hd hne hns hself hseen hsb hlim hwire hadv =>
      rw [hadv, fwdAdv_seenBy]
      obtain ⟨hnd, hsub⟩ := hI.flight _ hm
      cases hwd : m.wd with
      | true =>
        rw [fwdAdv_path_wd hwd]
        exact ⟨hnd, fun y hy => List.mem_append_left _ (hsub y hy)⟩
      | false =>
        rw [fwdAdv_path hwd]
        refine ⟨List.nodup_cons.2 ⟨fun h => hsb (hsub _ h), hnd⟩, ?_⟩
        intro y hy
        rcases List.mem_cons.1 hy with hy | hy
        · subst hy; simp
        · exact List.mem_append_left _ (hsub y hy)
    | wdr hint hop ha hcidr hd hadv =>
      have h := mem_withdrawAdvs hadv
      rw [h.path, h.seenBy]; simp
    | rep ord hop ha hb' hl hadv =>
      subst hop
      obtain ⟨_, hp⟩ := benign_replay hb hadv
      rw [hp, (mem_replayAdvs hadv).seenBy]
      exact ⟨by simp, fun y hy => hy⟩
  entries := by
    intro x e he
    rcases entries_step he with h | ⟨a, m, hm, _, _, _, _, _, _, r, _, rfl⟩
    · exact hI.entries x e h
    · exact (hI.flight _ hm).1

/-! ### the full statement, its two refutations, and the partial theorem -/

/-- C11 at full strength: under EVERY schedule (cache expiry at any point included) every agent
    processes a given announcement at most once, and no agent ever stores a route whose path
    revisits an agent or passes through itself. -/
def C11_statement : Prop :=
  ∀ (n mh : Nat) (L : Node → List RAd) (ops : List Op),
    (∀ b k, processed b k (init n mh L) ops ≤ 1) ∧
    (∀ x e, e ∈ ((run (init n mh L) ops).nodes x).entries → e.path.Nodup ∧ x ∉ e.path)

def exitAt0 : Node → List RAd := fun x => if x = 0 then [⟨0, 1, 0⟩] else []
def exitAt3 : Node → List RAd := fun x => if x = 3 then [⟨0, 1, 0⟩] else []

/-- (i) open finding C11-reprocess-after-expiry: a duplicate that arrives after the key left the
    cache is processed (and flooded) a second time. -/
def expiryOps : List Op := [.connect 0 1, .announce 0 [], .dup 0 1 0, .expire 1 0 2, .deliver 0 1 0]

theorem C11_refuted_expiry : processed 1 (0, 2) (init 2 0 exitAt0) expiryOps = 2 := by decide

/-- (ii) open finding C11-replay-path-revisit: ring 0-1-2-0, origin 3 and agent 4 hang off agent 0.
    Agent 2 learns the route over 1 (path 1-0-3) and replays its table to agent 0 with seen-by
    reset to [2]; agent 0 — already on the path — floods it on, and agent 4 stores 0-2-1-0-3. -/
def ringOps : List Op := [
  .connect 0 1, .connect 1 2, .connect 2 0, .connect 0 3, .connect 0 4,
  .announce 3 [], .deliver 3 0 0, .deliver 0 1 0, .deliver 1 2 0,
  .replay 2 0 [], .deliver 2 0 0, .deliver 0 4 1]

def ringEntry : Entry :=
  { kind := 0, key := 1, origin := 3, nextHop := 0, metric := 5, path := [0, 2, 1, 0, 3], seq := 1, lu := 12 }

theorem C11_refuted_replay :
    ringEntry ∈ ((run (init 5 0 exitAt3) ringOps).nodes 4).entries ∧ ¬ ringEntry.path.Nodup := by decide

theorem C11_refuted : ¬ C11_statement := by
  intro h
  have := (h 2 0 exitAt0 expiryOps).1 1 (0, 2)
  rw [C11_refuted_expiry] at this
  omega

/-- What does hold: at most once for every key that does not expire at that agent during the
    schedule (any order, any duplication), and no self / no revisit in every history without
    third-party replays. (`C11_no_self_path` holds unconditionally.) -/
theorem C11_partial (n mh : Nat) (L : Node → List RAd) (ops : List Op) :
    (∀ b k, (∀ op, op ∈ ops → expires b k op = false) → processed b k (init n mh L) ops ≤ 1) ∧
    (benignRun (init n mh L) ops = true →
      ∀ x e, e ∈ ((run (init n mh L) ops).nodes x).entries → e.path.Nodup ∧ x ∉ e.path) := by
  refine ⟨fun b k hne => C11_once_cached b k _ ops hne, fun hb x e he => ⟨?_, C11_no_self_path n mh L ops x e he⟩⟩
  exact (run_induction_benign (P := PathInv) _ ops (pathInv_init n mh L) hb
    (fun s op hI hb => pathInv_step hI hb)).entries x e he

/-- Vacuity: the hypotheses of `C11_partial` are met by a non-trivial history (a flood over the
    chain 0-1-2 with a duplicate, no expiry, no third-party replay) in which agent 1 does process
    the announcement exactly once although it is delivered twice. -/
def dupOps : List Op := [.connect 0 1, .connect 1 2, .announce 0 [], .dup 0 1 0, .deliver 0 1 0, .deliver 1 2 0]

example : benignRun (init 3 0 exitAt0) dupOps = true := by decide
example : ∀ op, op ∈ dupOps → expires 1 (0, 2) op = false := by decide
example : processed 1 (0, 2) (init 3 0 exitAt0) dupOps = 1 := by decide
example : Effective (run (init 3 0 exitAt0) [.connect 0 1, .announce 0 []]) 0 1 0 := by decide

end MM.C11
