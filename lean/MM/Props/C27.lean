/-
  C27 — Directory uploads never write outside the destination.

  "Extracting an uploaded directory archive never creates, modifies, links or deletes anything
   outside the destination directory, whatever the archive contains."

  Model: MM/Model/C27.lean — a filesystem with directories, regular files (inodes, so hard links
  alias), symbolic links and the kernel's physical path resolution, and `untar` = UntarDirectory
  statement by statement.  `untar true` is the code with checkNoSymlinkComponents (what /repo
  contains once fixes/C27-untar-symlink-components.patch is applied); `untar false` is the code as
  it was, kept to show that the lexical checks alone do not give the property.

  Quantification: every archive (any list of dir / regular / symlink / hard-link / other entries
  with arbitrary names and link targets), every fuel (number of symbolic links the kernel is
  willing to follow), every destination and every initial filesystem that satisfies `Inv`:
    wf    — a tree: the parent of every entry is a directory;
    phys  — the destination exists and neither it nor an ancestor is a symbolic link
            ("outside" is meant relative to the real location of the destination);
    sep   — no inode is hard-linked both below the destination and elsewhere;
    fresh — the inode counter is ahead of every inode in use.
  Symbolic links of any shape may already exist anywhere, also below the destination.
-/
import MM.Lemmas.C27

namespace MM.C27

/-- Nothing outside the destination changes: every path that is not strictly below `dest` (this
    includes `dest` itself, which stays a directory) resolves to the same entry as before, and
    every file that exists outside keeps its content — for ALL archives. -/
theorem C27_statement (fu : Nat) (dest : Path) (fs : FS) (es : List Entry)
    (hI : Inv dest fs) (hdd : NoDD dest) :
    (∀ q, ¬ Under dest q → (untar true fu dest fs es).1.lookup q = fs.lookup q) ∧
    (∀ q i, ¬ Under dest q → fs.lookup q = some (.file i) →
        (untar true fu dest fs es).1.content i = fs.content i) ∧
    (untar true fu dest fs es).1.lookup dest = some .dir := by
  have hS := safe_untar (fu := fu) es hI hdd
  refine ⟨hS.look, ?_, inv_lookup_dest (hS.inv hI)⟩
  intro q i hq hl
  apply Classical.byContradiction
  intro hne
  rcases hS.data i hne with ⟨q', hq', hl'⟩ | hn
  · exact hq (hI.sep q' q i hl' hl hq')
  · have := hI.fresh q i hl
    omega

/-- The invariants are kept, so the statement also holds for any sequence of extractions. -/
theorem C27_inv_preserved (fu : Nat) (dest : Path) (fs : FS) (es : List Entry)
    (hI : Inv dest fs) (hdd : NoDD dest) : Inv dest (untar true fu dest fs es).1 :=
  (safe_untar (fu := fu) es hI hdd).inv hI

/-! ### the code as it was -/

/-- Sandbox used by the examples: /1/2 is a file (inode 1, content 7) next to the destination /3/4. -/
def exFS : FS :=
  { ents := [([1], .dir), ([1, 2], .file 1), ([3], .dir), ([3, 4], .dir)], data := [(1, 7)], next := 2 }
def exDest : Path := [3, 4]
def rel (c : List Name) : Target := ⟨false, c⟩

/-- The chain from DESIGN section 6: a/ , a/b -> .. , a/b/c -> .. , then a regular file a/b/c/x. -/
def chain : List Entry :=
  [⟨rel [5], .dir⟩, ⟨rel [5, 6], .sym (rel [dd])⟩, ⟨rel [5, 6, 7], .sym (rel [dd])⟩, ⟨rel [5, 6, 7, 8], .reg 9⟩]

/-- With the lexical checks only (`untar false`) the chain creates /3/8 — outside /3/4: the
    statement fails for the unrepaired code. -/
theorem C27_unchecked_refuted :
    ¬ (∀ q, ¬ Under exDest q → (untar false 40 exDest exFS chain).1.lookup q = exFS.lookup q) := by
  intro h
  have := h [3, 8] (fun hu => by have := underB_iff.mpr hu; revert this; decide)
  revert this
  decide

/-! ### non-vacuity -/

example : Inv exDest exFS := invB_sound (by decide)
example : NoDD exDest := by intro n hn; simp [exDest] at hn; rcases hn with rfl | rfl <;> decide

/-- The repaired code refuses the third entry of the chain; /3/8 stays absent, the directory a/
    and the first link were created below the destination. -/
example : (untar true 40 exDest exFS chain).2 = false ∧
    (untar true 40 exDest exFS chain).1.lookup [3, 8] = none ∧
    (untar true 40 exDest exFS chain).1.lookup [3, 4, 5, 6] = some (.sym (rel [dd])) := by decide

/-- An ordinary archive is extracted completely. -/
example : (untar true 40 exDest exFS
    [⟨rel [5], .dir⟩, ⟨rel [5, 6], .reg 9⟩, ⟨rel [7], .sym (rel [5, 6])⟩, ⟨rel [8], .hard (rel [5, 6])⟩]).2 = true := by
  decide

end MM.C27
