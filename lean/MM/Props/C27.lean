/-
  C27 — Directory uploads never write outside the destination.
-/
import MM.Lemmas.C27

namespace MM.C27

/-- Sandbox used by the examples: /out/secret (inode 1, content 7) next to the destination /w/d. -/
def exFS : FS :=
  { ents := [([1], .dir), ([1, 2], .file 1), ([3], .dir), ([3, 4], .dir)], data := [(1, 7)], next := 2 }
def exDest : Path := [3, 4]
def rel (c : List Name) : Target := ⟨false, c⟩

/-- The chain from DESIGN section 6: a/ , a/b -> .. , a/b/c -> .. , then a regular file a/b/c/x. -/
def chain : List Entry :=
  [⟨rel [5], .dir⟩, ⟨rel [5, 6], .sym (rel [dd])⟩, ⟨rel [5, 6, 7], .sym (rel [dd])⟩, ⟨rel [5, 6, 7, 8], .reg 9⟩]

/-- The code as it was (lexical checks only) creates /w/x — outside /w/d. -/
theorem C27_unchecked_refuted :
    ((untar false 40 exDest exFS chain).1.lookup [3, 8]) ≠ exFS.lookup [3, 8] := by decide

/-- The repaired code refuses the third entry and leaves /w/x absent. -/
example : (untar true 40 exDest exFS chain).2 = false ∧
    ((untar true 40 exDest exFS chain).1.lookup [3, 8]) = none := by decide

end MM.C27
