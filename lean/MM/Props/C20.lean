/-
  C20 — Port-forward endpoints connect only to their configured targets.

  "A port-forward endpoint that receives a tunnel request connects only to the target configured
   for the requested key.  A request for an unknown key is refused with a not-found error and no
   connection is made."

  Quantified over ALL requested keys (byte strings) and ALL endpoint configurations (including
  duplicate keys, empty keys, any target type).  Model: MM/Model/C20.lean, tied to
  forward.Handler and Agent.handleStreamOpen by T-diff with real loopback listeners as targets.
-/
import MM.Lemmas.C20

namespace MM.C20
open MM

/-- Constants of the source the statement is about. -/
theorem C20_tie : errForwardNotFound = 40 ∧ forwardPrefix = [0x66, 0x6f, 0x72, 0x77, 0x61, 0x72, 0x64, 0x3a] ∧  -- "forward:"
    forwardPrefix.length = 8 := by decide

/-- The only address a request can make the handler dial is a target configured under exactly
    the requested key. -/
theorem C20_target {τ : Type} (running : Bool) (maxConn connCount : Int) (eps : List (Endpoint τ))
    (key : Bytes) (t : τ) (h : handleOpen running maxConn connCount eps key = .dial t) :
    lookup eps key = some t ∧ ∃ ep ∈ eps, ep.key = key ∧ ep.target = t := by
  unfold handleOpen at h
  split at h
  · cases h
  · split at h
    · cases h
    · split at h
      · cases h
      · rename_i t' hl
        injection h with h; subst h
        exact ⟨hl, lookup_some hl⟩

/-- With unique keys (what config validation enforces) it is THE configured target. -/
theorem C20_target_unique {τ : Type} (running : Bool) (maxConn connCount : Int) (eps : List (Endpoint τ))
    (key : Bytes) (t : τ) (ep : Endpoint τ) (_hep : ep ∈ eps) (_hk : ep.key = key)
    (huniq : ∀ e ∈ eps, e.key = key → e = ep)
    (h : handleOpen running maxConn connCount eps key = .dial t) : t = ep.target := by
  obtain ⟨_, e, he, hek, het⟩ := C20_target running maxConn connCount eps key t h
  rw [← het, huniq e he hek]

/-- An unknown key never leads to a dial … -/
theorem C20_unknown_no_dial {τ : Type} (running : Bool) (maxConn connCount : Int) (eps : List (Endpoint τ))
    (key : Bytes) (hunk : ∀ ep ∈ eps, ep.key ≠ key) :
    ∀ t, handleOpen running maxConn connCount eps key ≠ .dial t := by
  intro t h
  obtain ⟨_, e, he, hek, _⟩ := C20_target running maxConn connCount eps key t h
  exact hunk e he hek

/-- … and, when the handler is running and below its connection limit, it is refused with
    ErrForwardNotFound. -/
theorem C20_unknown {τ : Type} (maxConn connCount : Int) (eps : List (Endpoint τ)) (key : Bytes)
    (hunk : ∀ ep ∈ eps, ep.key ≠ key) (hlim : ¬ (maxConn > 0 ∧ connCount ≥ maxConn)) :
    handleOpen true maxConn connCount eps key = .refuse errForwardNotFound := by
  unfold handleOpen
  simp only [Bool.not_true, Bool.false_eq_true, if_false, if_neg hlim, (lookup_none_iff eps key).mpr hunk]

/-- A known key (running, below the limit) is dialled. -/
theorem C20_known {τ : Type} (maxConn connCount : Int) (eps : List (Endpoint τ)) (key : Bytes) (t : τ)
    (hl : lookup eps key = some t) (hlim : ¬ (maxConn > 0 ∧ connCount ≥ maxConn)) :
    handleOpen true maxConn connCount eps key = .dial t := by
  unfold handleOpen
  simp only [Bool.not_true, Bool.false_eq_true, if_false, if_neg hlim, hl]

/-- None of the reserved stream names starts with the forward prefix (finite check on the
    regenerated constants), so the order of the tests in handleStreamOpen does not matter. -/
theorem reserved_not_forward : ∀ r ∈ Gen.C20.reserved, forwardPrefix.isPrefixOf r = false := by decide

/-- An open is treated as a forward request iff this agent is the exit node, the address is a
    domain address, and the domain string starts with exactly `forward:`; the key is the rest. -/
theorem C20_dispatch_iff (self addrType : Nat) (addr : Bytes) (path : List Nat) (key : Bytes) :
    dispatch self addrType addr path = .forward key ↔
      (isExit self path = true ∧ addrType = Gen.C20.addrTypeDomain ∧ domainString addr = forwardPrefix ++ key) := by
  unfold dispatch
  constructor
  · intro h
    split at h
    · rename_i hex
      split at h
      · rename_i hdom
        dsimp only at h
        split at h
        · cases h
        · split at h
          · rename_i hp
            injection h with h
            obtain ⟨t, ht⟩ := (isPrefixOf_iff _ _).mp hp
            refine ⟨hex, hdom, ?_⟩
            rw [ht] at h ⊢
            rw [List.drop_left' rfl] at h
            rw [h]
          · cases h
      · cases h
    · cases h
  · rintro ⟨hex, hdom, hd⟩
    rw [if_pos hex, if_pos hdom]
    dsimp only
    have hnr : domainString addr ∉ Gen.C20.reserved := by
      intro hr
      have := reserved_not_forward _ hr
      rw [hd] at this
      have hp : forwardPrefix.isPrefixOf (forwardPrefix ++ key) = true := (isPrefixOf_iff _ _).mpr ⟨key, rfl⟩
      rw [hp] at this; cases this
    rw [if_neg hnr, hd, if_pos ((isPrefixOf_iff _ _).mpr ⟨key, rfl⟩), List.drop_left' rfl]

/-- End to end: whatever STREAM_OPEN arrives, if it makes the forward handler dial `t`, then `t`
    is configured under the key that follows `forward:` in the requested domain address. -/
theorem C20_end_to_end {τ : Type} (self addrType : Nat) (addr : Bytes) (path : List Nat)
    (running : Bool) (maxConn connCount : Int) (eps : List (Endpoint τ)) (key : Bytes) (t : τ)
    (hd : dispatch self addrType addr path = .forward key)
    (h : handleOpen running maxConn connCount eps key = .dial t) :
    ∃ ep ∈ eps, domainString addr = forwardPrefix ++ ep.key ∧ ep.target = t := by
  obtain ⟨_, _, hdom⟩ := (C20_dispatch_iff self addrType addr path key).mp hd
  obtain ⟨_, ep, hep, hk, ht⟩ := C20_target running maxConn connCount eps key t h
  exact ⟨ep, hep, by rw [hdom, hk], ht⟩

/-- Both ends agree: the address DialForward writes for a key of at most 247 bytes is read back
    by the exit node as a forward request for exactly that key (so `C20_end_to_end` applies to
    what an ingress listener asked for). -/
theorem C20_ingress_roundtrip (self : Nat) (key : Bytes) (path : List Nat)
    (hlen : forwardPrefix.length + key.length < 256) (hexit : isExit self path = true) :
    dispatch self Gen.C20.addrTypeDomain (wireAddr (ingressAddr key)) path = .forward key := by
  apply (C20_dispatch_iff self _ _ path key).mpr
  refine ⟨hexit, rfl, ?_⟩
  unfold ingressAddr wireAddr domainString
  simp only [List.drop_succ_cons, List.drop_zero]
  rw [Nat.mod_eq_of_lt hlen]
  have h : (UInt8.ofNat (forwardPrefix.length + key.length)).toNat = (forwardPrefix ++ key).length := by
    rw [UInt8.toNat_ofNat', List.length_append]
    exact Nat.mod_eq_of_lt hlen
  rw [h, List.take_length]

/-- Longer keys (248..255 bytes, the most a route advertisement can carry) are truncated by the
    one-byte length: what arrives is a strict prefix of `forward:` — never a forward request for
    any key, so no forward target is dialled for them at all (the listener simply cannot connect). -/
theorem C20_ingress_long_key (self : Nat) (key : Bytes) (path : List Nat)
    (h1 : 256 ≤ forwardPrefix.length + key.length) (h2 : forwardPrefix.length + key.length < 256 + forwardPrefix.length) :
    ∀ k, dispatch self Gen.C20.addrTypeDomain (wireAddr (ingressAddr key)) path ≠ .forward k := by
  intro k hk
  obtain ⟨_, _, hd⟩ := (C20_dispatch_iff self _ _ path k).mp hk
  have hlen := congrArg List.length hd
  unfold ingressAddr wireAddr domainString at hlen
  simp only [List.drop_succ_cons, List.drop_zero, List.length_take, List.length_append, UInt8.toNat_ofNat'] at hlen
  have hp : forwardPrefix.length = 8 := by decide
  rw [hp] at hlen h1 h2
  omega

example : dispatch 1 Gen.C20.addrTypeDomain (wireAddr (ingressAddr [0x77, 0x65, 0x62])) [] = .forward [0x77, 0x65, 0x62] :=
  C20_ingress_roundtrip 1 _ [] (by decide) rfl

/-! Non-vacuity: near-miss keys are unknown; duplicates resolve to the last entry. -/
example : handleOpen true 1000 0 [⟨[0x77, 0x65, 0x62], (1 : Nat)⟩, ⟨[0x64, 0x62], 2⟩] [0x77, 0x65, 0x62] = .dial 1 := by
  decide
example : handleOpen true 1000 0 [⟨[0x77, 0x65, 0x62], (1 : Nat)⟩] [0x57, 0x65, 0x62] = .refuse 40 := by decide
example : handleOpen true 1000 0 [⟨[0x77, 0x65, 0x62], (1 : Nat)⟩] [0x77, 0x65, 0x62, 0x20] = .refuse 40 := by decide
example : handleOpen true 1000 0 [⟨[0x61], (1 : Nat)⟩, ⟨[0x61], 2⟩] [0x61] = .dial 2 := by decide
example : dispatch 7 3 ([10] ++ forwardPrefix ++ [0x77, 0x62]) [7] = .forward [0x77, 0x62] := by decide
example : dispatch 7 3 ([9] ++ [0x46] ++ forwardPrefix.drop 1 ++ [0x77]) [] = .exitTCP := by decide

end MM.C20
