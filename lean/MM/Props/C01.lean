/-
  C01 — End-to-end sessions accept only fresh, authentic messages from the other end.

  "A tunnel endpoint accepts a data payload only if the opposite endpoint of the same session
   produced it, and accepts each such payload at most once and in increasing send order.  Anything
   injected, modified, reflected back to its sender, or replayed by a relay is rejected.  Rejected
   input never changes what the endpoint accepts afterwards."

  Model: MM/Model/C01.lean — `SessionKey.Encrypt/Decrypt` of internal/crypto/crypto.go after
  fixes/C01-session-replay-window.patch, tied to the code by the differential engine `c01`.
  Quantification: ALL traces of `encI | encR | delI p | delR p` from a fresh session pair, where a
  delivered `p` has any header (prefix, counter — including 2^64-1), any length, and a body that is
  junk or was sealed earlier by either end (ideal AEAD: the adversary cannot make a new sealed
  body; it can drop, reorder, duplicate, reflect, truncate, re-head and corrupt).

  Only property theorems live here; helpers are in MM/Lemmas/C01.lean.
-/
import MM.Lemmas.C01
import MM.Gen.C01

namespace MM.C01

/-! ### tie to the source (regenerated facts, MM/Gen/C01.lean) -/

/-- The model's 28-byte overhead is the package's `EncryptionOverhead = NonceSize + TagSize`. -/
theorem C01_tie_constants :
    Gen.C01.encryptionOverhead = overhead ∧ Gen.C01.nonceSize = 12 ∧ Gen.C01.tagSize = 16 := by decide

/-- In `Decrypt`, every read of `recvNonce`, the `aead.Open` call (whose error returns at once) and
    the single `recvNonce` update lie in ONE Lock..Unlock region, in that order: the update comes after
    the authenticated open, and the window test cannot be separated from the update by another
    goroutine — so `decrypt` (one atomic step per call) is the right granularity.  `Decrypt` is the
    only function that writes `recvNonce`. -/
theorem C01_tie_decrypt_region :
    (∀ k ∈ Gen.C01.recvReadStmts, Gen.C01.lockStmt < k ∧ k < Gen.C01.openStmt) ∧
    Gen.C01.recvReadStmts ≠ [] ∧
    Gen.C01.openErrChecked = true ∧
    (∀ k ∈ Gen.C01.recvWriteStmts, Gen.C01.openStmt + 1 < k ∧ k < Gen.C01.unlockStmt) ∧
    Gen.C01.recvWriteStmts.length = 1 ∧
    Gen.C01.earlyUnlocksReturn = true ∧
    Gen.C01.recvNonceWriters = ["Decrypt"] := by decide

/-- (c) A rejected delivery leaves the endpoint exactly as it was — for EVERY session state and
    EVERY packet (no admissibility assumption at all). -/
theorem C01_reject_no_change (s s' : Sess) (p : Packet) (r : Res)
    (h : decrypt s p = (s', r)) (hr : r.isAcc = false) : s' = s :=
  decrypt_rej h hr

/-- (c) at trace level: a rejected delivery changes nothing in the whole system state. -/
theorem C01_reject_no_change_step (st : St) (p : Packet) :
    ((step st (.delI p)).2.map Res.isAcc = some false → (step st (.delI p)).1 = st) ∧
    ((step st (.delR p)).2.map Res.isAcc = some false → (step st (.delR p)).1 = st) := by
  constructor
  · intro h
    rcases hd : decrypt st.i p with ⟨s', r⟩
    cases r <;> simp only [step, hd, Option.map, Res.isAcc] at h ⊢ <;>
      first
        | (injection h with h; cases h)
        | (have := decrypt_rej hd rfl; subst this; rfl)
  · intro h
    rcases hd : decrypt st.r p with ⟨s', r⟩
    cases r <;> simp only [step, hd, Option.map, Res.isAcc] at h ⊢ <;>
      first
        | (injection h with h; cases h)
        | (have := decrypt_rej hd rfl; subst this; rfl)

/-- (a)+(b), step form.  In any state reached by an admissible trace, when the initiator accepts a
    delivered packet then (a) the responder sealed exactly that (counter, message) pair EARLIER
    (it is in the pre-state's log), and (b) its counter is strictly above every counter the
    initiator accepted before. -/
theorem C01_accept_at_initiator (tr : List Op) (st : St) (p : Packet) (s' : Sess) (c m : Nat)
    (hreach : exec init tr = some st) (hadm : admissible st (.delI p) = true)
    (hacc : decrypt st.i p = (s', .acc c m)) :
    (c, m) ∈ st.sentR ∧ ∀ x ∈ st.accI, x.1 < c := by
  have inv := inv_exec inv_init tr hreach
  obtain ⟨hmem, hge, _, _⟩ := accept_at_I inv.iInit hadm hacc
  exact ⟨hmem, fun x hx => Nat.lt_of_lt_of_le (inv.accI.lt_of_mem hx) hge⟩

/-- Same at the responder. -/
theorem C01_accept_at_responder (tr : List Op) (st : St) (p : Packet) (s' : Sess) (c m : Nat)
    (hreach : exec init tr = some st) (hadm : admissible st (.delR p) = true)
    (hacc : decrypt st.r p = (s', .acc c m)) :
    (c, m) ∈ st.sentI ∧ ∀ x ∈ st.accR, x.1 < c := by
  have inv := inv_exec inv_init tr hreach
  obtain ⟨hmem, hge, _, _⟩ := accept_at_R inv.rInit hadm hacc
  exact ⟨hmem, fun x hx => Nat.lt_of_lt_of_le (inv.accR.lt_of_mem hx) hge⟩

/-- Strictly decreasing, newest first (= strictly increasing in time). -/
def StrictlyOrdered (l : List (Nat × Nat)) : Prop := l.Pairwise (fun newer older => older.1 < newer.1)

/-- The property over whole traces. -/
def C01_statement : Prop :=
  ∀ (tr : List Op) (st : St), exec init tr = some st →
    -- (a) everything accepted at an end was sealed by the OTHER end
    (∀ x ∈ st.accI, x ∈ st.sentR) ∧ (∀ x ∈ st.accR, x ∈ st.sentI) ∧
    -- (b) accepted counters strictly increase at each end; so do the sender's counters, hence
    --     each sealed message is accepted at most once and acceptance follows send order
    StrictlyOrdered st.accI ∧ StrictlyOrdered st.accR ∧
    StrictlyOrdered st.sentI ∧ StrictlyOrdered st.sentR ∧
    st.accI.Nodup ∧ st.accR.Nodup ∧
    st.accI.Sublist st.sentR ∧ st.accR.Sublist st.sentI

theorem nodup_of_desc {b : Nat} {l : List (Nat × Nat)} (d : Desc b l) : l.Nodup := by
  have := d.pairwise
  unfold List.Nodup
  refine this.imp ?_
  intro a b hlt hab
  rw [hab] at hlt
  exact Nat.lt_irrefl _ hlt

/-- Two logs sorted by strictly decreasing counter: a subset is a subsequence. -/
theorem sublist_of_desc {l1 l2 : List (Nat × Nat)} {b1 b2 : Nat} (d1 : Desc b1 l1) (d2 : Desc b2 l2)
    (hsub : ∀ x ∈ l1, x ∈ l2) : l1.Sublist l2 := by
  induction l2 generalizing l1 b1 b2 with
  | nil =>
    cases l1 with
    | nil => exact List.Sublist.slnil
    | cons x r => exact absurd (hsub x (List.mem_cons_self)) (List.not_mem_nil)
  | cons y r2 ih =>
    cases l1 with
    | nil => exact List.nil_sublist _
    | cons x r1 =>
      by_cases hxy : x = y
      · subst hxy
        refine List.Sublist.cons_cons _ (ih d1.2 d2.2 ?_)
        intro z hz
        have hlt := d1.2.lt_of_mem hz
        rcases List.mem_cons.mp (hsub z (List.mem_cons_of_mem _ hz)) with h | h
        · rw [h] at hlt; exact absurd hlt (Nat.lt_irrefl _)
        · exact h
      · have hx2 : x ∈ r2 := by
          rcases List.mem_cons.mp (hsub x List.mem_cons_self) with h | h
          · exact absurd h hxy
          · exact h
        have hxlt : x.1 < y.1 := d2.2.lt_of_mem hx2
        refine List.Sublist.cons _ (ih d1 d2.2 ?_)
        intro z hz
        have hzle : z.1 ≤ x.1 := by
          rcases List.mem_cons.mp hz with h | h
          · rw [h]; exact Nat.le_refl _
          · exact Nat.le_of_lt (d1.2.lt_of_mem h)
        rcases List.mem_cons.mp (hsub z hz) with h | h
        · rw [h] at hzle; omega
        · exact h

/-- C01 holds for the (fixed) code's model, for all traces. -/
theorem C01_holds : C01_statement := by
  intro tr st h
  have inv := inv_exec inv_init tr h
  exact ⟨inv.authI, inv.authR, inv.accI.pairwise, inv.accR.pairwise, inv.sentI.pairwise,
    inv.sentR.pairwise, nodup_of_desc inv.accI, nodup_of_desc inv.accR,
    sublist_of_desc inv.accI inv.sentR inv.authI, sublist_of_desc inv.accR inv.sentI inv.authR⟩

/-- Not vacuous on the accepting side: what one end seals, the other end accepts as long as its
    receive counter has not passed it (in-order delivery, or delivery after losses). -/
theorem C01_honest_accept (snd rcv : Sess) (m plen : Nat) (p : Packet) (snd' : Sess)
    (hdir : rcv.isInit = !snd.isInit) (hs : snd.send < W)
    (henc : encrypt snd m plen = (snd', some p)) (hwin : rcv.recv ≤ p.ctr) :
    decrypt rcv p = ({ rcv with recv := p.ctr + 1 }, .acc p.ctr m) := by
  rcases encrypt_cases snd m plen hs with ⟨_, he⟩ | ⟨hlt, he⟩
  · rw [he] at henc; injection henc with _ h; cases h
  · rw [he] at henc
    injection henc with _ hp
    injection hp with hp
    subst hp
    have hmax : snd.send ≠ maxCtr := by unfold W maxCtr at *; omega
    have hpfx : sendPfx snd.isInit = recvPfx rcv.isInit := by
      rw [hdir]; cases snd.isInit <;> rfl
    simp only at hwin
    unfold decrypt aeadOpen
    simp only [overhead, hpfx, ne_eq, not_true_eq_false, if_false, and_self, if_true]
    rw [if_neg (by omega), if_neg (by omega), if_neg hmax, Nat.mod_eq_of_lt hlt]

/-! ### what the pinned tree did (`decryptV0`, before the fix) — the three defects, machine-checked -/

/-- Reflection: an initiator that has sent one message accepted its own ciphertext. -/
theorem C01_pinned_reflection :
    decryptV0 ⟨true, 1, 0⟩ ⟨sendPfx true, 0, .sealed (sendPfx true) 0 7, 32⟩ = (⟨true, 1, 1⟩, .acc 0 7) := by
  decide

/-- A forged header moved `recvNonce` before authentication: the rejected frame locked out the
    genuine stream (every counter below 2^63 is now "too old"). -/
theorem C01_pinned_state_change_on_reject :
    decryptV0 ⟨false, 0, 0⟩ ⟨0, 9223372036854775808, .junk, 32⟩ = (⟨false, 0, 9223372036854775809⟩, .rejAuth) := by
  decide

/-- Counter 2^64-1 wrapped the receive counter back to zero (old frames replayable again). -/
theorem C01_pinned_wrap :
    decryptV0 ⟨false, 0, 5⟩ ⟨0, maxCtr, .junk, 32⟩ = (⟨false, 0, 0⟩, .rejAuth) := by
  decide

/-- The fixed code on the same three inputs. -/
theorem C01_fixed_on_witnesses :
    decrypt ⟨true, 1, 0⟩ ⟨sendPfx true, 0, .sealed (sendPfx true) 0 7, 32⟩ = (⟨true, 1, 0⟩, .rejDir) ∧
    decrypt ⟨false, 0, 0⟩ ⟨0, 9223372036854775808, .junk, 32⟩ = (⟨false, 0, 0⟩, .rejAuth) ∧
    decrypt ⟨false, 0, 5⟩ ⟨0, maxCtr, .junk, 32⟩ = (⟨false, 0, 5⟩, .rejExhausted) := by
  decide

/-! ### non-vacuity: an honest 10-op trace with loss, reordering, duplication and reflection -/

def pktI (c m : Nat) : Packet := ⟨sendPfx true, c, .sealed (sendPfx true) c m, 32⟩
def pktR (c m : Nat) : Packet := ⟨sendPfx false, c, .sealed (sendPfx false) c m, 32⟩

def demo : List Op :=
  [.encI 10 4, .encI 11 4, .encR 20 4, .encI 12 4,
   .delR (pktI 1 11),          -- message 10 was lost; 11 arrives: accepted
   .delR (pktI 0 10),          -- 10 arrives late: rejected (too old)
   .delR (pktI 1 11),          -- duplicate: rejected
   .delI (pktI 2 12),          -- reflected to its sender: rejected
   .delI (pktR 0 20),          -- accepted at the initiator
   .delR (pktI 2 12)]          -- accepted

example : (exec init demo).map (fun st => (st.accI, st.accR, st.i, st.r)) =
    some ([(0, 20)], [(2, 12), (1, 11)], ⟨true, 3, 1⟩, ⟨false, 1, 3⟩) := by decide

end MM.C01
