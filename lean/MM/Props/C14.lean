import MM.Lemmas.C11

/-
  C14 — origin re-announcements always refresh every receiver.

  Model = MM/Model/C11.lean.  Two things can make an agent ignore or not renew a genuine
  announcement `(o, s)` of origin `o`: its seen cache already holds the key `(o, s)`, or its table
  holds a copy of `o`'s route with a sequence number `≥ s` (AddRoute rejects "older" routes without
  refreshing them).  `C14_statement` says that neither is ever the case at the moment `o` announces:

    fresh   no agent's seen cache contains the new key;
    older   every stored copy of one of `o`'s routes, anywhere, has a smaller sequence number;

  and `C14_renews` shows that this is exactly what is needed: an agent that handles an announcement
  not older than its stored copies ends up with a copy carrying that announcement's sequence number
  for every advertised CIDR/domain/forward route (and it forwards it — `handle` always does after
  storing, see the model).

  * `C14_refuted`: both parts fail after a full-table replay relayed by a third agent, because
    SendFullTable numbers another origin's routes with the REPLAYER's counter (open findings
    C14-replay-sequence-blocks-refresh, C14-replay-key-collision).
  * `C14_partial`: both parts hold in every history without third-party replays (`benignRun`): then
    every sequence number stored or cached for `o` anywhere was issued by `o` itself.
  "Reaches each connected agent" additionally needs reliable delivery (fairness); that convergence
  statement is exercised by the differential run (clean cases of engine c12), not proved here.
-/
namespace MM.C14
open MM.C11

/-! ### sequence numbers never exceed the origin's own counter (benign histories) -/

structure SeqInv (s : Net) : Prop where
  flight : ∀ f, f ∈ s.flight → f.adv.seq ≤ (s.nodes f.adv.origin).seq
  seen : ∀ x o sq, (o, sq) ∈ (s.nodes x).seen → sq ≤ (s.nodes o).seq
  entries : ∀ x e, e ∈ (s.nodes x).entries → e.seq ≤ (s.nodes e.origin).seq

theorem foldl_addLocal_seq (self : Node) (ls : List RAd) (st : NodeSt)
    (hst : ∀ e, e ∈ st.entries → e.seq ≤ st.seq) :
    ∀ e, e ∈ (ls.foldl (addLocal self) st).entries → e.seq ≤ (ls.foldl (addLocal self) st).seq := by
  induction ls generalizing st with
  | nil => exact hst
  | cons r t ih =>
    simp only [List.foldl_cons]
    apply ih
    intro e he
    simp only [addLocal, NodeSt.entries] at he ⊢
    rcases List.mem_append.1 he with he | he
    · rcases mem_addTab he with he | he
      · subst he; exact Nat.le_refl _
      · exact Nat.le_succ_of_le (hst e (List.mem_append_left _ he))
    · exact Nat.le_succ_of_le (hst e (List.mem_append_right _ he))

theorem seqInv_init (n mh : Nat) (L : Node → List RAd) : SeqInv (init n mh L) where
  flight := by intro f hf; simp [init, initH] at hf
  seen := by
    intro x o sq h
    have : ((init n mh L).nodes x).seen = [] := by
      simp only [init, initH, initNode]
      exact (foldl_addLocal_seen x (L x) {}).trans rfl
    rw [this] at h; cases h
  entries := by
    intro x e he
    have hl := initNode_entries x (L x) e he
    rw [hl.2.1]
    exact foldl_addLocal_seq x (L x) {} (by intro e he; simp [NodeSt.entries] at he) e he

/-- The counters only grow. -/
theorem seq_step_mono (s : Net) (op : Op) (x : Node) : (s.nodes x).seq ≤ ((step s op).nodes x).seq := by
  cases op with
  | connect a b => simp only [step, stepCore]; split <;> exact Nat.le_refl _
  | disconnect a b =>
    simp only [step, stepCore]; split
    · simp only [setNode_nodes]; split
      · rename_i hx; subst hx; exact Nat.le_refl _
      · split
        · rename_i hx; subst hx; exact Nat.le_refl _
        · exact Nat.le_refl _
    · exact Nat.le_refl _
  | replay a b ord =>
    simp only [step, stepCore]; split
    · simp only [setNode_nodes]; split
      · rename_i hx; subst hx; simp
      · exact Nat.le_refl _
    · exact Nat.le_refl _
  | announce a _ =>
    simp only [step, stepCore]; split
    · simp only [setNode_nodes]; split
      · rename_i hx; subst hx; simp
      · exact Nat.le_refl _
    · exact Nat.le_refl _
  | withdraw a _ =>
    simp only [step, stepCore]; split
    · simp only [setNode_nodes]; split
      · rename_i hx; subst hx; simp
      · exact Nat.le_refl _
    · exact Nat.le_refl _
  | deliver a b i =>
    simp only [step, stepCore]; split
    · split
      · exact Nat.le_refl _
      · rw [process_nodes]; split
        · rename_i hx; subst hx; rw [(handle_seq _ _ _ _ _ _ _).1]; exact Nat.le_refl _
        · exact Nat.le_refl _
    · exact Nat.le_refl _
  | dup a b i =>
    simp only [step, stepCore]; split
    · split
      · exact Nat.le_refl _
      · rw [process_nodes]; split
        · rename_i hx; subst hx; rw [(handle_seq _ _ _ _ _ _ _).1]; exact Nat.le_refl _
        · exact Nat.le_refl _
    · exact Nat.le_refl _
  | drop a b i =>
    simp only [step, stepCore]; split
    · split <;> exact Nat.le_refl _
    · exact Nat.le_refl _
  | expire a o sq =>
    simp only [step, stepCore]; split
    · simp only [setNode_nodes]; split
      · rename_i hx; subst hx; exact Nat.le_refl _
      · exact Nat.le_refl _
    · exact Nat.le_refl _
  | stale a age =>
    simp only [step, stepCore]; split
    · simp only [setNode_nodes]; split
      · rename_i hx; subst hx; exact Nat.le_refl _
      · exact Nat.le_refl _
    · exact Nat.le_refl _
  | dump => exact Nat.le_refl _

/-- A key in a seen cache after one op was there before or is the key of a frame that was in flight. -/
theorem seen_step {s : Net} {op : Op} {x : Node} {k : Node × Nat} (h : k ∈ ((step s op).nodes x).seen) :
    k ∈ (s.nodes x).seen ∨ ∃ f, f ∈ s.flight ∧ k = (f.adv.origin, f.adv.seq) := by
  cases op with
  | connect a b => simp only [step, stepCore] at h; split at h <;> exact Or.inl h
  | disconnect a b =>
    simp only [step, stepCore] at h; split at h
    · simp only [setNode_nodes] at h; split at h
      · rename_i hx; subst hx; exact Or.inl h
      · split at h
        · rename_i hx; subst hx; exact Or.inl h
        · exact Or.inl h
    · exact Or.inl h
  | replay a b ord =>
    simp only [step, stepCore] at h; split at h
    · simp only [setNode_nodes] at h; split at h
      · rename_i hx; subst hx; exact Or.inl h
      · exact Or.inl h
    · exact Or.inl h
  | announce a _ =>
    simp only [step, stepCore] at h; split at h
    · simp only [setNode_nodes] at h; split at h
      · rename_i hx; subst hx; exact Or.inl h
      · exact Or.inl h
    · exact Or.inl h
  | withdraw a _ =>
    simp only [step, stepCore] at h; split at h
    · simp only [setNode_nodes] at h; split at h
      · rename_i hx; subst hx; exact Or.inl h
      · exact Or.inl h
    · exact Or.inl h
  | deliver a b i =>
    simp only [step, stepCore] at h; split at h
    · split at h
      · exact Or.inl h
      · rename_i pos f hp
        rw [process_nodes] at h; split at h
        · rename_i hx; subst hx
          rcases handle_seen h with h | h
          · exact Or.inl h
          · exact Or.inr ⟨f, (pickFlight_mem hp).1, h⟩
        · exact Or.inl h
    · exact Or.inl h
  | dup a b i =>
    simp only [step, stepCore] at h; split at h
    · split at h
      · exact Or.inl h
      · rename_i pos f hp
        rw [process_nodes] at h; split at h
        · rename_i hx; subst hx
          rcases handle_seen h with h | h
          · exact Or.inl h
          · exact Or.inr ⟨f, (pickFlight_mem hp).1, h⟩
        · exact Or.inl h
    · exact Or.inl h
  | drop a b i =>
    simp only [step, stepCore] at h; split at h
    · split at h <;> exact Or.inl h
    · exact Or.inl h
  | expire a o sq =>
    simp only [step, stepCore] at h; split at h
    · simp only [setNode_nodes] at h; split at h
      · rename_i hx; subst hx
        exact Or.inl (List.mem_filter.1 h).1
      · exact Or.inl h
    · exact Or.inl h
  | stale a age =>
    simp only [step, stepCore] at h; split at h
    · simp only [setNode_nodes] at h; split at h
      · rename_i hx; subst hx; exact Or.inl h
      · exact Or.inl h
    · exact Or.inl h
  | dump => exact Or.inl h

theorem announce_seq (s : Net) (a : Node) (hint : List (List RAd)) (ha : a < s.n) :
    ((step s (.announce a hint)).nodes a).seq = (s.nodes a).seq + (announceAdvs a (s.nodes a) hint).length := by
  simp only [step, stepCore]
  have ha' : a < (tick s).n := ha
  rw [if_pos ha']
  simp

theorem withdraw_seq (s : Net) (a : Node) (hint : List (List RAd))
    (hc : a < s.n ∧ (s.nodes a).locals.any (fun r => r.kind == 0) = true) :
    ((step s (.withdraw a hint)).nodes a).seq = (s.nodes a).seq + (withdrawAdvs a (s.nodes a) hint).length := by
  simp only [step, stepCore]
  have hc' : a < (tick s).n ∧ ((tick s).nodes a).locals.any (fun r => r.kind == 0) = true := hc
  rw [if_pos hc']
  simp

theorem replay_seq (s : Net) (a b : Node) (ord : List RFrame) (hc : a < s.n ∧ b < s.n ∧ linked s a b = true) :
    ((step s (.replay a b ord)).nodes a).seq =
      (s.nodes a).seq + (replayAdvs (hopCap (s.maxHops a)) a b (s.nodes a) ord).length := by
  simp only [step, stepCore]
  have hc' : a < (tick s).n ∧ b < (tick s).n ∧ linked (tick s) a b = true := hc
  rw [if_pos hc']
  simp

theorem seqInv_step {s : Net} {op : Op} (hI : SeqInv s) (hb : benignOp s op = true) :
    SeqInv (step s op) where
  flight := by
    intro f hf
    cases flight_step hf with
    | old h => exact Nat.le_trans (hI.flight f h) (seq_step_mono s op _)
    | ann hint hop ha hd hadv =>
      have h := mem_announceAdvs hadv
      rw [h.origin, hop, announce_seq s f.src hint ha]
      exact h.seq_le
    | fwd a m hm hl ha hb' hd hne hns hself hseen hsb hlim hwire hadv =>
      rw [hadv, fwdAdv_seq, fwdAdv_origin]
      exact Nat.le_trans (hI.flight _ hm) (seq_step_mono s op _)
    | wdr hint hop ha hcidr hd hadv =>
      have h := mem_withdrawAdvs hadv
      rw [h.origin, hop, withdraw_seq s f.src hint ⟨ha, hcidr⟩]
      exact h.seq_le
    | rep ord hop ha hb' hl hadv =>
      subst hop
      obtain ⟨ho, _⟩ := benign_replay hb hadv
      rw [ho, replay_seq s f.src f.dst ord ⟨ha, hb', hl⟩]
      exact (mem_replayAdvs hadv).seq_le
  seen := by
    intro x o sq h
    rcases seen_step h with h | ⟨f, hf, hk⟩
    · exact Nat.le_trans (hI.seen x o sq h) (seq_step_mono s op _)
    · simp only [Prod.mk.injEq] at hk
      rw [hk.1, hk.2]
      exact Nat.le_trans (hI.flight f hf) (seq_step_mono s op _)
  entries := by
    intro x e he
    rcases entries_step he with h | ⟨a, m, hm, _, _, _, _, _, _, r, _, rfl⟩
    · exact Nat.le_trans (hI.entries x e h) (seq_step_mono s op _)
    · exact Nat.le_trans (hI.flight _ hm) (seq_step_mono s op _)

/-! ### the statement -/

/-- At any moment, for origin `o` with sequence counter `c`: no seen cache holds a key `(o, s)` with
    `s > c` — every number `o` will use for its next announcement(s) is still free — and every stored
    copy of a route of `o`, anywhere, carries a number `≤ c`, i.e. is older than the next announcement. -/
def FreshAt (st : Net) (o : Node) : Prop :=
  (∀ x sq, (st.nodes o).seq < sq → (o, sq) ∉ (st.nodes x).seen) ∧
  (∀ x e, e ∈ (st.nodes x).entries → e.origin = o → e.seq ≤ (st.nodes o).seq)

def C14_statement : Prop :=
  ∀ (n mh : Nat) (L : Node → List RAd) (ops : List Op) (o : Node), FreshAt (run (init n mh L) ops) o

theorem C14_partial (n mh : Nat) (L : Node → List RAd) (ops : List Op)
    (hb : benignRun (init n mh L) ops = true) (o : Node) : FreshAt (run (init n mh L) ops) o := by
  have hI := run_induction_benign (P := SeqInv) _ ops (seqInv_init n mh L) hb
    (fun s op hI hb => seqInv_step hI hb)
  constructor
  · intro x sq hlt h
    have := hI.seen x o _ h
    omega
  · intro x e he ho
    have := hI.entries x e he
    rw [ho] at this
    exact this

/-! ### why freshness is what matters: handling an announcement that is not older renews the copy -/

theorem addTab_has (e : Entry) (l : List Entry) :
    ∃ y, y ∈ addTab e l ∧ sameKey e y = true ∧ (y = e ∨ newer e y = false) := by
  induction l with
  | nil => exact ⟨e, by simp [addTab], by simp [sameKey], Or.inl rfl⟩
  | cons o t ih =>
    unfold addTab
    by_cases hk : sameKey e o = true
    · rw [if_pos hk]
      by_cases hn : newer e o = true
      · rw [if_pos hn]; exact ⟨e, List.mem_cons_self, by simp [sameKey], Or.inl rfl⟩
      · rw [if_neg hn]; exact ⟨o, List.mem_cons_self, hk, Or.inr (by simpa using hn)⟩
    · rw [if_neg hk]
      obtain ⟨y, hy, h1, h2⟩ := ih
      exact ⟨y, List.mem_cons_of_mem _ hy, h1, h2⟩

theorem addTab_keeps {e x : Entry} {l : List Entry} (hx : x ∈ l) :
    x ∈ addTab e l ∨ (sameKey e x = true ∧ e ∈ addTab e l) := by
  induction l with
  | nil => cases hx
  | cons o t ih =>
    unfold addTab
    by_cases hk : sameKey e o = true
    · rw [if_pos hk]
      by_cases hn : newer e o = true
      · rw [if_pos hn]
        rcases List.mem_cons.1 hx with hx | hx
        · subst hx; exact Or.inr ⟨hk, List.mem_cons_self⟩
        · exact Or.inl (List.mem_cons_of_mem _ hx)
      · rw [if_neg hn]; exact Or.inl hx
    · rw [if_neg hk]
      rcases List.mem_cons.1 hx with hx | hx
      · subst hx; exact Or.inl List.mem_cons_self
      · rcases ih hx with h | ⟨h1, h2⟩
        · exact Or.inl (List.mem_cons_of_mem _ h)
        · exact Or.inr ⟨h1, List.mem_cons_of_mem _ h2⟩

/-- `Q k key o sq y`: `y` is a copy of route `(k, key)` of origin `o` with sequence number `sq`. -/
def IsCopy (k key o sq : Nat) (y : Entry) : Prop := y.kind = k ∧ y.key = key ∧ y.origin = o ∧ y.seq = sq

theorem storeRoute_keeps {self frm clock : Nat} {a : Adv} {st : NodeSt} {r : RAd} {k key : Nat}
    (h : ∃ y, y ∈ st.tab ∧ IsCopy k key a.origin a.seq y) :
    ∃ y, y ∈ (storeRoute self frm a clock st r).tab ∧ IsCopy k key a.origin a.seq y := by
  obtain ⟨y, hy, hq⟩ := h
  unfold storeRoute
  split
  · exact ⟨y, hy, hq⟩
  · split
    · exact ⟨y, hy, hq⟩
    · rcases addTab_keeps (e := mkEntry r a frm clock) hy with h | ⟨hk, he⟩
      · exact ⟨y, h, hq⟩
      · refine ⟨_, he, ?_⟩
        simp only [sameKey, Bool.and_eq_true, decide_eq_true_eq] at hk
        obtain ⟨h1, h2, h3, h4⟩ := hq
        exact ⟨hk.1.1.symm.trans h1, hk.1.2.symm.trans h2, rfl, rfl⟩

theorem foldl_storeRoute_keeps {self frm clock : Nat} {a : Adv} (rs : List RAd) (st : NodeSt) {k key : Nat}
    (h : ∃ y, y ∈ st.tab ∧ IsCopy k key a.origin a.seq y) :
    ∃ y, y ∈ (rs.foldl (storeRoute self frm a clock) st).tab ∧ IsCopy k key a.origin a.seq y := by
  induction rs generalizing st with
  | nil => exact h
  | cons r t ih => simp only [List.foldl_cons]; exact ih _ (storeRoute_keeps h)

theorem foldl_storeRoute_tab_origin {self frm clock : Nat} {a : Adv} (rs : List RAd) (st : NodeSt)
    (h : ∀ y, y ∈ st.tab → y.origin = a.origin → y.seq ≤ a.seq) :
    ∀ y, y ∈ (rs.foldl (storeRoute self frm a clock) st).tab → y.origin = a.origin → y.seq ≤ a.seq := by
  induction rs generalizing st with
  | nil => exact h
  | cons r t ih =>
    simp only [List.foldl_cons]
    apply ih
    intro y hy ho
    unfold storeRoute at hy
    split at hy
    · exact h y hy ho
    · split at hy
      · exact h y hy ho
      · rcases mem_addTab hy with hy | hy
        · subst hy; exact Nat.le_refl _
        · exact h y hy ho

theorem foldl_storeRoute_renews {self frm clock : Nat} {a : Adv} (hp : self ∉ a.path)
    (rs : List RAd) (st : NodeSt)
    (hold : ∀ y, y ∈ st.tab → y.origin = a.origin → y.seq ≤ a.seq) :
    ∀ r, r ∈ rs → r.kind ≠ 3 →
      ∃ y, y ∈ (rs.foldl (storeRoute self frm a clock) st).tab ∧ IsCopy r.kind r.key a.origin a.seq y := by
  induction rs generalizing st with
  | nil => intro r hr; cases hr
  | cons r0 t ih =>
    intro r hr hk
    simp only [List.foldl_cons]
    have hold' : ∀ y, y ∈ (storeRoute self frm a clock st r0).tab → y.origin = a.origin → y.seq ≤ a.seq :=
      foldl_storeRoute_tab_origin [r0] st hold
    rcases List.mem_cons.1 hr with hr | hr
    · subst hr
      apply foldl_storeRoute_keeps
      unfold storeRoute
      rw [if_neg hp, if_neg hk]
      obtain ⟨y, hy, hsk, hyn⟩ := addTab_has (mkEntry r a frm clock) st.tab
      refine ⟨y, hy, ?_⟩
      simp only [sameKey, Bool.and_eq_true, decide_eq_true_eq] at hsk
      rcases hyn with rfl | hn
      · exact ⟨rfl, rfl, rfl, rfl⟩
      · rcases mem_addTab hy with h | hmem
        · subst h; exact ⟨rfl, rfl, rfl, rfl⟩
        refine ⟨hsk.1.1, hsk.1.2, hsk.2, ?_⟩
        have hle := hold y hmem hsk.2
        simp only [newer, mkEntry, Bool.or_eq_false_iff, decide_eq_false_iff_not, Bool.and_eq_false_iff] at hn
        have : ¬ a.seq > y.seq := by simpa using hn.1
        omega
    · exact ih _ hold' r hr hk

/-- An agent that gets past its cache, is not on the path and holds no copy newer than the
    announcement ends up, for every advertised CIDR / domain / forward route, with a copy carrying
    exactly the announcement's sequence number. -/
theorem C14_renews (mh : Nat) (peers : List Node) (self frm clock : Nat) (a : Adv) (st : NodeSt)
    (hwd : a.wd = false) (hacc : Accepts mh self a st) (hp : self ∉ a.path)
    (hold : ∀ y, y ∈ st.entries → y.origin = a.origin → y.seq ≤ a.seq) :
    ∀ r, r ∈ a.routes → r.kind ≠ 3 →
      ∃ y, y ∈ (handle mh peers self frm clock a st).1.entries ∧ IsCopy r.kind r.key a.origin a.seq y := by
  intro r hr hk
  have key := foldl_storeRoute_renews (frm := frm) (clock := clock) hp a.routes
    { st with seen := (a.origin, a.seq) :: st.seen }
    (fun y hy ho => hold y (List.mem_append_left _ hy) ho) r hr hk
  obtain ⟨y, hy, hq⟩ := key
  refine ⟨y, ?_, hq⟩
  unfold handle
  rw [if_neg hacc.1]
  dsimp only
  rw [if_neg hacc.2.1, if_neg (by simp [hwd]), if_neg hacc.2.2]
  split
  · exact List.mem_append_left _ hy
  · split <;> exact List.mem_append_left _ hy

/-! ### refutation (open findings C14-replay-key-collision, C14-replay-sequence-blocks-refresh) -/

def exitAt0 : Node → List RAd := fun x => if x = 0 then [⟨0, 1, 0⟩] else []

/-- Agent 1 has announced twice (counter 2) when it replays its table to the new peer 2: origin 0's
    routes travel as `(0, 3)`.  Origin 0's next genuine announcement is `(0, 3)` as well. -/
def collisionOps : List Op := [
  .connect 0 1, .announce 0 [], .deliver 0 1 0, .announce 1 [], .announce 1 [],
  .connect 1 2, .replay 1 2 [], .deliver 1 2 0]

/-- Agent 1 has announced three times: the replay carries `(0, 4)`, above origin 0's counter 2. -/
def blockOps : List Op := [
  .connect 0 1, .announce 0 [], .deliver 0 1 0, .announce 1 [], .announce 1 [], .announce 1 [],
  .connect 1 2, .replay 1 2 [], .deliver 1 2 0]

theorem collision_witness :
    ((run (init 3 0 exitAt0) collisionOps).nodes 0).seq = 2 ∧
    (0, 3) ∈ ((run (init 3 0 exitAt0) collisionOps).nodes 2).seen := by decide

theorem block_witness :
    ((run (init 3 0 exitAt0) blockOps).nodes 0).seq = 2 ∧
    (⟨0, 1, 0, 1, 2, [1, 0], 4, 9⟩ : Entry) ∈ ((run (init 3 0 exitAt0) blockOps).nodes 2).entries := by decide

theorem C14_refuted : ¬ C14_statement := by
  intro h
  have := (h 3 0 exitAt0 collisionOps 0).1 2 3
  rw [collision_witness.1] at this
  exact this (by omega) collision_witness.2

/-- The second part fails independently of the first. -/
theorem C14_refuted_block : ¬ (∀ x e, e ∈ ((run (init 3 0 exitAt0) blockOps).nodes x).entries →
    e.origin = 0 → e.seq ≤ ((run (init 3 0 exitAt0) blockOps).nodes 0).seq) := by
  intro h
  have := h 2 _ block_witness.2 rfl
  rw [block_witness.1] at this
  revert this; decide

example : benignRun (init 3 0 exitAt0) collisionOps = false := by decide

/-- Vacuity of `C14_partial`: a benign history with several announcements and a duplicate. -/
def benignOps : List Op := [
  .connect 0 1, .replay 0 1 [], .connect 1 2, .announce 0 [], .deliver 0 1 1, .dup 1 2 0,
  .announce 0 [], .deliver 0 1 1, .deliver 1 2 0, .announce 1 []]

example : benignRun (init 3 0 exitAt0) benignOps = true := by decide
example : ((run (init 3 0 exitAt0) benignOps).nodes 2).entries.map (·.seq) = [3, 3] := by decide

end MM.C14
