import MM.Lemmas.C31
import MM.Gen.LockC31

/-!
  C31 — reconnection respects pause and bounded exponential backoff.

  Statements are about the fixed reconnector (`fx = true`, i.e. after
  fixes/C31-reconnect-pause-and-orphan-timer.patch) under ANY sequence of steps: Schedule calls,
  timer expiries, callbacks returning success or failure (with or without the Schedule call that
  Manager.handleReconnect makes itself on a failed dial), Pause/Resume/ResetAll/Cancel/Stop at
  any time — in particular while an attempt is in flight.  `C31_old_*` are the machine-checked
  witnesses of the defects of the code before the fix.
-/
namespace MM.C31

inductive Reachable (c : Cfg) : R → Prop where
  | init : Reachable c {}
  | step (r : R) (l : Label) : Reachable c r → Reachable c (step true c r l).1

theorem reachable_inv (c : Cfg) (r : R) (h : Reachable c r) : Inv c r := by
  induction h with
  | init => exact inv_init c
  | step r l _ ih => exact inv_step c r ih l

/-- **While paused no attempt starts** — in ANY state (no invariant needed): a step taken while
    `paused` emits no attempt, and an emitted attempt is never flagged "while paused". -/
theorem C31_paused_no_attempt (c : Cfg) (r : R) (l : Label) (n d : Nat) (wp : Bool)
    (h : (step true c r l).2 = some (.attempt n d wp)) : r.paused = false ∧ wp = false := by
  obtain ⟨i, rfl⟩ := step_event true c r l _ h
  simp only [step, fire] at h
  split at h
  · simp at h
  · split at h
    · simp at h
    · split at h
      · simp at h
      · rename_i hcp
        simp only [Bool.true_and, Bool.or_eq_true, not_or, Bool.not_eq_true] at hcp
        simp only [Option.some.injEq, Ev.attempt.injEq] at h
        exact ⟨hcp.2, by rw [← h.2.2]; exact hcp.2⟩

/-- ... and in reachable states nothing is even armed while paused: there is no timer that could
    start an attempt. -/
theorem C31_paused_nothing_armed (c : Cfg) (r : R) (h : Reachable c r) (hp : r.paused = true) :
    r.live = [] := by
  rcases (reachable_inv c r h).2 with h0 | ⟨_, _, _, _, _, _, hp', _⟩
  · exact h0
  · rw [hp] at hp'; cases hp'

/-- **No orphan timer**: at most one timer is armed, and it is the registered one. -/
theorem C31_single_timer (c : Cfg) (r : R) (h : Reachable c r) :
    r.live.length ≤ 1 ∧ ∀ t ∈ r.live, ∃ s, r.st = some s ∧ s.timer = some t.id := by
  rcases (reachable_inv c r h).2 with h0 | ⟨s, t, hs, hl, ht, _⟩
  · simp [h0]
  · simp [hl, hs, ht]

/-- **Backoff sequence**: the attempt that makes the attempt counter `k+1` (the k-th consecutive
    retry) is started by a timer armed with the un-jittered delay `dseq k`:
    d₀ = I, dₖ₊₁ = min(⌊dₖ·m⌋, M). -/
theorem C31_delay_seq (c : Cfg) (r : R) (hr : Reachable c r) (l : Label) (n d : Nat) (wp : Bool)
    (h : (step true c r l).2 = some (.attempt n d wp)) : ∃ k, n = k + 1 ∧ d = dseq c k := by
  obtain ⟨i, rfl⟩ := step_event true c r l _ h
  obtain ⟨_, _, s, _, hn, hd⟩ := (inv_fire c r (reachable_inv c r hr) i).2 n d wp h
  exact ⟨s.attempts, hn, hd⟩

/-- Jitter interval of `addJitter` (exact rational arithmetic, then truncation), for every value
    `x < 1000` of the pseudo-random source and jitter fraction `jnum/jden ≤ 1`:
    (1 − j)·d − 1 < jit d x ≤ (1 + j)·d. -/
theorem jitter_bounds (c : Cfg) (d x : Nat) (hj : c.jnum ≤ c.jden) (hd : 0 < c.jden) (hx : x < 1000) :
    c.jden * jit c d x ≤ d * (c.jden + c.jnum) ∧ d * (c.jden - c.jnum) < c.jden * (jit c d x + 1) := by
  unfold jit
  generalize hN : d * (1000 * (c.jden - c.jnum) + 2 * x * c.jnum) = N
  have hD : 0 < 1000 * c.jden := by omega
  have h1 : 1000 * c.jden * (N / (1000 * c.jden)) ≤ N := Nat.mul_div_le N _
  have h2 : N < 1000 * c.jden * (N / (1000 * c.jden) + 1) := Nat.lt_mul_div_succ N hD
  generalize N / (1000 * c.jden) = q at h1 h2
  -- N ≤ d * 1000 * (jden + jnum)  and  d * 1000 * (jden - jnum) ≤ N
  have hup : N ≤ 1000 * (d * (c.jden + c.jnum)) := by
    rw [← hN]
    have : 1000 * (c.jden - c.jnum) + 2 * x * c.jnum ≤ 1000 * (c.jden + c.jnum) := by
      have : 2 * x * c.jnum ≤ 2000 * c.jnum := Nat.mul_le_mul_right _ (by omega)
      omega
    calc d * (1000 * (c.jden - c.jnum) + 2 * x * c.jnum)
        ≤ d * (1000 * (c.jden + c.jnum)) := Nat.mul_le_mul_left d this
      _ = 1000 * (d * (c.jden + c.jnum)) := by rw [Nat.mul_left_comm]
  have hlo : 1000 * (d * (c.jden - c.jnum)) ≤ N := by
    rw [← hN]
    calc 1000 * (d * (c.jden - c.jnum)) = d * (1000 * (c.jden - c.jnum)) := by rw [Nat.mul_left_comm]
      _ ≤ d * (1000 * (c.jden - c.jnum) + 2 * x * c.jnum) := Nat.mul_le_mul_left d (Nat.le_add_right _ _)
  have e1 : 1000 * c.jden * q = 1000 * (c.jden * q) := Nat.mul_assoc _ _ _
  have e2 : 1000 * c.jden * (q + 1) = 1000 * (c.jden * (q + 1)) := Nat.mul_assoc _ _ _
  rw [e1] at h1
  rw [e2] at h2
  generalize c.jden * q = A at h1
  generalize c.jden * (q + 1) = B at h2
  generalize d * (c.jden + c.jnum) = U at hup
  generalize d * (c.jden - c.jnum) = L at hlo
  omega

/-- **Delay bounds**: the timer that starts the k-th consecutive retry runs for
    `jit (dseq k) x` with `(1 − j)·dₖ − 1 < jit ≤ (1 + j)·dₖ`. -/
theorem C31_delay_bounds (c : Cfg) (hj : c.jnum ≤ c.jden) (hd : 0 < c.jden)
    (r : R) (hr : Reachable c r) (l : Label) (n d : Nat) (wp : Bool)
    (h : (step true c r l).2 = some (.attempt n d wp)) (x : Nat) (hx : x < 1000) :
    ∃ k, n = k + 1 ∧ d = dseq c k ∧
      c.jden * jit c d x ≤ dseq c k * (c.jden + c.jnum) ∧
      dseq c k * (c.jden - c.jnum) < c.jden * (jit c d x + 1) := by
  obtain ⟨k, hn, hdk⟩ := C31_delay_seq c r hr l n d wp h
  refine ⟨k, hn, hdk, ?_⟩
  rw [hdk]
  exact jitter_bounds c (dseq c k) x hj hd hx

/-- The sequence is capped: from the first retry on, `dₖ ≤ M`. -/
theorem dseq_le_max (c : Cfg) (k : Nat) : dseq c (k + 1) ≤ c.M := by
  simp only [dseq, nextD]
  exact Nat.min_le_right _ _

/-- ... and never exceeds the un-truncated geometric value: `dₖ · mdenᵏ ≤ I · mnumᵏ`. -/
theorem dseq_le_geometric (c : Cfg) (k : Nat) :
    dseq c k * c.mden ^ k ≤ c.I * c.mnum ^ k := by
  induction k with
  | zero => simp [dseq]
  | succ k ih =>
    have h1 : dseq c (k + 1) ≤ dseq c k * c.mnum / c.mden := by
      simp only [dseq, nextD]; exact Nat.min_le_left _ _
    have h2 : dseq c k * c.mnum / c.mden * c.mden ≤ dseq c k * c.mnum := Nat.div_mul_le_self _ _
    calc dseq c (k + 1) * c.mden ^ (k + 1)
        = dseq c (k + 1) * c.mden * c.mden ^ k := by rw [Nat.pow_succ, Nat.mul_comm (c.mden ^ k), Nat.mul_assoc]
      _ ≤ dseq c k * c.mnum / c.mden * c.mden * c.mden ^ k :=
          Nat.mul_le_mul_right _ (Nat.mul_le_mul_right _ h1)
      _ ≤ dseq c k * c.mnum * c.mden ^ k := Nat.mul_le_mul_right _ h2
      _ = dseq c k * c.mden ^ k * c.mnum := by rw [Nat.mul_assoc, Nat.mul_comm c.mnum, ← Nat.mul_assoc]
      _ ≤ c.I * c.mnum ^ k * c.mnum := Nat.mul_le_mul_right _ ih
      _ = c.I * c.mnum ^ (k + 1) := by rw [Nat.pow_succ, Nat.mul_assoc]

/-- Whole-run form: every attempt emitted along ANY label sequence from the initial state is
    not "while paused" and carries the delay of its position in the backoff sequence. -/
theorem C31_run (c : Cfg) (ls : List Label) :
    ∀ r, Reachable c r → ∀ e ∈ (run true c r ls).2,
      ∃ k, e = .attempt (k + 1) (dseq c k) false := by
  induction ls with
  | nil => intro r _ e he; simp [run] at he
  | cons l ls ih =>
    intro r hr e he
    simp only [run] at he
    rcases hs : step true c r l with ⟨r', oe⟩
    rw [hs] at he
    simp only [List.mem_append] at he
    have hr' : Reachable c r' := by
      have := Reachable.step r l hr
      rw [hs] at this; exact this
    rcases he with he | he
    · cases oe with
      | none => simp at he
      | some e' =>
        simp at he
        subst he
        cases e with
        | attempt n d wp =>
          have hoe : (step true c r l).2 = some (.attempt n d wp) := by rw [hs]
          obtain ⟨k, hn, hd⟩ := C31_delay_seq c r hr l n d wp hoe
          obtain ⟨_, hwp⟩ := C31_paused_no_attempt c r l n d wp hoe
          exact ⟨k, by rw [hn, hd, hwp]⟩
    · exact ih r' hr' e he


/-! ### Atomic-step tie (facts regenerated from internal/peer/reconnect.go by tools/lockshape.go)

  The LTS's steps are the regions under `Reconnector.mu`: every access to `paused`, `states`,
  `closed` in the modelled methods happens under the lock; Schedule / Pause / Resume / ResetAll /
  clearState / Stop are one region each; attemptReconnect is exactly TWO regions (`fire` and
  `ret`) with the callback invoked between them without the lock, and its first region reads
  `paused`. -/

namespace LockTie
open MM.Gen.LockC31

def acq (m : String) : Option Nat := (acquisitions.find? (fun a => a.1 == m)).map (·.2)
def allW : Bool := accesses.all (fun a => a.2.2.2 == "W")

theorem C31_lock_regions :
    allW = true ∧
    acq "Reconnector.attemptReconnect" = some 2 ∧
    accesses.contains ("Reconnector.attemptReconnect", "paused", false, "W") = true ∧
    calls.contains ("Reconnector.attemptReconnect", "callback", "none") = true ∧
    acq "Reconnector.Schedule" = some 1 ∧ acq "Reconnector.Pause" = some 1 ∧ acq "Reconnector.Resume" = some 1 ∧
    acq "Reconnector.ResetAll" = some 1 ∧ acq "Reconnector.clearState" = some 1 ∧ acq "Reconnector.Stop" = some 1 ∧
    accesses.contains ("Reconnector.Pause", "paused", true, "W") = true ∧
    accesses.contains ("Reconnector.Schedule", "paused", false, "W") = true := by decide

end LockTie

/-! ### Non-vacuity -/

def cfgEx : Cfg := ⟨1000, 5000, 2, 1, 1, 5, 0⟩

/-- Three consecutive failed attempts through Manager.handleReconnect, a pause while the fourth
    is in flight: delays 1000, 2000, 4000, 5000 (capped), nothing armed after the paused failure. -/
example : (run true cfgEx {} [.schedule, .fire 1, .retFailSched, .fire 3, .retFailSched, .fire 5, .retFailSched,
      .fire 7, .pause, .retFailSched]).2
    = [.attempt 1 1000 false, .attempt 2 2000 false, .attempt 3 4000 false, .attempt 4 5000 false] := by decide

example : (run true cfgEx {} [.schedule, .fire 1, .retFailSched, .fire 3, .retFailSched, .fire 5, .retFailSched,
      .fire 7, .pause, .retFailSched]).1.live = [] := by decide

example : jit cfgEx 1000 0 = 800 ∧ jit cfgEx 1000 999 = 1199 := by decide


/-! ### Shape of the backoff sequence (for multiplier `m = mnum/mden ≥ 1` and `I ≤ M`)

  `dseq_mono`, `dseq_le_max_all`: d₀ ≤ d₁ ≤ … ≤ M.  `dseq_cap_absorbing`: once M, always M.
  `dseq_reaches_cap`: if `I·(m−1) ≥ 1` (each step gains at least 1 ns; without it truncation can
  pin the sequence below the cap, e.g. I = 1 ns, m = 3/2) then dₖ = M for every k ≥ M − I.
  `dseq_step_slack`: a step that is not capped loses less than one nanosecond to truncation:
  dₖ·m < dₖ₊₁ + 1.  (The design's `|dₖ − min(I·mᵏ, M)| < k+1` is false for m > 1: the truncation
  error of step i is multiplied by m in every later step; `dseq_le_geometric` is the true upper
  half, `dseq_step_slack` the per-step lower half.)  All in Lemmas/C31.lean. -/

example : cfgEx.mden ≤ (cfgEx.mnum - cfgEx.mden) * cfgEx.I ∧ cfgEx.I ≤ cfgEx.M ∧ 0 < cfgEx.mden := by decide
example : dseq cfgEx 2 = 4000 ∧ dseq cfgEx 3 = 5000 ∧ dseq cfgEx 6 = 5000 := by decide

/-! ### n peer addresses (`Sys`, `sysStep` in Model/C31.lean) -/

inductive SysReachable (c : Cfg) : Sys → Prop where
  | init : SysReachable c (fun _ => {})
  | step (s : Sys) (l : SysLabel) : l.wf = true → SysReachable c s → SysReachable c (sysStep c s l).1

/-- Every address on its own is a run of the single-address LTS (steps of other addresses are
    invisible to it). -/
theorem sys_component_reachable (c : Cfg) (s : Sys) (h : SysReachable c s) (a : Nat) : Reachable c (s a) := by
  induction h generalizing a with
  | init => exact .init
  | step s l _ _ ih =>
    cases l with
    | «at» b l =>
      simp only [sysStep]
      by_cases hab : a = b
      · subst hab; simp only [↓reduceIte]; exact .step _ l (ih a)
      · simp only [hab, ↓reduceIte]; exact ih a
    | all l => exact .step _ l (ih a)

/-- The per-address copies of `paused` / `closed` always agree: the product is a system with ONE
    shared flag, and the flag is the only thing through which addresses influence each other. -/
theorem sys_flags_agree (c : Cfg) (s : Sys) (h : SysReachable c s) (a b : Nat) :
    (s a).paused = (s b).paused ∧ (s a).closed = (s b).closed := by
  induction h generalizing a b with
  | init => exact ⟨rfl, rfl⟩
  | step s l hwf _ ih =>
    cases l with
    | «at» x l =>
      have hl : l.isGlobal = false := by simpa [SysLabel.wf] using hwf
      have hx := step_local_flags c (s x) l hl
      simp only [sysStep]
      by_cases ha : a = x <;> by_cases hb : b = x <;> simp only [ha, hb, ↓reduceIte]
      · exact ⟨by trivial, by trivial⟩
      · exact ⟨hx.1.trans (ih x b).1, hx.2.trans (ih x b).2⟩
      · exact ⟨(ih a x).1.trans hx.1.symm, (ih a x).2.trans hx.2.symm⟩
      · exact ih a b
    | all l =>
      have hl : l.isGlobal = true := by simpa [SysLabel.wf] using hwf
      exact step_global_flags c (s a) (s b) l hl (ih a b).1 (ih a b).2

/-- **n addresses**: while the reconnector is paused (the flag of ANY address — they agree) no
    attempt starts for any address, and every attempt of address `a` carries the delay of a's own
    position in the backoff sequence, whatever the other addresses do. -/
theorem C31_sys (c : Cfg) (s : Sys) (h : SysReachable c s) (l : SysLabel) (a n d : Nat) (wp : Bool)
    (he : (sysStep c s l).2 = some (a, .attempt n d wp)) :
    (∀ b, (s b).paused = false) ∧ wp = false ∧ ∃ k, n = k + 1 ∧ d = dseq c k := by
  cases l with
  | all l => simp [sysStep] at he
  | «at» x l =>
    simp only [sysStep, Option.map_eq_some_iff] at he
    obtain ⟨e, hse, hpair⟩ := he
    simp only [Prod.mk.injEq] at hpair
    obtain ⟨rfl, rfl⟩ := hpair
    obtain ⟨hp, hwp⟩ := C31_paused_no_attempt c (s x) l n d wp hse
    refine ⟨fun b => ((sys_flags_agree c s h b x).1).trans hp, hwp, ?_⟩
    exact C31_delay_seq c (s x) (sys_component_reachable c s h x) l n d wp hse


/-- eight addresses in flight, Pause, every callback fails: nothing is armed anywhere. -/
example :
    let ls : List SysLabel := (List.range 8).map (fun a => .at a .schedule) ++ (List.range 8).map (fun a => .at a (.fire 1)) ++
      [.all .pause] ++ (List.range 8).map (fun a => .at a .retFailSched)
    let s := ls.foldl (fun s l => (sysStep cfgEx s l).1) (fun _ => {})
    (List.range 8).all (fun a => (s a).live.isEmpty && (s a).paused) = true := by decide

/-! ### Witnesses of the defects of the code before the fix (`fx = false`) -/

/-- Pause while the first attempt is blocked in the callback, then let it fail: the second
    critical section re-arms without looking at `paused`, and the next expiry starts an attempt
    although the reconnector is paused. -/
theorem C31_old_attempt_while_paused :
    (run false cfgEx {} [.schedule, .fire 1, .pause, .retFailSched, .fire 2]).2
      = [.attempt 1 1000 false, .attempt 2 2000 true] := by decide

/-- One failed attempt through Manager.handleReconnect leaves TWO armed timers (the one armed by
    the manager's own Schedule inside the callback is overwritten, not stopped); after the second
    round both timers of that round fire: attempts 3 and 4 both come with delay d₂ = 4000 although
    the 4th attempt is the 3rd consecutive retry (d₃ = 5000) — it follows the 3rd one at once. -/
theorem C31_old_orphan_timer :
    (run false cfgEx {} [.schedule, .fire 1, .retFailSched]).1.live.length = 2 ∧
    (run false cfgEx {} [.schedule, .fire 1, .retFailSched, .fire 2, .retFailSched, .fire 4, .fire 5]).2
      = [.attempt 1 1000 false, .attempt 2 2000 false, .attempt 3 4000 false, .attempt 4 4000 false] ∧
    dseq cfgEx 3 = 5000 := by decide

end MM.C31
