/-
  C17 — Tunnel bookkeeping returns to empty once tunnels and peers are gone.

  "After all tunnels have closed or their peers have disconnected, no relay entry, exit or forward
   connection record, or connection counter remains for them. Connection limits are therefore never
   consumed by tunnels that no longer exist."

  Two models: the relay table / `handlePeerDisconnect` (MM/Model/C16.lean) and the exit / forward
  handler bookkeeping (MM/Model/C17.lean).

  * relay tables, repaired code (`cleanAll = true`): after a peer disconnect no index of any of the
    three tables (TCP, UDP, ICMP) holds a record of that peer and the tables stay consistent, hence
    free of orphans (`C17_disconnect_clean`, `C17_no_orphans`) — under index consistency, which
    `Distinct` guarantees (MM/Props/C16.lean).  The pinned code cleaned only the TCP table
    (`C17_pinned_udp_leak`, repaired by fixes/C17-*.patch).
  * exit/forward handlers (repaired by fixes/C17-teardown-compares-record.patch): `connCount =
    len(connections)` is an invariant of EVERY history (`C17_count_matches`), so an empty map means a
    zero counter (`C17_handlers_return_to_empty`), and a read loop that ends late removes only its own
    record (`C17_late_teardown_spares_newer_record`).
  * the relay table still leaves an orphan under a bare-id collision (`C17_refuted_relay_orphan`,
    known finding shared with C16).
-/
import MM.Lemmas.C16
import MM.Props.C16
import MM.Model.C17

namespace MM.C17
open MM.C16 MM.C16.Table

/-! ### relay tables -/

theorem mem_hit {m : Map} {p k : Nat} {e : Entry} (hn : m.keys.Nodup) :
    (k, e) ∈ m.filter (fun kv => involves p kv.2) ↔ m.get k = some e ∧ involves p e = true := by
  simp only [List.mem_filter]
  constructor
  · rintro ⟨h1, h2⟩; exact ⟨Map.get_of_mem hn h1, h2⟩
  · rintro ⟨h1, h2⟩; exact ⟨Map.mem_of_get h1, h2⟩

/-- On a consistent table `DeleteByPeer p` removes exactly the records that involve `p`, from both
    indices, and keeps the table consistent. -/
theorem C17_disconnect_clean {t : Table} (hc : Consistent t) (p : Nat) :
    Consistent (t.deleteByPeer p).1 ∧
    (∀ k e, (t.deleteByPeer p).1.byUp.get k = some e → involves p e = false) ∧
    (∀ k e, (t.deleteByPeer p).1.byDown.get k = some e → involves p e = false) ∧
    (∀ e, Live t e → involves p e = false → Live (t.deleteByPeer p).1 e) := by
  obtain ⟨n1, n2, hu, hd⟩ := hc
  -- characterise the two new indices
  have upGet : ∀ k, (t.deleteByPeer p).1.byUp.get k =
      match t.byUp.get k with
      | some e => if involves p e then none else some e
      | none => none := by
    intro k
    simp only [deleteByPeer, Map.get_delAll]
    cases hk : t.byUp.get k with
    | none =>
      have : k ∉ List.map (·.1) (t.byUp.filter (fun kv => involves p kv.2)) := by
        intro hin
        obtain ⟨kv, hm, rfl⟩ := List.mem_map.mp hin
        have := ((mem_hit (k := kv.1) (e := kv.2) n1).mp hm).1
        rw [hk] at this; cases this
      simp [this]
    | some e =>
      by_cases hi : involves p e = true
      · have : k ∈ List.map (·.1) (t.byUp.filter (fun kv => involves p kv.2)) :=
          List.mem_map.mpr ⟨(k, e), (mem_hit n1).mpr ⟨hk, hi⟩, rfl⟩
        simp [this, hi]
      · have : k ∉ List.map (·.1) (t.byUp.filter (fun kv => involves p kv.2)) := by
          intro hin
          obtain ⟨kv, hm, hkv⟩ := List.mem_map.mp hin
          have h2 := (mem_hit (k := kv.1) (e := kv.2) n1).mp hm
          have hkv' : kv.1 = k := hkv
          rw [hkv', hk] at h2
          injection h2.1 with h3
          rw [h3] at hi
          exact hi h2.2
        simp [this, hi]
  have downGet : ∀ k, (t.deleteByPeer p).1.byDown.get k =
      match t.byDown.get k with
      | some e => if involves p e then none else some e
      | none => none := by
    intro k
    simp only [deleteByPeer, Map.get_delAll]
    cases hk : t.byDown.get k with
    | none => simp
    | some e =>
      obtain ⟨he1, he2⟩ := hd k e hk
      by_cases hi : involves p e = true
      · have : k ∈ List.map (fun kv => kv.2.downId) (t.byUp.filter (fun kv => involves p kv.2)) :=
          List.mem_map.mpr ⟨(e.upId, e), (mem_hit n1).mpr ⟨he2, hi⟩, he1⟩
        simp [this, hi]
      · have : k ∉ List.map (fun kv => kv.2.downId) (t.byUp.filter (fun kv => involves p kv.2)) := by
          intro hin
          obtain ⟨kv, hm, hkv⟩ := List.mem_map.mp hin
          have h2 := (mem_hit (k := kv.1) (e := kv.2) n1).mp hm
          have h3 := (hu _ _ h2.1).2
          have hkv' : kv.2.downId = k := hkv
          rw [hkv', hk] at h3
          injection h3 with h3
          rw [h3] at hi
          exact hi h2.2
        simp [this, hi]
  refine ⟨⟨Map.nodup_delAll _ _ n1, Map.nodup_delAll _ _ n2, ?_, ?_⟩, ?_, ?_, ?_⟩
  · intro k e hx
    rw [upGet] at hx
    cases hk : t.byUp.get k with
    | none => simp [hk] at hx
    | some e' =>
      simp only [hk] at hx
      split at hx
      · cases hx
      · next hni =>
        injection hx with hx; subst hx
        obtain ⟨h1, h2⟩ := hu k e' hk
        refine ⟨h1, ?_⟩
        rw [downGet, h2]
        simp [hni]
  · intro k e hx
    rw [downGet] at hx
    cases hk : t.byDown.get k with
    | none => simp [hk] at hx
    | some e' =>
      simp only [hk] at hx
      split at hx
      · cases hx
      · next hni =>
        injection hx with hx; subst hx
        obtain ⟨h1, h2⟩ := hd k e' hk
        refine ⟨h1, ?_⟩
        rw [upGet, h2]
        simp [hni]
  · intro k e hx
    rw [upGet] at hx
    cases hk : t.byUp.get k with
    | none => simp [hk] at hx
    | some e' =>
      simp only [hk] at hx
      split at hx
      · cases hx
      · next hni => injection hx with hx; subst hx; simpa using hni
  · intro k e hx
    rw [downGet] at hx
    cases hk : t.byDown.get k with
    | none => simp [hk] at hx
    | some e' =>
      simp only [hk] at hx
      split at hx
      · cases hx
      · next hni => injection hx with hx; subst hx; simpa using hni
  · intro e hl hni
    show (t.deleteByPeer p).1.byUp.get e.upId = some e
    rw [upGet, hl]
    simp [hni]

/-- A consistent table has no orphans: when no upstream binding is left, no downstream binding is
    left either (and vice versa). -/
theorem C17_no_orphans {t : Table} (hc : Consistent t) :
    ((∀ k, t.byUp.get k = none) → ∀ k, t.byDown.get k = none) ∧
    ((∀ k, t.byDown.get k = none) → ∀ k, t.byUp.get k = none) := by
  constructor
  · intro h k
    cases hk : t.byDown.get k with
    | none => rfl
    | some e => have := (hc.down k e hk).2; rw [h] at this; cases this
  · intro h k
    cases hk : t.byUp.get k with
    | none => rfl
    | some e => have := (hc.up k e hk).2; rw [h] at this; cases this

/-- Repaired `handlePeerDisconnect`: all three relay tables are cleaned. -/
theorem C17_agent_disconnect_clean (a : Agent) (hca : a.cleanAll = true)
    (h1 : Consistent a.tcp) (h2 : Consistent a.udp) (h3 : Consistent a.icmp) (p : Nat) :
    ∀ kd : Kind, Consistent ((a.disconnect p).table kd) ∧
      ∀ k e, ((a.disconnect p).table kd).byUp.get k = some e ∨ ((a.disconnect p).table kd).byDown.get k = some e →
        involves p e = false := by
  intro kd
  have key : ∀ t : Table, Consistent t → Consistent (t.deleteByPeer p).1 ∧
      ∀ k e, (t.deleteByPeer p).1.byUp.get k = some e ∨ (t.deleteByPeer p).1.byDown.get k = some e →
        involves p e = false := by
    intro t ht
    obtain ⟨c, u, d, _⟩ := C17_disconnect_clean ht p
    exact ⟨c, fun k e h => h.elim (u k e) (d k e)⟩
  cases kd <;> simp only [Agent.disconnect, hca, if_true, Agent.table]
  · exact key _ h1
  · exact key _ h2
  · exact key _ h3

/-- **UDP_CLOSE always reaches the relay table**, whatever exit-side associations this agent holds
    under the same stream id: the relayed association's entry is popped (so it cannot stay behind once
    the tunnel is closed). -/
theorem pop_none_same (t : Table) (id peer : Nat) (h : (t.popMatchingPeer id peer).2 = none) :
    (t.popMatchingPeer id peer).1 = t := by
  unfold popMatchingPeer at h ⊢
  split
  · split
    · simp_all
    · split
      · split
        · simp_all
        · rfl
      · rfl
  · split
    · split
      · simp_all
      · rfl
    · rfl

theorem C17_udp_close_pops_relay (a : Agent) (peer id : Nat) :
    (a.udpClose peer id).1.udp = (a.udp.popMatchingPeer id peer).1 := by
  unfold Agent.udpClose Agent.relayClose
  simp only [Agent.table]
  cases h : a.udp.popMatchingPeer id peer with
  | mk t r =>
    cases r with
    | none =>
      have := pop_none_same a.udp id peer (by rw [h])
      rw [h] at this
      have ht : t = a.udp := this
      simp [ht]
    | some eb =>
      obtain ⟨e, b⟩ := eb
      cases b <;> simp [Agent.setTable]

/-- The pinned `cleanupRelaysForPeer` (TCP table only): a relayed UDP association of a vanished peer
    stays in `udpRelay` for ever. -/
theorem C17_pinned_udp_leak :
    let a : Agent := { cleanAll := false, peers := [(1, 2), (4, 1)] }
    let a1 := (a.relayOpen .udp 1 1 4).1
    (a1.disconnect 1).udp.byUp.get 1 = some ⟨1, 1, 4, 1⟩ ∧
    ({ a1 with cleanAll := true }.disconnect 1).udp.byUp.get 1 = none := by
  decide

/-! ### exit / forward handler bookkeeping -/

theorem length_del {m : Map} {k : Nat} {e : Entry} (hn : m.keys.Nodup) (h : m.get k = some e) :
    (m.del k).length + 1 = m.length := by
  unfold Map.del Map.get at *
  induction m with
  | nil => cases h
  | cons kv t ih =>
    obtain ⟨a, v⟩ := kv
    simp only [Map.keys, List.map_cons, List.nodup_cons] at hn
    by_cases hk : a = k
    · subst hk
      have : (t.filter (fun e => e.1 != a)) = t := by
        apply List.filter_eq_self.mpr
        intro x hx
        have : x.1 ≠ a := fun heq => hn.1 (List.mem_map.mpr ⟨x, hx, heq⟩)
        simpa using this
      simp [List.filter, this]
    · have h2 : (a != k) = true := by simp [hk]
      have h3 : (k == a) = false := by simp [Ne.symm hk]
      rw [List.lookup_cons, h3] at h
      simp only [List.filter, h2, List.length_cons]
      have := ih hn.2 h
      omega

theorem length_del_none {m : Map} {k : Nat} (h : m.get k = none) : m.del k = m := by
  unfold Map.del Map.get at *
  apply List.filter_eq_self.mpr
  intro x hx
  by_cases hk : x.1 = k
  · exfalso
    induction m with
    | nil => cases hx
    | cons kv t ih =>
      obtain ⟨a, v⟩ := kv
      rw [List.lookup_cons] at h
      by_cases hka : (k == a) = true
      · simp [hka] at h
      · have hka' : (k == a) = false := by simpa using hka
        simp only [hka'] at h
        rcases List.mem_cons.mp hx with rfl | hin
        · simp at hka'; exact hka' hk.symm
        · exact ih h hin
  · simpa using hk

/-- `connCount = len(connections)`, one binding per key. -/
structure CountOk (h : Handler) : Prop where
  nodup : h.conns.keys.Nodup
  count : h.count = h.conns.length

theorem countOk_closeConn {h : Handler} (hc : CountOk h) (id p : Nat) : CountOk (h.closeConn id p).1 := by
  unfold Handler.closeConn Handler.remove
  cases hg : h.conns.get id with
  | none => simpa [hg] using hc
  | some c =>
    simp only []
    refine ⟨Map.nodup_del _ _ hc.nodup, ?_⟩
    have := length_del hc.nodup hg
    have h2 := hc.count
    simp only
    omega

theorem countOk_closeRecord {h : Handler} (hc : CountOk h) (c : Conn) : CountOk (h.closeRecord c).1 := by
  unfold Handler.closeRecord
  cases hg : h.conns.get c.id with
  | none => exact ⟨hc.nodup, hc.count⟩
  | some cur =>
    simp only []
    split
    · refine ⟨Map.nodup_del _ _ hc.nodup, ?_⟩
      have := length_del hc.nodup hg
      have h2 := hc.count
      simp only
      omega
    · exact ⟨hc.nodup, hc.count⟩

theorem countOk_apply {h : Handler} (hc : CountOk h) (o : Op) : CountOk (h.apply o).1 := by
  cases o with
  | opened id peer =>
    simp only [Handler.apply, Handler.opened]
    cases hg : h.conns.get id with
    | some old =>
      simp only []
      refine ⟨Map.nodup_set _ _ _ hc.nodup, ?_⟩
      have := length_del hc.nodup hg
      have h2 := hc.count
      simp only [Map.set, List.length_cons]
      omega
    | none =>
      simp only []
      refine ⟨Map.nodup_set _ _ _ hc.nodup, ?_⟩
      have : h.conns.del id = h.conns := length_del_none hg
      have h2 := hc.count
      simp only [Map.set, this, List.length_cons]
      omega
  | openFail id peer => exact hc
  | data id p s =>
    simp only [Handler.apply, Handler.data]
    split
    · exact hc
    · split
      · exact hc
      · split
        · split
          · exact countOk_closeConn hc _ _
          · exact hc
        · exact countOk_closeConn hc _ _
  | close id p => exact countOk_closeConn hc _ _
  | dstEof c =>
    simp only [Handler.apply, Handler.dstEof]
    exact countOk_closeRecord (h := { h with dstOpen := h.dstOpen.filter (· != c.serial) }) ⟨hc.nodup, hc.count⟩ _

/-- **Counter matches the map** for EVERY history of the repaired handlers — opens under ids that
    still have a record (reconnected peer, duplicate open, colliding peers) included. -/
theorem C17_count_matches (ops : List Op) :
    ∀ h : Handler, CountOk h → CountOk (h.run ops) := by
  induction ops with
  | nil => intro h hc; exact hc
  | cons o os ih =>
    intro h hc
    exact ih _ (countOk_apply hc o)

/-- The statement for the handlers: whenever no connection record is left, the counter is zero —
    no connection limit is consumed by tunnels that no longer exist. -/
def C17_statement : Prop :=
  ∀ ops : List Op, (({} : Handler).run ops).conns = [] → (({} : Handler).run ops).count = 0

theorem C17_handlers_return_to_empty : C17_statement := by
  intro ops hempty
  have := (C17_count_matches ops {} ⟨List.nodup_nil, rfl⟩).count
  rw [this, hempty]; rfl

/-- **Teardown by record.**  A read loop that ends (destination EOF) removes only its own record:
    when the id meanwhile belongs to a newer record, that record — and the counter — are untouched. -/
theorem C17_late_teardown_spares_newer_record (h : Handler) (c cur : Conn)
    (hcur : h.conns.get c.id = some cur) (hne : cur.serial ≠ c.serial) :
    (h.dstEof c).1.conns = h.conns ∧ (h.dstEof c).1.count = h.count ∧ (h.dstEof c).2 = [.fin c.peer c.id] := by
  simp [Handler.dstEof, Handler.closeRecord, hcur, hne]

/-- The honest re-use: a peer reconnects and opens stream id 1 again while its earlier exit
    connection is still tracked; later the OLD destination closes.  The new tunnel survives and the
    counter is 1 (the pinned code counted 2 and let the old read loop delete the new record). -/
example :
    let h := (({} : Handler).run [.opened 1 1, .opened 1 1, .dstEof (Conn.mk' 1 1 0)])
    h.count = 1 ∧ (h.conns.get 1).map (·.serial) = some 1 := by decide

/-- … and in the relay table a collision leaves an orphan after the peers are gone: `DeleteByPeer`
    walks `byUpstream` only. -/
theorem C17_refuted_relay_orphan :
    let t := ([⟨1, 1, 4, 1⟩, ⟨2, 1, 4, 3⟩] : List Entry).foldl Table.insert {}
    let t' := ((t.deleteByPeer 1).1.deleteByPeer 2).1
    t'.byUp = [] ∧ t'.byDown.get 1 = some ⟨1, 1, 4, 1⟩ := by
  decide

/-- Refused opens never consume a connection slot. -/
theorem C17_failed_open_keeps_count (h : Handler) (id peer : Nat) :
    (h.openFail id peer).1.count = h.count ∧ (h.openFail id peer).1.conns = h.conns := ⟨rfl, rfl⟩

/-- At the limit an open is refused and changes nothing; below it, it is accepted. -/
theorem C17_limit (h : Handler) (id peer : Nat) (hm : h.max > 0) (hfull : h.count ≥ (h.max : Int)) :
    (h.tryOpen id peer) = (h, [.err peer id]) := by
  simp [Handler.tryOpen, Handler.openFail, hm, hfull]

/-- non-vacuity: a history that empties the map again (with a refused and a displacing open). -/
example : (({} : Handler).run [.opened 1 1, .openFail 1 2, .opened 1 2, .opened 3 2, .close 1 1,
    .dstEof (Conn.mk' 3 2 2)]).conns = [] := by decide

end MM.C17
