/-
  C28 — Signed-command mode rejects every unsigned or invalid sleep/wake command.

  "When a signing public key is configured, an agent changes its sleep state, or forwards a sleep
   or wake command, only for a command carrying a valid signature over its origin, identifier and
   timestamp, with the timestamp inside the validity window.  This holds on every path a command
   can arrive by."

  Model: MM/Model/C28.lean = flood.go / agent.go after
    fixes/C28-verify-queued-commands.patch      (QUEUED_STATE commands go through the flooder's checks),
    fixes/C28-timestamp-abs-overflow.patch      (a saturated negative time difference is rejected),
    fixes/C28-reverify-pending-wake.patch       (a stored wake command is re-verified before it is forwarded),
  and fixes/C29-verify-before-mark.patch (verification precedes the seen-cache test-and-set; C28 does
  not depend on that order).
  Paths: SLEEP_COMMAND frame, WAKE_COMMAND frame, SleepCmd / WakeCmd inside QUEUED_STATE
  (`deliver … via`), and the forwarding of the stored wake command to a newly connected peer
  (`onPeerConnected`).  Signature validity is the abstract predicate `V` (any function).
  "Timestamp inside the validity window" is `|now − T| ≤ window` with `T` the instant the code
  derives from the uint64 field (`time.Unix(int64(ts), 0)`).

  Locally originated commands (TriggerSleep / TriggerWake, an operator action on the agent itself)
  are not commands that arrive and are outside the model.
-/
import MM.Lemmas.C28

namespace MM.C28

/-- What the property promises about a command. -/
def Admissible (V : Verifier) (cfg : FCfg) (now : Int) (c : Cmd) : Prop :=
  c.sig ≠ .zero ∧ V c.origin c.id c.ts c.sig = true ∧
  -cfg.window ≤ now - cmdSec c.ts * 1000000000 ∧ now - cmdSec c.ts * 1000000000 ≤ cfg.window

/-- The frames `deliver` sends are exactly those of the flooder's handler. -/
theorem deliver_sends (V : Verifier) (cfg : FCfg) (a : AState) (now : Int) (via : Via) (from_ : Nat) (c : Cmd) :
    (deliver V cfg a now via from_ c).2.sends =
      (handle V cfg a.f now via.kind from_ c).2.2.map fun (p, c) => (p, via.kind, c) := by
  unfold deliver
  dsimp only
  generalize via.kind = k
  generalize handle V cfg a.f now k from_ c = h
  obtain ⟨f', acc, sends⟩ := h
  generalize a.sl = s
  cases acc <;> cases k <;> cases s <;> rfl

/-- A command the flooder's handler does not accept leaves the sleep manager untouched. -/
theorem deliver_rejected (V : Verifier) (cfg : FCfg) (a : AState) (now : Int) (via : Via) (from_ : Nat) (c : Cmd)
    (h : (handle V cfg a.f now via.kind from_ c).2.1 = false) :
    (deliver V cfg a now via from_ c).1.sl = a.sl ∧
    (deliver V cfg a now via from_ c).2.sleepInvoked = false ∧
    (deliver V cfg a now via from_ c).2.wakeInvoked = false ∧
    (deliver V cfg a now via from_ c).2.onSleep = 0 ∧
    (deliver V cfg a now via from_ c).2.onWake = 0 := by
  unfold deliver
  dsimp only
  generalize via.kind = k at *
  generalize handle V cfg a.f now k from_ c = hh at *
  obtain ⟨f', acc, sends⟩ := hh
  dsimp only at h
  subst h
  exact ⟨rfl, rfl, rfl, rfl, rfl⟩

/-- **Every arrival path.**  With a signing key configured, if delivering a command by any `via`
    changes the sleep state, invokes `Sleep()`/`Wake()`, runs a callback or sends any sleep/wake
    frame to any peer, then the command is validly signed and its timestamp is inside the window;
    and every frame sent carries exactly that command's origin, id, timestamp and signature. -/
theorem C28_every_path (V : Verifier) (cfg : FCfg) (a : AState) (now : Int) (via : Via) (from_ : Nat) (c : Cmd)
    (hk : cfg.signing = true) (hw : cfg.window < 2^63 - 1)
    (hact : (deliver V cfg a now via from_ c).1.sl ≠ a.sl ∨
            (deliver V cfg a now via from_ c).2.sleepInvoked = true ∨
            (deliver V cfg a now via from_ c).2.wakeInvoked = true ∨
            (deliver V cfg a now via from_ c).2.onSleep ≠ 0 ∨
            (deliver V cfg a now via from_ c).2.onWake ≠ 0 ∨
            (deliver V cfg a now via from_ c).2.sends ≠ []) :
    Admissible V cfg now c ∧
    ∀ x ∈ (deliver V cfg a now via from_ c).2.sends,
      x.2.2.origin = c.origin ∧ x.2.2.id = c.id ∧ x.2.2.ts = c.ts ∧ x.2.2.sig = c.sig := by
  have hacc := handle_accept V cfg a.f now via.kind from_ c
  have hs := handle_sends V cfg a.f now via.kind from_ c
  have key : (handle V cfg a.f now via.kind from_ c).2.1 = true := by
    cases hb : (handle V cfg a.f now via.kind from_ c).2.1 with
    | true => rfl
    | false =>
      exfalso
      have hr := deliver_rejected V cfg a now via from_ c hb
      have hempty : (handle V cfg a.f now via.kind from_ c).2.2 = [] := by
        apply Classical.byContradiction
        intro hne
        have := hs.1 hne
        rw [hb] at this
        exact Bool.noConfusion this
      have hsend := deliver_sends V cfg a now via from_ c
      rw [hempty] at hsend
      obtain ⟨h1, h2, h3, h4, h5⟩ := hr
      rcases hact with h | h | h | h | h | h
      · exact h h1
      · rw [h2] at h; exact Bool.noConfusion h
      · rw [h3] at h; exact Bool.noConfusion h
      · exact h h4
      · exact h h5
      · exact h hsend
  refine ⟨verify_sound V cfg now c hk hw (hacc key), ?_⟩
  intro x hx
  rw [deliver_sends] at hx
  simp only [List.mem_map] at hx
  obtain ⟨y, hy, rfl⟩ := hx
  exact hs.2 y hy

/-- **Pending-wake path.**  With a signing key configured, whatever wake command is stored, the
    frame sent to a newly connected peer (if any) carries a validly signed command whose timestamp
    is inside the window at the moment of forwarding. -/
theorem C28_pending_forward (V : Verifier) (cfg : FCfg) (st : FState) (now : Int) (peer : Nat)
    (hk : cfg.signing = true) (hw : cfg.window < 2^63 - 1) :
    ∀ x ∈ (onPeerConnected V cfg st now peer).2, Admissible V cfg now x.2 := by
  intro x hx
  unfold onPeerConnected at hx
  cases hp : st.pending with
  | none => simp [hp] at hx
  | some pc =>
    obtain ⟨c, storedAt⟩ := pc
    simp only [hp] at hx
    by_cases h1 : now - storedAt > cfg.ttl
    · simp [h1] at hx
    · rw [if_neg h1] at hx
      by_cases h2 : peer = c.origin
      · simp [h2] at hx
      · rw [if_neg h2] at hx
        by_cases h3 : (!verify V cfg now c) = true
        · simp [h3] at hx
        · rw [if_neg h3] at hx
          simp only [List.mem_singleton] at hx
          subst hx
          simp only [Bool.not_eq_true', Bool.not_eq_false] at h3
          exact verify_sound V cfg now c hk hw h3

/-! ### regression witnesses of the fixed defects (the pre-fix code, kept in the model as `…Pinned`) -/

def wCfg : FCfg := { signing := true, window := 300000000000, ttl := 300000000000, maxSize := 10000, localID := 0, peers := [1, 2, 3] }
def wNow : Int := 1800000000500000000
def wAwake : AState := { f := FState.empty, sl := .awake }

/-- Before the fix an UNSIGNED sleep command inside QUEUED_STATE put the agent to sleep. -/
theorem C28_pinned_queued_refuted :
    (deliverPinned idealV wCfg wAwake wNow .queuedSleep 1
      { origin := 4, id := 11, ts := 1800000000, sig := .zero, seenBy := [] }).1.sl = .sleeping ∧
    (deliver idealV wCfg wAwake wNow .queuedSleep 1
      { origin := 4, id := 11, ts := 1800000000, sig := .zero, seenBy := [] }).1.sl = .awake := by
  decide

/-- Before the fix a validly signed command stamped centuries ahead (here 20 000 000 000 s, year
    2603) passed the timestamp check: `time.Since` saturates at the minimum Duration, whose negation
    overflows and stays negative, so `timeDiff > window` was false. -/
theorem C28_pinned_farfuture_refuted :
    (deliverPinned idealV wCfg wAwake wNow .floodSleep 1
      { origin := 4, id := 10, ts := 20000000000, sig := .signed 0 .sleep 4 10 20000000000, seenBy := [] }).1.sl = .sleeping ∧
    (deliver idealV wCfg wAwake wNow .floodSleep 1
      { origin := 4, id := 10, ts := 20000000000, sig := .signed 0 .sleep 4 10 20000000000, seenBy := [] }).1.sl = .awake := by
  decide

/-- Before the fix the stored wake command was forwarded even after its timestamp left the window. -/
theorem C28_pinned_pending_refuted :
    let st : FState := { seen := [], pending := some ({ origin := 4, id := 11, ts := 1800000000 - 299, sig := .signed 0 .wake 4 11 (1800000000 - 299), seenBy := [] }, wNow - 100000000000) }
    (onPeerConnectedPinned wCfg st wNow 2).2 ≠ [] ∧ (onPeerConnected idealV wCfg st (wNow + 100000000000) 2).2 = [] ∧
    (onPeerConnectedPinned wCfg st (wNow + 100000000000) 2).2 ≠ [] := by
  decide

/-! ### the verified bytes do not bind the command kind (open finding C28-cross-type-replay) -/

theorem idealV_signed {o i t : Nat} {s : Sig} (h : idealV o i t s = true) : ∃ k, s = .signed 0 k o i t := by
  unfold idealV at h
  split at h
  · rename_i k o' i' t'
    simp only [Bool.and_eq_true, beq_iff_eq] at h
    obtain ⟨⟨h1, h2⟩, h3⟩ := h
    exact ⟨k, by rw [h1, h2, h3]⟩
  · cases h

/-- The property read with "valid signature" = "the key holder signed THIS command": whenever a
    delivery by `via` has any effect, the signature is one the key holder made when issuing a
    command of that kind with these fields.  (Ideal signatures, the code's verifier `idealV`.) -/
def C28_statement_kind : Prop :=
  ∀ (cfg : FCfg) (a : AState) (now : Int) (via : Via) (from_ : Nat) (c : Cmd),
    cfg.signing = true → cfg.window < 2^63 - 1 →
    ((deliver idealV cfg a now via from_ c).1.sl ≠ a.sl ∨ (deliver idealV cfg a now via from_ c).2.sends ≠ []) →
    c.sig = .signed 0 via.kind c.origin c.id c.ts

/-- REFUTED on the code: `SleepCommand.SignableBytes` and `WakeCommand.SignableBytes` are the same
    bytes (origin ‖ id ‖ timestamp, no command type), so the signature of a SLEEP command the key
    holder issued verifies on a WAKE command with the same fields: a sleeping agent that did not see
    the original is woken (and forwards the forged wake). -/
theorem C28_refuted_cross_type : ¬ C28_statement_kind := by
  intro h
  have := h wCfg { f := FState.empty, sl := .sleeping } wNow .floodWake 1
    { origin := 4, id := 10, ts := 1800000000, sig := .signed 0 .sleep 4 10 1800000000, seenBy := [] }
    (by decide) (by decide) (by decide)
  revert this
  decide

/-- What does hold (the strongest true restriction): an effect implies a signature the key holder
    made over exactly this origin, id and timestamp for SOME kind of command, and a timestamp inside
    the window — the kind is the only thing not bound. -/
theorem C28_partial (cfg : FCfg) (a : AState) (now : Int) (via : Via) (from_ : Nat) (c : Cmd)
    (hk : cfg.signing = true) (hw : cfg.window < 2^63 - 1)
    (hact : (deliver idealV cfg a now via from_ c).1.sl ≠ a.sl ∨ (deliver idealV cfg a now via from_ c).2.sends ≠ []) :
    (∃ k, c.sig = .signed 0 k c.origin c.id c.ts) ∧
    -cfg.window ≤ now - cmdSec c.ts * 1000000000 ∧ now - cmdSec c.ts * 1000000000 ≤ cfg.window := by
  have hadm := (C28_every_path idealV cfg a now via from_ c hk hw (by
    rcases hact with h | h
    · exact Or.inl h
    · exact Or.inr (Or.inr (Or.inr (Or.inr (Or.inr h)))))).1
  exact ⟨idealV_signed hadm.2.1, hadm.2.2⟩

/-- With signed bytes that bind the kind (`idealKV`), the kind is bound: the cross-type replay is a
    consequence of the signed layout only. -/
theorem C28_kind_bound_if_signed_bytes_bind_kind (cfg : FCfg) (a : AState) (now : Int) (via : Via) (from_ : Nat) (c : Cmd)
    (hk : cfg.signing = true) (hw : cfg.window < 2^63 - 1)
    (hact : (deliver (idealKV via.kind) cfg a now via from_ c).1.sl ≠ a.sl ∨
            (deliver (idealKV via.kind) cfg a now via from_ c).2.sends ≠ []) :
    c.sig = .signed 0 via.kind c.origin c.id c.ts := by
  have hadm := (C28_every_path (idealKV via.kind) cfg a now via from_ c hk hw (by
    rcases hact with h | h
    · exact Or.inl h
    · exact Or.inr (Or.inr (Or.inr (Or.inr (Or.inr h)))))).1
  have := hadm.2.1
  unfold idealKV at this
  exact beq_iff_eq.mp this

/-! ### issuer side -/

/-- What `TriggerSleep` / `TriggerWake` puts on the wire: every frame carries this agent as origin,
    `SeenBy = [this agent]`, the current Unix second as timestamp, and — when a private key is
    configured — a signature the key holder made for exactly this kind, origin, id and timestamp. -/
theorem C28_issued (canSign : Bool) (cfg : FCfg) (a : AState) (now : Int) (k : Kind) (id : Nat) :
    ∀ x ∈ (trigger canSign cfg a now k id).2.sends,
      x.2.1 = k ∧ x.2.2.origin = cfg.localID ∧ x.2.2.id = id ∧ x.2.2.ts = (now / 1000000000).toNat ∧
      x.2.2.seenBy = [cfg.localID] ∧
      (canSign = true → x.2.2.sig = .signed 0 k cfg.localID id (now / 1000000000).toNat) ∧
      (canSign = false → x.2.2.sig = .zero) := by
  intro x hx
  unfold trigger floodLocal issued at hx
  cases k with
  | sleep =>
    simp only [List.map_map, List.mem_map] at hx
    obtain ⟨p, _, rfl⟩ := hx
    cases canSign <;> simp
  | wake =>
    dsimp only at hx
    split at hx
    · simp [Outcome.none] at hx
    · simp only [List.map_map, List.mem_map] at hx
      obtain ⟨p, _, rfl⟩ := hx
      cases canSign <;> simp

/-! ### the hypotheses are satisfiable and the positive case exists -/

example : (deliver idealV wCfg wAwake wNow .queuedSleep 1
    { origin := 4, id := 10, ts := 1800000000, sig := .signed 0 .sleep 4 10 1800000000, seenBy := [] }).1.sl = .sleeping := by decide
example : (deliver idealV wCfg wAwake wNow .floodSleep 1
    { origin := 4, id := 10, ts := 1800000000, sig := .signed 0 .sleep 4 10 1800000000, seenBy := [2] }).2.sends.length = 1 := by decide
example : wCfg.signing = true ∧ wCfg.window < 2^63 - 1 := by decide

end MM.C28
