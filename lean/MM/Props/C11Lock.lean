import MM.Gen.LockC11
import MM.Gen.LockC11m
import MM.Gen.LockC11t
import MM.Gen.LockC11d
import MM.Gen.LockC11f
import MM.Gen.LockC11a

/-
  Atomic-step ties for the flood LTS (C11–C15).

  The LTS `MM/Model/C11.lean` treats as ONE atomic step of an agent: the seen-cache test-and-set of
  HandleRouteAdvertise / HandleRouteWithdraw (`handle`: `key ∈ seen → … else mark`), the allocation
  of a sequence number (`seq + 1` in announce / replay / withdraw), and each table's AddRoute.
  `C11_once_cached`, `C11_forward_once`, `C14_partial` (sequence numbers issued once) rest on
  that granularity, and a sequential differential run cannot see it.  The facts below are
  regenerated from the source by tools/lockshape.go on every run; the theorems state exactly what
  the proofs need:

  * in each handler the seen-cache lookup and the insert happen in the SAME write-locked region
    (one lock acquisition in the method, both a read and a write of `seenCache` under `W`, no
    access under any other lock state);
  * `IncrementSequence` reads and writes `sequence` inside one write-locked region;
  * every table's `AddRoute` touches its route map only under its write lock, acquired once.
-/
namespace MM.C11.Lock
open MM.Gen

/-- All accesses of `method` to `field` are under the write lock, there is at least one read and one
    write, and the method takes the lock exactly once: check and update are one critical section. -/
def oneWriteSection (acq : List (String × Nat)) (acc : List (String × String × Bool × String))
    (method field : String) : Bool :=
  acq.contains (method, 1) &&
  acc.contains (method, field, false, "W") &&
  acc.contains (method, field, true, "W") &&
  (acc.filter (fun a => a.1 == method && a.2.1 == field)).all (fun a => a.2.2.2 == "W")

theorem advertise_test_and_set_atomic :
    oneWriteSection LockC11.acquisitions LockC11.accesses "Flooder.HandleRouteAdvertise" "seenCache" = true := by
  decide

theorem withdraw_test_and_set_atomic :
    oneWriteSection LockC11.acquisitions LockC11.accesses "Flooder.HandleRouteWithdraw" "seenCache" = true := by
  decide

/-- Neither handler delegates the insert to a sibling method called outside the lock. -/
theorem no_unlocked_mark_helper :
    (LockC11.calls.filter (fun c => (c.1 == "Flooder.HandleRouteAdvertise" || c.1 == "Flooder.HandleRouteWithdraw")
      && c.2.1 != "floodAdvertisementEncrypted" && c.2.1 != "floodWithdrawal")) = [] := by decide

theorem sequence_increment_atomic :
    oneWriteSection LockC11m.acquisitions LockC11m.accesses "Manager.IncrementSequence" "sequence" = true := by
  decide

theorem addRoute_atomic :
    oneWriteSection LockC11t.acquisitions LockC11t.accesses "Table.AddRoute" "routes" = true ∧
    oneWriteSection LockC11f.acquisitions LockC11f.accesses "ForwardTable.AddRoute" "routes" = true ∧
    oneWriteSection LockC11a.acquisitions LockC11a.accesses "AgentTable.AddRoute" "routes" = true ∧
    LockC11d.acquisitions.contains ("DomainTable.AddRoute", 1) = true ∧
    LockC11d.calls.contains ("DomainTable.AddRoute", "routeMapAndKey", "W") = true ∧
    (LockC11d.accesses.filter (fun a => a.1 == "DomainTable.AddRoute")).all (fun a => a.2.2.2 == "W") = true := by
  decide

end MM.C11.Lock
