/-
  C23 — SOCKS5 request handling is robust and dials exactly what was asked.

  "For any byte stream a client sends, the SOCKS5 handler never crashes, and every reply it
   writes is well formed.  A successful CONNECT dials exactly the IPv4 address, IPv6 address or
   domain name and port encoded in the request.  Unsupported commands or address types get the
   corresponding error reply."

  Model: MM/Model/C23.lean — `handle env input = (messages written, action)`, total on every
  input (so "never crashes" is: the real handler agrees with this total function on every
  generated stream and never panics — checked by the differential run).  `env` carries every
  answer the handler gets from its environment; all theorems hold for every `env`.
-/
import MM.Lemmas.C23

namespace MM.C23
open MM

/-- Every message the handler writes — for ANY client byte stream and any environment whose
    addresses are nil/IPv4/IPv6 — is a method selection, an RFC 1929 status or a complete
    SOCKS5 reply with an IPv4 or IPv6 bound address. -/
theorem C23_reply_wf (env : Env) (henv : env.addrsOk) (inp : Bytes) :
    ∀ m ∈ (handle env inp).replies, wfMsg m = true := by
  have h1 := authenticate_wf (newHandlerAuths env.auths) inp
  unfold handle
  dsimp only
  split
  · simpa using h1
  · rename_i rest _
    have h2 := requestPhase_wf env henv rest
    intro m hm
    rw [List.mem_append] at hm
    rcases hm with hm | hm
    · exact (List.all_eq_true.mp h1) m hm
    · exact (List.all_eq_true.mp h2) m hm

/-- The handler as the agent builds it when authentication is off: only "no authentication". -/
def noAuthHandler (env : Env) : Prop := newHandlerAuths env.auths = [.noAuth]

/-- Shape of `handle` on a complete greeting (offering method 0) followed by anything. -/
theorem handle_noAuth (env : Env) (hna : noAuthHandler env) (methods : Bytes)
    (hl : methods.length < 256) (h0 : (0 : UInt8) ∈ methods) (q : Bytes) :
    handle env (encodeGreeting methods ++ q) =
      ⟨[[0x05, 0x00]] ++ (requestPhase env q).replies, (requestPhase env q).action, none⟩ := by
  unfold handle
  rw [hna, authenticate_noAuth q hl h0]

/-- CONNECT with destination `d` (IPv4, IPv6 or domain) and port `port`, whatever follows it on
    the stream and whatever the reserved byte: the handler dials exactly
    `JoinHostPort(render d, port)` — and nothing else. -/
theorem C23_dial_exact (env : Env) (hna : noAuthHandler env) (methods : Bytes)
    (hl : methods.length < 256) (h0 : (0 : UInt8) ∈ methods)
    (rsv : UInt8) (d : Dest) (hd : d.wf) (port : Nat) (hp : port < 65536) (rest : Bytes) :
    (handle env (encodeGreeting methods ++ (encodeRequest 0x01 rsv d port ++ rest))).action =
      .dial (joinHostPort d.render port) := by
  rw [handle_noAuth env hna methods hl h0]
  unfold requestPhase
  rw [readRequest_encode 0x01 rsv d hd port hp rest]
  simp only [dispatch, if_true]
  unfold handleConnect
  dsimp only
  split
  · rfl
  · split <;> rfl

/-- Which bytes of the stream the parser takes: a request that encodes `(cmd, d, port)` is read
    back as exactly `(cmd, d, port)`, whatever the reserved byte and whatever follows. -/
theorem C23_request_bytes (cmd rsv : UInt8) (d : Dest) (hd : d.wf) (port : Nat) (hp : port < 65536)
    (rest : Bytes) : readRequest (encodeRequest cmd rsv d port ++ rest) = .ok cmd d port :=
  readRequest_encode cmd rsv d hd port hp rest

/-- An unsupported command (anything but CONNECT / UDP ASSOCIATE / ICMP ECHO) with a well-formed
    address: the last message is a reply with code 0x07 and nothing is done. -/
theorem C23_bad_cmd (env : Env) (hna : noAuthHandler env) (methods : Bytes)
    (hl : methods.length < 256) (h0 : (0 : UInt8) ∈ methods)
    (cmd rsv : UInt8) (hc : cmd ≠ 0x01 ∧ cmd ≠ 0x03 ∧ cmd ≠ 0x04)
    (d : Dest) (hd : d.wf) (port : Nat) (hp : port < 65536) (rest : Bytes) :
    let r := handle env (encodeGreeting methods ++ (encodeRequest cmd rsv d port ++ rest))
    r.action = .none ∧ r.replies = [[0x05, 0x00], mkReply 0x07 [] 0] ∧
      replyCode (mkReply 0x07 [] 0) = 0x07 := by
  dsimp only
  rw [handle_noAuth env hna methods hl h0]
  unfold requestPhase
  rw [readRequest_encode cmd rsv d hd port hp rest]
  simp [dispatch, hc.1, hc.2.1, hc.2.2, replyCode, mkReply, to4, is4in6]

/-- An unsupported address type, whatever the command and whatever follows: the last message is
    a reply with code 0x08 and nothing is done. -/
theorem C23_bad_atyp (env : Env) (hna : noAuthHandler env) (methods : Bytes)
    (hl : methods.length < 256) (h0 : (0 : UInt8) ∈ methods)
    (cmd rsv atyp : UInt8) (ha : atyp ≠ 0x01 ∧ atyp ≠ 0x03 ∧ atyp ≠ 0x04) (rest : Bytes) :
    let r := handle env (encodeGreeting methods ++ ([0x05, cmd, rsv, atyp] ++ rest))
    r.action = .none ∧ r.replies = [[0x05, 0x00], mkReply 0x08 [] 0] ∧
      replyCode (mkReply 0x08 [] 0) = 0x08 := by
  dsimp only
  rw [handle_noAuth env hna methods hl h0]
  unfold requestPhase readRequest
  rw [readFull_append' (n := 4) _ _ (by rfl)]
  simp [ha.1, ha.2.1, ha.2.2, replyCode, mkReply, to4, is4in6]

/-- Truncation at EVERY position: any strict prefix of a valid `greeting ++ request` stream makes
    the handler do nothing (no dial, no association), for every command and address type. -/
theorem C23_truncated (env : Env) (hna : noAuthHandler env) (methods : Bytes)
    (hl : methods.length < 256) (h0 : (0 : UInt8) ∈ methods)
    (cmd rsv : UInt8) (d : Dest) (hd : d.wf) (port : Nat)
    (k : Nat) (hk : k < (encodeGreeting methods ++ encodeRequest cmd rsv d port).length) :
    (handle env ((encodeGreeting methods ++ encodeRequest cmd rsv d port).take k)).action = .none := by
  by_cases hg : k < (encodeGreeting methods).length
  · unfold handle
    rw [authenticate_truncated _ methods _ hl k hg]
  · have hge : (encodeGreeting methods).length ≤ k := by omega
    rw [List.take_append, List.take_of_length_le hge, handle_noAuth env hna methods hl h0]
    unfold requestPhase
    rw [readRequest_truncated cmd rsv d hd port _ (by rw [List.length_append] at hk; omega)]

/-! ### the hypotheses are satisfiable; concrete instances -/

def exampleEnv : Env := ⟨[], .ok [10, 0, 0, 7] 40000, false, .absent, .absent, [127, 0, 0, 1]⟩

example : noAuthHandler exampleEnv := rfl
example : exampleEnv.addrsOk := ⟨Or.inr (Or.inl rfl), Or.inr (Or.inl rfl)⟩

/-- CONNECT 2001:db8::1 port 443 → dial "[2001:db8::1]:443"; reply 10.0.0.7:40000. -/
example :
    let r := handle exampleEnv ([5, 1, 0] ++ [5, 1, 0, 4, 0x20, 0x01, 0x0d, 0xb8, 0, 0, 0, 0, 0, 0, 0, 0, 0, 0, 0, 1, 0x01, 0xbb])
    r.action = .dial [0x5b, 0x32, 0x30, 0x30, 0x31, 0x3a, 0x64, 0x62, 0x38, 0x3a, 0x3a, 0x31, 0x5d, 0x3a, 0x34, 0x34, 0x33] ∧
    r.replies = [[5, 0], [5, 0, 0, 1, 10, 0, 0, 7, 0x9c, 0x40]] := by decide

/-- The same stream cut one byte short: nothing happens. -/
example :
    (handle exampleEnv ([5, 1, 0] ++ [5, 1, 0, 4, 0x20, 0x01, 0x0d, 0xb8, 0, 0, 0, 0, 0, 0, 0, 0, 0, 0, 0, 1, 0x01])).action = .none := by
  decide

example : (Dest.dom [0x61, 0x2e, 0x62]).wf := by decide

end MM.C23
