/-
  C23 — SOCKS5 request handling is robust and dials exactly what was asked.

  "For any byte stream a client sends, the SOCKS5 handler never crashes, and every reply it
   writes is well formed.  A successful CONNECT dials exactly the IPv4 address, IPv6 address or
   domain name and port encoded in the request.  Unsupported commands or address types get the
   corresponding error reply."

  Model: MM/Model/C23.lean — `handle env input = (messages written, action)`, total on every
  input (so "never crashes" is: the real handler agrees with this total function on every
  generated stream and never panics — checked by the differential run).  `env` carries every
  answer the handler gets from its environment; all theorems hold for every `env`.
-/
import MM.Lemmas.C23
import MM.Lemmas.C23Render

namespace MM.C23
open MM

/-- Every message the handler writes — for ANY client byte stream and any environment whose
    addresses are nil/IPv4/IPv6 — is a method selection, an RFC 1929 status or a complete
    SOCKS5 reply with an IPv4 or IPv6 bound address. -/
theorem C23_reply_wf (env : Env) (henv : env.addrsOk) (inp : Bytes) :
    ∀ m ∈ (handle env inp).replies, wfMsg m = true := by
  have h1 := authenticate_wf (newHandlerAuths env.auths) inp
  unfold handle
  dsimp only
  split
  · simpa using h1
  · rename_i rest _
    have h2 := requestPhase_wf env henv rest
    intro m hm
    rw [List.mem_append] at hm
    rcases hm with hm | hm
    · exact (List.all_eq_true.mp h1) m hm
    · exact (List.all_eq_true.mp h2) m hm

/-- The handler as the agent builds it when authentication is off: only "no authentication". -/
def noAuthHandler (env : Env) : Prop := newHandlerAuths env.auths = [.noAuth]

/-- Shape of `handle` on a complete greeting (offering method 0) followed by anything. -/
theorem handle_noAuth (env : Env) (hna : noAuthHandler env) (methods : Bytes)
    (hl : methods.length < 256) (h0 : (0 : UInt8) ∈ methods) (q : Bytes) :
    handle env (encodeGreeting methods ++ q) =
      ⟨[[0x05, 0x00]] ++ (requestPhase env q).replies, (requestPhase env q).action, none⟩ := by
  unfold handle
  rw [hna, authenticate_noAuth q hl h0]

/-- CONNECT with destination `d` (IPv4, IPv6 or domain) and port `port`, whatever follows it on
    the stream and whatever the reserved byte: the handler dials exactly
    `JoinHostPort(render d, port)` — and nothing else. -/
theorem C23_dial_exact (env : Env) (hna : noAuthHandler env) (methods : Bytes)
    (hl : methods.length < 256) (h0 : (0 : UInt8) ∈ methods)
    (rsv : UInt8) (d : Dest) (hd : d.wf) (port : Nat) (hp : port < 65536) (rest : Bytes) :
    (handle env (encodeGreeting methods ++ (encodeRequest 0x01 rsv d port ++ rest))).action =
      .dial (joinHostPort d.render port) := by
  rw [handle_noAuth env hna methods hl h0]
  unfold requestPhase
  rw [readRequest_encode 0x01 rsv d hd port hp rest]
  simp only [dispatch, if_true]
  unfold handleConnect
  dsimp only
  split
  · rfl
  · split <;> rfl

/-- Which bytes of the stream the parser takes: a request that encodes `(cmd, d, port)` is read
    back as exactly `(cmd, d, port)`, whatever the reserved byte and whatever follows. -/
theorem C23_request_bytes (cmd rsv : UInt8) (d : Dest) (hd : d.wf) (port : Nat) (hp : port < 65536)
    (rest : Bytes) : readRequest (encodeRequest cmd rsv d port ++ rest) = .ok cmd d port :=
  readRequest_encode cmd rsv d hd port hp rest

/-- An unsupported command (anything but CONNECT / UDP ASSOCIATE / ICMP ECHO) with a well-formed
    address: the last message is a reply with code 0x07 and nothing is done. -/
theorem C23_bad_cmd (env : Env) (hna : noAuthHandler env) (methods : Bytes)
    (hl : methods.length < 256) (h0 : (0 : UInt8) ∈ methods)
    (cmd rsv : UInt8) (hc : cmd ≠ 0x01 ∧ cmd ≠ 0x03 ∧ cmd ≠ 0x04)
    (d : Dest) (hd : d.wf) (port : Nat) (hp : port < 65536) (rest : Bytes) :
    let r := handle env (encodeGreeting methods ++ (encodeRequest cmd rsv d port ++ rest))
    r.action = .none ∧ r.replies = [[0x05, 0x00], mkReply 0x07 [] 0] ∧
      replyCode (mkReply 0x07 [] 0) = 0x07 := by
  dsimp only
  rw [handle_noAuth env hna methods hl h0]
  unfold requestPhase
  rw [readRequest_encode cmd rsv d hd port hp rest]
  simp [dispatch, hc.1, hc.2.1, hc.2.2, replyCode, mkReply, to4, is4in6]

/-- An unsupported address type, whatever the command and whatever follows: the last message is
    a reply with code 0x08 and nothing is done. -/
theorem C23_bad_atyp (env : Env) (hna : noAuthHandler env) (methods : Bytes)
    (hl : methods.length < 256) (h0 : (0 : UInt8) ∈ methods)
    (cmd rsv atyp : UInt8) (ha : atyp ≠ 0x01 ∧ atyp ≠ 0x03 ∧ atyp ≠ 0x04) (rest : Bytes) :
    let r := handle env (encodeGreeting methods ++ ([0x05, cmd, rsv, atyp] ++ rest))
    r.action = .none ∧ r.replies = [[0x05, 0x00], mkReply 0x08 [] 0] ∧
      replyCode (mkReply 0x08 [] 0) = 0x08 := by
  dsimp only
  rw [handle_noAuth env hna methods hl h0]
  unfold requestPhase readRequest
  rw [readFull_append' (n := 4) _ _ (by rfl)]
  simp [ha.1, ha.2.1, ha.2.2, replyCode, mkReply, to4, is4in6]

/-- Truncation at EVERY position: any strict prefix of a valid `greeting ++ request` stream makes
    the handler do nothing (no dial, no association), for every command and address type. -/
theorem C23_truncated (env : Env) (hna : noAuthHandler env) (methods : Bytes)
    (hl : methods.length < 256) (h0 : (0 : UInt8) ∈ methods)
    (cmd rsv : UInt8) (d : Dest) (hd : d.wf) (port : Nat)
    (k : Nat) (hk : k < (encodeGreeting methods ++ encodeRequest cmd rsv d port).length) :
    (handle env ((encodeGreeting methods ++ encodeRequest cmd rsv d port).take k)).action = .none := by
  by_cases hg : k < (encodeGreeting methods).length
  · unfold handle
    rw [authenticate_truncated _ methods _ hl k hg]
  · have hge : (encodeGreeting methods).length ≤ k := by omega
    rw [List.take_append, List.take_of_length_le hge, handle_noAuth env hna methods hl h0]
    unfold requestPhase
    rw [readRequest_truncated cmd rsv d hd port _ (by rw [List.length_append] at hk; omega)]

/-! ### "exactly": the dial string determines the address and port that were asked for -/

/-- The host an IP destination denotes: an IPv4-mapped IPv6 address IS its IPv4 address
    (`net.IP.String` prints it in dotted form and every dialer treats the two alike). -/
def Dest.canon : Dest → Dest
  | .v6 b => if is4in6 b then .v4 (b.drop 12) else .v6 b
  | d => d

def Dest.isIP : Dest → Bool
  | .dom _ => false
  | _ => true

/-- **`render` is injective on IP destinations** (IPv4; IPv6 in RFC 5952 text with every zero-run
    shape; IPv4-mapped forms): two requests whose addresses are rendered to the same text denote
    the same host.  A domain is rendered as its raw bytes (`Dest.render (.dom s) = s`), so it is
    trivially injective among domains; a domain collides with an IP destination exactly when its
    bytes ARE that address's canonical text. -/
theorem C23_render_injective (d d' : Dest) (hd : d.wf) (hd' : d'.wf)
    (hi : d.isIP = true) (hi' : d'.isIP = true) (e : d.render = d'.render) : d.canon = d'.canon := by
  have v4v6 : ∀ (a b : Bytes), a.length = 4 → b.length = 16 → renderV4 a = renderV6 b →
      Dest.canon (.v4 a) = Dest.canon (.v6 b) := by
    intro a b ha hb e
    by_cases hm : is4in6 b = true
    · have e' : renderV4 a = renderV4 (b.drop 12) := by rw [e]; simp [renderV6, hm]
      have := renderV4_injective ha (by simp [hb]) e'
      simp [Dest.canon, hm, this]
    · have hm' : is4in6 b = false := by simpa using hm
      exact absurd (e ▸ renderV6_has_colon hm') (renderV4_sepFree_colon a)
  cases d with
  | dom _ => cases hi
  | v4 a =>
    cases d' with
    | dom _ => cases hi'
    | v4 a' => simp [Dest.canon, renderV4_injective hd hd' e]
    | v6 b' => exact v4v6 a b' hd hd' e
  | v6 b =>
    cases d' with
    | dom _ => cases hi'
    | v4 a' => exact (v4v6 a' b hd' hd e.symm).symm
    | v6 b' =>
      have hb : b.length = 16 := hd
      have hb' : b'.length = 16 := hd'
      by_cases hm : is4in6 b = true <;> by_cases hm' : is4in6 b' = true
      · have e' : renderV4 (b.drop 12) = renderV4 (b'.drop 12) := by
          simpa [Dest.render, renderV6, hm, hm'] using e
        have := renderV4_injective (by simp [hb]) (by simp [hb']) e'
        simp [Dest.canon, hm, hm', this]
      · have h2 : is4in6 b' = false := by simpa using hm'
        have e' : renderV4 (b.drop 12) = renderV6 b' := by simpa [Dest.render, renderV6, hm] using e
        exact absurd (e' ▸ renderV6_has_colon h2) (renderV4_sepFree_colon _)
      · have h1 : is4in6 b = false := by simpa using hm
        have e' : renderV6 b = renderV4 (b'.drop 12) := by simpa [Dest.render, renderV6, hm'] using e
        exact absurd (e' ▸ renderV6_has_colon h1) (renderV4_sepFree_colon _)
      · have h1 : is4in6 b = false := by simpa using hm
        have h2 : is4in6 b' = false := by simpa using hm'
        simp [Dest.canon, h1, h2, renderV6_injective hb hb' h1 h2 e]

/-- The dial string determines the rendered host AND the port: no two different (host text, port)
    pairs are dialled alike (`net.JoinHostPort` is injective, brackets included). -/
theorem C23_dial_string_injective (h h' : Bytes) (p p' : Nat)
    (e : joinHostPort h p = joinHostPort h' p') : h = h' ∧ p = p' :=
  joinHostPort_injective e

/-- What a dialer that parses the string with `net.SplitHostPort` (Agent.DialContext, net.Dial)
    gets back for an IP destination: exactly the rendered address and the port's decimal text. -/
theorem C23_dialer_parses_ip (d : Dest) (hi : d.isIP = true) (p : Nat) :
    splitHostPort (joinHostPort d.render p) = .ok d.render (decimal p) := by
  cases d with
  | dom _ => cases hi
  | v4 b => exact split_join _ (renderV4_bracketFree b) p
  | v6 b => exact split_join _ (renderV6_bracketFree b) p

/-- … and for a domain without square brackets (colons allowed): exactly the domain's bytes. -/
theorem C23_dialer_parses_domain (s : Bytes) (hb : bracketFree s) (p : Nat) :
    splitHostPort (joinHostPort s p) = .ok s (decimal p) := split_join s hb p

/-- Where the parse is NOT the identity (observation, no defect of the handler: the handler passes
    the requested bytes on verbatim): a colon-free domain of the shape `[x]` loses its brackets in
    `net.SplitHostPort`, e.g. the "domain" `[1.2.3.4]` port 80 is dialled as host `1.2.3.4`; other
    bracket-carrying names make `SplitHostPort` fail.  The same client could have asked for `x`. -/
example : splitHostPort (joinHostPort [0x5b, 0x31, 0x2e, 0x32, 0x2e, 0x33, 0x2e, 0x34, 0x5d] 80) =
    .ok [0x31, 0x2e, 0x32, 0x2e, 0x33, 0x2e, 0x34] [0x38, 0x30] := by decide
example : splitHostPort (joinHostPort [0x5b, 0x3a, 0x3a, 0x31, 0x5d] 80) = .err := by decide   -- "[::1]" as a domain
example : splitHostPort (joinHostPort [0x61, 0x5d, 0x3a, 0x31, 0x5b, 0x62] 80) = .err := by decide -- "a]:1[b"

/-! ### the hypotheses are satisfiable; concrete instances -/

def exampleEnv : Env := ⟨[], .ok [10, 0, 0, 7] 40000, false, .absent, .absent, [127, 0, 0, 1]⟩

example : noAuthHandler exampleEnv := rfl
example : exampleEnv.addrsOk := ⟨Or.inr (Or.inl rfl), Or.inr (Or.inl rfl)⟩

/-- CONNECT 2001:db8::1 port 443 → dial "[2001:db8::1]:443"; reply 10.0.0.7:40000. -/
example :
    let r := handle exampleEnv ([5, 1, 0] ++ [5, 1, 0, 4, 0x20, 0x01, 0x0d, 0xb8, 0, 0, 0, 0, 0, 0, 0, 0, 0, 0, 0, 1, 0x01, 0xbb])
    r.action = .dial [0x5b, 0x32, 0x30, 0x30, 0x31, 0x3a, 0x64, 0x62, 0x38, 0x3a, 0x3a, 0x31, 0x5d, 0x3a, 0x34, 0x34, 0x33] ∧
    r.replies = [[5, 0], [5, 0, 0, 1, 10, 0, 0, 7, 0x9c, 0x40]] := by decide

/-- The same stream cut one byte short: nothing happens. -/
example :
    (handle exampleEnv ([5, 1, 0] ++ [5, 1, 0, 4, 0x20, 0x01, 0x0d, 0xb8, 0, 0, 0, 0, 0, 0, 0, 0, 0, 0, 0, 1, 0x01])).action = .none := by
  decide

example : (Dest.dom [0x61, 0x2e, 0x62]).wf := by decide

end MM.C23
